(* Proofs about the tax totals part of the calculation model (Calc/Calc.v): rate groups, bases,
   group / category amounts, the signed tax sum, and prices-include-tax.  Property C02. *)
From Coq Require Import ZArith QArith Qabs Lia Lqa List Bool ZifyBool ZifyNat.
From Verif Require Import Base.Wire Base.Rha Base.RhaProofs Num.Amount Num.AmountProofs Calc.Doc Calc.Calc.
Import ListNotations.
Open Scope Z_scope.

(* ------------------------------------------------------------------------------------------ *)
(* byte strings, extension lists                                                              *)
(* ------------------------------------------------------------------------------------------ *)
Lemma byte_eqb_eq x y : Byte.eqb x y = true <-> x = y.
Proof.
  split.
  - apply Byte.byte_dec_bl.
  - apply Byte.byte_dec_lb.
Qed.

Lemma eqb_bytes_eq a b : eqb_bytes a b = true <-> a = b.
Proof.
  revert b. induction a as [|x a IH]; intros [|y b]; cbn [eqb_bytes].
  - tauto.
  - split; discriminate.
  - split; discriminate.
  - rewrite andb_true_iff, byte_eqb_eq, IH. split.
    + intros [-> ->]. reflexivity.
    + intros E. injection E as -> ->. tauto.
Qed.

Lemma eqb_bytes_refl a : eqb_bytes a a = true.
Proof. apply eqb_bytes_eq. reflexivity. Qed.

Lemma eqb_bytes_neq a b : eqb_bytes a b = false <-> a <> b.
Proof.
  rewrite <- eqb_bytes_eq. destruct (eqb_bytes a b); split; congruence.
Qed.

Lemma ext_eqb_eq a b : ext_eqb a b = true <-> a = b.
Proof.
  revert b. induction a as [|[k v] a IH]; intros [|[k2 v2] b]; cbn [ext_eqb].
  - tauto.
  - split; discriminate.
  - split; discriminate.
  - rewrite !andb_true_iff, !eqb_bytes_eq, IH. split.
    + intros [[-> ->] ->]. reflexivity.
    + intros E. injection E as -> -> ->. tauto.
Qed.

(* ------------------------------------------------------------------------------------------ *)
(* (a) what it means for a rate group to match a combo                                        *)
(* ------------------------------------------------------------------------------------------ *)
(* both absent, or both present with the same rational value *)
Definition opt_eqQ (a b : option amount) : Prop :=
  match a, b with
  | Some x, Some y => toQ x == toQ y
  | None, None => True
  | _, _ => False
  end.

(* same percentage and surcharge, or both exempt (an exempt row's surcharge is not looked at) *)
Definition same_rate (p s q s2 : option amount) : Prop :=
  match p, q with
  | None, None => True
  | Some x, Some y => toQ x == toQ y /\ opt_eqQ s s2
  | _, _ => False
  end.

Lemma rt_matches_spec rt cb :
  rt_matches rt cb = true <->
  rt_ext rt = cb_ext cb /\ rt_country rt = cb_country cb /\
  same_rate (rt_pct rt) (rt_sur rt) (cb_pct cb) (cb_sur cb).
Proof.
  unfold rt_matches, same_rate, opt_eqQ.
  destruct (ext_eqb (rt_ext rt) (cb_ext cb)) eqn:E1; cbn [negb].
  2:{ split; [discriminate|]. intros [H _]. apply ext_eqb_eq in H. congruence. }
  apply ext_eqb_eq in E1.
  destruct (eqb_bytes (rt_country rt) (cb_country cb)) eqn:E2; cbn [negb].
  2:{ split; [discriminate|]. intros (_ & H & _). apply eqb_bytes_eq in H. congruence. }
  apply eqb_bytes_eq in E2.
  destruct (rt_pct rt) as [p|], (cb_pct cb) as [q|]; try (split; [discriminate|tauto]).
  - destruct (rt_sur rt) as [s|], (cb_sur cb) as [s2|]; try (split; [discriminate|tauto]).
    + destruct (equals s s2) eqn:E3.
      * apply equals_iff in E3. rewrite equals_iff. tauto.
      * split; [discriminate|]. intros (_ & _ & _ & H). apply equals_iff in H. congruence.
    + rewrite equals_iff. tauto.
  - tauto.
Qed.

Lemma rt_matches_new c cb : rt_matches (new_rt c cb) cb = true.
Proof.
  apply rt_matches_spec. unfold new_rt, same_rate, opt_eqQ. cbn [rt_ext rt_country rt_pct rt_sur].
  repeat split.
  destruct (cb_pct cb); [|exact I]. split; [reflexivity|]. destruct (cb_sur cb); [reflexivity|exact I].
Qed.

Lemma rt_matches_add_base cr tot rt cb : rt_matches (rt_add_base cr tot rt) cb = rt_matches rt cb.
Proof. reflexivity. Qed.

(* the combo a group stands for *)
Definition rt_combo (cat : bytes) (g : rate_total) : combo :=
  mkCombo cat (rt_country g) (rt_ext g) (rt_pct g) (rt_sur g) false (rt_key g).

(* two groups that match the same combo stand for the same rate *)
Lemma rt_matches_join g h cb cat :
  rt_matches g cb = true -> rt_matches h cb = true -> rt_matches g (rt_combo cat h) = true.
Proof.
  rewrite !rt_matches_spec. unfold rt_combo. cbn [cb_ext cb_country cb_pct cb_sur].
  intros (E1 & C1 & R1) (E2 & C2 & R2). repeat split; try congruence.
  unfold same_rate, opt_eqQ in *.
  destruct (rt_pct g), (rt_pct h), (cb_pct cb); try tauto.
  destruct R1 as [P1 S1], R2 as [P2 S2]. split.
  - rewrite P1, P2. reflexivity.
  - destruct (rt_sur g), (rt_sur h), (cb_sur cb); try tauto. rewrite S1, S2. reflexivity.
Qed.

(* matching only looks at country, extensions, percentage and surcharge *)
Lemma rt_matches_ext g cb cb' :
  cb_ext cb = cb_ext cb' -> cb_country cb = cb_country cb' -> cb_pct cb = cb_pct cb' -> cb_sur cb = cb_sur cb' ->
  rt_matches g cb = rt_matches g cb'.
Proof. intros E1 E2 E3 E4. unfold rt_matches. rewrite E1, E2, E3, E4. reflexivity. Qed.

(* ------------------------------------------------------------------------------------------ *)
(* accumulators                                                                               *)
(* ------------------------------------------------------------------------------------------ *)
Lemma toQ_zero c : toQ (zero_of c) == 0.
Proof. unfold toQ, zero_of, Qeq. cbn [val exp Qnum Qden]. reflexivity. Qed.

Lemma rescale_up_exp a e : exp (rescale_up a e) = Nat.max (exp a) e.
Proof.
  unfold rescale_up. destruct (Nat.ltb (exp a) e) eqn:E.
  - rewrite rescale_exp. apply Nat.ltb_lt in E. lia.
  - apply Nat.ltb_ge in E. lia.
Qed.

Lemma rescale_up_toQ a e : toQ (rescale_up a e) == toQ a.
Proof.
  unfold rescale_up. destruct (Nat.ltb (exp a) e) eqn:E; [|reflexivity].
  apply rescale_lossless. apply Nat.ltb_lt in E. lia.
Qed.

(* the accumulator idiom of the Go code never loses anything *)
Lemma acc_toQ s x : toQ (acc s x) == toQ s + toQ x.
Proof.
  unfold acc, match_precision. rewrite add_no_loss.
  - rewrite rescale_up_toQ. reflexivity.
  - rewrite rescale_up_exp. lia.
Qed.

Lemma acc_exp s x : exp (acc s x) = Nat.max (exp s) (exp x).
Proof. unfold acc, match_precision. rewrite add_exp. apply rescale_up_exp. Qed.

(* what a row contributes under a rounding rule: itself ('precise'), or itself rounded to the
   currency's decimals ('currency') *)
Definition contrib (cr : bool) (c : nat) (x : amount) : amount := if cr then rescale x c else x.

Lemma acc_rr_false s x : acc_rr false s x = acc s x.
Proof. reflexivity. Qed.

Lemma acc_rr_true_val s x : val (acc_rr true s x) = val s + val (rescale x (exp s)).
Proof. reflexivity. Qed.

Lemma acc_rr_true_exp s x : exp (acc_rr true s x) = exp s.
Proof. reflexivity. Qed.

Lemma acc_rr_toQ cr c s x : (cr = true -> exp s = c) ->
  toQ (acc_rr cr s x) == toQ s + toQ (contrib cr c x).
Proof.
  intros H. destruct cr.
  - specialize (H eq_refl). unfold acc_rr, match_rr, contrib, add, toQ. subst c.
    cbn [val exp]. rewrite rescale_exp. unfold Qeq, Qplus. cbn [Qnum Qden].
    rewrite Pos2Z.inj_mul, !pos_pow10. ring.
  - apply acc_toQ.
Qed.

Lemma acc_rr_exp_true cr c s x : (cr = true -> exp s = c) -> cr = true -> exp (acc_rr cr s x) = c.
Proof. intros H E. subst cr. rewrite acc_rr_true_exp. auto. Qed.

(* ------------------------------------------------------------------------------------------ *)
(* (b), (c) every row is added to exactly one group of exactly one category                   *)
(* ------------------------------------------------------------------------------------------ *)
Lemma add_to_rates_effect cr c tot cb rts :
  exists l1 g l2,
    (rts = l1 ++ g :: l2 \/ (rts = l1 /\ l2 = [] /\ g = new_rt c cb)) /\
    Forall (fun x => rt_matches x cb = false) l1 /\
    rt_matches g cb = true /\
    add_to_rates cr c tot cb rts = l1 ++ rt_add_base cr tot g :: l2.
Proof.
  induction rts as [|rt r IH]; cbn [add_to_rates].
  - exists [], (new_rt c cb), []. repeat split; auto using rt_matches_new.
  - destruct (rt_matches rt cb) eqn:E.
    + exists [], rt, r. repeat split; auto.
    + destruct IH as (l1 & g & l2 & Hs & Hn & Hm & Hr).
      exists (rt :: l1), g, l2. repeat split; auto.
      * destruct Hs as [-> | (-> & -> & ->)]; [left|right]; auto.
      * rewrite Hr. reflexivity.
Qed.

Lemma add_to_cats_effect cr c tot cb cts :
  exists l1 ct l2,
    (cts = l1 ++ ct :: l2 \/ (cts = l1 /\ l2 = [] /\ ct = new_ct c cb)) /\
    Forall (fun x => ct_code x <> cb_cat cb) l1 /\
    ct_code ct = cb_cat cb /\
    add_to_cats cr c tot cb cts =
      l1 ++ ct_with_rates ct (add_to_rates cr c tot cb (ct_rates ct)) :: l2.
Proof.
  induction cts as [|ct r IH]; cbn [add_to_cats].
  - exists [], (new_ct c cb), []. repeat split; auto.
  - destruct (eqb_bytes (ct_code ct) (cb_cat cb)) eqn:E.
    + apply eqb_bytes_eq in E. exists [], ct, r. repeat split; auto.
    + apply eqb_bytes_neq in E. destruct IH as (l1 & g & l2 & Hs & Hn & Hm & Hr).
      exists (ct :: l1), g, l2. repeat split; auto.
      * destruct Hs as [-> | (-> & -> & ->)]; [left|right]; auto.
      * rewrite Hr. reflexivity.
Qed.

(* the base of the one group grows by the row's contribution *)
Lemma rt_add_base_toQ cr c tot g : (cr = true -> exp (rt_base g) = c) ->
  toQ (rt_base (rt_add_base cr tot g)) == toQ (rt_base g) + toQ (contrib cr c tot).
Proof. intros H. unfold rt_add_base. cbn [rt_base]. apply acc_rr_toQ, H. Qed.

(* ---- distinctness of groups ---- *)
Definition same_group (g h : rate_total) : bool := rt_matches g (rt_combo [] h).

Fixpoint distinct_groups (rts : list rate_total) : Prop :=
  match rts with
  | [] => True
  | g :: r => Forall (fun h => same_group g h = false) r /\ distinct_groups r
  end.

Definition cats_wf (cts : list cat_total) : Prop :=
  NoDup (map ct_code cts) /\ Forall (fun ct => distinct_groups (ct_rates ct)) cts.

Lemma same_group_add_base_l cr tot g h : same_group (rt_add_base cr tot g) h = same_group g h.
Proof. reflexivity. Qed.
Lemma same_group_add_base_r cr tot g h : same_group g (rt_add_base cr tot h) = same_group g h.
Proof. reflexivity. Qed.

Lemma same_group_new g c cb : same_group g (new_rt c cb) = rt_matches g cb.
Proof. unfold same_group. apply rt_matches_ext; reflexivity. Qed.

Lemma distinct_groups_app l1 g l2 :
  distinct_groups (l1 ++ g :: l2) <->
  distinct_groups l1 /\ distinct_groups l2 /\
  Forall (fun x => same_group x g = false) l1 /\ Forall (fun h => same_group g h = false) l2 /\
  Forall (fun x => Forall (fun h => same_group x h = false) l2) l1.
Proof.
  induction l1 as [|x l1 IH]; cbn [app distinct_groups].
  - split.
    + intros [A B]. repeat split; auto.
    + intros (_ & A & _ & B & _). auto.
  - rewrite IH, Forall_app. split.
    + intros [[A B] (C & D & E & F & G)]. inversion B; subst. repeat split; auto.
    + intros ([A B] & C & D & E & F). inversion D; subst. inversion F; subst. repeat split; auto.
Qed.

Lemma add_to_rates_distinct cr c tot cb rts :
  distinct_groups rts -> distinct_groups (add_to_rates cr c tot cb rts).
Proof.
  intros D. destruct (add_to_rates_effect cr c tot cb rts) as (l1 & g & l2 & Hs & Hn & Hm & Hr).
  rewrite Hr. destruct Hs as [-> | (-> & -> & ->)].
  - apply distinct_groups_app in D. apply distinct_groups_app. exact D.
  - apply distinct_groups_app. split; [exact D|]. split; [exact I|]. split; [|split].
    + eapply Forall_impl; [|exact Hn]. intros x Hx. cbn beta in *.
      rewrite same_group_add_base_r, same_group_new. exact Hx.
    + constructor.
    + apply Forall_forall. intros; constructor.
Qed.

Lemma NoDup_snoc {A} (l : list A) a : NoDup l -> ~ In a l -> NoDup (l ++ [a]).
Proof.
  intros N I. apply (NoDup_Add (a := a) (l := l)).
  - pose proof (Add_app a l []) as H. rewrite app_nil_r in H. exact H.
  - split; assumption.
Qed.

Lemma add_to_cats_wf cr c tot cb cts : cats_wf cts -> cats_wf (add_to_cats cr c tot cb cts).
Proof.
  intros [N D]. destruct (add_to_cats_effect cr c tot cb cts) as (l1 & ct & l2 & Hs & Hn & Hm & Hr).
  rewrite Hr. unfold cats_wf. destruct Hs as [-> | (-> & -> & ->)].
  - split.
    + rewrite map_app in *. exact N.
    + rewrite Forall_app in *. destruct D as [D1 D2]. inversion D2; subst. split; auto.
      constructor; auto. cbn [ct_with_rates ct_rates]. apply add_to_rates_distinct. assumption.
  - split.
    + rewrite map_app. cbn [map ct_with_rates new_ct ct_code].
      apply NoDup_snoc; [exact N|]. intros I. apply in_map_iff in I. destruct I as (x & Ex & Ix).
      rewrite Forall_forall in Hn. apply (Hn x Ix). exact Ex.
    + rewrite Forall_app. split; [exact D|]. constructor; [|constructor].
      cbn [ct_with_rates ct_rates new_ct]. apply add_to_rates_distinct. exact I.
Qed.

Lemma add_tl_wf cr c cts tl : cats_wf cts -> cats_wf (add_tl cr c cts tl).
Proof.
  unfold add_tl. generalize (tl_total tl) as tot. intros tot.
  revert cts. induction (tl_taxes tl) as [|cb r IH]; intros cts W; cbn [fold_left]; auto.
  apply IH, add_to_cats_wf, W.
Qed.

Lemma groups_pairwise_distinct cr c tls : cats_wf (base_totals cr c tls).
Proof.
  unfold base_totals.
  assert (G : forall cts, cats_wf cts -> cats_wf (fold_left (add_tl cr c) tls cts)).
  { induction tls as [|tl r IH]; intros cts W; cbn [fold_left]; auto. apply IH, add_tl_wf, W. }
  apply G. split; constructor.
Qed.

(* consequence: in a list of distinct groups at most one group matches any given combo *)
Lemma same_group_sym g h : same_group g h = same_group h g.
Proof.
  assert (K : forall a b, same_group a b = true -> same_group b a = true).
  { intros a b. unfold same_group. rewrite !rt_matches_spec. unfold rt_combo.
    cbn [cb_ext cb_country cb_pct cb_sur]. intros (A & B & C). repeat split; auto.
    unfold same_rate, opt_eqQ in *. destruct (rt_pct a), (rt_pct b); try tauto.
    destruct C as [C1 C2]. split; [symmetry; exact C1|].
    destruct (rt_sur a), (rt_sur b); try tauto. symmetry; exact C2. }
  destruct (same_group g h) eqn:E1, (same_group h g) eqn:E2; auto.
  - apply K in E1. congruence.
  - apply K in E2. congruence.
Qed.

Lemma at_most_one_group_matches l1 g l2 cb :
  distinct_groups (l1 ++ g :: l2) -> rt_matches g cb = true ->
  forall h, In h (l1 ++ l2) -> rt_matches h cb = false.
Proof.
  intros D M h I. apply distinct_groups_app in D. destruct D as (_ & _ & A & B & _).
  destruct (rt_matches h cb) eqn:E; [|reflexivity]. exfalso.
  apply in_app_or in I. destruct I as [I|I].
  - rewrite Forall_forall in A. specialize (A h I). unfold same_group in A.
    rewrite (rt_matches_join h g cb []) in A by assumption. discriminate.
  - rewrite Forall_forall in B. specialize (B h I). unfold same_group in B.
    rewrite (rt_matches_join g h cb []) in B by assumption. discriminate.
Qed.

(* ------------------------------------------------------------------------------------------ *)
(* (c) the bases of a category partition the rows carrying that category                      *)
(* ------------------------------------------------------------------------------------------ *)
Open Scope Q_scope.

Definition sumQ_groups (rts : list rate_total) : Q :=
  fold_right (fun g s => toQ (rt_base g) + s) 0 rts.

(* sum of the bases of all groups of the category with the given code *)
Fixpoint sumQ_bases (cat : bytes) (cts : list cat_total) : Q :=
  match cts with
  | [] => 0
  | ct :: r => (if eqb_bytes (ct_code ct) cat then sumQ_groups (ct_rates ct) else 0) + sumQ_bases cat r
  end.

(* what one row gives to a category: its (tax-exclusive) total once per combo of that category *)
Definition row_share (cr : bool) (c : nat) (cat : bytes) (tot : amount) (cbs : list combo) : Q :=
  fold_right (fun cb s => (if eqb_bytes (cb_cat cb) cat then toQ (contrib cr c tot) else 0) + s) 0 cbs.

Definition sumQ_rows (cr : bool) (c : nat) (cat : bytes) (tls : list tax_line) : Q :=
  fold_right (fun tl s => row_share cr c cat (tl_total tl) (tl_taxes tl) + s) 0 tls.

(* under the currency rule every base stays at the currency's decimals *)
Definition exp_ok (cr : bool) (c : nat) (g : rate_total) : Prop := cr = true -> exp (rt_base g) = c.
Definition cats_exp_ok cr c (cts : list cat_total) : Prop :=
  Forall (fun ct => Forall (exp_ok cr c) (ct_rates ct)) cts.

Lemma exp_ok_add_base cr c tot g : exp_ok cr c g -> exp_ok cr c (rt_add_base cr tot g).
Proof. intros H E. unfold rt_add_base. cbn [rt_base]. apply (acc_rr_exp_true cr c); auto. Qed.

Lemma exp_ok_new cr c cb : exp_ok cr c (new_rt c cb).
Proof. intros _. reflexivity. Qed.

Lemma add_to_rates_exp_ok cr c tot cb rts :
  Forall (exp_ok cr c) rts -> Forall (exp_ok cr c) (add_to_rates cr c tot cb rts).
Proof.
  induction rts as [|rt r IH]; intros F; cbn [add_to_rates].
  - constructor; [|constructor]. apply exp_ok_add_base, exp_ok_new.
  - inversion F; subst. destruct (rt_matches rt cb); constructor; auto using exp_ok_add_base.
Qed.

Lemma add_to_rates_sum cr c tot cb rts :
  Forall (exp_ok cr c) rts ->
  sumQ_groups (add_to_rates cr c tot cb rts) == sumQ_groups rts + toQ (contrib cr c tot).
Proof.
  induction rts as [|rt r IH]; intros F; cbn [add_to_rates].
  - unfold sumQ_groups. cbn [fold_right].
    rewrite (rt_add_base_toQ cr c) by apply exp_ok_new.
    unfold new_rt. cbn [rt_base]. rewrite toQ_zero. ring.
  - inversion F; subst. destruct (rt_matches rt cb).
    + unfold sumQ_groups. cbn [fold_right]. rewrite (rt_add_base_toQ cr c) by assumption. ring.
    + unfold sumQ_groups in *. cbn [fold_right]. rewrite IH by assumption. ring.
Qed.

Lemma add_to_cats_exp_ok cr c tot cb cts :
  cats_exp_ok cr c cts -> cats_exp_ok cr c (add_to_cats cr c tot cb cts).
Proof.
  unfold cats_exp_ok. induction cts as [|ct r IH]; intros F; cbn [add_to_cats].
  - constructor; [|constructor]. cbn [ct_with_rates ct_rates]. apply add_to_rates_exp_ok. constructor.
  - inversion F; subst. destruct (eqb_bytes (ct_code ct) (cb_cat cb)); constructor; auto.
    cbn [ct_with_rates ct_rates]. apply add_to_rates_exp_ok. assumption.
Qed.

(* one (total, combo) pair: the category of the combo grows by the contribution, every other
   category keeps its sum *)
Lemma add_to_cats_sum cr c tot cb cts cat :
  cats_exp_ok cr c cts ->
  sumQ_bases cat (add_to_cats cr c tot cb cts) ==
  sumQ_bases cat cts + (if eqb_bytes (cb_cat cb) cat then toQ (contrib cr c tot) else 0).
Proof.
  unfold cats_exp_ok. induction cts as [|ct r IH]; intros F; cbn [add_to_cats].
  - cbn [sumQ_bases ct_with_rates new_ct ct_code ct_rates].
    destruct (eqb_bytes (cb_cat cb) cat).
    + rewrite add_to_rates_sum by constructor. unfold sumQ_groups. cbn [fold_right]. ring.
    + ring.
  - inversion F; subst. destruct (eqb_bytes (ct_code ct) (cb_cat cb)) eqn:E.
    + apply eqb_bytes_eq in E. cbn [sumQ_bases ct_with_rates ct_code ct_rates]. rewrite E.
      destruct (eqb_bytes (cb_cat cb) cat).
      * rewrite add_to_rates_sum by assumption. ring.
      * ring.
    + cbn [sumQ_bases]. rewrite IH by assumption. ring.
Qed.

Lemma add_tl_exp_ok cr c cts tl : cats_exp_ok cr c cts -> cats_exp_ok cr c (add_tl cr c cts tl).
Proof.
  unfold add_tl. generalize (tl_total tl) as tot. intros tot.
  revert cts. induction (tl_taxes tl) as [|cb r IH]; intros cts W; cbn [fold_left]; auto.
  apply IH, add_to_cats_exp_ok, W.
Qed.

Lemma add_tl_sum cr c cts tl cat :
  cats_exp_ok cr c cts ->
  sumQ_bases cat (add_tl cr c cts tl) == sumQ_bases cat cts + row_share cr c cat (tl_total tl) (tl_taxes tl).
Proof.
  unfold add_tl. generalize (tl_total tl) as tot. intros tot.
  revert cts. induction (tl_taxes tl) as [|cb r IH]; intros cts W; cbn [fold_left row_share fold_right].
  - ring.
  - rewrite IH by (apply add_to_cats_exp_ok, W). rewrite add_to_cats_sum by exact W.
    fold (row_share cr c cat tot r). ring.
Qed.

Lemma base_totals_exp_ok cr c tls : cats_exp_ok cr c (base_totals cr c tls).
Proof.
  unfold base_totals.
  assert (G : forall cts, cats_exp_ok cr c cts -> cats_exp_ok cr c (fold_left (add_tl cr c) tls cts)).
  { induction tls as [|tl r IH]; intros cts W; cbn [fold_left]; auto. apply IH, add_tl_exp_ok, W. }
  apply G. constructor.
Qed.

Lemma tax_partition_rule cr c tls cat :
  sumQ_bases cat (base_totals cr c tls) == sumQ_rows cr c cat tls.
Proof.
  unfold base_totals.
  assert (G : forall cts, cats_exp_ok cr c cts ->
            sumQ_bases cat (fold_left (add_tl cr c) tls cts) == sumQ_bases cat cts + sumQ_rows cr c cat tls).
  { induction tls as [|tl r IH]; intros cts W; cbn [fold_left sumQ_rows fold_right].
    - ring.
    - rewrite IH by (apply add_tl_exp_ok, W). rewrite add_tl_sum by exact W.
      fold (sumQ_rows cr c cat r). ring. }
  rewrite G by constructor. cbn [sumQ_bases]. ring.
Qed.

(* 'precise': the rows themselves, nothing rounded *)
Lemma tax_partition c tls cat :
  sumQ_bases cat (base_totals false c tls) == sumQ_rows false c cat tls.
Proof. apply tax_partition_rule. Qed.

(* ------------------------------------------------------------------------------------------ *)
(* (d) group amounts and category amounts                                                     *)
(* ------------------------------------------------------------------------------------------ *)
(* an exempt group has amount zero; any other group's amount is its percentage of its base,
   rounded half away from zero at the base's precision; likewise its surcharge amount *)
Definition group_amounts_ok (c : nat) (g : rate_total) : Prop :=
  match rt_pct g with
  | None => rt_amount g = zero_of c
  | Some p =>
    rt_amount g = pct_of p (rt_base g) /\
    val (rt_amount g) = roundQ (exp (rt_base g)) (toQ (rt_base g) * toQ p) /\
    exp (rt_amount g) = exp (rt_base g) /\
    match rt_sur g with
    | None => True
    | Some s =>
      rt_suramount g = pct_of s (rt_base g) /\
      val (rt_suramount g) = roundQ (exp (rt_base g)) (toQ (rt_base g) * toQ s) /\
      exp (rt_suramount g) = exp (rt_base g)
    end
  end.

Lemma rt_calc_ok c g : group_amounts_ok c (rt_calc c g).
Proof.
  unfold group_amounts_ok, rt_calc. destruct (rt_pct g) as [p|] eqn:Ep; cbn [rt_pct rt_amount rt_base rt_sur rt_suramount].
  - rewrite ?Ep. repeat split.
    + apply pct_of_val.
    + destruct (rt_sur g) as [s|]; [|exact I]. repeat split. apply pct_of_val.
  - rewrite ?Ep. reflexivity.
Qed.

Lemma rt_calc_base c g : rt_base (rt_calc c g) = rt_base g.
Proof. unfold rt_calc. destruct (rt_pct g); reflexivity. Qed.
Lemma rt_calc_pct c g : rt_pct (rt_calc c g) = rt_pct g.
Proof. unfold rt_calc. destruct (rt_pct g); reflexivity. Qed.
Lemma rt_calc_sur c g : rt_sur (rt_calc c g) = rt_sur g.
Proof. unfold rt_calc. destruct (rt_pct g); reflexivity. Qed.
Lemma rt_calc_matches c g cb : rt_matches (rt_calc c g) cb = rt_matches g cb.
Proof. unfold rt_calc. destruct (rt_pct g) eqn:E; unfold rt_matches; cbn [rt_ext rt_country rt_pct rt_sur]; rewrite ?E; reflexivity. Qed.

Lemma group_amount_is_percentage_of_base cr c ct :
  Forall (group_amounts_ok c) (ct_rates (ct_calc cr c ct)) /\
  map rt_base (ct_rates (ct_calc cr c ct)) = map rt_base (ct_rates ct) /\
  ct_code (ct_calc cr c ct) = ct_code ct /\ ct_retained (ct_calc cr c ct) = ct_retained ct.
Proof.
  unfold ct_calc. cbn [ct_rates ct_code ct_retained]. repeat split.
  - apply Forall_forall. intros g I. apply in_map_iff in I. destruct I as (g0 & <- & _). apply rt_calc_ok.
  - rewrite map_map. apply map_ext. intros g. apply rt_calc_base.
Qed.

Definition taxed_amount (cr : bool) (c : nat) (g : rate_total) : Q :=
  match rt_pct g with Some _ => toQ (contrib cr c (rt_amount g)) | None => 0 end.
Definition taxed_surcharge (cr : bool) (c : nat) (g : rate_total) : Q :=
  match rt_pct g, rt_sur g with Some _, Some _ => toQ (contrib cr c (rt_suramount g)) | _, _ => 0 end.
Definition sumQ_amounts cr c (rts : list rate_total) : Q := fold_right (fun g s => taxed_amount cr c g + s) 0 rts.
Definition sumQ_surcharges cr c (rts : list rate_total) : Q := fold_right (fun g s => taxed_surcharge cr c g + s) 0 rts.
Definition optQ (o : option amount) : Q := match o with Some a => toQ a | None => 0 end.
Definition carries_surcharge (g : rate_total) : bool :=
  match rt_pct g, rt_sur g with Some _, Some _ => true | _, _ => false end.

(* precision bookkeeping of the (amount, surcharge) accumulator *)
Definition st_ok (cr : bool) (c : nat) (st : amount * option amount) : Prop :=
  (cr = true -> exp (fst st) = c) /\ (c <= exp (fst st))%nat /\
  match snd st with
  | Some s => (cr = true -> exp s = c) /\ (exp s <= exp (fst st))%nat
  | None => True
  end.
Definition sur_exp_ok (g : rate_total) : Prop :=
  match rt_pct g, rt_sur g with Some _, Some _ => exp (rt_suramount g) = exp (rt_amount g) | _, _ => True end.

Lemma acc_rr_exp_false s x : exp (acc_rr false s x) = Nat.max (exp s) (exp x).
Proof. apply acc_exp. Qed.

Lemma ct_step_spec cr c st g : st_ok cr c st -> sur_exp_ok g ->
  let r := ct_step cr c st g in
  st_ok cr c r /\
  toQ (fst r) == toQ (fst st) + taxed_amount cr c g /\
  optQ (snd r) == optQ (snd st) + taxed_surcharge cr c g /\
  (snd r = None <-> snd st = None /\ carries_surcharge g = false).
Proof.
  intros (A & B & C) S. unfold ct_step, taxed_amount, taxed_surcharge, carries_surcharge, sur_exp_ok in *.
  destruct (rt_pct g) as [p|].
  2:{ cbv zeta. split; [exact (conj A (conj B C))|]. split; [ring|]. split; [ring|]. tauto. }
  assert (EA : forall x, (c <= exp (acc_rr cr (fst st) x))%nat /\ (cr = true -> exp (acc_rr cr (fst st) x) = c)).
  { intros x. destruct cr.
    - rewrite acc_rr_true_exp. split; auto.
    - rewrite acc_rr_exp_false. split; [lia|discriminate]. }
  destruct (rt_sur g) as [s|]; cbv zeta; cbn [fst snd].
  - set (x := match snd st with Some s0 => s0 | None => zero_of c end).
    assert (X : (cr = true -> exp x = c) /\ (exp x <= exp (fst st))%nat /\ toQ x == optQ (snd st)).
    { unfold x. destruct (snd st) as [s0|]; cbn [optQ].
      - destruct C. repeat split; auto; reflexivity.
      - repeat split; auto; apply toQ_zero. }
    destruct X as (X1 & X2 & X3).
    split; [|split; [|split]].
    + unfold st_ok. cbn [fst snd]. destruct (EA (rt_amount g)) as [E1 E2]. repeat split; auto.
      * intros E. apply (acc_rr_exp_true cr c); auto.
      * destruct cr.
        -- rewrite !acc_rr_true_exp. rewrite X1, A by reflexivity. lia.
        -- rewrite !acc_rr_exp_false. lia.
    + apply acc_rr_toQ, A.
    + cbn [optQ]. rewrite (acc_rr_toQ cr c) by exact X1. rewrite X3. reflexivity.
    + split; [discriminate|]. intros [_ H]. discriminate.
  - split; [|split; [|split]].
    + unfold st_ok. cbn [fst snd]. destruct (EA (rt_amount g)) as [E1 E2]. repeat split; auto.
      destruct (snd st) as [s0|]; [|exact I]. destruct C as [C1 C2]. split; auto.
      destruct cr.
      * rewrite acc_rr_true_exp. exact C2.
      * rewrite acc_rr_exp_false. lia.
    + apply acc_rr_toQ, A.
    + ring.
    + tauto.
Qed.

Lemma ct_fold_spec cr c rts : Forall sur_exp_ok rts -> forall st, st_ok cr c st ->
  let r := fold_left (ct_step cr c) rts st in
  st_ok cr c r /\
  toQ (fst r) == toQ (fst st) + sumQ_amounts cr c rts /\
  optQ (snd r) == optQ (snd st) + sumQ_surcharges cr c rts /\
  (snd r = None <-> snd st = None /\ existsb carries_surcharge rts = false).
Proof.
  induction rts as [|g r IH]; intros F st K; cbn [fold_left sumQ_amounts sumQ_surcharges fold_right existsb].
  - cbv zeta. split; [exact K|]. split; [ring|]. split; [ring|]. tauto.
  - inversion F; subst.
    destruct (ct_step_spec cr c st g K) as (K' & E1 & E2 & E3); [assumption|].
    destruct (IH H2 _ K') as (K'' & F1 & F2 & F3). cbv zeta.
    split; [exact K''|]. split; [|split].
    + rewrite F1, E1. fold (sumQ_amounts cr c r). ring.
    + rewrite F2, E2. fold (sumQ_surcharges cr c r). ring.
    + rewrite F3, E3, orb_false_iff. tauto.
Qed.

Lemma rt_calc_sur_exp_ok c g : sur_exp_ok (rt_calc c g).
Proof.
  pose proof (rt_calc_ok c g) as H. unfold group_amounts_ok, sur_exp_ok in *.
  destruct (rt_pct (rt_calc c g)); [|exact I].
  destruct (rt_sur (rt_calc c g)); [|exact I].
  destruct H as (_ & _ & E1 & _ & _ & E2). congruence.
Qed.

Lemma st_ok_init cr c : st_ok cr c (zero_of c, None).
Proof. unfold st_ok. cbn [fst snd zero_of exp]. auto. Qed.

(* a category's amount is the sum of its non-exempt groups' amounts, its surcharge the sum of
   their surcharge amounts (absent when no taxed group carries a surcharge); under 'currency'
   each summand is first rounded to the currency's decimals (contrib true c x = rescale x c) *)
Lemma category_amount_is_sum_of_groups cr c ct :
  let ct' := ct_calc cr c ct in
  toQ (ct_amount ct') == sumQ_amounts cr c (ct_rates ct') /\
  optQ (ct_surcharge ct') == sumQ_surcharges cr c (ct_rates ct') /\
  (ct_surcharge ct' = None <-> existsb carries_surcharge (ct_rates ct') = false) /\
  ct_precise ct' = ct_amount ct'.
Proof.
  cbv zeta. unfold ct_calc. cbn [ct_amount ct_surcharge ct_rates ct_precise].
  assert (F : Forall sur_exp_ok (map (rt_calc c) (ct_rates ct))).
  { apply Forall_forall. intros g I. apply in_map_iff in I. destruct I as (g0 & <- & _). apply rt_calc_sur_exp_ok. }
  destruct (ct_fold_spec cr c _ F _ (st_ok_init cr c)) as (_ & A & B & C).
  cbn [fst snd optQ] in A, B, C. split; [|split; [|split]].
  - rewrite A, toQ_zero. ring.
  - rewrite B. ring.
  - rewrite C. tauto.
  - reflexivity.
Qed.

(* 'precise', written out: nothing is rounded when the groups are added up *)
Lemma category_amount_is_sum_of_groups_precise c ct :
  let ct' := ct_calc false c ct in
  toQ (ct_amount ct') ==
    fold_right (fun g s => match rt_pct g with Some _ => toQ (rt_amount g) | None => 0 end + s) 0 (ct_rates ct').
Proof. apply (category_amount_is_sum_of_groups false c ct). Qed.

(* 'currency', in integers: the category amount has the currency's decimals and is the integer
   sum of the group amounts rounded to them *)
Lemma category_amount_currency c ct :
  let ct' := ct_calc true c ct in
  exp (ct_amount ct') = c /\
  val (ct_amount ct') =
    fold_right (fun g s => match rt_pct g with Some _ => val (rescale (rt_amount g) c) | None => 0 end + s)%Z 0%Z
               (ct_rates ct').
Proof.
  cbv zeta. unfold ct_calc. cbn [ct_amount ct_rates].
  set (rts := map (rt_calc c) (ct_rates ct)). clearbody rts.
  set (f := fun g s => (match rt_pct g with Some _ => val (rescale (rt_amount g) c) | None => 0 end + s)%Z).
  assert (G : forall st, exp (fst st) = c ->
            exp (fst (fold_left (ct_step true c) rts st)) = c /\
            val (fst (fold_left (ct_step true c) rts st)) = (val (fst st) + fold_right f 0%Z rts)%Z).
  { induction rts as [|g r IH]; intros st E; cbn [fold_left fold_right].
    - split; [exact E|lia].
    - assert (K : exp (fst (ct_step true c st g)) = c /\
                  val (fst (ct_step true c st g)) =
                  (val (fst st) + match rt_pct g with Some _ => val (rescale (rt_amount g) c) | None => 0 end)%Z).
      { unfold ct_step. destruct (rt_pct g); [|split; [exact E|lia]].
        destruct (rt_sur g); cbn [fst]; rewrite acc_rr_true_exp, acc_rr_true_val, E; split; reflexivity. }
      destruct K as [K1 K2]. destruct (IH _ K1) as [I1 I2]. split; [exact I1|].
      rewrite I2, K2. unfold f at 2. lia. }
  destruct (G (zero_of c, None) eq_refl) as [G1 G2]. split; [exact G1|].
  rewrite G2. cbn [fst zero_of val]. lia.
Qed.

(* ------------------------------------------------------------------------------------------ *)
(* (e) the tax sum: ordinary categories added, retained ones subtracted, surcharges included  *)
(* ------------------------------------------------------------------------------------------ *)
Definition signedQ (ct : cat_total) : Q :=
  if ct_retained ct then - (toQ (ct_amount ct) + optQ (ct_surcharge ct))
  else toQ (ct_amount ct) + optQ (ct_surcharge ct).
Definition sumQ_signed (cts : list cat_total) : Q := fold_right (fun ct s => signedQ ct + s) 0 cts.

(* precision side condition met by every calculated category (ct_calc_exp_ok below): the
   surcharge is not more precise than the amount; under 'currency' both have c decimals *)
Definition cat_exp_ok (cr : bool) (c : nat) (ct : cat_total) : Prop :=
  (cr = true -> exp (ct_amount ct) = c) /\
  match ct_surcharge ct with Some x => (exp x <= exp (ct_amount ct))%nat | None => True end.

Lemma sub_no_loss a b : (exp b <= exp a)%nat -> toQ (sub a b) == toQ a - toQ b.
Proof.
  intros H. rewrite sub_add_negate, add_no_loss by exact H. rewrite negate_toQ. reflexivity.
Qed.

Lemma sum_step_spec cr c s ct : (cr = true -> exp s = c) -> cat_exp_ok cr c ct ->
  toQ (sum_step cr s ct) == toQ s + signedQ ct /\ (cr = true -> exp (sum_step cr s ct) = c).
Proof.
  intros Hs [Ha Hx]. unfold sum_step, signedQ.
  set (s1 := match_rr cr s (ct_amount ct)).
  assert (K : toQ s1 == toQ s /\ (exp (ct_amount ct) <= exp s1)%nat /\ (cr = true -> exp s1 = c)).
  { unfold s1, match_rr. destruct cr.
    - rewrite Hs, Ha by reflexivity. repeat split; auto; reflexivity.
    - unfold match_precision. rewrite rescale_up_exp. repeat split; try lia; try discriminate.
      apply rescale_up_toQ. }
  destruct K as (K1 & K2 & K3). clearbody s1.
  destruct (ct_retained ct); destruct (ct_surcharge ct) as [x|]; cbn [optQ].
  - split; [|intros E; cbn [sub exp]; auto].
    rewrite !sub_no_loss; [rewrite K1; ring| exact K2 | cbn [sub exp]; lia].
  - split; [|intros E; cbn [sub exp]; auto].
    rewrite sub_no_loss by exact K2. rewrite K1. ring.
  - split; [|intros E; cbn [add exp]; auto].
    rewrite !add_no_loss; [rewrite K1; ring| exact K2 | cbn [add exp]; lia].
  - split; [|intros E; cbn [add exp]; auto].
    rewrite add_no_loss by exact K2. rewrite K1. ring.
Qed.

Lemma tax_sum_signed_from cr c cts : Forall (cat_exp_ok cr c) cts -> forall s, (cr = true -> exp s = c) ->
  toQ (fold_left (sum_step cr) cts s) == toQ s + sumQ_signed cts.
Proof.
  induction cts as [|ct r IH]; intros F s Hs; cbn [fold_left sumQ_signed fold_right].
  - ring.
  - inversion F; subst. destruct (sum_step_spec cr c s ct Hs) as [E1 E2]; [assumption|].
    rewrite IH by assumption. rewrite E1. fold (sumQ_signed r). ring.
Qed.

Lemma ct_calc_exp_ok cr c ct : cat_exp_ok cr c (ct_calc cr c ct).
Proof.
  unfold ct_calc, cat_exp_ok. cbn [ct_amount ct_surcharge].
  assert (F : Forall sur_exp_ok (map (rt_calc c) (ct_rates ct))).
  { apply Forall_forall. intros g I. apply in_map_iff in I. destruct I as (g0 & <- & _). apply rt_calc_sur_exp_ok. }
  destruct (ct_fold_spec cr c _ F _ (st_ok_init cr c)) as ((A & B & C) & _).
  split; [exact A|]. destruct (snd _); [|exact I]. apply C.
Qed.

Lemma tax_sum_signed cr c cts :
  toQ (fold_left (sum_step cr) (map (ct_calc cr c) cts) (zero_of c)) == sumQ_signed (map (ct_calc cr c) cts).
Proof.
  rewrite (tax_sum_signed_from cr c).
  - rewrite toQ_zero. ring.
  - apply Forall_forall. intros x I. apply in_map_iff in I. destruct I as (x0 & <- & _). apply ct_calc_exp_ok.
  - reflexivity.
Qed.

(* ------------------------------------------------------------------------------------------ *)
(* how the above sits inside `calculate`                                                      *)
(* ------------------------------------------------------------------------------------------ *)
Definition doc_sum (d : doc) (lcs : list line_calc) : amount :=
  fold_left acc (map lc_total lcs) (zero_of (d_c d)).
Definition doc_ddc (d : doc) (lcs : list line_calc) (xs : list ddc) : list (ddc * amount) :=
  map (fun x => (x, ddc_amount (d_currency_rule d) (d_c d) (doc_sum d lcs) x)) xs.
(* the rows handed to the tax calculator: one per line (its total), one per document discount
   (its amount negated), one per document charge *)
Definition doc_rows (d : doc) (lcs : list line_calc) : list tax_line :=
  tax_lines lcs (d_lines d) (doc_ddc d lcs (d_discounts d)) (doc_ddc d lcs (d_charges d)).

Lemma calculate_tax_structure d t : calculate d = Totals t ->
  exists lcs rows,
    calc_lines (d_currency_rule d) (d_c d) (d_cur d) (d_rates d) (d_lines d) = Some lcs /\
    remove_included_all (d_pit d) (map (prepare_tl (d_c d)) (doc_rows d lcs)) = Some rows /\
    let cats := map (ct_calc (d_currency_rule d) (d_c d)) (base_totals (d_currency_rule d) (d_c d) rows) in
    t_cats t = map (ct_round (d_c d)) cats /\
    t_taxsum_precise t = fold_left (sum_step (d_currency_rule d)) cats (zero_of (d_c d)) /\
    t_taxsum t = rescale (t_taxsum_precise t) (d_c d).
Proof.
  unfold calculate. intros H.
  destruct (calc_lines _ _ _ _ _) as [lcs|] eqn:EL; [|discriminate].
  fold (doc_sum d lcs) in H. fold (doc_ddc d lcs (d_discounts d)) in H. fold (doc_ddc d lcs (d_charges d)) in H.
  fold (doc_rows d lcs) in H.
  destruct (doc_rows d lcs) as [|r0 rs] eqn:ER; [discriminate|].
  destruct (remove_included_all _ _) as [rows|] eqn:ERem; [|discriminate].
  exists lcs, rows. split; [reflexivity|]. split; [rewrite ER; exact ERem|].
  injection H as <-. cbn [t_cats t_taxsum_precise t_taxsum]. repeat split.
Qed.

(* preparing a row and taking an included tax out of it never changes its combos; the total is
   raised to two more decimals than the currency and, when the row carries the included
   category with a percentage p, divided by 1 + p at that precision *)
Lemma prepare_tl_spec c tl :
  tl_taxes (prepare_tl c tl) = tl_taxes tl /\ toQ (tl_total (prepare_tl c tl)) == toQ (tl_total tl) /\
  (tl_taxes tl <> [] -> exp (tl_total (prepare_tl c tl)) = Nat.max (exp (tl_total tl)) (c + tax_precision_extra)).
Proof.
  unfold prepare_tl. destruct (tl_taxes tl) eqn:E.
  - split; [exact E|]. split; [reflexivity|]. intros H. congruence.
  - cbn [tl_taxes tl_total]. split; [reflexivity|]. split; [apply rescale_up_toQ|]. intros _. apply rescale_up_exp.
Qed.

Lemma remove_included_spec pit tl tl' : remove_included pit tl = Some tl' ->
  tl_taxes tl' = tl_taxes tl /\
  match get_combo pit (tl_taxes tl) with
  | Some cb =>
    match pit, cb_pct cb with
    | _ :: _, Some p => cb_retained cb = false /\ tl_total tl' = remove (tl_total tl) p
    | _, _ => tl_total tl' = tl_total tl
    end
  | None => tl_total tl' = tl_total tl
  end.
Proof.
  unfold remove_included. destruct pit as [|b pit].
  - intros E. injection E as <-. split; [reflexivity|]. destruct (get_combo _ _); reflexivity.
  - destruct (get_combo (b :: pit) (tl_taxes tl)) as [cb|].
    + destruct (cb_retained cb); [discriminate|]. destruct (cb_pct cb).
      * intros E. injection E as <-. repeat split.
      * intros E. injection E as <-. repeat split.
    + intros E. injection E as <-. repeat split.
Qed.

Lemma included_tax_taken_out a p : (val (factor p) <> 0)%Z ->
  val (remove a p) = roundQ (exp a) (toQ a / (toQ p + 1)) /\ exp (remove a p) = exp a.
Proof. intros H. split; [apply remove_val, H|reflexivity]. Qed.

Lemma remove_included_all_taxes pit tls tls' : remove_included_all pit tls = Some tls' ->
  map tl_taxes tls' = map tl_taxes tls.
Proof.
  revert tls'. induction tls as [|tl r IH]; intros tls'; cbn [remove_included_all].
  - intros E. injection E as <-. reflexivity.
  - destruct (remove_included pit tl) as [x|] eqn:E1; [|discriminate].
    destruct (remove_included_all pit r) as [xs|]; [|discriminate].
    intros E. injection E as <-. cbn [map]. f_equal.
    + apply (remove_included_spec pit tl x E1).
    + apply IH. reflexivity.
Qed.

(* ------------------------------------------------------------------------------------------ *)
(* (f) prices include a tax and no other tax applies: total with tax = gross sum              *)
(* ------------------------------------------------------------------------------------------ *)
(* every combo is of the included category, not retained, without surcharge *)
Definition combo_inv (pit : bytes) (cb : combo) : Prop :=
  cb_cat cb = pit /\ cb_sur cb = None /\ cb_retained cb = false.
Definition only_included_tax (d : doc) : Prop :=
  d_pit d <> [] /\
  Forall (fun l => Forall (combo_inv (d_pit d)) (ln_taxes l)) (d_lines d) /\
  Forall (fun x => Forall (combo_inv (d_pit d)) (dd_taxes x)) (d_discounts d) /\
  Forall (fun x => Forall (combo_inv (d_pit d)) (dd_taxes x)) (d_charges d).

(* sum of the lines, less document discounts, plus document charges (working precision) *)
Definition doc_gross (d : doc) (lcs : list line_calc) : amount :=
  let sum := doc_sum d lcs in
  let total0 := match sum_opt (d_c d) (map snd (doc_ddc d lcs (d_discounts d))) with
                | Some x => sub sum x | None => sum end in
  match sum_opt (d_c d) (map snd (doc_ddc d lcs (d_charges d))) with
  | Some x => add total0 x | None => total0 end.

Definition cat_inv (pit : bytes) (ct : cat_total) : Prop :=
  ct_code ct = pit /\ ct_retained ct = false /\ Forall (fun g => rt_sur g = None) (ct_rates ct).

Lemma add_to_rates_nosur cr c tot cb rts : cb_sur cb = None ->
  Forall (fun g => rt_sur g = None) rts -> Forall (fun g => rt_sur g = None) (add_to_rates cr c tot cb rts).
Proof.
  intros Hc. induction rts as [|rt r IH]; intros F; cbn [add_to_rates].
  - constructor; [exact Hc|constructor].
  - inversion F; subst. destruct (rt_matches rt cb); constructor; auto.
Qed.

Lemma add_to_cats_inv cr c tot cb cts pit : combo_inv pit cb ->
  Forall (cat_inv pit) cts -> Forall (cat_inv pit) (add_to_cats cr c tot cb cts).
Proof.
  intros (C1 & C2 & C3). induction cts as [|ct r IH]; intros F; cbn [add_to_cats].
  - constructor; [|constructor]. unfold cat_inv. cbn [ct_with_rates new_ct ct_code ct_retained ct_rates].
    repeat split; auto. constructor; [exact C2|constructor].
  - inversion F as [|? ? (A1 & A2 & A3) F']; subst.
    destruct (eqb_bytes (ct_code ct) (cb_cat cb)).
    + constructor; [|exact F'].
      unfold cat_inv. cbn [ct_with_rates ct_code ct_retained ct_rates].
      split; [exact A1|]. split; [exact A2|]. apply add_to_rates_nosur; assumption.
    + constructor; [exact (conj A1 (conj A2 A3))|]. apply IH, F'.
Qed.

Lemma base_totals_inv cr c pit tls :
  Forall (Forall (combo_inv pit)) (map tl_taxes tls) -> Forall (cat_inv pit) (base_totals cr c tls).
Proof.
  unfold base_totals.
  assert (G : forall cts, Forall (Forall (combo_inv pit)) (map tl_taxes tls) -> Forall (cat_inv pit) cts ->
                          Forall (cat_inv pit) (fold_left (add_tl cr c) tls cts)).
  { induction tls as [|tl r IH]; intros cts F W; cbn [fold_left]; auto.
    cbn [map] in F. inversion F as [|? ? F1 F2]; subst. apply IH; [exact F2|].
    unfold add_tl. generalize (tl_total tl) as tot. intros tot. clear - F1 W.
    revert cts W. induction (tl_taxes tl) as [|cb l IHl]; intros cts W; cbn [fold_left]; auto.
    inversion F1; subst. apply IHl; [assumption|]. apply add_to_cats_inv; assumption. }
  intros F. apply G; [exact F|constructor].
Qed.

Lemma one_code_nodup {A} (a : A) (l : list A) :
  NoDup l -> (forall x, In x l -> x = a) -> (length l <= 1)%nat.
Proof.
  intros N H. destruct l as [|x [|y r]]; cbn [length]; try lia. exfalso.
  inversion N as [|? ? N1 _]; subst. apply N1.
  rewrite (H x), (H y) by (cbn; auto). left. reflexivity.
Qed.

Lemma val_rescale_zero c e : val (rescale (zero_of c) e) = 0%Z.
Proof. rewrite rescale_val, (roundQ_compat e _ 0 (toQ_zero c)). reflexivity. Qed.

Lemma add_zero a c : add a (zero_of c) = a.
Proof. unfold add. rewrite val_rescale_zero. destruct a as [v e]. cbn [val exp]. f_equal. lia. Qed.

Lemma add_sub_cancel a x y : toQ x == toQ y -> add (sub a x) y = a.
Proof.
  intros E. unfold add, sub. cbn [val exp]. rewrite !rescale_val, (roundQ_compat _ _ _ E).
  destruct a as [v e]. cbn [val exp]. f_equal. lia.
Qed.

Lemma toQ_val0 a : val a = 0%Z -> toQ a == 0.
Proof. intros E. unfold toQ, Qeq. cbn [Qnum Qden]. rewrite E. reflexivity. Qed.

Lemma precise_or_toQ p c : toQ (precise_or p (rescale p c)) == toQ p.
Proof.
  unfold precise_or, is_zero. destruct (val p =? 0)%Z eqn:E; [|reflexivity].
  apply Z.eqb_eq in E. pose proof (toQ_val0 p E) as Z0.
  rewrite Z0. apply toQ_val0. rewrite rescale_val, (roundQ_compat c _ 0 Z0). reflexivity.
Qed.

Lemma tax_lines_taxes lcs ls dd cc pit :
  Forall (fun l => Forall (combo_inv pit) (ln_taxes l)) ls ->
  Forall (fun x => Forall (combo_inv pit) (dd_taxes (fst x))) dd ->
  Forall (fun x => Forall (combo_inv pit) (dd_taxes (fst x))) cc ->
  Forall (Forall (combo_inv pit)) (map tl_taxes (tax_lines lcs ls dd cc)).
Proof.
  intros F1 F2 F3. unfold tax_lines. rewrite !map_app, !map_map. cbn [tl_taxes].
  rewrite !Forall_app. repeat split.
  - apply Forall_forall. intros x I. apply in_map_iff in I. destruct I as ([lc l] & <- & I).
    apply in_combine_r in I. rewrite Forall_forall in F1. apply (F1 l I).
  - apply Forall_forall. intros x I. apply in_map_iff in I. destruct I as (y & <- & I).
    rewrite Forall_forall in F2. apply (F2 y I).
  - apply Forall_forall. intros x I. apply in_map_iff in I. destruct I as (y & <- & I).
    rewrite Forall_forall in F3. apply (F3 y I).
Qed.

Lemma doc_ddc_taxes d lcs xs pit :
  Forall (fun x => Forall (combo_inv pit) (dd_taxes x)) xs ->
  Forall (fun x => Forall (combo_inv pit) (dd_taxes (fst x))) (doc_ddc d lcs xs).
Proof.
  intros F. unfold doc_ddc. apply Forall_forall. intros x I. apply in_map_iff in I.
  destruct I as (y & <- & I). cbn [fst]. rewrite Forall_forall in F. apply (F y I).
Qed.

Lemma match_nonempty {A B} (l : list A) (x y : B) :
  l <> [] -> match l with [] => x | _ :: _ => y end = y.
Proof. destruct l; [congruence|reflexivity]. Qed.

Lemma included_tax_gross_identity d t : only_included_tax d -> calculate d = Totals t ->
  exists lcs,
    calc_lines (d_currency_rule d) (d_c d) (d_cur d) (d_rates d) (d_lines d) = Some lcs /\
    t_twt t = rescale (doc_gross d lcs) (d_c d).
Proof.
  intros (Hpit & HL & HD & HC) H.
  unfold calculate in H.
  destruct (calc_lines _ _ _ _ _) as [lcs|] eqn:EL; [|discriminate].
  exists lcs. split; [reflexivity|].
  fold (doc_sum d lcs) in H. fold (doc_ddc d lcs (d_discounts d)) in H. fold (doc_ddc d lcs (d_charges d)) in H.
  fold (doc_rows d lcs) in H. fold (doc_gross d lcs) in H.
  destruct (doc_rows d lcs) as [|r0 rs] eqn:ER; [discriminate|]. rewrite <- ER in H.
  destruct (remove_included_all _ _) as [rows|] eqn:ERem; [|discriminate].
  injection H as <-. cbn [t_twt]. f_equal.
  set (cr := d_currency_rule d) in *. set (c := d_c d) in *. set (pit := d_pit d) in *.
  (* the categories: none, or exactly the included one without surcharge *)
  assert (INV : Forall (cat_inv pit) (base_totals cr c rows)).
  { apply base_totals_inv. rewrite (remove_included_all_taxes _ _ _ ERem), map_map.
    erewrite map_ext; [|intros tl; apply (prepare_tl_spec c tl)].
    apply tax_lines_taxes; auto using doc_ddc_taxes. }
  destruct (groups_pairwise_distinct cr c rows) as [ND _].
  assert (LEN : (length (base_totals cr c rows) <= 1)%nat).
  { rewrite <- (map_length ct_code). apply (one_code_nodup pit); [exact ND|].
    intros x I. apply in_map_iff in I. destruct I as (ct & <- & I).
    rewrite Forall_forall in INV. apply (INV ct I). }
  rewrite (match_nonempty pit _ _ Hpit).
  destruct (base_totals cr c rows) as [|ct0 [|ct1 r]] eqn:EB; cbn [length] in LEN; [| |lia].
  - (* no taxed row at all *)
    cbn [map fold_left find_cat].
    unfold precise_or at 1. cbn [is_zero zero_of val Z.eqb].
    rewrite rescale_same by reflexivity. apply add_zero.
  - inversion INV as [|? ? (I1 & I2 & I3) _]; subst.
    cbn [map fold_left find_cat ct_round ct_code ct_precise ct_amount].
    replace (ct_code (ct_calc cr c ct0)) with (ct_code ct0) by reflexivity.
    rewrite I1, eqb_bytes_refl.
    set (ct' := ct_calc cr c ct0).
    change (ct_precise (ct_round c ct')) with (ct_amount ct').
    change (ct_amount (ct_round c ct')) with (rescale (ct_amount ct') c).
    apply add_sub_cancel.
    rewrite !precise_or_toQ.
    destruct (sum_step_spec cr c (zero_of c) ct') as [S _]; [reflexivity|apply ct_calc_exp_ok|].
    rewrite S, toQ_zero. unfold signedQ.
    replace (ct_retained ct') with (ct_retained ct0) by reflexivity. rewrite I2.
    destruct (category_amount_is_sum_of_groups cr c ct0) as (_ & _ & NS & _). fold ct' in NS.
    assert (N : ct_surcharge ct' = None).
    { apply NS. unfold ct', ct_calc. cbn [ct_rates]. clear - I3.
      induction (ct_rates ct0) as [|g r IH]; [reflexivity|]. inversion I3; subst.
      cbn [map existsb]. rewrite IH by assumption. unfold carries_surcharge.
      rewrite rt_calc_sur, H1. destruct (rt_pct _); reflexivity. }
    rewrite N. cbn [optQ]. ring.
Qed.

Lemma doc_rows_spec d lcs :
  doc_rows d lcs =
  map (fun p => mkTL (lc_total (fst p)) (ln_taxes (snd p))) (combine lcs (d_lines d)) ++
  map (fun p => mkTL (negate (snd p)) (dd_taxes (fst p))) (doc_ddc d lcs (d_discounts d)) ++
  map (fun p => mkTL (snd p) (dd_taxes (fst p))) (doc_ddc d lcs (d_charges d)).
Proof. reflexivity. Qed.
