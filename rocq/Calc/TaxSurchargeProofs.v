(* Prices include a tax and the included category carries surcharges (Spanish equivalence
   surcharge): the surcharge is computed on the tax-exclusive base and added on top, so the total
   with tax is the gross sum of the lines PLUS the category's surcharge.  Property C02, last
   sentence; extends included_tax_gross_identity of Calc/TaxProofs.v, which is the special case
   without surcharge (included_tax_gross_identity_special_case below). *)
From Coq Require Import ZArith QArith Qabs Lia Lqa List Bool ZifyBool ZifyNat.
From Verif Require Import Base.Wire Base.Rha Base.RhaProofs Num.Amount Num.AmountProofs Calc.Doc Calc.Calc
  Calc.TaxProofs.
Import ListNotations.
Open Scope Z_scope.

(* ------------------------------------------------------------------------------------------ *)
(* the domain: every combo is of the included category and not retained; surcharges allowed   *)
(* ------------------------------------------------------------------------------------------ *)
Definition combo_included (pit : bytes) (cb : combo) : Prop :=
  cb_cat cb = pit /\ cb_retained cb = false.
Definition only_included_tax_with_surcharges (d : doc) : Prop :=
  d_pit d <> [] /\
  Forall (fun l => Forall (combo_included (d_pit d)) (ln_taxes l)) (d_lines d) /\
  Forall (fun x => Forall (combo_included (d_pit d)) (dd_taxes x)) (d_discounts d) /\
  Forall (fun x => Forall (combo_included (d_pit d)) (dd_taxes x)) (d_charges d).

(* the categories at working precision (before Total.round), as `calculate` builds them *)
Definition doc_cats (d : doc) (lcs : list line_calc) : list cat_total :=
  match remove_included_all (d_pit d) (map (prepare_tl (d_c d)) (doc_rows d lcs)) with
  | Some rows => map (ct_calc (d_currency_rule d) (d_c d)) (base_totals (d_currency_rule d) (d_c d) rows)
  | None => []
  end.
(* the included category at working precision, and its surcharge total: the model's own
   ct_surcharge (sum of the rate groups' surcharge amounts: category_amount_is_sum_of_groups),
   zero when no group carries a surcharge *)
Definition included_cat (d : doc) (lcs : list line_calc) : option cat_total :=
  find_cat (d_pit d) (doc_cats d lcs).
Definition included_surcharge (d : doc) (lcs : list line_calc) : amount :=
  match included_cat d lcs with
  | Some ct => match ct_surcharge ct with Some s => s | None => zero_of (d_c d) end
  | None => zero_of (d_c d)
  end.
(* when the category carries a surcharge, its working-precision amount has no more decimals than
   the gross sum (always so under the 'currency' rule: currency_rule_precision_ok; needed under
   'precise': a document discount or charge given with more decimals than the lines makes the
   tax amount more precise than the gross sum, and taking the amount out and putting amount +
   surcharge back then rounds twice) *)
Definition surcharge_precision_ok (d : doc) (lcs : list line_calc) : Prop :=
  match included_cat d lcs with
  | Some ct => ct_surcharge ct = None \/ (exp (ct_amount ct) <= exp (doc_gross d lcs))%nat
  | None => True
  end.

(* ------------------------------------------------------------------------------------------ *)
(* one category only                                                                          *)
(* ------------------------------------------------------------------------------------------ *)
Definition cat_included (pit : bytes) (ct : cat_total) : Prop :=
  ct_code ct = pit /\ ct_retained ct = false.

Lemma add_to_cats_included cr c tot cb cts pit : combo_included pit cb ->
  Forall (cat_included pit) cts -> Forall (cat_included pit) (add_to_cats cr c tot cb cts).
Proof.
  intros (C1 & C3). induction cts as [|ct r IH]; intros F; cbn [add_to_cats].
  - constructor; [|constructor]. unfold cat_included. cbn [ct_with_rates new_ct ct_code ct_retained]. auto.
  - inversion F as [|? ? (A1 & A2) F']; subst.
    destruct (eqb_bytes (ct_code ct) (cb_cat cb)).
    + constructor; [|exact F']. unfold cat_included. cbn [ct_with_rates ct_code ct_retained]. auto.
    + constructor; [exact (conj A1 A2)|]. apply IH, F'.
Qed.

Lemma base_totals_included cr c pit tls :
  Forall (Forall (combo_included pit)) (map tl_taxes tls) -> Forall (cat_included pit) (base_totals cr c tls).
Proof.
  unfold base_totals.
  assert (G : forall cts, Forall (Forall (combo_included pit)) (map tl_taxes tls) -> Forall (cat_included pit) cts ->
                          Forall (cat_included pit) (fold_left (add_tl cr c) tls cts)).
  { induction tls as [|tl r IH]; intros cts F W; cbn [fold_left]; auto.
    cbn [map] in F. inversion F as [|? ? F1 F2]; subst. apply IH; [exact F2|].
    unfold add_tl. generalize (tl_total tl) as tot. intros tot. clear - F1 W.
    revert cts W. induction (tl_taxes tl) as [|cb l IHl]; intros cts W; cbn [fold_left]; auto.
    inversion F1; subst. apply IHl; [assumption|]. apply add_to_cats_included; assumption. }
  intros F. apply G; [exact F|constructor].
Qed.

Lemma tax_lines_taxes_P (P : combo -> Prop) lcs ls dd cc :
  Forall (fun l => Forall P (ln_taxes l)) ls ->
  Forall (fun x => Forall P (dd_taxes (fst x))) dd ->
  Forall (fun x => Forall P (dd_taxes (fst x))) cc ->
  Forall (Forall P) (map tl_taxes (tax_lines lcs ls dd cc)).
Proof.
  intros F1 F2 F3. unfold tax_lines. rewrite !map_app, !map_map. cbn [tl_taxes].
  rewrite !Forall_app. repeat split.
  - apply Forall_forall. intros x I. apply in_map_iff in I. destruct I as ([lc l] & <- & I).
    apply in_combine_r in I. rewrite Forall_forall in F1. apply (F1 l I).
  - apply Forall_forall. intros x I. apply in_map_iff in I. destruct I as (y & <- & I).
    rewrite Forall_forall in F2. apply (F2 y I).
  - apply Forall_forall. intros x I. apply in_map_iff in I. destruct I as (y & <- & I).
    rewrite Forall_forall in F3. apply (F3 y I).
Qed.

Lemma doc_ddc_taxes_P (P : combo -> Prop) d lcs xs :
  Forall (fun x => Forall P (dd_taxes x)) xs ->
  Forall (fun x => Forall P (dd_taxes (fst x))) (doc_ddc d lcs xs).
Proof.
  intros F. unfold doc_ddc. apply Forall_forall. intros x I. apply in_map_iff in I.
  destruct I as (y & <- & I). cbn [fst]. rewrite Forall_forall in F. apply (F y I).
Qed.

(* ------------------------------------------------------------------------------------------ *)
(* precision bookkeeping                                                                      *)
(* ------------------------------------------------------------------------------------------ *)
Lemma amount_ext a b : exp a = exp b -> Qeq (toQ a) (toQ b) -> a = b.
Proof.
  intros E H. apply toQ_eq_iff in H. rewrite E in H. pose proof (pow10_pos (exp b)) as P.
  destruct a as [va ea], b as [vb eb]. cbn [val exp] in *. subst ea. f_equal. nia.
Qed.

Lemma fold_acc_exp l : forall s, (exp s <= exp (fold_left acc l s))%nat.
Proof.
  induction l as [|x r IH]; intros s; cbn [fold_left]; [lia|].
  specialize (IH (acc s x)). rewrite acc_exp in IH. lia.
Qed.

Lemma doc_gross_exp d lcs : (d_c d <= exp (doc_gross d lcs))%nat.
Proof.
  unfold doc_gross. cbv zeta.
  assert (S : (d_c d <= exp (doc_sum d lcs))%nat).
  { unfold doc_sum. pose proof (fold_acc_exp (map lc_total lcs) (zero_of (d_c d))) as H. exact H. }
  destruct (sum_opt _ (map snd (doc_ddc d lcs (d_charges d)))); destruct (sum_opt _ (map snd (doc_ddc d lcs (d_discounts d))));
    cbn [add sub exp]; exact S.
Qed.

Lemma precise_or_exp p c : exp (precise_or p (rescale p c)) = exp p \/ exp (precise_or p (rescale p c)) = c.
Proof. unfold precise_or. destruct (is_zero p); [right; apply rescale_exp|left; reflexivity]. Qed.

Lemma sum_step_exp cr s ct : exp (sum_step cr s ct) = exp (match_rr cr s (ct_amount ct)).
Proof. unfold sum_step. destruct (ct_retained ct); destruct (ct_surcharge ct); reflexivity. Qed.

Lemma sum_step_zero_exp cr c ct : cat_exp_ok cr c ct -> (c <= exp (ct_amount ct))%nat ->
  exp (sum_step cr (zero_of c) ct) = exp (ct_amount ct).
Proof.
  intros [A _] B. rewrite sum_step_exp. unfold match_rr. destruct cr.
  - rewrite A by reflexivity. reflexivity.
  - unfold match_precision. rewrite rescale_up_exp. cbn [zero_of exp]. lia.
Qed.

Lemma ct_calc_amount_exp cr c ct : (c <= exp (ct_amount (ct_calc cr c ct)))%nat.
Proof.
  unfold ct_calc. cbn [ct_amount].
  assert (F : Forall sur_exp_ok (map (rt_calc c) (ct_rates ct))).
  { apply Forall_forall. intros g I. apply in_map_iff in I. destruct I as (g0 & <- & _). apply rt_calc_sur_exp_ok. }
  destruct (ct_fold_spec cr c _ F _ (st_ok_init cr c)) as ((_ & B & _) & _). exact B.
Qed.

(* under 'currency' the hypothesis on precisions always holds *)
Lemma currency_rule_precision_ok d lcs : d_currency_rule d = true -> surcharge_precision_ok d lcs.
Proof.
  intros R. unfold surcharge_precision_ok, included_cat, doc_cats.
  destruct (remove_included_all _ _) as [rows|]; [|exact I].
  generalize (base_totals (d_currency_rule d) (d_c d) rows) as cts. intros cts.
  induction cts as [|ct r IH]; cbn [map find_cat]; [exact I|].
  destruct (eqb_bytes _ _); [|exact IH]. right.
  destruct (ct_calc_exp_ok (d_currency_rule d) (d_c d) ct) as [A _]. rewrite A by exact R. apply doc_gross_exp.
Qed.

(* ------------------------------------------------------------------------------------------ *)
(* the identity                                                                               *)
(* ------------------------------------------------------------------------------------------ *)
Lemma included_tax_gross_identity_with_surcharges d t :
  only_included_tax_with_surcharges d -> calculate d = Totals t ->
  exists lcs,
    calc_lines (d_currency_rule d) (d_c d) (d_cur d) (d_rates d) (d_lines d) = Some lcs /\
    t_cats t = map (ct_round (d_c d)) (doc_cats d lcs) /\
    (surcharge_precision_ok d lcs ->
     t_twt t = rescale (add (doc_gross d lcs) (included_surcharge d lcs)) (d_c d) /\
     Qeq (toQ (add (doc_gross d lcs) (included_surcharge d lcs)))
         (toQ (doc_gross d lcs) + toQ (included_surcharge d lcs))).
Proof.
  intros (Hpit & HL & HD & HC) H.
  unfold calculate in H.
  destruct (calc_lines _ _ _ _ _) as [lcs|] eqn:EL; [|discriminate].
  exists lcs. split; [reflexivity|].
  fold (doc_sum d lcs) in H. fold (doc_ddc d lcs (d_discounts d)) in H. fold (doc_ddc d lcs (d_charges d)) in H.
  fold (doc_rows d lcs) in H. fold (doc_gross d lcs) in H.
  destruct (doc_rows d lcs) as [|r0 rs] eqn:ER; [discriminate|]. rewrite <- ER in H.
  destruct (remove_included_all _ _) as [rows|] eqn:ERem; [|discriminate].
  assert (DC : doc_cats d lcs = map (ct_calc (d_currency_rule d) (d_c d)) (base_totals (d_currency_rule d) (d_c d) rows)).
  { unfold doc_cats. rewrite ERem. reflexivity. }
  pose proof (doc_gross_exp d lcs) as GE.
  unfold surcharge_precision_ok, included_surcharge, included_cat. rewrite DC. clear DC.
  injection H as <-. cbn [t_twt t_cats]. split; [reflexivity|].
  set (cr := d_currency_rule d) in *. set (c := d_c d) in *. set (pit := d_pit d) in *.
  set (gross := doc_gross d lcs) in *.
  (* the categories: none, or exactly the included one *)
  assert (INV : Forall (cat_included pit) (base_totals cr c rows)).
  { apply base_totals_included. rewrite (remove_included_all_taxes _ _ _ ERem), map_map.
    erewrite map_ext; [|intros tl; apply (prepare_tl_spec c tl)].
    apply tax_lines_taxes_P; auto using doc_ddc_taxes_P. }
  destruct (groups_pairwise_distinct cr c rows) as [ND _].
  assert (LEN : (length (base_totals cr c rows) <= 1)%nat).
  { rewrite <- (map_length ct_code). apply (one_code_nodup pit); [exact ND|].
    intros x I. apply in_map_iff in I. destruct I as (ct & <- & I).
    rewrite Forall_forall in INV. apply (INV ct I). }
  rewrite (match_nonempty pit _ _ Hpit).
  destruct (base_totals cr c rows) as [|ct0 [|ct1 r]] eqn:EB; cbn [length] in LEN; [| |lia].
  - (* no taxed row at all *)
    intros _. cbn [map fold_left find_cat]. rewrite add_zero. split.
    + f_equal. unfold precise_or at 1. cbn [is_zero zero_of val Z.eqb].
      rewrite rescale_same by reflexivity. apply add_zero.
    + rewrite toQ_zero. ring.
  - inversion INV as [|? ? (I1 & I2) _]; subst.
    cbn [map fold_left find_cat ct_round ct_code ct_precise ct_amount].
    replace (ct_code (ct_calc cr c ct0)) with (ct_code ct0) by reflexivity.
    rewrite I1, !eqb_bytes_refl.
    set (ct' := ct_calc cr c ct0).
    change (ct_precise (ct_round c ct')) with (ct_amount ct').
    change (ct_amount (ct_round c ct')) with (rescale (ct_amount ct') c).
    pose proof (ct_calc_exp_ok cr c ct0) as OK. fold ct' in OK.
    pose proof (ct_calc_amount_exp cr c ct0) as AE. fold ct' in AE.
    destruct (sum_step_spec cr c (zero_of c) ct') as [S _]; [reflexivity|exact OK|].
    pose proof (sum_step_zero_exp cr c ct' OK AE) as SE.
    rewrite toQ_zero in S. unfold signedQ in S.
    replace (ct_retained ct') with (ct_retained ct0) in S by reflexivity. rewrite I2 in S.
    set (ts := sum_step cr (zero_of c) ct') in *.
    destruct OK as [_ OKs].
    destruct (ct_surcharge ct') as [s|] eqn:ES; cbn [optQ] in S.
    + (* a surcharge: the category amount is representable at the gross sum's precision *)
      intros [HN|HP]; [discriminate|].
      assert (NL : Qeq (toQ (add gross s)) (toQ gross + toQ s)) by (apply add_no_loss; lia).
      split; [|exact NL]. f_equal. apply amount_ext; [reflexivity|].
      rewrite NL.
      rewrite add_no_loss.
      2:{ cbn [sub exp]. destruct (precise_or_exp ts c) as [E|E]; rewrite E; lia. }
      rewrite sub_no_loss.
      2:{ destruct (precise_or_exp (ct_amount ct') c) as [E|E]; rewrite E; lia. }
      rewrite !precise_or_toQ, S. ring.
    + (* no surcharge: the amount taken out is the amount put back *)
      intros _. rewrite add_zero. split.
      * f_equal. apply add_sub_cancel. rewrite !precise_or_toQ, S. ring.
      * rewrite toQ_zero. ring.
Qed.

(* the theorem without surcharges (included_tax_gross_identity) is the special case *)
Lemma only_included_tax_weaken d : only_included_tax d -> only_included_tax_with_surcharges d.
Proof.
  intros (A & B & C & D). split; [exact A|].
  assert (W : forall l, Forall (combo_inv (d_pit d)) l -> Forall (combo_included (d_pit d)) l).
  { intros l F. eapply Forall_impl; [|exact F]. intros cb (X & _ & Y). split; assumption. }
  repeat split; (eapply Forall_impl; [|eassumption]); intros x; apply W.
Qed.

Lemma no_combo_surcharge_no_category_surcharge d lcs : only_included_tax d ->
  match included_cat d lcs with Some ct => ct_surcharge ct = None | None => True end.
Proof.
  intros (Hpit & HL & HD & HC). unfold included_cat, doc_cats.
  destruct (remove_included_all _ _) as [rows|] eqn:ERem; [|exact I].
  assert (INV : Forall (cat_inv (d_pit d)) (base_totals (d_currency_rule d) (d_c d) rows)).
  { apply base_totals_inv. rewrite (remove_included_all_taxes _ _ _ ERem), map_map.
    erewrite map_ext; [|intros tl; apply (prepare_tl_spec (d_c d) tl)].
    apply tax_lines_taxes; auto using doc_ddc_taxes. }
  induction INV as [|ct r (_ & _ & I3) _ IH]; cbn [map find_cat]; [exact I|].
  destruct (eqb_bytes _ _); [|exact IH].
  destruct (category_amount_is_sum_of_groups (d_currency_rule d) (d_c d) ct) as (_ & _ & NS & _).
  apply NS. unfold ct_calc. cbn [ct_rates]. clear - I3.
  induction (ct_rates ct) as [|g r IH]; [reflexivity|]. inversion I3; subst.
  cbn [map existsb]. rewrite IH by assumption. unfold carries_surcharge.
  rewrite rt_calc_sur, H1. destruct (rt_pct _); reflexivity.
Qed.

Lemma included_tax_gross_identity_special_case d t : only_included_tax d -> calculate d = Totals t ->
  exists lcs,
    calc_lines (d_currency_rule d) (d_c d) (d_cur d) (d_rates d) (d_lines d) = Some lcs /\
    surcharge_precision_ok d lcs /\ included_surcharge d lcs = zero_of (d_c d) /\
    t_twt t = rescale (doc_gross d lcs) (d_c d).
Proof.
  intros O H.
  destruct (included_tax_gross_identity_with_surcharges d t (only_included_tax_weaken d O) H) as (lcs & E & _ & K).
  exists lcs. split; [exact E|].
  pose proof (no_combo_surcharge_no_category_surcharge d lcs O) as N.
  assert (P : surcharge_precision_ok d lcs).
  { unfold surcharge_precision_ok. destruct (included_cat d lcs); [left; exact N|exact I]. }
  assert (Z0 : included_surcharge d lcs = zero_of (d_c d)).
  { unfold included_surcharge. destruct (included_cat d lcs); [rewrite N|]; reflexivity. }
  split; [exact P|]. split; [exact Z0|].
  destruct (K P) as [T _]. rewrite T, Z0, add_zero. reflexivity.
Qed.

(* ------------------------------------------------------------------------------------------ *)
(* when the hypothesis on precisions holds: in terms of the rows, then of the document        *)
(* ------------------------------------------------------------------------------------------ *)
(* no prepared row has more decimals than the gross sum *)
Definition rows_exp_le (N : nat) (tls : list tax_line) : Prop :=
  Forall (fun r => (exp (tl_total r) <= N)%nat) tls.
Definition rows_precision_ok (d : doc) (lcs : list line_calc) : Prop :=
  rows_exp_le (exp (doc_gross d lcs)) (map (prepare_tl (d_c d)) (doc_rows d lcs)).

Definition groups_exp_le (N : nat) (rts : list rate_total) : Prop :=
  Forall (fun g => (exp (rt_base g) <= N)%nat) rts.
Definition cats_exp_le (N : nat) (cts : list cat_total) : Prop :=
  Forall (fun ct => groups_exp_le N (ct_rates ct)) cts.

Lemma remove_included_all_exp_le N pit tls tls' : remove_included_all pit tls = Some tls' ->
  rows_exp_le N tls -> rows_exp_le N tls'.
Proof.
  revert tls'. induction tls as [|tl r IH]; intros tls'; cbn [remove_included_all].
  - intros E _. injection E as <-. constructor.
  - destruct (remove_included pit tl) as [x|] eqn:E1; [|discriminate].
    destruct (remove_included_all pit r) as [xs|]; [|discriminate].
    intros E F. injection E as <-. inversion F as [|? ? F1 F2]; subst. constructor; [|apply IH; auto].
    destruct (remove_included_spec pit tl x E1) as [_ K].
    destruct (get_combo pit (tl_taxes tl)) as [cb|]; [|rewrite K; exact F1].
    destruct pit; [rewrite K; exact F1|]. destruct (cb_pct cb); [|rewrite K; exact F1].
    destruct K as [_ K]. rewrite K. exact F1.
Qed.

Lemma acc_rr_exp_le cr N s x : (exp s <= N)%nat -> (exp x <= N)%nat -> (exp (acc_rr cr s x) <= N)%nat.
Proof. intros A B. destruct cr; [rewrite acc_rr_true_exp|rewrite acc_rr_exp_false]; lia. Qed.

Lemma add_to_rates_exp_le cr c N tot cb rts : (c <= N)%nat -> (exp tot <= N)%nat ->
  groups_exp_le N rts -> groups_exp_le N (add_to_rates cr c tot cb rts).
Proof.
  intros HC HT. induction rts as [|rt r IH]; intros F; cbn [add_to_rates].
  - constructor; [|constructor]. cbn [rt_add_base new_rt rt_base]. apply acc_rr_exp_le; [exact HC|exact HT].
  - inversion F as [|? ? F1 F2]; subst. destruct (rt_matches rt cb).
    + constructor; [|exact F2]. cbn [rt_add_base rt_base]. apply acc_rr_exp_le; assumption.
    + constructor; [exact F1|]. apply IH, F2.
Qed.

Lemma add_to_cats_exp_le cr c N tot cb cts : (c <= N)%nat -> (exp tot <= N)%nat ->
  cats_exp_le N cts -> cats_exp_le N (add_to_cats cr c tot cb cts).
Proof.
  intros HC HT. induction cts as [|ct r IH]; intros F; cbn [add_to_cats].
  - constructor; [|constructor]. cbn [ct_with_rates ct_rates]. apply add_to_rates_exp_le; auto. constructor.
  - inversion F as [|? ? F1 F2]; subst. destruct (eqb_bytes _ _).
    + constructor; [|exact F2]. cbn [ct_with_rates ct_rates]. apply add_to_rates_exp_le; auto.
    + constructor; [exact F1|]. apply IH, F2.
Qed.

Lemma base_totals_exp_le cr c N tls : (c <= N)%nat -> rows_exp_le N tls -> cats_exp_le N (base_totals cr c tls).
Proof.
  intros HC. unfold base_totals.
  assert (G : forall cts, rows_exp_le N tls -> cats_exp_le N cts -> cats_exp_le N (fold_left (add_tl cr c) tls cts)).
  { induction tls as [|tl r IH]; intros cts F W; cbn [fold_left]; auto.
    inversion F as [|? ? F1 F2]; subst. apply IH; [exact F2|].
    unfold add_tl. revert cts W. induction (tl_taxes tl) as [|cb l IHl]; intros cts W; cbn [fold_left]; auto.
    apply IHl. apply add_to_cats_exp_le; assumption. }
  intros F. apply G; [exact F|constructor].
Qed.

Lemma ct_calc_amount_exp_le cr c N ct : (c <= N)%nat -> groups_exp_le N (ct_rates ct) ->
  (exp (ct_amount (ct_calc cr c ct)) <= N)%nat.
Proof.
  intros HC F. unfold ct_calc. cbn [ct_amount].
  assert (G : forall st, (exp (fst st) <= N)%nat ->
            (exp (fst (fold_left (ct_step cr c) (map (rt_calc c) (ct_rates ct)) st)) <= N)%nat).
  { induction F as [|g r F1 F2 IH]; intros st E; cbn [map fold_left]; [exact E|].
    apply IH. unfold ct_step. rewrite rt_calc_pct. destruct (rt_pct g) as [p|] eqn:EP; [|exact E].
    assert (A : (exp (rt_amount (rt_calc c g)) <= N)%nat).
    { unfold rt_calc. rewrite EP. cbn [rt_amount pct_of mul exp]. exact F1. }
    destruct (rt_sur (rt_calc c g)); cbn [fst]; apply acc_rr_exp_le; assumption. }
  apply G. cbn [fst zero_of exp]. exact HC.
Qed.

Lemma rows_precision_ok_enough d lcs : rows_precision_ok d lcs -> surcharge_precision_ok d lcs.
Proof.
  unfold rows_precision_ok, surcharge_precision_ok, included_cat, doc_cats. intros R.
  destruct (remove_included_all _ _) as [rows|] eqn:ERem; [|exact I].
  pose proof (remove_included_all_exp_le _ _ _ _ ERem R) as R'.
  pose proof (base_totals_exp_le (d_currency_rule d) (d_c d) _ rows (doc_gross_exp d lcs) R') as B.
  induction B as [|ct r B1 _ IH]; cbn [map find_cat]; [exact I|].
  destruct (eqb_bytes _ _); [|exact IH]. right.
  apply ct_calc_amount_exp_le; [apply doc_gross_exp|exact B1].
Qed.

Lemma fold_acc_exp_in l : forall s x, In x l -> (exp x <= exp (fold_left acc l s))%nat.
Proof.
  induction l as [|y r IH]; intros s x I; cbn [fold_left]; [destruct I|].
  destruct I as [<-|I]; [|apply IH, I].
  pose proof (fold_acc_exp r (acc s y)) as H. rewrite acc_exp in H. lia.
Qed.

Lemma doc_gross_exp_eq d lcs : exp (doc_gross d lcs) = exp (doc_sum d lcs).
Proof.
  unfold doc_gross. cbv zeta.
  destruct (sum_opt _ (map snd (doc_ddc d lcs (d_charges d)))); destruct (sum_opt _ (map snd (doc_ddc d lcs (d_discounts d))));
    reflexivity.
Qed.

Lemma sub_all_exp xs : forall t, exp (sub_all t xs) = exp t.
Proof. unfold sub_all. induction xs as [|x r IH]; intros t; cbn [fold_left]; [reflexivity|]. rewrite IH. reflexivity. Qed.
Lemma add_all_exp xs : forall t, exp (add_all t xs) = exp t.
Proof. unfold add_all. induction xs as [|x r IH]; intros t; cbn [fold_left]; [reflexivity|]. rewrite IH. reflexivity. Qed.

(* under 'precise' a line total has at least two decimals more than the currency *)
Lemma calc_line_precise_exp c cur rates l lc : calc_line false c cur rates l = Some lc ->
  (c + line_precision_extra <= exp (lc_total lc))%nat.
Proof.
  unfold calc_line. destruct (calc_subs _ _ _ _ _) as [subs|]; [|discriminate].
  destruct (item_price _ _ _ _) as [price|]; [|discriminate].
  intros E. injection E as <-. cbn [lc_total]. rewrite add_all_exp, sub_all_exp.
  unfold apply_rr. rewrite !rescale_up_exp. cbn [mul exp]. rewrite rescale_up_exp. lia.
Qed.

Lemma calc_lines_precise_exp c cur rates ls lcs : calc_lines false c cur rates ls = Some lcs ->
  Forall (fun lc => (c + line_precision_extra <= exp (lc_total lc))%nat) lcs /\ length lcs = length ls.
Proof.
  revert lcs. induction ls as [|l r IH]; intros lcs; cbn [calc_lines].
  - intros E. injection E as <-. split; [constructor|reflexivity].
  - destruct (calc_line false c cur rates l) as [x|] eqn:E1; [|discriminate].
    destruct (calc_lines false c cur rates r) as [xs|]; [|discriminate].
    intros E. injection E as <-. destruct (IH xs eq_refl) as [A B]. split.
    + constructor; [apply (calc_line_precise_exp _ _ _ _ _ E1)|exact A].
    + cbn [length]. rewrite B. reflexivity.
Qed.

(* the rows: a line's total never has more decimals than the sum of the lines; what remains is
   two decimals more than the currency (prepareLines) and the document discounts / charges *)
Lemma rows_precision_ok_from_amounts d lcs :
  (d_c d + tax_precision_extra <= exp (doc_gross d lcs))%nat ->
  Forall (fun p => (exp (snd p) <= exp (doc_gross d lcs))%nat) (doc_ddc d lcs (d_discounts d)) ->
  Forall (fun p => (exp (snd p) <= exp (doc_gross d lcs))%nat) (doc_ddc d lcs (d_charges d)) ->
  rows_precision_ok d lcs.
Proof.
  intros H2 HD HC. unfold rows_precision_ok, rows_exp_le.
  assert (P : forall tl, (exp (tl_total tl) <= exp (doc_gross d lcs))%nat ->
                         (exp (tl_total (prepare_tl (d_c d) tl)) <= exp (doc_gross d lcs))%nat).
  { intros tl E. unfold prepare_tl. destruct (tl_taxes tl); [exact E|]. cbn [tl_total]. rewrite rescale_up_exp. lia. }
  apply Forall_forall. intros x I. apply in_map_iff in I. destruct I as (tl & <- & I). apply P.
  unfold doc_rows, tax_lines in I. rewrite !in_app_iff in I. destruct I as [I|[I|I]].
  - apply in_map_iff in I. destruct I as ([lc l] & <- & I). cbn [tl_total fst].
    apply in_combine_l in I. rewrite doc_gross_exp_eq. unfold doc_sum. apply fold_acc_exp_in.
    apply in_map. exact I.
  - apply in_map_iff in I. destruct I as (p & <- & I). cbn [tl_total negate exp].
    rewrite Forall_forall in HD. apply (HD p I).
  - apply in_map_iff in I. destruct I as (p & <- & I). cbn [tl_total].
    rewrite Forall_forall in HC. apply (HC p I).
Qed.

(* 'precise', at least one line: the gross sum has at least two decimals more than the currency *)
Lemma precise_gross_exp d lcs : d_currency_rule d = false -> d_lines d <> [] ->
  calc_lines (d_currency_rule d) (d_c d) (d_cur d) (d_rates d) (d_lines d) = Some lcs ->
  (d_c d + tax_precision_extra <= exp (doc_gross d lcs))%nat.
Proof.
  intros R NE E. rewrite R in E. destruct (calc_lines_precise_exp _ _ _ _ _ E) as [F L].
  destruct lcs as [|lc r]; [destruct (d_lines d); [congruence|discriminate]|].
  inversion F as [|? ? F1 _]; subst. rewrite doc_gross_exp_eq. unfold doc_sum.
  pose proof (fold_acc_exp_in (map lc_total (lc :: r)) (zero_of (d_c d)) (lc_total lc) (or_introl eq_refl)) as H.
  unfold tax_precision_extra, line_precision_extra in *. lia.
Qed.

(* either rule: a document with at least one line whose document discounts and charges have no
   more decimals than the gross sum *)
Lemma surcharge_precision_ok_from_document d lcs :
  d_lines d <> [] ->
  calc_lines (d_currency_rule d) (d_c d) (d_cur d) (d_rates d) (d_lines d) = Some lcs ->
  Forall (fun p => (exp (snd p) <= exp (doc_gross d lcs))%nat) (doc_ddc d lcs (d_discounts d)) ->
  Forall (fun p => (exp (snd p) <= exp (doc_gross d lcs))%nat) (doc_ddc d lcs (d_charges d)) ->
  surcharge_precision_ok d lcs.
Proof.
  intros NE E HD HC. destruct (d_currency_rule d) eqn:R; [apply currency_rule_precision_ok, R|].
  apply rows_precision_ok_enough, rows_precision_ok_from_amounts; [|exact HD|exact HC].
  apply precise_gross_exp; [exact R|exact NE|rewrite R; exact E].
Qed.

(* ------------------------------------------------------------------------------------------ *)
(* the hypothesis on precisions is needed under 'precise'                                     *)
(* ------------------------------------------------------------------------------------------ *)
(* ES, 'precise': one line of 121.00 and a document charge of 0.023900 (six decimals), both at
   21 % + 5.2 % surcharge, prices include VAT.  Gross 121.0239 (four decimals), category amount
   21.004148 and surcharge 5.201027 (six decimals).  Gross + surcharge = 126.224927, i.e. 126.22,
   but taking 21.004148 out at four decimals (21.0041) and putting 26.205175 back at four decimals
   (26.2052) gives 126.2250, presented as 126.23. *)
From Coq Require Import String.
Definition surcharge_precision_witness : doc :=
  let cb := mkCombo (bs "VAT") [] [] (Some (mkA 21 2)) (Some (mkA 52 3)) false (bs "standard+eqs") in
  mkDoc 2 false (bs "VAT") 1
        [mkLine (mkA 1 0) (mkItem (mkA 12100 2) None []) [] [] [] [cb]]
        [] [mkDdc (mkA 23900 6) None None [cb]] [] [] [] None.

Lemma surcharge_identity_needs_precision :
  exists d t lcs,
    only_included_tax_with_surcharges d /\ calculate d = Totals t /\
    calc_lines (d_currency_rule d) (d_c d) (d_cur d) (d_rates d) (d_lines d) = Some lcs /\
    t_twt t = mkA 12623 2 /\
    rescale (add (doc_gross d lcs) (included_surcharge d lcs)) (d_c d) = mkA 12622 2.
Proof.
  exists surcharge_precision_witness. do 2 eexists.
  split; [split; [discriminate|]; repeat constructor|].
  split; [vm_compute; reflexivity|]. split; [vm_compute; reflexivity|].
  split; vm_compute; reflexivity.
Qed.
