(* C18 - Validated documents only reference defined codes, keys and rates.
   Property theorems only; every proof is `exact <lemma>` from Defs/RefCheckProofs.v (the rules, for
   ALL definition tables and documents) and Defs/RefCheckShipped.v (the generated tables).

   Vocabulary (Defs/RefCheck.v):
     doc_refs             the reference view of a typed document: `$regime`, `$addons`, short schema,
                          `$tags`, every tax combo (category, rate key, country override, extension
                          pairs), every other extension entry with its place, every currency code,
                          every country code (ISO / tax / `$regime` of a party / combo override);
                          written by harness/c18.go by reflection over the Go structures
     defs                 regimes, addons, catalogues, currency codes, ISO and tax country codes
     validate_refs        the reference rules transcribed from tax/combo.go, tax/regime_def.go
                          (InCategories, InCategoryRates, Key.HasPrefix), tax/extensions.go
                          (Extensions.Validate: registered key, listed code, pattern), tax/tags.go +
                          bill/invoice.go (supportedTags, TagsIn), tax/addons.go (AddonRegistered),
                          currency/code.go, l10n/country.go - for the code AFTER the proposed repairs
                          (fixes/C18-*.diff: `$regime` and a combo's country are looked up) and the
                          repair "a rate key is only accepted when its first component is a rate of
                          the category" (inCategoryRatesRule: key.HasPrefix(k) instead of key.Has(k))
     in_category_rates_any_part   the rate-key rule as shipped before that repair (any `+` component)
     key_first k          the text before the first `+` of a key (the whole key without `+`)
     validate_refs_shipped  the same rules as shipped (neither is looked up)
     refs d               every reference the view makes;  resolves defs rf: what it means for it to
                          resolve (RegimeOf, ExtDefined, Offers: readable In-statements)
     mp                   regexp.MatchString(pattern, value): a premise-free argument of every
                          statement (any matcher); the runner uses simple_match, which covers every
                          pattern the definitions declare (all_patterns_supported)
     in_code_defs / published_defs   Gen/*.v: what the linked code registers / what data/ publishes

   Partial by construction: the theorems are about the GENERIC reference rules of tax/, bill/,
   currency/, l10n/; the regime- and addon-specific validators (which only add restrictions) and
   the question whether every place of a document is reached by a validator are exercised by the
   sweep of tools/props/c18.py, not proved. *)
From Coq Require Import List ZArith Bool Strings.Byte.
From Verif Require Import Base.Wire Defs.DefTypes Defs.DefEq Defs.RefCheck Defs.RefTables Defs.RefCheckProofs Defs.RefCheckShipped.
Import ListNotations.
Open Scope bs_scope.

(* a document the (repaired) rules accept only makes references that resolve - whatever the tables *)
Theorem refcheck_sound :
  forall (mp : bytes -> bytes -> bool) (d : defs) (r : doc_refs),
    validate_refs mp d r = true -> Forall (resolves mp d) (refs r).
Proof. exact refcheck_sound_lemma. Qed.
Print Assumptions refcheck_sound.

(* the rules as shipped are NOT sound: `$regime` is never looked up, so a document naming an
   undefined regime whose combos carry no rate key is accepted (witness: regime_qq_view,
   corpus/C18/regime-undefined.json; candidate defect #24) *)
Theorem refcheck_sound_shipped_refuted :
  forall mp : bytes -> bytes -> bool,
    exists r, validate_refs_shipped mp in_code_defs r = true /\ ~ Forall (resolves mp in_code_defs) (refs r).
Proof. exact refcheck_shipped_unsound. Qed.
Print Assumptions refcheck_sound_shipped_refuted.

(* ... nor is a combo's country override: accepted as shipped, rejected when repaired, not a country *)
Theorem combo_country_shipped_refuted :
  forall mp : bytes -> bytes -> bool,
    validate_refs_shipped mp in_code_defs combo_country_qq_view = true /\
    validate_refs mp in_code_defs combo_country_qq_view = false /\
    ~ In "QQ" (df_tax_countries in_code_defs).
Proof. exact combo_country_shipped_unsound. Qed.
Print Assumptions combo_country_shipped_refuted.

(* resolution in the published tables coincides with resolution in the in-code tables
   (corollary of C19: published_equals_in_code, published_only_defined_partial) *)
Theorem resolves_published_iff_in_code :
  forall (mp : bytes -> bytes -> bool) (rf : ref),
    resolves mp published_defs rf <-> resolves mp in_code_defs rf.
Proof. exact resolves_published_iff_in_code_lemma. Qed.
Print Assumptions resolves_published_iff_in_code.

(* hence: accepted against what the code registers => resolves in what is published *)
Theorem validated_resolves_in_published :
  forall (mp : bytes -> bytes -> bool) (r : doc_refs),
    validate_refs mp in_code_defs r = true -> Forall (resolves mp published_defs) (refs r).
Proof. exact validated_resolves_in_published_lemma. Qed.
Print Assumptions validated_resolves_in_published.

(* ---- per kind, in the vocabulary of the view ---- *)

Theorem regime_and_addons_exist :
  forall (mp : bytes -> bytes -> bool) (d : defs) (r : doc_refs),
    validate_refs mp d r = true ->
    (r_regime r <> [] -> exists rg, RegimeOf d (r_regime r) rg) /\
    (forall k, In k (r_addons r) -> exists a, In a (df_addons d) /\ ad_key a = k).
Proof. exact regime_and_addons_exist_lemma. Qed.
Print Assumptions regime_and_addons_exist.

(* the category belongs to the regime that applies (the combo's country, else the document's) *)
Theorem combo_category_resolves :
  forall (mp : bytes -> bytes -> bool) (d : defs) (r : doc_refs) (c : combo_ref),
    validate_refs mp d r = true -> In c (r_combos r) ->
    resolves mp d (RefCategory (applying_country (r_regime r) c) (cr_cat c)).
Proof. exact combo_category_resolves_lemma. Qed.
Print Assumptions combo_category_resolves.

(* a rate key is - in its FIRST `+` component - a rate of that category of that regime *)
Theorem combo_rate_key_resolves :
  forall (mp : bytes -> bytes -> bool) (d : defs) (r : doc_refs) (c : combo_ref),
    validate_refs mp d r = true -> In c (r_combos r) -> cr_rate c <> [] ->
    exists rg ca rt, RegimeOf d (applying_country (r_regime r) c) rg /\ In ca (rg_categories rg) /\
                     cat_code ca = cr_cat c /\ In rt (cat_rates ca) /\ key_first (cr_rate c) = rt_key rt.
Proof. exact combo_rate_key_resolves_lemma. Qed.
Print Assumptions combo_rate_key_resolves.

(* the rate-key rule is exact for the regime the look-up finds: a key whose first component is a rate
   of the category is accepted (extended keys such as `exempt+reverse-charge` stay valid) *)
Theorem rate_key_with_defined_first_component_accepted :
  forall (r : regime) (ca : category) (cat rate : str) (rt : ratedef),
    category_for r cat = Some ca -> In rt (cat_rates ca) -> key_first rate = rt_key rt ->
    in_category_rates (Some r) cat rate = true.
Proof. exact in_category_rates_complete. Qed.
Print Assumptions rate_key_with_defined_first_component_accepted.

(* the repaired rule accepts no more than the rule as shipped before it ... *)
Theorem rate_key_rule_stricter_than_shipped :
  forall (r : option regime) (cat rate : str),
    in_category_rates r cat rate = true -> in_category_rates_any_part r cat rate = true.
Proof. exact in_category_rates_stricter. Qed.
Print Assumptions rate_key_rule_stricter_than_shipped.

(* ... and strictly less: as shipped, `bogus+standard` was accepted in ES VAT (`standard` is SOME
   component) although `bogus` is not a rate there; after the repair it is refused like `bogus` *)
Theorem rate_key_any_component_shipped_refuted :
  let es := regime_for in_code_defs "ES" in
  in_category_rates_any_part es "VAT" "bogus+standard" = true /\
  in_category_rates es "VAT" "bogus+standard" = false /\
  in_category_rates es "VAT" "bogus" = false /\
  in_category_rates es "VAT" "bogus+standard+x" = false /\
  in_category_rates es "VAT" "eqs+standard" = false /\
  in_category_rates es "VAT" "standard+bogus" = true /\
  in_category_rates es "VAT" "standard+eqs" = true /\
  in_category_rates es "VAT" "exempt+reverse-charge" = true.
Proof. exact rate_key_any_part_witness. Qed.
Print Assumptions rate_key_any_component_shipped_refuted.

(* every extension entry, in a combo or anywhere else: defined key, listed code, matching pattern *)
Theorem extension_value_allowed_or_matches_pattern :
  forall (mp : bytes -> bytes -> bool) (d : defs) (r : doc_refs) (k v : str),
    validate_refs mp d r = true ->
    ((exists e, In e (r_exts r) /\ er_key e = k /\ er_value e = v) \/
     (exists c, In c (r_combos r) /\ In (k, v) (cr_ext c))) ->
    exists kd, ExtDefined d kd /\ kd_key kd = k /\
               (kd_values kd = [] \/ In v (map vd_code (kd_values kd))) /\
               (kd_pattern kd = [] \/ mp (kd_pattern kd) v = true).
Proof. exact extension_value_allowed_or_matches_pattern_lemma. Qed.
Print Assumptions extension_value_allowed_or_matches_pattern.

(* every tag is offered by the regime or an addon in use, for the document's type *)
Theorem tag_offered_for_doc_type :
  forall (mp : bytes -> bytes -> bool) (d : defs) (r : doc_refs) (t : str),
    validate_refs mp d r = true -> In t (r_tags r) ->
    (exists rg, RegimeOf d (r_regime r) rg /\ Offers (rg_tags rg) (r_schema r) t) \/
    (exists a, In (ad_key a) (r_addons r) /\ In a (df_addons d) /\ Offers (ad_tags a) (r_schema r) t).
Proof. exact tag_offered_for_doc_type_lemma. Qed.
Print Assumptions tag_offered_for_doc_type.

Theorem currencies_and_countries_known :
  forall (mp : bytes -> bytes -> bool) (d : defs) (r : doc_refs),
    validate_refs mp d r = true ->
    (forall c, In c (r_currencies r) -> ur_code c <> [] -> In (ur_code c) (df_currencies d)) /\
    (forall k, In k (r_countries r) -> kr_code k <> [] ->
       match kr_kind k with
       | CkISO => In (kr_code k) (df_iso_countries d)
       | CkTax | CkCombo => In (kr_code k) (df_tax_countries d)
       | CkRegime => exists rg, RegimeOf d (kr_code k) rg
       end).
Proof. exact currencies_and_countries_known_lemma. Qed.
Print Assumptions currencies_and_countries_known.

(* the runner's matcher understands every pattern a registered or published extension declares *)
Theorem all_patterns_supported :
  forallb (fun kd => is_empty (kd_pattern kd) || pattern_supported (kd_pattern kd))
          (ext_defs in_code_defs ++ ext_defs published_defs) = true.
Proof. exact all_patterns_supported_lemma. Qed.
Print Assumptions all_patterns_supported.

(* ---- non-vacuity ---- *)

(* the hypothesis of refcheck_sound is satisfiable: a realistic view (12+ references of every kind)
   is accepted over the generated tables *)
Example a_document_validates :
  validate_refs simple_match in_code_defs es_view = true /\ (12 <= Z.of_nat (List.length (refs es_view)))%Z.
Proof. exact (conj es_view_validates es_view_refs). Qed.

(* ... and it is not always satisfied: one undefined reference of each kind is rejected *)
Example undefined_references_are_rejected :
  map (validate_refs simple_match in_code_defs)
      [ mkDocRefs "ES" ["zz-unknown"] "bill/invoice" [] [] [] [] [];
        mkDocRefs "ES" [] "bill/invoice" ["zz-unknown"] [] [] [] [];
        mkDocRefs "ES" [] "bill/order" ["simplified"] [] [] [] [];
        mkDocRefs "ES" [] "bill/invoice" [] [mkComboRef "" "QQ" "" "" []] [] [] [];
        mkDocRefs "ES" [] "bill/invoice" [] [mkComboRef "" "VAT" "zz-unknown" "" []] [] [] [];
        mkDocRefs "ES" [] "bill/invoice" [] [mkComboRef "" "VAT" "bogus+standard" "" []] [] [] [];
        mkDocRefs "ES" [] "bill/invoice" [] [mkComboRef "" "VAT" "standard" "QQ" []] [] [] [];
        mkDocRefs "ES" [] "bill/invoice" [] [] [mkExtRef "" "zz-unknown" "1"] [] [];
        mkDocRefs "ES" [] "bill/invoice" [] [] [mkExtRef "" "es-facturae-doc-type" "QQ"] [] [];
        mkDocRefs "ES" [] "bill/invoice" [] [] [] [mkCurrencyRef "" "XXX"] [];
        mkDocRefs "ES" [] "bill/invoice" [] [] [] [] [mkCountryRef "" CkISO "QQ"];
        mkDocRefs "ES" [] "bill/invoice" [] [] [] [] [mkCountryRef "" CkRegime "QQ"] ]
  = repeat false 12.
Proof. exact undefined_references_rejected. Qed.

(* pattern-valued extensions: a matching value is accepted, others are not *)
Example pattern_values :
  validate_refs simple_match in_code_defs (pattern_view "11001") = true /\
  validate_refs simple_match in_code_defs (pattern_view "1100") = false /\
  validate_refs simple_match in_code_defs (pattern_view "1100A") = false.
Proof. exact pattern_view_checks. Qed.

(* the quantifiers of the generated-data theorems range over this much *)
Example the_tables_are_not_empty :
  (19 <= Z.of_nat (List.length (df_regimes in_code_defs)))%Z /\ (14 <= Z.of_nat (List.length (df_addons in_code_defs)))%Z /\
  (60 <= Z.of_nat (List.length (ext_defs in_code_defs)))%Z /\ (150 <= Z.of_nat (List.length (df_currencies in_code_defs)))%Z /\
  (240 <= Z.of_nat (List.length (df_iso_countries in_code_defs)))%Z /\ (240 <= Z.of_nat (List.length (df_tax_countries in_code_defs)))%Z.
Proof. exact c18_table_sizes. Qed.
