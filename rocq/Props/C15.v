(* C15 - Concurrent use is race-free, result-equivalent, and bulk replies pair up.
   Property theorems only; proofs are in Conc/BulkProofs.v and Conc/SlicesProofs.v.

   Part 1 (bulk): Conc/Bulk.v is a labelled transition system for cli.Bulk - reader, one worker
   per request, wait group, final marker, FIFO output channel.  `complete i ls s'` says: the label
   list ls is an execution (every label enabled when taken) from the initial state on input i to a
   terminal state s'.  Req, the request-id projection rid and the per-request operation f are
   arbitrary.
   Part 2 (shared definitions): Conc/Slices.v is a heap model of Go slices and of the helpers that
   build merged tag / scenario / correction sets from registry definitions for each document.
   `preserved h0 h`: every array (whole capacity) and object of h0 is unchanged in h.

   What is NOT covered by these theorems (search only: snapshot sweep, stress under the race
   detector): Go's memory model and scheduler, and every function outside the modelled helpers. *)
From Coq Require Import List ZArith Bool Permutation.
From Coq Require Import Strings.Byte.
From Verif Require Import Base.Wire Conc.Bulk Conc.BulkProofs Conc.Slices Conc.SlicesProofs.
Import ListNotations.

(* For every request list (no bound on its length), either ending, and EVERY complete execution:
   the output is a permutation of exactly one reply per request - own req_id, seq_id = 1-based
   position, body = f request - followed by exactly one final marker with seq_id = n+1. *)
Theorem bulk_all_schedules (Req : Type) (rid f : Req -> bytes) (i : input Req) ls s' :
  complete Req rid f i ls s' ->
  exists body,
    out Req s' = body ++ [final_marker (fin Req i) (length (reqs Req i))] /\
    Permutation body (replies_from Req rid f 1 (reqs Req i)).
Proof. exact (all_schedules Req rid f i ls s'). Qed.
Print Assumptions bulk_all_schedules.

(* the acceptance predicate the harness evaluates on observed output streams is exactly
   "some schedule of the model produces this output" *)
Theorem valid_output_iff_schedule (Req : Type) (rid f : Req -> bytes) (i : input Req) (o : list reply) :
  accepts Req rid f i o = true <-> exists ls s', complete Req rid f i ls s' /\ out Req s' = o.
Proof. exact (accepts_iff_schedule Req rid f i o). Qed.
Print Assumptions valid_output_iff_schedule.

(* non-vacuity: complete executions exist, with genuinely reordered output (3 requests, replies
   leave in the order 3,1,2), and an output with a wrong seq_id is rejected *)
Example bulk_nonvacuous :
  let rq := [([x61], [x41]); ([x62], [x42]); ([x63], [x43])] in
  let i := mkInput (bytes * bytes) rq Eof in
  let ls := [LRead; LRead; LRead; LSend 2; LEnd; LSend 0; LSend 0; LFinal] in
  (exists s', complete _ fst snd i ls s' /\
     map rp_seq (out _ s') = [3; 1; 2; 4]%nat /\ accepts _ fst snd i (out _ s') = true) /\
  accepts _ fst snd i [mkReply ([x61]) 1 ([x41]) false; mkReply ([x62]) 3 ([x42]) false;
                       mkReply ([x63]) 2 ([x43]) false; mkReply [] 4 [] true] = false /\
  (* a final marker that overtakes a reply is not an execution *)
  run _ fst snd Eof (init _ i) [LRead; LRead; LRead; LEnd; LSend 0; LFinal] = None.
Proof. vm_compute. split; [eexists; repeat split|split; reflexivity]. Qed.

(* Shared registry definitions are never written by the per-document helpers: REFUTED for the
   code as shipped (TagSet.Merge: `nl := ts.List` then append into spare capacity) ... *)
Theorem registry_never_written_refuted :
  exists h0 cs, ~ preserved h0 (do_calls false h0 cs).
Proof. exact never_written_shipped_refuted. Qed.
Print Assumptions registry_never_written_refuted.

(* ... true as shipped for the helpers that do not go through TagSet.Merge ... *)
Theorem registry_never_written_partial h0 cs :
  Forall (fun c => match c with CSupportedTags _ _ => False | _ => True end) cs ->
  preserved h0 (do_calls false h0 cs).
Proof. exact (never_written_shipped_partial h0 cs). Qed.
Print Assumptions registry_never_written_partial.

(* ... and true of every call sequence, on every heap, once Merge copies its receiver's list *)
Theorem registry_never_written h0 cs : preserved h0 (do_calls true h0 cs).
Proof. exact (never_written_repaired h0 cs). Qed.
Print Assumptions registry_never_written.

Example registry_nonvacuous :
  arrays (do_calls true wit_heap wit_calls) =
    [[1; 2; 0; 0]%Z; [7%Z]; [1; 2; 7]%Z; [1; 2; 7]%Z] /\
  read (fst (supported_tags true wit_heap (Some wit_regime) [wit_addon]))
       (snd (supported_tags true wit_heap (Some wit_regime) [wit_addon])) = [1; 2; 7]%Z /\
  nth 0 (arrays (do_calls false wit_heap wit_calls)) [] = [1; 2; 7; 0]%Z.
Proof. exact repaired_witness. Qed.

(* non-vacuity of registry_never_written_partial: a call sequence without supportedTags that
   really allocates (scenario summary and correction definition on the witness heap) *)
Example registry_partial_nonvacuous :
  let cs := [CScenarioSummary (Some wit_regime) [wit_addon]; CCorrectionDef (Some wit_regime) [wit_addon]] in
  Forall (fun c => match c with CSupportedTags _ _ => False | _ => True end) cs /\
  length (arrays (do_calls false wit_heap cs)) = 4%nat /\ length (corrdefs (do_calls false wit_heap cs)) = 1%nat.
Proof. split; [repeat constructor|vm_compute; split; reflexivity]. Qed.
