(* C16 - Correct / replicate yield a linked new document and leave the source intact.

   Model: Correct/Correct.v.  An envelope is (identifier, header stamps, signatures, digest, invoice);
   stamps are OBJECTS (addresses into a heap of head.Stamp values) because they are the one thing
   the code moves by pointer; `state` = heap + allocation mark.  `copy_head` selects the code as it
   stands (false: o.Stamps = append(o.Stamps, o.Head.Stamps...)) or the code after the proposed
   repair fixes/C16-copy-header-stamps.diff (true: the stamp objects are copied).

   Parameters of every statement: calc (Invoice.Calculate; None = error), digest (C08), today
   (cal.Today), u_head / u_doc (the two identifiers uuid.V7 hands out - "fresh" is the hypothesis
   that they differ from the source's).
   calc_keeps_header - Calculate leaves identifier, type, series, code, dates and the preceding
   references (tax totals up to presence) as they are - is a PREMISE of the shape theorems.  It is
   not proved (Calculate is thousands of lines of regime code); tools/props/c16.py observes it on
   every accepted case, with one designed exception it accounts for: the es-verifactu addon moves
   the `es-verifactu-doc-type` extension from the preceding reference to the document's tax.ext. *)
From Coq Require Import List Bool Strings.Byte String Arith Lia.
From Verif Require Import Base.Wire Correct.Correct Correct.CorrectProofs Correct.HeapProofs.
Import ListNotations.

(* ---- when is a correction accepted (Invoice.Correct's own refusals; CalcError = the new document
        could not be calculated) ---- *)
Theorem correct_accepts_iff :
  forall (T B : Type) (calc : invoice T B -> option (invoice T B))
         (copy_head : bool) (cd : cdef) (today : bytes) (opts : list opt) (st : state) (inv : invoice T B),
    (snd (correct calc copy_head cd today opts st inv) = Err CalcError \/
     exists r, snd (correct calc copy_head cd today opts st inv) = Ok r)
    <->
    (exists o, snd (resolve copy_head opts st) = Some o (* the options could be read ... *) /\
       o_type o <> []                                   (* ... and name a type *) /\
       i_code inv <> []                                 (* the source has a code *) /\
       stamps_available (st_heap (fst (resolve copy_head opts st))) o cd
                                                        (* every stamp the definition requires is on offer *) /\
       type_allowed cd o                                (* the type is one the regime and addons allow, if they list any *) /\
       reason_given cd o).                              (* a reason, if they require one *)
Proof. exact correct_passes_iff. Qed.
Print Assumptions correct_accepts_iff.

(* ---- what an accepted correction looks like (Envelope.Correct) ---- *)
Theorem correct_result_shape :
  forall (T B D : Type) (calc : invoice T B -> option (invoice T B)) (digest : invoice T B -> D)
         (copy_head : bool) (regime : option (list cdef)) (addons : list (list cdef)) (today u_head u_doc : bytes)
         (opts : list opt) (st : state) (e : envelope T B D) (st2 : state) (e' : envelope T B D),
    calc_keeps_header T B calc ->
    env_correct calc digest copy_head regime addons today u_head u_doc opts st e = (st2, Ok e') ->
    let cd := correction_def regime addons in
    let opts' := match e_stamps e with [] => opts | _ => opts ++ [WithHead (e_stamps e)] end in
    let st1 := fst (clone st (e_doc e)) in
    exists o, resolve copy_head opts' st1 = (st2, Some o) /\
      e_uuid e' = u_head /\ e_stamps e' = [] /\ e_sigs e' = [] /\ e_dig e' = digest (e_doc e') /\
      i_uuid (e_doc e') = u_doc /\
      i_code (e_doc e') = [] /\ i_type (e_doc e') = o_type o /\ o_type o <> [] /\ type_allowed cd o /\
      i_series (e_doc e') = (if is_empty (o_series o) then i_series (e_doc e) else o_series o) /\
      i_issue (e_doc e') = (match o_issue o with Some d => d | None => today end) /\
      exists p, i_preceding (e_doc e') = [p] /\
        r_uuid p = i_uuid (e_doc e) /\ r_type p = i_type (e_doc e) /\ r_series p = i_series (e_doc e) /\
        r_code p = i_code (e_doc e) /\ r_code p <> [] /\ r_issue p = Some (i_issue (e_doc e)) /\
        r_reason p = o_reason o /\ reason_given cd o /\ r_ext p = o_ext o /\
        map (prv_at (st_heap st2)) (r_stamps p) = cd_stamps cd /\ incl (r_stamps p) (o_stamps o) /\
        (r_tax p <> None <-> o_copy_tax o = true /\ exists t, i_taxes (e_doc e) = Some (Some t)).
Proof. intros T B D calc digest. exact (env_correct_shape T B calc D digest). Qed.
Print Assumptions correct_result_shape.

(* given a fresh supply the identifiers are new *)
Corollary correction_has_new_identifiers :
  forall (T B D : Type) (calc : invoice T B -> option (invoice T B)) (digest : invoice T B -> D)
         (copy_head : bool) regime addons today u_head u_doc opts st (e : envelope T B D) st2 e',
    calc_keeps_header T B calc ->
    u_head <> e_uuid e -> u_doc <> i_uuid (e_doc e) ->
    env_correct calc digest copy_head regime addons today u_head u_doc opts st e = (st2, Ok e') ->
    e_uuid e' <> e_uuid e /\ i_uuid (e_doc e') <> i_uuid (e_doc e).
Proof.
  intros T B D calc digest c regime addons today uh ud opts st e st2 e' K N1 N2 E.
  destruct (env_correct_shape T B calc D digest c regime addons today uh ud opts st e st2 e' K E) as [o [_ [U1 [_ [_ [_ [U2 _]]]]]]].
  rewrite U1, U2. split; assumption.
Qed.
Print Assumptions correction_has_new_identifiers.

(* ---- a replica ---- *)
Theorem replicate_result_shape :
  forall (T B D : Type) (calc : invoice T B -> option (invoice T B)) (digest : invoice T B -> D)
         (today u_head u_doc : bytes) (st : state) (e : envelope T B D) (st1 : state) (e' : envelope T B D),
    calc_keeps_header T B calc -> u_doc <> [] ->
    env_replicate calc digest today u_head u_doc st e = (st1, Ok e') ->
    e_uuid e' = u_head /\ e_stamps e' = [] /\ e_sigs e' = [] /\ e_dig e' = digest (e_doc e') /\
    i_uuid (e_doc e') = u_doc /\ i_code (e_doc e') = [] /\ i_issue (e_doc e') = today /\
    i_value_date (e_doc e') = None /\ i_op_date (e_doc e') = None /\
    i_type (e_doc e') = i_type (e_doc e) /\ i_series (e_doc e') = i_series (e_doc e) /\
    List.length (i_preceding (e_doc e')) = List.length (i_preceding (e_doc e)).
Proof. intros T B D calc digest. exact (env_replicate_shape T B calc D digest). Qed.
Print Assumptions replicate_result_shape.

(* the document-level step keeps everything else (before Calculate runs again) *)
Theorem replicate_keeps_business_content :
  forall (T B : Type) (today : bytes) (inv : invoice T B),
    let r := replicate today inv in
    i_uuid r = [] /\ i_code r = [] /\ i_issue r = today /\ i_value_date r = None /\ i_op_date r = None /\
    i_type r = i_type inv /\ i_series r = i_series inv /\ i_preceding r = i_preceding inv /\
    i_taxes r = i_taxes inv /\ i_body r = i_body inv.
Proof. exact replicate_shape. Qed.
Print Assumptions replicate_keeps_business_content.

(* ---- the source is left intact ---- *)
(* On the value level this is trivial - the functions return a new envelope and the source is an
   argument.  The content is on the heap level.  `a < st_next st` = every object that existed
   before the call, in particular every object of the source envelope. *)

(* Replicate never writes to an existing object. *)
Theorem replicate_source_unchanged :
  forall (T B D : Type) (calc : invoice T B -> option (invoice T B)) (digest : invoice T B -> D)
         today u_head u_doc st (e : envelope T B D) st1 res,
    env_replicate calc digest today u_head u_doc st e = (st1, res) ->
    forall a, a < st_next st -> hget (st_heap st1) a = hget (st_heap st) a.
Proof. exact env_replicate_no_write. Qed.
Print Assumptions replicate_source_unchanged.

(* The code as it stands: Correct writes to no existing object PROVIDED no raw JSON options name stamps *)
Theorem source_unchanged_partial :
  forall (T B D : Type) (calc : invoice T B -> option (invoice T B)) (digest : invoice T B -> D)
         regime addons today u_head u_doc opts st (e : envelope T B D) st2 res,
    Forall opt_no_data_stamps opts ->
    env_correct calc digest false regime addons today u_head u_doc opts st e = (st2, res) ->
    forall a, a < st_next st -> hget (st_heap st2) a = hget (st_heap st) a.
Proof. exact env_correct_alias_no_write. Qed.
Print Assumptions source_unchanged_partial.

(* ... and without that proviso it is false: a source with a header stamp, options given as raw JSON
   that name a stamp - the header stamp of the SOURCE is overwritten (finding
   C16-data-stamps-overwrite-source-header; confirmed on the implementation). *)
Local Open Scope string_scope.
Definition w_calc (i : invoice unit unit) : option (invoice unit unit) := Some i.
Definition w_digest (i : invoice unit unit) : unit := tt.
Definition w_state : state := mkSt [(1, mkSC (bs "ksef-id") (bs "ORIGINAL"))] 10.
Definition w_source : envelope unit unit unit :=
  mkEnv (bs "env-1") [1] [bs "signature"] tt
        (mkInv (bs "doc-1") (bs "standard") (bs "S") (bs "001") (bs "2024-01-01") None None [] None tt).
Definition w_regime : option (list cdef) :=
  Some [mkDef (bs "bill/invoice") [bs "credit-note"] [] true [bs "ksef-id"] false].
Definition w_json : opt :=
  WithData (Data (mkData (Some (bs "credit-note")) None None
                         (Some [mkDS (Some (bs "ksef-id")) (Some (bs "EVIL"))]) (Some (bs "r")) None None)).
Definition w_plain : list opt := [WithType (bs "credit-note"); WithReason (bs "r")].

Theorem source_unchanged_refuted :
  exists (opts : list opt) (st : state) (e : envelope unit unit unit) st2 e' a,
    env_correct w_calc w_digest false w_regime [] (bs "2026-10-01") (bs "env-2") (bs "doc-2") opts st e = (st2, Ok e') /\
    In a (e_stamps e) /\ a < st_next st /\
    hget (st_heap st) a = Some (mkSC (bs "ksef-id") (bs "ORIGINAL")) /\
    hget (st_heap st2) a = Some (mkSC (bs "ksef-id") (bs "EVIL")).
Proof.
  exists [w_json], w_state, w_source. eexists. eexists. exists 1.
  split; [vm_compute; reflexivity|]. split; [cbn; auto|]. split; [cbn; lia|]. split; vm_compute; reflexivity.
Qed.
Print Assumptions source_unchanged_refuted.

(* The code as it stands also shares objects: the stamp in the new document's preceding reference IS
   the source header's stamp object (aliasing observation of the sweep; no write happens here). *)
Theorem result_shares_no_mutable_cell_with_source_refuted :
  exists (opts : list opt) (st : state) (e : envelope unit unit unit) st2 e' p a,
    env_correct w_calc w_digest false w_regime [] (bs "2026-10-01") (bs "env-2") (bs "doc-2") opts st e = (st2, Ok e') /\
    i_preceding (e_doc e') = [p] /\ In a (r_stamps p) /\ In a (e_stamps e).
Proof.
  exists w_plain, w_state, w_source. eexists. eexists. eexists. exists 1.
  split; [vm_compute; reflexivity|]. split; [vm_compute; reflexivity|]. split; cbn; auto.
Qed.
Print Assumptions result_shares_no_mutable_cell_with_source_refuted.

(* After the proposed repair (copy_head = true) both hold without proviso: for every set S of objects
   that existed before the call and that the caller's own options do not point into - e.g. all
   objects of the source - nothing in S is written and the new document's preceding reference holds
   no object of S. *)
Theorem source_unchanged_after_repair :
  forall (T B D : Type) (calc : invoice T B -> option (invoice T B)) (digest : invoice T B -> D)
         (S : list addr) regime addons today u_head u_doc opts st (e : envelope T B D) st2 res,
    below S (st_next st) -> opts_avoid S opts ->
    env_correct calc digest true regime addons today u_head u_doc opts st e = (st2, res) ->
    same_on S (st_heap st) (st_heap st2) /\
    (forall e', res = Ok e' -> calc_keeps_header T B calc ->
       forall p, In p (i_preceding (e_doc e')) -> avoids (r_stamps p) S).
Proof. exact env_correct_copy_leaves_source. Qed.
Print Assumptions source_unchanged_after_repair.

(* ---- non-vacuity ---- *)
Example calc_keeps_header_is_satisfiable : calc_keeps_header unit unit w_calc.
Proof. intros i i' E. injection E as <-. reflexivity. Qed.

Example an_accepted_correction_and_every_refusal :
  let run := fun opts e => snd (env_correct w_calc w_digest false w_regime [] (bs "2026-10-01") (bs "env-2") (bs "doc-2") opts w_state e) in
  let no_code := mkEnv (bs "env-1") [1] [] tt (mkInv (bs "doc-1") (bs "standard") [] [] (bs "2024-01-01") None None [] None tt) in
  let unstamped := mkEnv (bs "env-1") [] [] tt (e_doc w_source) in
  (exists e', run w_plain w_source = Ok e' /\ i_type (e_doc e') = bs "credit-note" /\ i_code (e_doc e') = [] /\
              e_sigs e' = [] /\ i_uuid (e_doc e') = bs "doc-2") /\
  run [WithReason (bs "r")] w_source = Err MissingType /\
  run [WithData BadData] w_source = Err BadOptionsData /\
  run w_plain no_code = Err NoCode /\
  run w_plain unstamped = Err (MissingStamp (bs "ksef-id")) /\
  run [WithType (bs "debit-note"); WithReason (bs "r")] w_source = Err InvalidType /\
  run [WithType (bs "credit-note")] w_source = Err MissingReason.
Proof. cbn zeta. split; [eexists; vm_compute; repeat split|]. vm_compute. repeat split. Qed.

Example after_repair_the_witness_is_harmless :
  exists st2 e', env_correct w_calc w_digest true w_regime [] (bs "2026-10-01") (bs "env-2") (bs "doc-2") [w_json] w_state w_source = (st2, Ok e') /\
    hget (st_heap st2) 1 = Some (mkSC (bs "ksef-id") (bs "ORIGINAL")) /\
    (forall p, In p (i_preceding (e_doc e')) -> ~ In 1 (r_stamps p)).
Proof.
  eexists. eexists. split; [vm_compute; reflexivity|]. split; [vm_compute; reflexivity|].
  vm_compute. intros p [<-|[]] [X|[]]. discriminate.
Qed.

(* the merged definition: regime first, then addons, members concatenated (es + es-tbai-v1) *)
Example merged_definition_example :
  correction_def (Some [mkDef (bs "bill/invoice") [bs "credit-note"; bs "corrective"; bs "debit-note"] [] false [] false])
                 [[mkDef (bs "bill/invoice") [] [bs "es-tbai-correction"] false [] false]]
  = mkDef (bs "bill/invoice") [bs "credit-note"; bs "corrective"; bs "debit-note"] [bs "es-tbai-correction"] false [] false.
Proof. vm_compute. reflexivity. Qed.
