(* C16 - placeholder (kept compiling); replaced by the real statements. *)
From Verif Require Import Correct.Correct.
Theorem placeholder_c16 : True. Proof. exact I. Qed.
Print Assumptions placeholder_c16.
