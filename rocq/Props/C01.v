(* C01 - Invoice totals: structure of the calculation and, under the 'precise' rule, the distance
   of presented totals from the exact value.
   Property theorems only; every proof is `exact <lemma>` from Calc/BoundProofs.v (or reflexivity
   for the model's constants).  The statements are about the calculation model Calc/Calc.v, tied to
   bill/calculator.go, bill/line_calculate.go by the differential check tools/props/c01.py.
   toQ a is the rational an amount denotes, roundQ e q is q rounded half away from zero to e
   decimals, unitQ e = 10^-e (one unit of the e-th decimal; unitQ c is one minor currency unit). *)
From Coq Require Import ZArith QArith Qabs List Bool.
From Verif Require Import Base.Rha Num.Amount Num.AmountProofs Calc.Doc Calc.Calc Calc.BoundProofs.
Import ListNotations.
Open Scope Q_scope.

Theorem calc_of_empty_document_has_no_totals c cr pit cur rates adv dues rnd :
  calculate (mkDoc c cr pit cur nil nil nil rates adv dues rnd) = NoTotals nil.
Proof. reflexivity. Qed.
Print Assumptions calc_of_empty_document_has_no_totals.

(* the model's constants (bill.linePrecisionExtra, the "+ 2" of TotalCalculator.prepareLines) *)
Theorem line_precision_extra_is_2 : line_precision_extra = 2%nat.
Proof. reflexivity. Qed.
Print Assumptions line_precision_extra_is_2.

Theorem tax_precision_extra_is_2 : tax_precision_extra = 2%nat.
Proof. reflexivity. Qed.
Print Assumptions tax_precision_extra_is_2.

(* plain_line l: no breakdown, no line discounts / charges, no taxes, item priced in the document
   currency.  line_price c l: the price raised to at least c + 2 decimals (value unchanged).
   Partial: lines with sub-lines, discounts, charges or a currency conversion are not covered. *)
Theorem line_sum_is_rounded_product_partial c cur rates l : plain_line l ->
  exists lc, calc_line false c cur rates l = Some lc /\
    let e := exp (line_price c l) in
    exp (lc_sum lc) = e /\ (c + 2 <= e)%nat /\
    val (lc_sum lc) = roundQ e (toQ (it_price (ln_item l)) * toQ (ln_qty l)) /\
    lc_total lc = lc_sum lc /\
    Qabs (toQ (lc_sum lc) - toQ (it_price (ln_item l)) * toQ (ln_qty l)) <= (1 # 2) * unitQ (c + 2).
Proof. exact (line_sum_is_rounded_product c cur rates l). Qed.
Print Assumptions line_sum_is_rounded_product_partial.

(* the accumulator of the document sum loses nothing; presentation moves a figure by at most half
   a minor unit *)
Theorem document_sum_is_exact_sum_of_line_totals xs s :
  toQ (fold_left acc xs s) == toQ s + sumQ xs.
Proof. exact (fold_acc_toQ xs s). Qed.
Print Assumptions document_sum_is_exact_sum_of_line_totals.

Theorem presentation_rounding_error a e : Qabs (toQ (rescale a e) - toQ a) <= (1 # 2) * unitQ e.
Proof. exact (rescale_error a e). Qed.
Print Assumptions presentation_rounding_error.

(* FULL CLAIM (C01, last sentence), not proved here:
     for every document d with d_currency_rule d = false and at most N lines (N "ordinary-sized"),
     calculate d = Totals t implies, for EVERY presented figure f of t (sum, discount, charge,
     tax included, total, tax, total with tax, payable, advances, due, every category / rate base
     and amount, and every line's sum / total),
        Qabs (toQ (f t) - exact_f d) < unitQ (d_c d)
     where exact_f d is the same figure computed in exact rational arithmetic (no rounding).
   PROVED below (_partial): the figures sum, total, total with tax and payable of a PLAIN document:
   'precise' rule, 1..99 plain lines (see plain_line), no document discounts / charges, no
   externally supplied rounding; exact_sum = sum over the lines of price x quantity.
   Missing: line and document discounts and charges, taxes (group / category amounts, included
   taxes), currency conversions, sub-line breakdowns, advances and due amounts. *)
Theorem precise_sum_error_bound_partial d : plain_doc d -> (length (d_lines d) <= 99)%nat ->
  exists t, calculate d = Totals t /\
    t_total t = t_sum t /\ t_twt t = t_sum t /\ t_payable t = t_sum t /\
    Qabs (toQ (t_sum t) - exact_sum (d_lines d)) < unitQ (d_c d).
Proof. exact (precise_sum_error_bound d). Qed.
Print Assumptions precise_sum_error_bound_partial.

(* the bound behind it, for any number n of lines: n/200 + 1/2 minor units *)
Theorem precise_sum_error_bound_n_lines_partial d : plain_doc d ->
  exists t, calculate d = Totals t /\
    t_total t = t_sum t /\ t_twt t = t_sum t /\ t_payable t = t_sum t /\
    Qabs (toQ (t_sum t) - exact_sum (d_lines d)) <=
      (inject_Z (Z.of_nat (length (d_lines d))) * (1 # 200) + (1 # 2)) * unitQ (d_c d).
Proof. exact (precise_sum_error_bound_n d). Qed.
Print Assumptions precise_sum_error_bound_n_lines_partial.

(* 3 x 0.3333 + 7 x 1.005 at two decimals: exact 8.0349, presented 8.03 *)
Definition c01_example_doc : doc :=
  mkDoc 2 false [] 1
        [mkLine (mkA 3 0) (mkItem (mkA 3333 4) None []) [] [] [] [];
         mkLine (mkA 7 0) (mkItem (mkA 1005 3) None []) [] [] [] []]
        [] [] [] [] [] None.
Example precise_sum_error_bound_applies :
  plain_doc c01_example_doc /\ (length (d_lines c01_example_doc) <= 99)%nat /\
  plain_line (mkLine (mkA 3 0) (mkItem (mkA 3333 4) None []) [] [] [] []) /\
  exists t, calculate c01_example_doc = Totals t /\ t_sum t = mkA 803 2 /\
            exact_sum (d_lines c01_example_doc) == 80349 # 10000.
Proof.
  split; [|split; [|split]].
  - unfold plain_doc, plain_line. cbn. repeat split; try discriminate. repeat constructor.
  - cbn. repeat constructor.
  - repeat split.
  - eexists. split; [vm_compute; reflexivity|]. split; reflexivity.
Qed.
