(* C01 - placeholder replaced below by the real statements (kept compiling at every commit). *)
From Coq Require Import ZArith.
From Verif Require Import Num.Amount Calc.Doc Calc.Calc.
Theorem calc_of_empty_document_has_no_totals c cr pit cur rates adv dues rnd :
  calculate (mkDoc c cr pit cur nil nil nil rates adv dues rnd) = NoTotals nil.
Proof. reflexivity. Qed.
Print Assumptions calc_of_empty_document_has_no_totals.
