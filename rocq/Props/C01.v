(* C01 - Invoice totals: every calculated figure equals a declarative specification over the
   rationals (Calc/Ideal.v) for EVERY document, and, under the 'precise' rule, the distance of the
   presented totals from the unrounded exact value.
   Property theorems only; every proof is `exact <lemma>` from Calc/IdealProofs.v,
   Calc/IdealBoundProofs.v, Calc/BoundProofs.v (or reflexivity for the model's constants).  The statements are about the calculation model Calc/Calc.v, tied to
   bill/calculator.go, bill/line_calculate.go by the differential check tools/props/c01.py.
   toQ a is the rational an amount denotes, roundQ e q is q rounded half away from zero to e
   decimals, unitQ e = 10^-e (one unit of the e-th decimal; unitQ c is one minor currency unit). *)
From Coq Require Import ZArith QArith Qabs List Bool.
From Verif Require Import Base.Rha Num.Amount Num.AmountProofs Calc.Doc Calc.Calc Calc.BoundProofs
  Calc.Ideal Calc.IdealProofs Calc.IdealClass Calc.IdealBoundProofs.
Import ListNotations.
Open Scope Q_scope.

Theorem calc_of_empty_document_has_no_totals c cr pit cur rates adv dues rnd :
  calculate (mkDoc c cr pit cur nil nil nil rates adv dues rnd) = NoTotals nil.
Proof. reflexivity. Qed.
Print Assumptions calc_of_empty_document_has_no_totals.

(* the model's constants (bill.linePrecisionExtra, the "+ 2" of TotalCalculator.prepareLines) *)
Theorem line_precision_extra_is_2 : line_precision_extra = 2%nat.
Proof. reflexivity. Qed.
Print Assumptions line_precision_extra_is_2.

Theorem tax_precision_extra_is_2 : tax_precision_extra = 2%nat.
Proof. reflexivity. Qed.
Print Assumptions tax_precision_extra_is_2.

(* ------------------------------------------------------------------------------------------ *)
(* FULL CLAIM, first sentence: every figure equals exact decimal arithmetic with rounding half  *)
(* away from zero at the stated points - for EVERY document                                     *)
(* ------------------------------------------------------------------------------------------ *)
(* Calc/Ideal.v is the declarative specification: `ideal d` gives, for each figure the property
   names, a formula over Q in the supplied quantities, prices, percentages and exchange rates in
   which `rnd e` (round half away from zero to e decimals) occurs only at the rounding points, and
   the number of decimals each figure is held at (a `fig` = value fq + decimals fp).
   `den a f` : the amount a denotes exactly the figure f (toQ a == fq f) and has fp f decimals.
   `pres c a q` : a denotes q and has c decimals.  `refines c t it` : every presented figure of t
   (lines: price, sum, total, discount / charge rows, sub-lines; sum, discount, charge, tax
   included, total, tax, total with tax, payable, advances, due; discount / charge / advance / due
   rows) is the corresponding figure of it.
   No restriction on the document: any lines, breakdowns, signs, line and document discounts and
   charges (fixed, percentage, with and without base, rate x quantity), foreign-currency items,
   taxes (included or not, retained, surcharges), advances, due dates, both rounding rules, any c. *)
Theorem calc_refines_ideal d t : calculate d = Totals t ->
  exists it, ideal d = Some it /\ refines (d_c d) t it.
Proof. exact (IdealProofs.calc_refines_ideal d t). Qed.
Print Assumptions calc_refines_ideal.

(* each line by itself (also when the document as a whole has no totals): price, sum, total,
   every discount and charge row and every sub-line denote the ideal figures, or both fail *)
Theorem line_figures_are_ideal cr c cur rates l :
  orel line_den (calc_line cr c cur rates l) (s_line rnd cr c cur rates l).
Proof. exact (calc_line_refines cr c cur rates l). Qed.
Print Assumptions line_figures_are_ideal.

(* a rate x quantity charge keeps every decimal of the product (nothing is rounded there) *)
Theorem rate_times_quantity_is_exact r q : rate_times r q = mkA (val r * val q) (exp r + exp q).
Proof. exact (rate_times_exact r q). Qed.
Print Assumptions rate_times_quantity_is_exact.

(* 3 x 0.3333 less 10% plus 0.125; a line priced by its breakdown with a 3-per-unit charge on 0.5
   units (1.50, every decimal of rate x quantity kept); 5% document discount, 1.00 document charge;
   21% tax; 50% advance; 50% due *)
Definition c01_rich_doc : doc :=
  let vat := mkCombo [Byte.x56] [] [] (Some (mkA 21 2)) None false [] in
  mkDoc 2 false [] 1
   [mkLine (mkA 3 0) (mkItem (mkA 3333 4) None []) []
           [mkLdc (mkA 0 0) (Some (mkA 10 2)) None None None] [mkLdc (mkA 125 3) None None None None] [vat];
    mkLine (mkA 7 0) (mkItem (mkA 1005 3) None []) [mkSub (mkA 2 0) (mkItem (mkA 1005 3) None []) [] []] []
           [mkLdc (mkA 0 0) None None (Some (mkA 3 0)) (Some (mkA 5 1))] [vat]]
   [mkDdc (mkA 0 0) (Some (mkA 5 2)) None [vat]] [mkDdc (mkA 100 2) None None []] []
   [mkProw (mkA 0 0) (Some (mkA 50 2))] [mkProw (mkA 0 0) (Some (mkA 50 2))] None.

Example calc_refines_ideal_applies :
  exists t it, calculate c01_rich_doc = Totals t /\ ideal c01_rich_doc = Some it /\
    t_sum t = mkA 1659 2 /\ t_discount t = Some (mkA 83 2) /\ t_charge t = Some (mkA 100 2) /\
    t_total t = mkA 1677 2 /\ t_tax t = mkA 331 2 /\ t_twt t = mkA 2008 2 /\ t_due t = Some (mkA 1004 2) /\
    i_total it == 1677 # 100 /\ i_tax it == 331 # 100 /\ i_twt it == 2008 # 100.
Proof.
  eexists. eexists. split; [vm_compute; reflexivity|]. split; [vm_compute; reflexivity|].
  repeat split.
Qed.

(* ------------------------------------------------------------------------------------------ *)
(* where the rounding points of the implementation are NOT the documented ones                  *)
(* ------------------------------------------------------------------------------------------ *)
(* far_from_exact d: 'precise' rule, at most one line, and the presented total is at least one
   full minor unit away from the unrounded exact value (exact d = the specification with no
   rounding at all).  Two independent causes, each replayed against the Go code:
   a price converted by an exchange rate is rounded to the currency's decimals before it is
   multiplied by the quantity (920.00 presented, 915.00 exact); the price of a line with a
   breakdown is rounded to the decimals of the sub-line prices (10.00 / 5.00).
   (A third cause found here - rate x quantity charges rounded at the decimals of the RATE,
   12.00 / 11.50 - was a defect and is repaired: bill/line_calculate.go now keeps every decimal of
   rate x quantity, Calc.rate_times, and such charges are inside the bound below.) *)
Theorem precise_error_bound_unrestricted_refuted :
  exists d, d_currency_rule d = false /\ (length (d_lines d) <= 1)%nat /\
    exists t x, calculate d = Totals t /\ exact d = Some x /\
      unitQ (d_c d) <= Qabs (toQ (t_total t) - i_total x).
Proof. exact IdealBoundProofs.precise_error_bound_unrestricted_refuted. Qed.
Print Assumptions precise_error_bound_unrestricted_refuted.

Theorem converted_price_rounded_before_multiplying_refuted : far_from_exact w_exchange.
Proof. exact w_exchange_far. Qed.
Print Assumptions converted_price_rounded_before_multiplying_refuted.

Theorem breakdown_price_rounded_before_multiplying_refuted : far_from_exact w_breakdown.
Proof. exact w_breakdown_far. Qed.
Print Assumptions breakdown_price_rounded_before_multiplying_refuted.

(* a converted price whose source has no more decimals than the document's currency is the exact
   product price x rate rounded ONCE to the currency's decimals (repair of ExchangeRate.Convert
   recorded in findings/C01.json: before it the product was first rounded to the decimals of the
   source amount - JPY 1550 x 0.0062 gave 10.00 EUR, not 9.61).  With more decimals than the
   currency the price is still rounded twice (second theorem; part of the known finding
   C01-converted-price-rounded-to-currency-decimals). *)
Theorem converted_price_rounded_once it cur c rates ic isub r :
  it_cur it = Some (ic, isub) -> (ic =? cur)%Z = false -> find_alt cur (it_alts it) = None ->
  find_rate ic cur rates = Some r -> (exp (it_price it) <= c)%nat -> (isub <= c)%nat ->
  exists p, item_price it cur c rates = Some p /\ exp p = c /\ toQ p == rnd c (toQ (it_price it) * toQ r).
Proof. exact (IdealProofs.converted_price_rounded_once it cur c rates ic isub r). Qed.
Print Assumptions converted_price_rounded_once.

Theorem converted_price_rounded_once_beyond_currency_decimals_refuted :
  exists it cur c rates ic isub r p,
    it_cur it = Some (ic, isub) /\ (ic =? cur)%Z = false /\ find_alt cur (it_alts it) = None /\
    find_rate ic cur rates = Some r /\ (isub <= c)%nat /\
    item_price it cur c rates = Some p /\ ~ toQ p == rnd c (toQ (it_price it) * toQ r).
Proof. exact IdealProofs.converted_price_rounded_once_beyond_currency_decimals_refuted. Qed.
Print Assumptions converted_price_rounded_once_beyond_currency_decimals_refuted.

(* non-vacuity, the witness of the repair: JPY 1550 (no decimals) at 0.0062 into EUR: 9.61 *)
Example converted_price_rounded_once_applies :
  let it := mkItem (mkA 1550 0) (Some (2%Z, 0%nat)) [] in
  it_cur it = Some (2%Z, 0%nat) /\ (2 =? 1)%Z = false /\ find_alt 1 (it_alts it) = None /\
  find_rate 2 1 [mkXrate 2 1 (mkA 62 4)] = Some (mkA 62 4) /\ (exp (it_price it) <= 2)%nat /\ (0 <= 2)%nat /\
  item_price it 1 2 [mkXrate 2 1 (mkA 62 4)] = Some (mkA 961 2).
Proof. cbv zeta. do 4 (split; [reflexivity|]). split; [cbn; repeat constructor|]. split; [repeat constructor|]. vm_compute. reflexivity. Qed.

(* under 'currency' a line sum is not the product rounded ONCE to the currency's decimals when the
   price has more decimals than the currency: 0.05 x 0.0999 gives 0.01, rounded once 0.00 *)
Theorem currency_line_sum_single_rounding_refuted :
  exists l lc, plain_line l /\ calc_line true 2 1 [] l = Some lc /\
    val (lc_sum lc) <> roundQ 2 (toQ (it_price (ln_item l)) * toQ (ln_qty l)).
Proof. exact IdealBoundProofs.currency_line_sum_single_rounding_refuted. Qed.
Print Assumptions currency_line_sum_single_rounding_refuted.

(* plain_line l: no breakdown, no line discounts / charges, no taxes, item priced in the document
   currency.  line_price c l: the price raised to at least c + 2 decimals (value unchanged).
   Partial: lines with sub-lines, discounts, charges or a currency conversion are not covered by
   THIS statement; line_figures_are_ideal above covers every line. *)
Theorem line_sum_is_rounded_product_partial c cur rates l : plain_line l ->
  exists lc, calc_line false c cur rates l = Some lc /\
    let e := exp (line_price c l) in
    exp (lc_sum lc) = e /\ (c + 2 <= e)%nat /\
    val (lc_sum lc) = roundQ e (toQ (it_price (ln_item l)) * toQ (ln_qty l)) /\
    lc_total lc = lc_sum lc /\
    Qabs (toQ (lc_sum lc) - toQ (it_price (ln_item l)) * toQ (ln_qty l)) <= (1 # 2) * unitQ (c + 2).
Proof. exact (line_sum_is_rounded_product c cur rates l). Qed.
Print Assumptions line_sum_is_rounded_product_partial.

(* the accumulator of the document sum loses nothing; presentation moves a figure by at most half
   a minor unit *)
Theorem document_sum_is_exact_sum_of_line_totals xs s :
  toQ (fold_left acc xs s) == toQ s + sumQ xs.
Proof. exact (fold_acc_toQ xs s). Qed.
Print Assumptions document_sum_is_exact_sum_of_line_totals.

Theorem presentation_rounding_error a e : Qabs (toQ (rescale a e) - toQ a) <= (1 # 2) * unitQ e.
Proof. exact (rescale_error a e). Qed.
Print Assumptions presentation_rounding_error.

(* ------------------------------------------------------------------------------------------ *)
(* FULL CLAIM, last sentence: under 'precise' no presented total of an ordinary-sized document  *)
(* is a full minor unit away from the unrounded exact value                                     *)
(* ------------------------------------------------------------------------------------------ *)
(* `exact d` is the specification Calc/Ideal.v with NO rounding anywhere.
   The unrestricted statement is false (precise_error_bound_unrestricted_refuted above:
   exchange-rate conversions, breakdown prices).  It holds on `simple_doc d`:
     'precise' rule; at least one line; no line has a breakdown; every item is priced in the
     document's currency or has an alternative price in it (no exchange-rate conversion); line
     discounts / charges are fixed amounts, rate x quantity charges, or percentages (with or
     without base) of at most 100% either way; document discounts / charges fixed or such
     percentages; every tax
     percentage and surcharge lies between 0% and 100%; a supplied totals.rounding is written with
     no more decimals than the currency (rounding_ok: with more it is presented at the currency's
     decimals - one of the documented rounding points - and that figure is what payable adds, so
     payable can be a full unit from the unrounded sum: supplied_rounding_with_extra_decimals_refuted).  Quantities, prices, amounts and bases are
     arbitrary (any sign, any decimals); taxes may be included in prices, retained, carry
     surcharges; any currency precision c.
   The error is counted in eps c = half a unit of the (c+2)-th decimal = 1/200 minor unit:
     e_line l   = 1 + 3 x (number of discount and charge rows of l)         (a line total)
     e_sum ls   = sum of e_line                                              (the document sum)
     b_drow d   = e_sum + 1                                                  (a document discount / charge row)
     b_total1 d = e_sum + (#discounts x b_drow + 1) + (#charges x b_drow + 1)
     b_cats d   = sum over the tax rows (lines, document discounts, document charges) of
                  (number of tax combos of the row) x (bound of the row + 1)  +  number of combos
     b_inc d    = b_cats + 1 when prices include a tax, else 0
     b_total d  = b_total1 + b_inc;  b_tax d = 2 x b_cats;  b_twt d = b_total + b_tax + 1;
     b_payable d = b_twt + 1;  b_discount d = #discounts x b_drow;  b_charge d = #charges x b_drow;
     b_advances d = #advances x (b_twt + 1);  b_due d = b_payable + b_advances + 1
   and every presented total (sum, discount, charge, total, tax, total with tax, payable, advances,
   due) is within  budget x eps + 1/2 minor unit  of the exact value; the half unit is the
   presentation rounding.  obound P o o': both absent, or both present and P holds of the distance.
   "Ordinary-sized" = b_due d < 100, the largest budget (e.g. up to 9 single-rate taxed lines
   without rows and advances: b_due = 10 N + 6; untaxed: N + 6, up to 93 lines).
   The tax budget assumes the worst admitted rates (100% plus a 100% surcharge), so it is
   conservative for real rates.  Advances by percentage: at most 100% either way.
   Not covered by the bound (only by calc_refines_ideal): the presented figures of the individual
   lines, discount / charge / advance rows, due-date amounts, category and group amounts. *)
Theorem precise_error_bound_budget d t : simple_doc d -> calculate d = Totals t ->
  exists y, exact d = Some y /\
    let c := d_c d in
    let P := (1 # 2) * unitQ c in
    Qabs (toQ (t_sum t) - i_sum y) <= e_sum (d_lines d) * eps c + P /\
    Qabs (toQ (t_total t) - i_total y) <= b_total d * eps c + P /\
    Qabs (toQ (t_tax t) - i_tax y) <= b_tax d * eps c + P /\
    Qabs (toQ (t_twt t) - i_twt y) <= b_twt d * eps c + P /\
    Qabs (toQ (t_payable t) - i_payable y) <= b_payable d * eps c + P /\
    obound (fun e => e <= b_discount d * eps c + P) (t_discount t) (i_discount y) /\
    obound (fun e => e <= b_charge d * eps c + P) (t_charge t) (i_charge y) /\
    obound (fun e => e <= b_advances d * eps c + P) (t_advances t) (i_advances y) /\
    obound (fun e => e <= b_due d * eps c + P) (t_due t) (i_due y).
Proof. exact (IdealBoundProofs.precise_error_bound_budget d t). Qed.
Print Assumptions precise_error_bound_budget.

Theorem precise_error_bound d t : simple_doc d -> b_due d < 100 -> calculate d = Totals t ->
  exists y, exact d = Some y /\
    let u := unitQ (d_c d) in
    Qabs (toQ (t_sum t) - i_sum y) < u /\
    Qabs (toQ (t_total t) - i_total y) < u /\
    Qabs (toQ (t_tax t) - i_tax y) < u /\
    Qabs (toQ (t_twt t) - i_twt y) < u /\
    Qabs (toQ (t_payable t) - i_payable y) < u /\
    obound (fun e => e < u) (t_discount t) (i_discount y) /\
    obound (fun e => e < u) (t_charge t) (i_charge y) /\
    obound (fun e => e < u) (t_advances t) (i_advances y) /\
    obound (fun e => e < u) (t_due t) (i_due y).
Proof. exact (IdealBoundProofs.precise_error_bound d t). Qed.
Print Assumptions precise_error_bound.

(* why the class asks for a totals.rounding of no more decimals than the currency: 1 x 10.005 with
   rounding 0.005 presents rounding 0.01 and payable 10.02, unrounded 10.01 *)
Theorem supplied_rounding_with_extra_decimals_refuted :
  exists d t y, simple_docb (mkDoc (d_c d) (d_currency_rule d) (d_pit d) (d_cur d) (d_lines d) (d_discounts d)
                                     (d_charges d) (d_rates d) (d_advances d) (d_dues d) None) = true /\
    (budget d < 100)%Z /\ calculate d = Totals t /\ exact d = Some y /\
    t_rounding t = Some (mkA 1 2) /\
    unitQ (d_c d) <= Qabs (toQ (t_payable t) - i_payable y).
Proof. exact IdealBoundProofs.precise_error_bound_supplied_rounding_refuted. Qed.
Print Assumptions supplied_rounding_with_extra_decimals_refuted.

(* the class is decidable: simple_docb (Calc/IdealClass.v) is the boolean the check evaluates, by
   extraction, on every generated document, together with budget d = ceiling (b_due d); inside
   (simple_docb d = true, budget d < 100, 'precise') the check requires every presented total of
   the Go implementation to be less than one minor unit from `exact d` *)
Theorem simple_docb_sound d : simple_docb d = true -> simple_doc d.
Proof. exact (IdealBoundProofs.simple_docb_sound d). Qed.
Print Assumptions simple_docb_sound.

Theorem precise_error_bound_decidable d t :
  simple_docb d = true -> (budget d < 100)%Z -> calculate d = Totals t ->
  exists y, exact d = Some y /\
    let u := unitQ (d_c d) in
    Qabs (toQ (t_sum t) - i_sum y) < u /\
    Qabs (toQ (t_total t) - i_total y) < u /\
    Qabs (toQ (t_tax t) - i_tax y) < u /\
    Qabs (toQ (t_twt t) - i_twt y) < u /\
    Qabs (toQ (t_payable t) - i_payable y) < u /\
    obound (fun e => e < u) (t_discount t) (i_discount y) /\
    obound (fun e => e < u) (t_charge t) (i_charge y) /\
    obound (fun e => e < u) (t_advances t) (i_advances y) /\
    obound (fun e => e < u) (t_due t) (i_due y).
Proof. exact (IdealBoundProofs.precise_error_bound_decidable d t). Qed.
Print Assumptions precise_error_bound_decidable.

(* the underlying statement about the specification alone: with and without rounding *)
Theorem ideal_close_to_exact d x : simple_doc d -> ideal d = Some x ->
  exists y, exact d = Some y /\
    let c := d_c d in
    let P := (1 # 2) * unitQ c in
    cl (e_sum (d_lines d) * eps c + P) (i_sum x) (i_sum y) /\
    cl (b_total d * eps c + P) (i_total x) (i_total y) /\
    cl (b_tax d * eps c + P) (i_tax x) (i_tax y) /\
    cl (b_twt d * eps c + P) (i_twt x) (i_twt y) /\
    cl (b_payable d * eps c + P) (i_payable x) (i_payable y) /\
    ocl (b_discount d * eps c + P) (i_discount x) (i_discount y) /\
    ocl (b_charge d * eps c + P) (i_charge x) (i_charge y) /\
    ocl (b_advances d * eps c + P) (i_advances x) (i_advances y) /\
    ocl (b_due d * eps c + P) (i_due x) (i_due y).
Proof. exact (spec_close d x). Qed.
Print Assumptions ideal_close_to_exact.

(* a line with a 10% discount and a charge of 3 per unit on 0.5 units, a second line, a 5% document discount, a fixed
   document charge, 21% tax on everything: largest budget b_due = 77 < 100 (an advance would add
   b_twt + 1 = 76 to the budget of the amount due) *)
Definition c01_simple_doc : doc :=
  let vat := mkCombo [Byte.x56] [] [] (Some (mkA 21 2)) None false [] in
  mkDoc 2 false [] 1
   [mkLine (mkA 3 0) (mkItem (mkA 3333 4) None []) []
           [mkLdc (mkA 0 0) (Some (mkA 10 2)) None None None]
           [mkLdc (mkA 0 0) None None (Some (mkA 3 0)) (Some (mkA 5 1))] [vat];
    mkLine (mkA 7 0) (mkItem (mkA 1005 3) None []) [] [] [] [vat]]
   [mkDdc (mkA 0 0) (Some (mkA 5 2)) None [vat]] [mkDdc (mkA 100 2) None None []] []
   [] [] None.

Example precise_error_bound_applies :
  simple_doc c01_simple_doc /\ b_payable c01_simple_doc == 76 /\ b_due c01_simple_doc < 100 /\
  exists t y, calculate c01_simple_doc = Totals t /\ exact c01_simple_doc = Some y /\
    t_total t = mkA 996 2 /\ i_total y == 19926329 # 2000000 /\
    t_twt t = mkA 1185 2 /\ i_twt y == 2369085809 # 200000000.
Proof.
  split; [|split; [vm_compute; reflexivity|split; [vm_compute; reflexivity|]]].
  - unfold simple_doc, c01_simple_doc, simple_line, simple_row, simple_drow, unconverted, combo_ok, pct_ok, rate_ok.
    cbn -[Qle Qabs toQ].
    repeat (split || constructor); try discriminate; try (vm_compute; discriminate).
  - eexists. eexists. split; [vm_compute; reflexivity|]. split; [vm_compute; reflexivity|].
    repeat split.
Qed.

Example precise_error_bound_decidable_applies :
  simple_docb c01_simple_doc = true /\ (budget c01_simple_doc < 100)%Z /\
  uses_conversion c01_simple_doc = false /\ uses_breakdown c01_simple_doc = false /\
  simple_docb w_exchange = false /\ uses_conversion w_exchange = true /\
  simple_docb w_breakdown = false /\ uses_breakdown w_breakdown = true.
Proof. vm_compute. repeat split. Qed.


(* the earlier result for PLAIN documents (no discounts, charges, taxes), kept because its size
   limit is slightly better there (99 lines instead of 93): *)
Theorem precise_sum_error_bound_partial d : plain_doc d -> (length (d_lines d) <= 99)%nat ->
  exists t, calculate d = Totals t /\
    t_total t = t_sum t /\ t_twt t = t_sum t /\ t_payable t = t_sum t /\
    Qabs (toQ (t_sum t) - exact_sum (d_lines d)) < unitQ (d_c d).
Proof. exact (precise_sum_error_bound d). Qed.
Print Assumptions precise_sum_error_bound_partial.

(* the bound behind it, for any number n of lines: n/200 + 1/2 minor units *)
Theorem precise_sum_error_bound_n_lines_partial d : plain_doc d ->
  exists t, calculate d = Totals t /\
    t_total t = t_sum t /\ t_twt t = t_sum t /\ t_payable t = t_sum t /\
    Qabs (toQ (t_sum t) - exact_sum (d_lines d)) <=
      (inject_Z (Z.of_nat (length (d_lines d))) * (1 # 200) + (1 # 2)) * unitQ (d_c d).
Proof. exact (precise_sum_error_bound_n d). Qed.
Print Assumptions precise_sum_error_bound_n_lines_partial.

(* 3 x 0.3333 + 7 x 1.005 at two decimals: exact 8.0349, presented 8.03 *)
Definition c01_example_doc : doc :=
  mkDoc 2 false [] 1
        [mkLine (mkA 3 0) (mkItem (mkA 3333 4) None []) [] [] [] [];
         mkLine (mkA 7 0) (mkItem (mkA 1005 3) None []) [] [] [] []]
        [] [] [] [] [] None.
Example precise_sum_error_bound_applies :
  plain_doc c01_example_doc /\ (length (d_lines c01_example_doc) <= 99)%nat /\
  plain_line (mkLine (mkA 3 0) (mkItem (mkA 3333 4) None []) [] [] [] []) /\
  exists t, calculate c01_example_doc = Totals t /\ t_sum t = mkA 803 2 /\
            exact_sum (d_lines c01_example_doc) == 80349 # 10000.
Proof.
  split; [|split; [|split]].
  - unfold plain_doc, plain_line. cbn. repeat split; try discriminate. repeat constructor.
  - cbn. repeat constructor.
  - repeat split.
  - eexists. split; [vm_compute; reflexivity|]. split; reflexivity.
Qed.
