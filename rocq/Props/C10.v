(* C10 - Envelope lifecycle outcomes follow its abstract state over any history.
   Property theorems only; every proof is `exact <lemma>` from Env/LifecycleProofs.v.

   Model: Env/Header.v, Env/Sig.v, Env/Lifecycle.v ([step : fixes -> env -> op -> env * outcome],
   [run] = fold_left of [step] over a history), abstraction and decision table in Env/Abs.v.
   [hash] (the document digest) is universally quantified: nothing is assumed about it.
   [shipped] is the repository as it stands (commit b9cd510, nil guards of 3e1b1c1 included),
   [repaired] the code after fixes/C10-10-*.diff (and C09-9); theorems quantified over [fx] hold
   for both, the ones named *_shipped* document the open defect.
   Tie to envelope.go & co: tools/props/c10.py (exhaustive histories on the real library). *)
From Coq Require Import ZArith List Bool.
From Verif Require Import Base.Wire Env.Header Env.HeaderProofs Env.Sig Env.Lifecycle Env.Abs Env.LifecycleProofs Env.SameProofs.
Import ListNotations.
Open Scope Z_scope.

(* ---- the outcome of every API operation is a function of the abstract state ---- *)
Theorem outcome_table_correct hash fx e o :
  wf e -> api_op o ->
  snd (step hash fx e o) = outcome_table (abs hash e) o.
Proof. exact (outcome_follows_table hash fx e o). Qed.
Print Assumptions outcome_table_correct.

Theorem outcome_determined_by_abs hash fx e1 e2 o :
  wf e1 -> wf e2 -> api_op o -> abs hash e1 = abs hash e2 ->
  snd (step hash fx e1 o) = snd (step hash fx e2 o).
Proof. exact (LifecycleProofs.outcome_determined_by_abs hash fx e1 e2 o). Qed.
Print Assumptions outcome_determined_by_abs.

(* the domain is not a restriction on histories: every state reached from NewEnvelope by API
   operations is well-formed, whichever variant of the code runs *)
Theorem api_histories_stay_wellformed hash fx ops :
  Forall api_op ops -> wf (run hash fx new_envelope ops).
Proof. exact (reachable_wf hash fx ops). Qed.
Print Assumptions api_histories_stay_wellformed.

(* on those histories the proposed repair is invisible: the repository as shipped and the
   repaired code pass through the same states with the same outcomes *)
Theorem repairs_invisible_on_api_histories hash ops :
  Forall api_op ops ->
  run hash shipped new_envelope ops = run hash repaired new_envelope ops /\
  trace hash shipped new_envelope ops = trace hash repaired new_envelope ops.
Proof. exact (SameProofs.repairs_invisible_on_api_histories hash ops). Qed.
Print Assumptions repairs_invisible_on_api_histories.

(* the four-fact form of the statement, for the outcomes it names *)
Theorem sign_outcome_four_facts hash fx e k :
  wf e ->
  (snd (step hash fx e (Sign k)) = OK <-> valid_for_signing e = true /\ digest_matches hash e = true).
Proof. exact (LifecycleProofs.sign_outcome_four_facts hash fx e k). Qed.
Print Assumptions sign_outcome_four_facts.

Theorem verify_outcome_four_facts hash fx e k :
  wf e ->
  (snd (step hash fx e (Verify [k])) = OK <->
   signed e = true /\ forall s, In s (sigs e) -> exists h2, s = Sig k h2 /\ contains_opt (head e) h2 = true).
Proof. exact (LifecycleProofs.verify_outcome_four_facts hash fx e k). Qed.
Print Assumptions verify_outcome_four_facts.

(* ---- lifecycle invariants ---- *)

(* only valid envelopes with a matching digest can be signed: any state, any variant *)
Theorem sign_requires_valid_and_digest hash fx e k :
  snd (step hash fx e (Sign k)) = OK ->
  digest_matches hash e = true /\ exists c, doc e = Some c /\ vok c = true /\ code c = true.
Proof. exact (LifecycleProofs.sign_requires_valid_and_digest hash fx e k). Qed.
Print Assumptions sign_requires_valid_and_digest.

(* over every API history: each signature in the list was made over a header carrying the
   digest of a document that was valid for signing *)
Theorem signatures_cover_valid_content hash fx ops :
  Forall api_op ops ->
  Forall (sig_good hash) (sigs (run hash fx new_envelope ops)).
Proof. exact (LifecycleProofs.signatures_cover_valid_content hash fx ops). Qed.
Print Assumptions signatures_cover_valid_content.

(* a failed signing leaves the envelope unsigned (it also drops earlier signatures) *)
Theorem failed_sign_leaves_unsigned hash fx e k r :
  head e <> None -> snd (step hash fx e (Sign k)) = ERR r -> sigs (fst (step hash fx e (Sign k))) = [].
Proof. exact (LifecycleProofs.failed_sign_leaves_unsigned hash fx e k r). Qed.
Print Assumptions failed_sign_leaves_unsigned.

(* stamps are accepted only on signed envelopes *)
Theorem stamps_only_when_signed hash fx e h :
  validate hash fx e = OK -> head e = Some h -> stamps h <> [] -> signed e = true.
Proof. exact (LifecycleProofs.stamps_only_when_signed hash fx e h). Qed.
Print Assumptions stamps_only_when_signed.

(* every entry of the signature list is a real signature: over every history that does not
   parse "sigs":[null], and - unless the repair is in - "sigs":[""] *)
Theorem every_signature_is_real hash fx ops :
  Forall (sig_safe_op fx) ops -> forallb is_real (sigs (run hash fx new_envelope ops)) = true.
Proof. exact (LifecycleProofs.every_signature_is_real hash fx ops). Qed.
Print Assumptions every_signature_is_real.

(* repaired code, ANY history (surgery included): an envelope that validates holds only real
   signatures *)
Theorem validated_signatures_are_real hash ops :
  let e := run hash repaired new_envelope ops in
  validate hash repaired e = OK -> forallb is_real (sigs e) = true.
Proof. exact (LifecycleProofs.validated_signatures_are_real hash ops). Qed.
Print Assumptions validated_signatures_are_real.

(* Validate and Verify do not change the envelope *)
Theorem readonly_ops_are_identity hash fx e ks :
  fst (step hash fx e Validate) = e /\ fst (step hash fx e (Verify ks)) = e.
Proof. exact (conj (readonly_validate hash fx e) (readonly_verify hash fx e ks)). Qed.
Print Assumptions readonly_ops_are_identity.

(* Validate, Verify and Sign return, they never dereference nil - any state, either variant
   (the nil guards of commit 3e1b1c1 are part of the model of the shipped code) *)
Theorem never_panics hash fx e ks k :
  validate hash fx e <> PANIC /\ verify e ks <> PANIC /\ snd (step hash fx e (Sign k)) <> PANIC.
Proof.
  exact (conj (validate_nopanic hash fx e) (conj (verify_nopanic e ks) (sign_nopanic hash fx e k))).
Qed.
Print Assumptions never_panics.

(* ---- the repository as shipped ---- *)

(* defect 10, what is left of it: "sigs":[""] gives an entry that is no signature; the envelope
   counts as signed and validates - stamps included - although nobody signed it *)
Theorem every_signature_is_real_shipped_refuted :
  exists ops, let e := run h0 shipped new_envelope ops in
    forallb is_real (sigs e) = false /\ signed e = true /\ validate h0 shipped e = OK /\
    (exists h, head e = Some h /\ stamps h <> []) /\
    verify e [] = ERR EValidation /\ verify e [0] = ERR EValidation.
Proof. exact LifecycleProofs.every_signature_is_real_shipped_refuted. Qed.
Print Assumptions every_signature_is_real_shipped_refuted.

(* why failed_sign_leaves_unsigned asks for a header (a state no API operation reaches) *)
Theorem failed_sign_without_header_keeps_signatures :
  exists ops fx, let e := run h0 fx new_envelope ops in
    snd (step h0 fx e (Sign 0)) = ERR EValidation /\ signed (fst (step h0 fx e (Sign 0))) = true.
Proof. exact LifecycleProofs.failed_sign_without_header_keeps_signatures. Qed.
Print Assumptions failed_sign_without_header_keeps_signatures.

(* ---- non-vacuity ---- *)
Example former_nil_dereferences_return :
  verify (run h0 shipped new_envelope [Insert base0; Sign 0; ReparseNilHead]) [0] = ERR EValidation /\
  verify (run h0 shipped new_envelope [Insert base0; Sign 0; ReparseNilDig]) [0] = ERR EValidation /\
  validate h0 shipped (run h0 shipped new_envelope [Insert base0; ReparseNullLink]) = OK /\
  validate h0 shipped (run h0 shipped new_envelope [Insert base0; Sign 0; ReparseNullStamp; ReparseNullStamp]) = OK.
Proof. exact LifecycleProofs.former_nil_dereferences_return. Qed.
Example sign_succeeds_somewhere :
  snd (step h0 repaired (run h0 repaired new_envelope [Insert base0]) (Sign 0)) = OK.
Proof. exact sign_succeeds_example. Qed.
Example sign_is_refused_somewhere :
  snd (step h0 repaired (run h0 repaired new_envelope [Insert base0; EditDoc]) (Sign 0)) = ERR EDigest.
Proof. exact sign_refused_example. Qed.
Example wellformed_states_exist : wf new_envelope /\ api_op (Sign 0) /\ sig_safe_op repaired ReparseWithEmptySig.
Proof. split; [exact wf_new | split; [exact I | split; [discriminate | left; reflexivity]]]. Qed.
