(* C10 - Envelope lifecycle outcomes follow its abstract state over any history.
   Property theorems only; every proof is `exact <lemma>` from Env/LifecycleProofs.v.

   Model: Env/Header.v, Env/Sig.v, Env/Lifecycle.v ([step : fixes -> env -> op -> env * outcome],
   [run] = fold_left of [step] over a history), abstraction and decision table in Env/Abs.v.
   [hash] (the document digest) is universally quantified: nothing is assumed about it.
   [repaired] is the code after fixes/C10-10-*.diff and fixes/C10-11-*.diff; the theorems named
   *_shipped* are about the repository as it stands and document the defects.
   Tie to envelope.go & co: tools/props/c10.py (exhaustive histories on the real library). *)
From Coq Require Import ZArith List Bool.
From Verif Require Import Base.Wire Env.Header Env.HeaderProofs Env.Sig Env.Lifecycle Env.Abs Env.LifecycleProofs.
Import ListNotations.
Open Scope Z_scope.

(* ---- the outcome of every API operation is a function of the abstract state ---- *)
Theorem outcome_table_correct hash fx e o :
  fix11 fx = true -> wf e -> api_op o ->
  snd (step hash fx e o) = outcome_table (abs hash e) o.
Proof. exact (outcome_follows_table hash fx e o). Qed.
Print Assumptions outcome_table_correct.

Theorem outcome_determined_by_abs hash fx e1 e2 o :
  fix11 fx = true -> wf e1 -> wf e2 -> api_op o -> abs hash e1 = abs hash e2 ->
  snd (step hash fx e1 o) = snd (step hash fx e2 o).
Proof. exact (LifecycleProofs.outcome_determined_by_abs hash fx e1 e2 o). Qed.
Print Assumptions outcome_determined_by_abs.

(* the domain is not a restriction on histories: every state reached from NewEnvelope by API
   operations is well-formed, whichever variant of the code runs *)
Theorem api_histories_stay_wellformed hash fx ops :
  Forall api_op ops -> wf (run hash fx new_envelope ops).
Proof. exact (reachable_wf hash fx ops). Qed.
Print Assumptions api_histories_stay_wellformed.

(* the four-fact form of the statement, for the outcomes it names *)
Theorem sign_outcome_four_facts hash fx e k :
  fix11 fx = true -> wf e ->
  (snd (step hash fx e (Sign k)) = OK <-> valid_for_signing e = true /\ digest_matches hash e = true).
Proof. exact (LifecycleProofs.sign_outcome_four_facts hash fx e k). Qed.
Print Assumptions sign_outcome_four_facts.

Theorem verify_outcome_four_facts hash fx e k :
  fix11 fx = true -> wf e ->
  (snd (step hash fx e (Verify [k])) = OK <->
   signed e = true /\ forall s, In s (sigs e) -> exists h2, s = Sig k h2 /\ contains_opt (head e) h2 = true).
Proof. exact (LifecycleProofs.verify_outcome_four_facts hash fx e k). Qed.
Print Assumptions verify_outcome_four_facts.

(* ---- lifecycle invariants ---- *)

(* only valid envelopes with a matching digest can be signed: any state, any variant *)
Theorem sign_requires_valid_and_digest hash fx e k :
  snd (step hash fx e (Sign k)) = OK ->
  digest_matches hash e = true /\ exists c, doc e = Some c /\ vok c = true /\ code c = true.
Proof. exact (LifecycleProofs.sign_requires_valid_and_digest hash fx e k). Qed.
Print Assumptions sign_requires_valid_and_digest.

(* over every API history: each signature in the list was made over a header carrying the
   digest of a document that was valid for signing *)
Theorem signatures_cover_valid_content hash fx ops :
  fix11 fx = true -> fix10 fx = true -> Forall api_op ops ->
  Forall (sig_good hash) (sigs (run hash fx new_envelope ops)).
Proof. exact (LifecycleProofs.signatures_cover_valid_content hash fx ops). Qed.
Print Assumptions signatures_cover_valid_content.

(* a failed signing leaves the envelope unsigned (it also drops earlier signatures) *)
Theorem failed_sign_leaves_unsigned hash fx e k r :
  head e <> None -> snd (step hash fx e (Sign k)) = ERR r -> sigs (fst (step hash fx e (Sign k))) = [].
Proof. exact (LifecycleProofs.failed_sign_leaves_unsigned hash fx e k r). Qed.
Print Assumptions failed_sign_leaves_unsigned.

(* stamps are accepted only on signed envelopes *)
Theorem stamps_only_when_signed hash fx e h :
  validate hash fx e = OK -> head e = Some h -> stamps h <> [] -> signed e = true.
Proof. exact (LifecycleProofs.stamps_only_when_signed hash fx e h). Qed.
Print Assumptions stamps_only_when_signed.

(* every entry of the signature list is a real signature: over every history that does not
   parse "sigs":[null], and - unless the repair is in - "sigs":[""] *)
Theorem every_signature_is_real hash fx ops :
  Forall (sig_safe_op fx) ops -> forallb is_real (sigs (run hash fx new_envelope ops)) = true.
Proof. exact (LifecycleProofs.every_signature_is_real hash fx ops). Qed.
Print Assumptions every_signature_is_real.

(* repaired code, ANY history (surgery included): an envelope that validates holds only real
   signatures *)
Theorem validated_signatures_are_real hash ops :
  let e := run hash repaired new_envelope ops in
  validate hash repaired e = OK -> forallb is_real (sigs e) = true.
Proof. exact (LifecycleProofs.validated_signatures_are_real hash ops). Qed.
Print Assumptions validated_signatures_are_real.

(* Validate and Verify do not change the envelope *)
Theorem readonly_ops_are_identity hash fx e ks :
  fst (step hash fx e Validate) = e /\ fst (step hash fx e (Verify ks)) = e.
Proof. exact (conj (readonly_validate hash fx e) (readonly_verify hash fx e ks)). Qed.
Print Assumptions readonly_ops_are_identity.

(* repaired code: Validate, Verify and Sign return, they never dereference nil - any state *)
Theorem repaired_never_panics hash e ks k :
  validate hash repaired e <> PANIC /\ verify repaired e ks <> PANIC /\
  snd (step hash repaired e (Sign k)) <> PANIC.
Proof.
  exact (conj (validate_repaired_nopanic hash e) (conj (verify_repaired_nopanic e ks) (sign_repaired_nopanic hash e k))).
Qed.
Print Assumptions repaired_never_panics.

(* ---- the repository as shipped ---- *)

(* defect 10: "sigs":[""] *)
Theorem every_signature_is_real_shipped_refuted :
  exists ops, let e := run h0 shipped new_envelope ops in
    forallb is_real (sigs e) = false /\ signed e = true /\ validate h0 shipped e = OK /\
    verify shipped e [] = PANIC /\ verify shipped e [0] = PANIC.
Proof. exact LifecycleProofs.every_signature_is_real_shipped_refuted. Qed.
Print Assumptions every_signature_is_real_shipped_refuted.

(* defect 11: nil header, nil digest, null link, null stamps *)
Theorem verify_never_panics_shipped_refuted :
  (exists ops, verify shipped (run h0 shipped new_envelope ops) [0] = PANIC /\
               ops = [Insert base0; Sign 0; ReparseNilHead]) /\
  (exists ops, verify shipped (run h0 shipped new_envelope ops) [0] = PANIC /\
               ops = [Insert base0; Sign 0; ReparseNilDig]) /\
  (exists ops, validate h0 shipped (run h0 shipped new_envelope ops) = PANIC /\
               ops = [Insert base0; ReparseNullLink]) /\
  (exists ops, validate h0 shipped (run h0 shipped new_envelope ops) = PANIC /\
               ops = [Insert base0; Sign 0; ReparseNullStamp; ReparseNullStamp]).
Proof. exact LifecycleProofs.verify_never_panics_shipped_refuted. Qed.
Print Assumptions verify_never_panics_shipped_refuted.

Theorem sign_panic_leaves_signature_shipped :
  exists ops, let e := run h0 shipped new_envelope ops in
    snd (step h0 shipped e (Sign 0)) = PANIC /\ signed (fst (step h0 shipped e (Sign 0))) = true /\ signed e = false.
Proof. exact LifecycleProofs.sign_panic_leaves_signature_shipped. Qed.
Print Assumptions sign_panic_leaves_signature_shipped.

(* why failed_sign_leaves_unsigned asks for a header (a state no API operation reaches) *)
Theorem failed_sign_without_header_keeps_signatures :
  exists ops fx, let e := run h0 fx new_envelope ops in
    snd (step h0 fx e (Sign 0)) = ERR EValidation /\ signed (fst (step h0 fx e (Sign 0))) = true.
Proof. exact LifecycleProofs.failed_sign_without_header_keeps_signatures. Qed.
Print Assumptions failed_sign_without_header_keeps_signatures.

(* ---- non-vacuity ---- *)
Example sign_succeeds_somewhere :
  snd (step h0 repaired (run h0 repaired new_envelope [Insert base0]) (Sign 0)) = OK.
Proof. exact sign_succeeds_example. Qed.
Example sign_is_refused_somewhere :
  snd (step h0 repaired (run h0 repaired new_envelope [Insert base0; EditDoc]) (Sign 0)) = ERR EDigest.
Proof. exact sign_refused_example. Qed.
Example wellformed_states_exist : wf new_envelope /\ api_op (Sign 0) /\ sig_safe_op repaired ReparseWithEmptySig.
Proof. split; [exact wf_new | split; [exact I | split; [discriminate | left; reflexivity]]]. Qed.
