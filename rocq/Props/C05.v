(* C05 - Decimal amount arithmetic is exact with round-half-away-from-zero.
   Property theorems only; every proof is `exact <lemma>` from Num/AmountProofs.v or
   Base/RhaProofs.v.  toQ a is the rational an amount denotes, roundQ e q is q rounded half away
   from zero to e decimals (in units of 10^-e).  The model (Num/Amount.v) is tied to num/*.go by
   the correspondence check of tools/props/c05.py inside the property's magnitude domain. *)
From Coq Require Import ZArith QArith.
From Verif Require Import Base.Rha Base.RhaProofs Num.Amount Num.AmountProofs.
Open Scope Z_scope.

(* rha n d is THE nearest integer to n/d, a tie going to the larger magnitude *)
Theorem rha_is_round_half_away n d : 0 < d -> is_rha n d (rha n d).
Proof. exact (rha_spec n d). Qed.
Print Assumptions rha_is_round_half_away.

Theorem rha_is_unique n d r : 0 < d -> is_rha n d r -> r = rha n d.
Proof. exact (rha_unique n d r). Qed.
Print Assumptions rha_is_unique.

Theorem rounding_is_symmetric n d : 0 < d -> rha (- n) d = - rha n d.
Proof. exact (rha_neg n d). Qed.
Print Assumptions rounding_is_symmetric.

(* multiply, divide, rescale: the exact rational, rounded once, at the receiver's precision *)
Theorem multiply_exact a b : val (mul a b) = roundQ (exp a) (toQ a * toQ b) /\ exp (mul a b) = exp a.
Proof. exact (conj (mul_val a b) (mul_exp a b)). Qed.
Print Assumptions multiply_exact.

Theorem divide_exact a b : val b <> 0 -> val (div a b) = roundQ (exp a) (toQ a / toQ b) /\ exp (div a b) = exp a.
Proof. exact (fun H => conj (div_val a b H) (div_exp a b)). Qed.
Print Assumptions divide_exact.

Theorem rescale_exact a e : val (rescale a e) = roundQ e (toQ a) /\ exp (rescale a e) = e.
Proof. exact (conj (rescale_val a e) (rescale_exp a e)). Qed.
Print Assumptions rescale_exact.

(* add / subtract: the operand is first rounded to the receiver's precision (what the code
   documents: "using the base's exponential"), which is the rounded exact sum when signs agree
   and exact when the operand has no greater precision *)
Theorem add_rounds_operand a b : val (add a b) = val a + roundQ (exp a) (toQ b) /\ exp (add a b) = exp a.
Proof. exact (conj (add_val_impl a b) (add_exp a b)). Qed.
Print Assumptions add_rounds_operand.

Theorem add_exact_same_sign a b : 0 <= val a * val b -> val (add a b) = roundQ (exp a) (toQ a + toQ b).
Proof. exact (add_val a b). Qed.
Print Assumptions add_exact_same_sign.

Theorem add_never_loses a b : (exp b <= exp a)%nat -> (toQ (add a b) == toQ a + toQ b)%Q.
Proof. exact (add_no_loss a b). Qed.
Print Assumptions add_never_loses.

Theorem subtract_is_add_negated a b : sub a b = add a (negate b).
Proof. exact (sub_add_negate a b). Qed.
Print Assumptions subtract_is_add_negated.

(* raising precision, comparing never lose information *)
Theorem rescale_up_lossless a e : (exp a <= e)%nat -> (toQ (rescale a e) == toQ a)%Q /\ rescale (rescale a e) (exp a) = a.
Proof. exact (fun H => conj (rescale_lossless a e H) (rescale_up_down_id a e H)). Qed.
Print Assumptions rescale_up_lossless.

Theorem compare_is_rational_order a b :
  (compare a b = -1 <-> (toQ a < toQ b)%Q) /\ (compare a b = 0 <-> (toQ a == toQ b)%Q) /\ (compare a b = 1 <-> (toQ b < toQ a)%Q).
Proof. exact (compare_spec a b). Qed.
Print Assumptions compare_is_rational_order.

Theorem equals_is_rational_equality a b : equals a b = true <-> (toQ a == toQ b)%Q.
Proof. exact (equals_iff a b). Qed.
Print Assumptions equals_is_rational_equality.

(* the parts of a split always add back to the original *)
Theorem split_adds_back_exactly a x :
  exp (fst (split a x)) = exp a /\ exp (snd (split a x)) = exp a /\
  val (fst (split a x)) * (x - 1) + val (snd (split a x)) = val a.
Proof. exact (split_adds_back a x). Qed.
Print Assumptions split_adds_back_exactly.

Theorem negate_is_involutive_and_exact a : negate (negate a) = a /\ toQ (negate a) = Qopp (toQ a).
Proof. exact (conj (negate_involutive a) (negate_toQ a)). Qed.
Print Assumptions negate_is_involutive_and_exact.

(* percentages *)
Theorem percentage_of_exact p a : val (pct_of p a) = roundQ (exp a) (toQ a * toQ p).
Proof. exact (pct_of_val p a). Qed.
Print Assumptions percentage_of_exact.

Theorem remove_percentage_exact a p : val (factor p) <> 0 -> val (remove a p) = roundQ (exp a) (toQ a / (toQ p + 1)).
Proof. exact (remove_val a p). Qed.
Print Assumptions remove_percentage_exact.

Theorem percentage_from_exact p a : val (factor p) <> 0 -> val (pct_from p a) = val a - roundQ (exp a) (toQ a / (toQ p + 1)).
Proof. exact (pct_from_val p a). Qed.
Print Assumptions percentage_from_exact.

Theorem threshold_rule_sound op thr v :
  threshold op thr v = true <->
  (if op =? 0 then (toQ thr < toQ v)%Q else if op =? 1 then (toQ thr <= toQ v)%Q
   else if op =? 2 then (toQ v < toQ thr)%Q else if op =? 3 then (toQ v <= toQ thr)%Q
   else ~ (toQ v == toQ thr)%Q).
Proof. exact (threshold_sound op thr v). Qed.
Print Assumptions threshold_rule_sound.

(* non-vacuity: ties, negative values, mixed exponents *)
Example tie_examples :
  mul (mkA 5 1) (mkA 5 1) = mkA 3 1 /\ mul (mkA (-5) 1) (mkA 5 1) = mkA (-3) 1 /\
  div (mkA 1 0) (mkA (-2) 0) = mkA (-1) 0 /\ rescale (mkA (-125) 2) 1 = mkA (-13) 1 /\
  add (mkA 10 1) (mkA 255 2) = mkA 36 1 /\ split (mkA 100 2) 3 = (mkA 33 2, mkA 34 2).
Proof. vm_compute. repeat split. Qed.
