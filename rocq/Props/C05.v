(* C05 - Decimal amount arithmetic is exact with round-half-away-from-zero.
   Property theorems only; every proof is `exact <lemma>` from Num/AmountProofs.v or
   Base/RhaProofs.v.  toQ a is the rational an amount denotes, roundQ e q is q rounded half away
   from zero to e decimals (in units of 10^-e).  The model (Num/Amount.v) is tied to num/*.go by
   the correspondence check of tools/props/c05.py inside the property's magnitude domain, and by
   the ..._impl_exact theorems below to Num/AmountImpl.v, the statement-by-statement transcription
   of the Go code (int64 wrapping, IEEE binary64 by Flocq's executable binary_float 53 1024,
   math.Round, int64(f)): inside the in_domain_<op> guards (operands and exact intermediates below
   2^52 in magnitude, divisors non-zero, rescaling divisors up to 10^63) the float path returns the
   exact-integer specification. *)
From Coq Require Import ZArith QArith Rdefinitions.
From Verif Require Import Base.Int64 Base.Rha Base.RhaProofs Num.Amount Num.AmountProofs.
From Verif Require Import Num.AmountImpl Num.AmountExact Num.AmountOrder.
Open Scope Z_scope.

(* rha n d is THE nearest integer to n/d, a tie going to the larger magnitude *)
Theorem rha_is_round_half_away n d : 0 < d -> is_rha n d (rha n d).
Proof. exact (rha_spec n d). Qed.
Print Assumptions rha_is_round_half_away.

Theorem rha_is_unique n d r : 0 < d -> is_rha n d r -> r = rha n d.
Proof. exact (rha_unique n d r). Qed.
Print Assumptions rha_is_unique.

Theorem rounding_is_symmetric n d : 0 < d -> rha (- n) d = - rha n d.
Proof. exact (rha_neg n d). Qed.
Print Assumptions rounding_is_symmetric.

(* multiply, divide, rescale: the exact rational, rounded once, at the receiver's precision *)
Theorem multiply_exact a b : val (mul a b) = roundQ (exp a) (toQ a * toQ b) /\ exp (mul a b) = exp a.
Proof. exact (conj (mul_val a b) (mul_exp a b)). Qed.
Print Assumptions multiply_exact.

Theorem divide_exact a b : val b <> 0 -> val (div a b) = roundQ (exp a) (toQ a / toQ b) /\ exp (div a b) = exp a.
Proof. exact (fun H => conj (div_val a b H) (div_exp a b)). Qed.
Print Assumptions divide_exact.

Theorem rescale_exact a e : val (rescale a e) = roundQ e (toQ a) /\ exp (rescale a e) = e.
Proof. exact (conj (rescale_val a e) (rescale_exp a e)). Qed.
Print Assumptions rescale_exact.

(* add / subtract: the operand is first rounded to the receiver's precision (what the code
   documents: "using the base's exponential"), which is the rounded exact sum when signs agree
   and exact when the operand has no greater precision *)
Theorem add_rounds_operand a b : val (add a b) = val a + roundQ (exp a) (toQ b) /\ exp (add a b) = exp a.
Proof. exact (conj (add_val_impl a b) (add_exp a b)). Qed.
Print Assumptions add_rounds_operand.

Theorem add_exact_same_sign a b : 0 <= val a * val b -> val (add a b) = roundQ (exp a) (toQ a + toQ b).
Proof. exact (add_val a b). Qed.
Print Assumptions add_exact_same_sign.

Theorem add_never_loses a b : (exp b <= exp a)%nat -> (toQ (add a b) == toQ a + toQ b)%Q.
Proof. exact (add_no_loss a b). Qed.
Print Assumptions add_never_loses.

Theorem subtract_is_add_negated a b : sub a b = add a (negate b).
Proof. exact (sub_add_negate a b). Qed.
Print Assumptions subtract_is_add_negated.

(* raising precision, comparing never lose information *)
Theorem rescale_up_lossless a e : (exp a <= e)%nat -> (toQ (rescale a e) == toQ a)%Q /\ rescale (rescale a e) (exp a) = a.
Proof. exact (fun H => conj (rescale_lossless a e H) (rescale_up_down_id a e H)). Qed.
Print Assumptions rescale_up_lossless.

Theorem compare_is_rational_order a b :
  (compare a b = -1 <-> (toQ a < toQ b)%Q) /\ (compare a b = 0 <-> (toQ a == toQ b)%Q) /\ (compare a b = 1 <-> (toQ b < toQ a)%Q).
Proof. exact (compare_spec a b). Qed.
Print Assumptions compare_is_rational_order.

Theorem equals_is_rational_equality a b : equals a b = true <-> (toQ a == toQ b)%Q.
Proof. exact (equals_iff a b). Qed.
Print Assumptions equals_is_rational_equality.

(* the parts of a split always add back to the original *)
Theorem split_adds_back_exactly a x :
  exp (fst (split a x)) = exp a /\ exp (snd (split a x)) = exp a /\
  val (fst (split a x)) * (x - 1) + val (snd (split a x)) = val a.
Proof. exact (split_adds_back a x). Qed.
Print Assumptions split_adds_back_exactly.

Theorem negate_is_involutive_and_exact a : negate (negate a) = a /\ toQ (negate a) = Qopp (toQ a).
Proof. exact (conj (negate_involutive a) (negate_toQ a)). Qed.
Print Assumptions negate_is_involutive_and_exact.

(* percentages *)
Theorem percentage_of_exact p a : val (pct_of p a) = roundQ (exp a) (toQ a * toQ p).
Proof. exact (pct_of_val p a). Qed.
Print Assumptions percentage_of_exact.

Theorem remove_percentage_exact a p : val (factor p) <> 0 -> val (remove a p) = roundQ (exp a) (toQ a / (toQ p + 1)).
Proof. exact (remove_val a p). Qed.
Print Assumptions remove_percentage_exact.

Theorem percentage_from_exact p a : val (factor p) <> 0 -> val (pct_from p a) = val a - roundQ (exp a) (toQ a / (toQ p + 1)).
Proof. exact (pct_from_val p a). Qed.
Print Assumptions percentage_from_exact.

Theorem threshold_rule_sound op thr v :
  threshold op thr v = true <->
  (if op =? 0 then (toQ thr < toQ v)%Q else if op =? 1 then (toQ thr <= toQ v)%Q
   else if op =? 2 then (toQ v < toQ thr)%Q else if op =? 3 then (toQ v <= toQ thr)%Q
   else ~ (toQ v == toQ thr)%Q).
Proof. exact (threshold_sound op thr v). Qed.
Print Assumptions threshold_rule_sound.

(* non-vacuity: ties, negative values, mixed exponents *)
Example tie_examples :
  mul (mkA 5 1) (mkA 5 1) = mkA 3 1 /\ mul (mkA (-5) 1) (mkA 5 1) = mkA (-3) 1 /\
  div (mkA 1 0) (mkA (-2) 0) = mkA (-1) 0 /\ rescale (mkA (-125) 2) 1 = mkA (-13) 1 /\
  add (mkA 10 1) (mkA 255 2) = mkA 36 1 /\ split (mkA 100 2) 3 = (mkA 33 2, mkA 34 2).
Proof. vm_compute. repeat split. Qed.

(* ---------- the float64 / int64 implementation model equals the specification ---------- *)
(* the heart: the binary64 quotient of integers, then math.Round, never lands on the wrong side
   of a half: |p| < 2^52, 0 < |q| < 2^64 *)
Theorem float_quotient_rounds_exactly (p q : Z) :
  Z.abs p < 2^52 -> q <> 0 -> Z.abs q < 2^64 ->
  Flocq.Core.Generic_fmt.Znearest (Z.leb 0) (rnd64 (IZR p / IZR q)%R) = rhaS p q.
Proof. exact (round_div_rhaS p q). Qed.
Print Assumptions float_quotient_rounds_exactly.

Theorem multiply_impl_exact a b : in_domain_mul a b = true -> impl_mul a b = Defined (mul a b).
Proof. exact (mul_exact a b). Qed.
Print Assumptions multiply_impl_exact.

Theorem divide_impl_exact a b : in_domain_div a b = true -> impl_div a b = Defined (div a b).
Proof. exact (div_exact a b). Qed.
Print Assumptions divide_impl_exact.

Theorem rescale_impl_exact a e : in_domain_rescale a e = true -> impl_rescale a e = Defined (rescale a e).
Proof. exact (AmountExact.rescale_exact a e). Qed.
Print Assumptions rescale_impl_exact.

Theorem add_impl_exact a b : in_domain_add a b = true -> impl_add a b = Defined (add a b).
Proof. exact (add_exact a b). Qed.
Print Assumptions add_impl_exact.

Theorem subtract_impl_exact a b : in_domain_sub a b = true -> impl_sub a b = Defined (sub a b).
Proof. exact (sub_exact a b). Qed.
Print Assumptions subtract_impl_exact.

Theorem compare_impl_exact a b : in_domain_compare a b = true ->
  impl_compare a b = Some (compare a b) /\ impl_equals a b = Some (equals a b).
Proof. exact (fun H => conj (compare_exact a b H) (equals_exact a b H)). Qed.
Print Assumptions compare_impl_exact.

Theorem split_impl_exact a x : in_domain_split a x = true -> impl_split a x = Some (split a x).
Proof. exact (split_exact a x). Qed.
Print Assumptions split_impl_exact.

Theorem negate_impl_exact a : in_domain_negate a = true ->
  impl_negate a = Defined (negate a) /\ impl_abs a = Defined (abs a).
Proof. exact (fun H => conj (negate_exact a H) (abs_exact a H)). Qed.
Print Assumptions negate_impl_exact.

Theorem remove_percentage_impl_exact a p : in_domain_remove a p = true -> impl_remove a p = Defined (remove a p).
Proof. exact (remove_exact a p). Qed.
Print Assumptions remove_percentage_impl_exact.

Theorem percentage_of_impl_exact p a : in_domain_pct_of p a = true -> impl_pct_of p a = Defined (pct_of p a).
Proof. exact (pct_of_exact p a). Qed.
Print Assumptions percentage_of_impl_exact.

Theorem percentage_from_impl_exact p a : in_domain_pct_from p a = true -> impl_pct_from p a = Defined (pct_from p a).
Proof. exact (pct_from_exact p a). Qed.
Print Assumptions percentage_from_impl_exact.

Theorem percentage_conversions_impl_exact a :
  (in_domain_factor a = true -> impl_factor a = Defined (factor a)) /\
  (in_domain_pct_from_amount a = true -> impl_pct_from_amount a = Defined (pct_from_amount a)) /\
  (in_domain_pct_amount a = true -> impl_pct_amount a = Defined (pct_amount a)).
Proof. exact (conj (factor_exact a) (conj (pct_from_amount_exact a) (pct_amount_exact a))). Qed.
Print Assumptions percentage_conversions_impl_exact.

Theorem conditional_rescales_impl_exact a b e lo hi n :
  (in_domain_rescale a (Nat.max e (exp a)) = true -> impl_rescale_up a e = Defined (rescale_up a e)) /\
  (in_domain_rescale a (Nat.min e (exp a)) = true -> impl_rescale_down a e = Defined (rescale_down a e)) /\
  (in_domain_rescale a (Nat.max lo (exp a)) = true ->
   in_domain_rescale (rescale_up a lo) (Nat.min hi (exp (rescale_up a lo))) = true ->
   impl_rescale_range a lo hi = Defined (rescale_range a lo hi)) /\
  (in_domain_rescale a (Nat.max (exp b) (exp a)) = true -> impl_match_precision a b = Defined (match_precision a b)) /\
  (in_domain_rescale a (exp a + n) = true -> impl_upscale a n = Defined (upscale a n)) /\
  (in_domain_rescale a (exp a - n) = true -> impl_downscale a n = Defined (downscale a n)).
Proof.
  exact (conj (rescale_up_exact a e) (conj (rescale_down_exact a e) (conj (rescale_range_exact a lo hi)
        (conj (match_precision_exact a b) (conj (upscale_exact a n) (downscale_exact a n)))))).
Qed.
Print Assumptions conditional_rescales_impl_exact.

(* non-vacuity of the guards, on ties (0.5 * 0.5 = 0.25 -> 0.3, 1 / -2 -> -1, -1.25 -> -1.3), at
   the 2^52 edge, and the model outside the domain: a zero divisor and a result beyond int64 are
   Undefined, 10^19 wraps in intPow *)
Example impl_tie_examples :
  in_domain_mul (mkA 5 1) (mkA 5 1) = true /\ impl_mul (mkA 5 1) (mkA 5 1) = Defined (mkA 3 1) /\
  impl_mul (mkA (-5) 1) (mkA 5 1) = Defined (mkA (-3) 1) /\
  in_domain_div (mkA 1 0) (mkA (-2) 0) = true /\ impl_div (mkA 1 0) (mkA (-2) 0) = Defined (mkA (-1) 0) /\
  in_domain_rescale (mkA (-125) 2) 1 = true /\ impl_rescale (mkA (-125) 2) 1 = Defined (mkA (-13) 1) /\
  in_domain_add (mkA 10 1) (mkA 255 2) = true /\ impl_add (mkA 10 1) (mkA 255 2) = Defined (mkA 36 1) /\
  in_domain_split (mkA 100 2) 3 = true /\ impl_split (mkA 100 2) 3 = Some (mkA 33 2, mkA 34 2) /\
  in_domain_pct_from (mkA 21 2) (mkA 12100 2) = true /\ impl_pct_from (mkA 21 2) (mkA 12100 2) = Defined (mkA 2100 2) /\
  in_domain_div (mkA (2^52 - 1) 0) (mkA 2 0) = true /\
  impl_div (mkA (2^52 - 1) 0) (mkA 2 0) = Defined (mkA (2^51) 0) /\
  impl_div (mkA 1 0) (mkA 0 0) = Undefined /\ impl_mul (mkA (2^62) 0) (mkA (2^62) 0) = Undefined /\
  intpow10 19 = 10^19 - 2^64 /\
  in_domain_rescale (mkA (2^52 - 1) 63) 0 = true /\ impl_rescale (mkA (2^52 - 1) 63) 0 = Defined (mkA 0 0) /\
  in_domain_mul (mkA (2^52 - 1) 2) (mkA 1 19) = true /\ impl_mul (mkA (2^52 - 1) 2) (mkA 1 19) = Defined (mkA 0 2).
Proof. vm_compute. repeat split. Qed.

(* the exponent bound of the guards is tight in the implementation model: intPow(10, 64) = 0 (mod 2^64),
   the quotient is NaN or Inf and int64 of it is not defined by the language (amd64: MinInt64) *)
Theorem exponent_guard_is_needed_refuted :
  exists a b, small52 (val a) = true /\ small52 (val b) = true /\ small52 (val a * val b) = true /\
    impl_mul a b <> Defined (mul a b) /\ impl_rescale b 0 <> Defined (rescale b 0).
Proof. exists (mkA 0 0), (mkA 0 64). vm_compute. repeat split; discriminate. Qed.
Print Assumptions exponent_guard_is_needed_refuted.

(* ---- order: rounding half away from zero never reverses an order (Num/AmountOrder.v) ---- *)

(* the rounded quotient is monotone in the numerator, for every positive divisor *)
Theorem rounding_is_monotone n m d : 0 < d -> n <= m -> rha n d <= rha m d.
Proof. exact (rha_monotone n m d). Qed.
Print Assumptions rounding_is_monotone.

(* the rounded quotient is within half a unit of the exact one *)
Theorem rounding_error_at_most_half_unit n d : 0 < d -> Z.abs (2 * (n - rha n d * d)) <= d.
Proof. exact (rha_half_unit n d). Qed.
Print Assumptions rounding_error_at_most_half_unit.

(* rescaling (either direction) keeps the weak order of two amounts of one precision *)
Theorem rescale_keeps_order a b e :
  exp a = exp b -> val a <= val b -> val (rescale a e) <= val (rescale b e).
Proof. exact (rescale_monotone_same_exp a b e). Qed.
Print Assumptions rescale_keeps_order.

(* rescaling twice to the same precision is rescaling once *)
Theorem rescale_is_idempotent a e : rescale (rescale a e) e = rescale a e.
Proof. exact (rescale_idempotent a e). Qed.
Print Assumptions rescale_is_idempotent.

(* a precision reduction moves the value by at most half a unit of the new precision *)
Theorem rescale_down_error_at_most_half_unit a e : (e <= exp a)%nat ->
  Z.abs (2 * (val a - val (rescale a e) * pow10 (exp a - e))) <= pow10 (exp a - e).
Proof. exact (rescale_down_error a e). Qed.
Print Assumptions rescale_down_error_at_most_half_unit.

(* adding a non-negative amount of ANY precision never decreases the receiver *)
Theorem add_nonnegative_never_decreases a b : 0 <= val b -> val a <= val (add a b).
Proof. exact (add_monotone a b). Qed.
Print Assumptions add_nonnegative_never_decreases.

(* ---- compare is a total order on what the amounts denote, and it drops no decimals ---- *)

Theorem compare_is_antisymmetric a b : compare b a = - compare a b.
Proof. exact (compare_antisym a b). Qed.
Print Assumptions compare_is_antisymmetric.

Theorem compare_is_transitive a b c :
  (compare a b = -1 -> compare b c = -1 -> compare a c = -1) /\
  (compare a b = 0 -> compare b c = 0 -> compare a c = 0).
Proof. exact (conj (compare_lt_trans a b c) (compare_eq_trans a b c)). Qed.
Print Assumptions compare_is_transitive.

(* the outcome depends on the denoted rationals only, whatever precisions carry them *)
Theorem compare_depends_on_value_only a a' b b' :
  (toQ a == toQ a')%Q -> (toQ b == toQ b')%Q -> compare a b = compare a' b'.
Proof. exact (compare_compat a a' b b'). Qed.
Print Assumptions compare_depends_on_value_only.

(* raising the precision of either operand, independently, never changes the outcome *)
Theorem compare_unchanged_by_raising_precision a b e e' :
  (exp a <= e)%nat -> (exp b <= e')%nat -> compare (rescale a e) (rescale b e') = compare a b.
Proof. exact (compare_rescale_up a b e e'). Qed.
Print Assumptions compare_unchanged_by_raising_precision.

(* an argument that exceeds the receiver by one unit of ANY finer precision compares as larger:
   the argument's extra decimals are never rounded away (seeded change C05-9) *)
Theorem compare_sees_argument_decimals a n : compare a (mkA (val a * pow10 (S n) + 1) (exp a + S n)) = -1.
Proof. exact (compare_sees_finer_decimals a n). Qed.
Print Assumptions compare_sees_argument_decimals.
