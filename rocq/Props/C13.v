(* C13 - placeholder, filled in below *)
From Coq Require Import ZArith.
From Verif Require Import Base.Wire TaxId.Common TaxId.Regimes.
