(* C13 - Tax identity codes are accepted exactly when the national check allows.
   Property theorems only; every proof is `exact <lemma>` from rocq/TaxId/*Proofs.v.

   Model: TaxId/Common.v (tax.NormalizeIdentity), TaxId/Regimes.v (valid_XX = the regime's
   validateTaxCode, normalize = Identity.Normalize, validate = Identity.Validate), declarative
   rules in TaxId/Spec.v.  `set_nth i b c` is the code c with its i-th character (from 0)
   replaced by b; `dv b` is the value of a digit character; a "single-digit error" replaces a
   digit by a different digit.  The model is tied to /repo by the correspondence check of
   tools/props/c13.py (Go vs extracted model on the same raw codes). *)
From Coq Require Import String List ZArith Strings.Byte Bool.
From Verif Require Import Base.Wire TaxId.Common TaxId.Regimes TaxId.Spec TaxId.CommonProofs TaxId.CheckProofs
  TaxId.Mod11Proofs TaxId.PTProofs TaxId.ELProofs TaxId.COProofs TaxId.BRProofs TaxId.Mod97Proofs
  TaxId.LuhnProofs TaxId.ESProofs TaxId.GBProofs TaxId.NLProofs TaxId.DEProofs TaxId.INProofs TaxId.NormProofs
  TaxId.SpecProofs TaxId.Spec2Proofs.
Import ListNotations.
Open Scope Z_scope.

(* ================================================================================================
   (a) single-digit errors
   ================================================================================================ *)

(* the generic arithmetic fact: a weight coprime to a modulus above 9 separates any two digits *)
Theorem weight_coprime_to_modulus_detects_digit_substitution w m :
  9 < m -> Z.gcd w m = 1 ->
  forall d d', 0 <= d <= 9 -> 0 <= d' <= 9 -> d <> d' -> (w * d - w * d') mod m <> 0.
Proof. exact (detects_mul w m). Qed.
Print Assumptions weight_coprime_to_modulus_detects_digit_substitution.

(* Luhn: doubling (minus 9 above 9) permutes the digits, so it separates any two digits modulo 10 *)
Theorem luhn_doubling_is_a_permutation_of_the_digits :
  map luhn_double [0; 1; 2; 3; 4; 5; 6; 7; 8; 9] = [0; 2; 4; 6; 8; 1; 3; 5; 7; 9] /\
  (forall d d', 0 <= d <= 9 -> 0 <= d' <= 9 -> luhn_double d = luhn_double d' -> d = d') /\
  (forall d, 0 <= d <= 9 -> 0 <= luhn_double d <= 9).
Proof. exact luhn_double_permutation. Qed.
Print Assumptions luhn_doubling_is_a_permutation_of_the_digits.

(* the generic theorem over codes: if every accepted code of length n satisfies
   (f_0(d_0) + ... + f_(n-1)(d_(n-1)) + K) mod m = 0 and f_i separates digits modulo m, then
   replacing the digit at position i of an accepted code by another digit gives a rejected code *)
Theorem position_wise_check_sum_detects_single_digit_errors
  (valid : bytes -> bool) (F : list (Z -> Z)) (K : bytes -> Z) (m : Z) (n : nat) :
  0 < m -> List.length F = n ->
  (forall c, List.length c = n -> valid c = true -> (fsum F (digs c) + K c) mod m = 0) ->
  forall c i b,
    List.length c = n -> (i < n)%nat -> detects (nthF i F) m -> K (set_nth i b c) = K c ->
    valid c = true -> is_digit (nthb i c) = true -> is_digit b = true -> b <> nthb i c ->
    valid (set_nth i b c) = false.
Proof. exact (detect_single valid F K m n). Qed.
Print Assumptions position_wise_check_sum_detects_single_digit_errors.

(* ---- regimes in which EVERY single-digit error is detected ---- *)

(* PL (NIP, mod 11, remainder 10 invalid): all 10 positions *)
Theorem PL_detects_every_single_digit_error c i b :
  valid_PL c = true -> c <> [] -> (i < 10)%nat -> is_digit b = true -> b <> nthb i c ->
  valid_PL (set_nth i b c) = false.
Proof. exact (pl_single_digit c i b). Qed.
Print Assumptions PL_detects_every_single_digit_error.

(* CH (UID, mod 11, remainder giving 10 invalid): the 9 digits after "E" *)
Theorem CH_detects_every_single_digit_error c i b :
  valid_CH c = true -> c <> [] -> (1 <= i < 10)%nat -> is_digit b = true -> b <> nthb i c ->
  valid_CH (set_nth i b c) = false.
Proof. exact (ch_single_digit c i b). Qed.
Print Assumptions CH_detects_every_single_digit_error.

(* BE (mod 97): all 9 or 10 positions *)
Theorem BE_detects_every_single_digit_error c i b :
  valid_BE c = true -> c <> [] -> (i < List.length c)%nat -> is_digit b = true -> b <> nthb i c ->
  valid_BE (set_nth i b c) = false.
Proof. exact (be_single_digit c i b). Qed.
Print Assumptions BE_detects_every_single_digit_error.

(* FR (VAT key mod 97): all 11 positions, key digits included *)
Theorem FR_detects_every_single_digit_error c i b :
  valid_FR c = true -> c <> [] -> (i < 11)%nat -> is_digit b = true -> b <> nthb i c ->
  valid_FR (set_nth i b c) = false.
Proof. exact (fr_single_digit c i b). Qed.
Print Assumptions FR_detects_every_single_digit_error.

(* FR SIREN (Luhn), the check used by the FR normaliser before it prefixes the key *)
Theorem FR_SIREN_detects_every_single_digit_error c i b :
  fr_valid_siren c = true -> c <> [] -> (i < 9)%nat -> is_digit b = true -> b <> nthb i c ->
  fr_valid_siren (set_nth i b c) = false.
Proof. exact (siren_single_digit c i b). Qed.
Print Assumptions FR_SIREN_detects_every_single_digit_error.

(* IT (Partita IVA, Luhn): all 11 positions *)
Theorem IT_detects_every_single_digit_error c i b :
  valid_IT c = true -> c <> [] -> (i < 11)%nat -> is_digit b = true -> b <> nthb i c ->
  valid_IT (set_nth i b c) = false.
Proof. exact (it_single_digit c i b). Qed.
Print Assumptions IT_detects_every_single_digit_error.

(* AT (digit sums modulo 10): the 8 digits after "U" *)
Theorem AT_detects_every_single_digit_error c i b :
  valid_AT c = true -> c <> [] -> (1 <= i < 9)%nat -> is_digit b = true -> b <> nthb i c ->
  valid_AT (set_nth i b c) = false.
Proof. exact (at_single_digit c i b). Qed.
Print Assumptions AT_detects_every_single_digit_error.

(* ES (DNI and NIE: number mod 23 -> letter; CIF and K/L/M: Luhn-type with digit or letter check):
   every position that holds a digit *)
Theorem ES_detects_every_single_digit_error c i b :
  valid_ES c = true -> c <> [] -> (i < 9)%nat ->
  is_digit (nthb i c) = true -> is_digit b = true -> b <> nthb i c ->
  valid_ES (set_nth i b c) = false.
Proof. exact (es_single_digit c i b). Qed.
Print Assumptions ES_detects_every_single_digit_error.

(* DE (ISO 7064 MOD 11,10): all 9 positions *)
Theorem DE_detects_every_single_digit_error c i b :
  valid_DE c = true -> c <> [] -> (i < 9)%nat -> is_digit b = true -> b <> nthb i c ->
  valid_DE (set_nth i b c) = false.
Proof. exact (de_single_digit c i b). Qed.
Print Assumptions DE_detects_every_single_digit_error.

(* IN (GSTIN, Luhn mod 36): every position that holds a digit *)
Theorem IN_detects_every_single_digit_error c i b :
  valid_IN c = true -> c <> [] -> (i < 15)%nat ->
  is_digit (nthb i c) = true -> is_digit b = true -> b <> nthb i c ->
  valid_IN (set_nth i b c) = false.
Proof. exact (in_single_digit c i b). Qed.
Print Assumptions IN_detects_every_single_digit_error.

(* ---- regimes where two remainders share one check digit: the exact undetected set ---- *)

(* PT: remainders 0 and 1 give check digit 0.  With T = 9d1+...+2d8+d9 and w the weight of the
   changed position, the changed code is accepted again exactly when the change is not in the
   check digit, the check digit is 0, and T moves between remainders 0 and 1 (and the leading
   digits still name a taxpayer class) *)
Theorem PT_undetected_single_digit_errors_exactly c i b :
  valid_PT c = true -> c <> [] -> (i < 9)%nat -> is_digit b = true -> b <> nthb i c ->
  (valid_PT (set_nth i b c) = true <->
   pt_prefix_ok (set_nth i b c) = true /\ (i < 8)%nat /\ dv (nthb 8 c) = 0 /\
   ((pt_T c mod 11 = 0 /\ (pt_w i * (dv b - dv (nthb i c))) mod 11 = 1) \/
    (pt_T c mod 11 = 1 /\ (pt_w i * (dv b - dv (nthb i c))) mod 11 = 10))).
Proof. exact (pt_single_digit_exact c i b). Qed.
Print Assumptions PT_undetected_single_digit_errors_exactly.

Theorem PT_detects_errors_when_check_digit_nonzero_or_in_check_digit c i b :
  valid_PT c = true -> c <> [] -> (i < 9)%nat -> is_digit b = true -> b <> nthb i c ->
  (dv (nthb 8 c) <> 0 \/ i = 8%nat) -> valid_PT (set_nth i b c) = false.
Proof. exact (pt_single_digit_detected c i b). Qed.
Print Assumptions PT_detects_errors_when_check_digit_nonzero_or_in_check_digit.

(* EL: (sum mod 11) mod 10 - remainders 0 and 10 give check digit 0 *)
Theorem EL_undetected_single_digit_errors_exactly c i b :
  valid_EL c = true -> c <> [] -> (i < 9)%nat -> is_digit b = true -> b <> nthb i c ->
  (valid_EL (set_nth i b c) = true <->
   (i < 8)%nat /\ dv (nthb 8 c) = 0 /\
   ((el_T c mod 11 = 0 /\ (el_w i * (dv b - dv (nthb i c))) mod 11 = 10) \/
    (el_T c mod 11 = 10 /\ (el_w i * (dv b - dv (nthb i c))) mod 11 = 1))).
Proof. exact (el_single_digit_exact c i b). Qed.
Print Assumptions EL_undetected_single_digit_errors_exactly.

Theorem EL_detects_errors_when_check_digit_nonzero_or_in_check_digit c i b :
  valid_EL c = true -> c <> [] -> (i < 9)%nat -> is_digit b = true -> b <> nthb i c ->
  (dv (nthb 8 c) <> 0 \/ i = 8%nat) -> valid_EL (set_nth i b c) = false.
Proof. exact (el_single_digit_detected c i b). Qed.
Print Assumptions EL_detects_errors_when_check_digit_nonzero_or_in_check_digit.

(* CO: remainders 1 and 10 give check digit 1 *)
Theorem CO_undetected_single_digit_errors_exactly c i b :
  valid_CO c = true -> c <> [] -> (i < List.length c)%nat -> is_digit b = true -> b <> nthb i c ->
  (valid_CO (set_nth i b c) = true <->
   (i < co_last c)%nat /\ dv (nthb (co_last c) c) = 1 /\
   ((co_T c mod 11 = 0 /\ (co_w c i * (dv b - dv (nthb i c))) mod 11 = 2) \/
    (co_T c mod 11 = 2 /\ (co_w c i * (dv b - dv (nthb i c))) mod 11 = 9))).
Proof. exact (co_single_digit_exact c i b). Qed.
Print Assumptions CO_undetected_single_digit_errors_exactly.

Theorem CO_detects_errors_when_check_digit_not_1_or_in_check_digit c i b :
  valid_CO c = true -> c <> [] -> (i < List.length c)%nat -> is_digit b = true -> b <> nthb i c ->
  (dv (nthb (co_last c) c) <> 1 \/ i = co_last c) -> valid_CO (set_nth i b c) = false.
Proof. exact (co_single_digit_detected c i b). Qed.
Print Assumptions CO_detects_errors_when_check_digit_not_1_or_in_check_digit.

(* BR: two check digits, each 0 for remainders 0 and 1: undetected only when both are 0 and
   both sums move between remainders 0 and 1 *)
Theorem BR_undetected_single_digit_errors_exactly c i b :
  valid_BR c = true -> c <> [] -> (i < 14)%nat -> is_digit b = true -> b <> nthb i c ->
  (valid_BR (set_nth i b c) = true <->
   (i < 12)%nat /\ dv (nthb 12 c) = 0 /\ dv (nthb 13 c) = 0 /\
   br_switch (br_T1 c) (nth i br_W1 0 * (dv b - dv (nthb i c))) /\
   br_switch (br_T2 c) (nth i br_W2 0 * (dv b - dv (nthb i c)))).
Proof. exact (br_single_digit_exact c i b). Qed.
Print Assumptions BR_undetected_single_digit_errors_exactly.

Theorem BR_detects_errors_unless_both_check_digits_zero c i b :
  valid_BR c = true -> c <> [] -> (i < 14)%nat -> is_digit b = true -> b <> nthb i c ->
  (dv (nthb 12 c) <> 0 \/ dv (nthb 13 c) <> 0 \/ (12 <= i)%nat) -> valid_BR (set_nth i b c) = false.
Proof. exact (br_single_digit_detected c i b). Qed.
Print Assumptions BR_detects_errors_unless_both_check_digits_zero.

(* ---- regimes accepting under two rules ---- *)

(* GB (9 digits): modulus 97 and 9755 accept totals 0 and 42 modulo 97; an error survives only
   in the 2nd digit changed by 6 or the 3rd digit changed by 7 *)
Theorem GB_undetected_single_digit_errors_are_only c i b :
  digits_n 9 c = true -> valid_GB c = true -> (i < 9)%nat -> is_digit b = true -> b <> nthb i c ->
  valid_GB (set_nth i b c) = true ->
  (i = 1%nat /\ Z.abs (dv b - dv (nthb i c)) = 6) \/ (i = 2%nat /\ Z.abs (dv b - dv (nthb i c)) = 7).
Proof. exact (gb_single_digit_necessary c i b). Qed.
Print Assumptions GB_undetected_single_digit_errors_are_only.

Theorem GB_detects_all_other_single_digit_errors c i b :
  digits_n 9 c = true -> valid_GB c = true -> (i < 9)%nat -> is_digit b = true -> b <> nthb i c ->
  ~ ((i = 1%nat /\ Z.abs (dv b - dv (nthb i c)) = 6) \/ (i = 2%nat /\ Z.abs (dv b - dv (nthb i c)) = 7)) ->
  valid_GB (set_nth i b c) = false.
Proof. exact (gb_single_digit_detected c i b). Qed.
Print Assumptions GB_detects_all_other_single_digit_errors.

(* NL: each test alone detects every single-digit error in the digits it covers; the 11-test
   does not cover the two digits after "B" *)
Theorem NL_eleven_test_detects_every_single_digit_error c i b :
  nl_shape c -> (i < 9)%nat -> is_digit b = true -> b <> nthb i c ->
  nl_eleven_test c -> ~ nl_eleven_test (set_nth i b c).
Proof. exact (nl_eleven_test_detects c i b). Qed.
Print Assumptions NL_eleven_test_detects_every_single_digit_error.

Theorem NL_eleven_test_ignores_the_suffix_digits c i b :
  (10 <= i)%nat -> (nl_eleven_test (set_nth i b c) <-> nl_eleven_test c).
Proof. exact (nl_eleven_test_ignores_suffix c i b). Qed.
Print Assumptions NL_eleven_test_ignores_the_suffix_digits.

Theorem NL_mod97_test_detects_every_single_digit_error c i b :
  nl_shape c -> (i < 12)%nat -> i <> 9%nat -> is_digit b = true -> b <> nthb i c ->
  nl_97_test c -> ~ nl_97_test (set_nth i b c).
Proof. exact (nl_97_test_detects c i b). Qed.
Print Assumptions NL_mod97_test_detects_every_single_digit_error.

Theorem NL_undetected_single_digit_errors_switch_tests c i b :
  Spec_NL c -> (i < 9)%nat -> is_digit b = true -> b <> nthb i c -> Spec_NL (set_nth i b c) ->
  (nl_eleven_test c /\ ~ nl_97_test c /\ nl_97_test (set_nth i b c) /\ ~ nl_eleven_test (set_nth i b c)) \/
  (nl_97_test c /\ ~ nl_eleven_test c /\ nl_eleven_test (set_nth i b c) /\ ~ nl_97_test (set_nth i b c)).
Proof. exact (nl_spec_single_digit_switches c i b). Qed.
Print Assumptions NL_undetected_single_digit_errors_switch_tests.

(* non-vacuity: accepted codes exist for every regime, and the characterised exceptions occur *)
Example accepted_codes_exist :
  valid_AE (bs "526018159083016") = true /\ valid_AT (bs "U03082467") = true /\
  valid_BE (bs "0193786501") = true /\ valid_BE (bs "299351896") = true /\
  valid_BR (bs "75432319487558") = true /\ valid_CH (bs "E018955594") = true /\
  valid_CO (bs "497465072") = true /\ valid_CO (bs "2917034236") = true /\
  valid_DE (bs "767127680") = true /\ valid_EL (bs "321223300") = true /\
  valid_ES (bs "P28907863") = true /\ valid_ES (bs "Y6031372G") = true /\ valid_ES (bs "54362315K") = true /\
  valid_FR (bs "76159010925") = true /\ fr_valid_siren (bs "732829320") = true /\
  valid_GB (bs "957117743") = true /\ valid_IN (bs "28AYQJU1485FNZH") = true /\
  valid_IT (bs "38750047433") = true /\ valid_MX (bs "KGP9907517OC") = true /\
  valid_NL (bs "029729975B45") = true /\ valid_NL (bs "288200182B66") = true /\
  valid_PL (bs "7330434834") = true /\ valid_PT (bs "916828280") = true.
Proof. vm_compute. repeat split. Qed.

Example undetected_single_digit_errors_occur :
  (valid_PT (bs "100000010") = true /\ valid_PT (set_nth 0 "6"%byte (bs "100000010")) = true) /\
  (valid_BR (bs "00000047514000") = true /\ valid_BR (set_nth 0 "2"%byte (bs "00000047514000")) = true) /\
  (valid_GB (bs "360837741") = true /\ valid_GB (set_nth 2 "7"%byte (bs "360837741")) = true) /\
  (valid_GB (bs "812865718") = true /\ valid_GB (set_nth 1 "7"%byte (bs "812865718")) = true).
Proof. vm_compute. repeat split. Qed.

(* ================================================================================================
   (b) normalisation
   ================================================================================================ *)

(* which generic normalisation each regime runs *)
Theorem regimes_running_only_the_generic_normalisation cc raw :
  In cc simple_regimes -> normalize cc raw = (cc, norm_generic cc [] raw).
Proof. exact (normalize_simple cc raw). Qed.
Print Assumptions regimes_running_only_the_generic_normalisation.

Theorem regimes_with_alternative_country_codes cc cc' alts raw :
  In (cc, (cc', alts)) multi_regimes -> normalize cc raw = (cc', norm_generic cc' alts raw).
Proof. exact (normalize_multi cc cc' alts raw). Qed.
Print Assumptions regimes_with_alternative_country_codes.

Theorem CH_normalisation_strips_a_trailing_suffix raw :
  normalize (bs "CH") raw = (bs "CH", ch_strip_suffix (norm_generic (bs "CH") [] raw)).
Proof. exact (normalize_CH raw). Qed.
Print Assumptions CH_normalisation_strips_a_trailing_suffix.

Theorem FR_normalisation_prefixes_the_key_of_a_valid_SIREN raw :
  let s := norm_generic (bs "FR") [] raw in
  snd (normalize (bs "FR") raw) = s \/
  (List.length s = 9%nat /\ fr_valid_siren s = true /\ snd (normalize (bs "FR") raw) = two_digits (fr_key s) ++ s).
Proof. exact (normalize_FR raw). Qed.
Print Assumptions FR_normalisation_prefixes_the_key_of_a_valid_SIREN.

(* US codes are not normalised at all (the US regime has no normaliser) *)
Theorem US_codes_are_left_as_written raw : normalize (bs "US") raw = (bs "US", raw).
Proof. exact (normalize_US raw). Qed.
Print Assumptions US_codes_are_left_as_written.

(* idempotence: exact guard for any country / alternative prefixes ... *)
Theorem normalisation_idempotent_iff_no_prefix_left cc alts s :
  norm_generic cc alts (norm_generic cc alts s) = norm_generic cc alts s
  <-> Forall (fun p => p = [] \/ has_prefix p (norm_generic cc alts s) = false) (cc :: alts).
Proof. exact (norm_generic_idempotent_iff cc alts s). Qed.
Print Assumptions normalisation_idempotent_iff_no_prefix_left.

(* ... which for a single prefix is "the written code does not carry the country code twice" *)
Theorem normalisation_idempotent_iff_no_doubled_country_prefix cc raw :
  In cc simple_regimes ->
  (snd (normalize cc (snd (normalize cc raw))) = snd (normalize cc raw)
   <-> has_prefix (cc ++ cc) (clean raw) = false).
Proof. exact (normalize_simple_idempotent_iff cc raw). Qed.
Print Assumptions normalisation_idempotent_iff_no_doubled_country_prefix.

Theorem normalisation_idempotent_unguarded_refuted :
  exists cc raw, In cc simple_regimes /\
    snd (normalize cc (snd (normalize cc raw))) <> snd (normalize cc raw).
Proof. exact normalize_idempotent_refuted. Qed.
Print Assumptions normalisation_idempotent_unguarded_refuted.

Theorem normalisation_with_alternative_codes_idempotent_iff cc cc' alts raw :
  In (cc, (cc', alts)) multi_regimes ->
  (snd (normalize cc (snd (normalize cc raw))) = snd (normalize cc raw)
   <-> Forall (fun p => p = [] \/ has_prefix p (snd (normalize cc raw)) = false) (cc' :: alts)).
Proof. exact (normalize_multi_idempotent_iff cc cc' alts raw). Qed.
Print Assumptions normalisation_with_alternative_codes_idempotent_iff.

Theorem FR_normalisation_idempotent raw :
  has_prefix (bs "FRFR") (clean raw) = false ->
  snd (normalize (bs "FR") (snd (normalize (bs "FR") raw))) = snd (normalize (bs "FR") raw).
Proof. exact (normalize_FR_idempotent raw). Qed.
Print Assumptions FR_normalisation_idempotent.

Example guards_are_satisfiable :
  has_prefix (bs "ESES") (clean (bs "es-b85.905.495")) = false /\
  snd (normalize (bs "ES") (bs "es-b85.905.495")) = bs "B85905495" /\
  has_prefix (bs "FRFR") (clean (bs "FR 732 829 320")) = false /\
  snd (normalize (bs "FR") (bs "FR 732 829 320")) = bs "44732829320" /\
  snd (normalize (bs "EL") (bs "gr 321223300")) = bs "321223300" /\
  snd (normalize (bs "CH") (bs "CHE-018.955.594 MWST")) = bs "E018955594".
Proof. vm_compute. repeat split. Qed.

(* insensitive to letter case, separators, one leading country prefix *)
Theorem normalisation_ignores_letter_case cc alts s :
  norm_generic cc alts (to_lower s) = norm_generic cc alts s /\
  norm_generic cc alts (to_upper s) = norm_generic cc alts s.
Proof. exact (norm_generic_case cc alts s). Qed.
Print Assumptions normalisation_ignores_letter_case.

Theorem normalisation_ignores_separators cc alts a sep b :
  separators sep -> norm_generic cc alts (a ++ sep ++ b) = norm_generic cc alts (a ++ b).
Proof. exact (norm_generic_separators cc alts a sep b). Qed.
Print Assumptions normalisation_ignores_separators.

Theorem normalisation_ignores_one_leading_country_prefix cc alts p s :
  clean p = cc -> has_prefix cc (clean s) = false ->
  norm_generic cc alts (p ++ s) = norm_generic cc alts s.
Proof. exact (norm_generic_prefix cc alts p s). Qed.
Print Assumptions normalisation_ignores_one_leading_country_prefix.

Example separators_and_prefixes_exist :
  separators (bs " .-/_") /\ clean (bs "es-") = bs "ES" /\ has_prefix (bs "ES") (clean (bs "b85.905.495")) = false.
Proof. vm_compute. repeat split. Qed.

(* never alters the identifying characters: the result is a suffix of the letters and digits
   of the written code, and its digits are exactly the digits of the written code *)
Theorem normalisation_keeps_a_suffix_of_the_letters_and_digits cc alts s :
  exists q, clean s = q ++ norm_generic cc alts s.
Proof. exact (norm_generic_suffix cc alts s). Qed.
Print Assumptions normalisation_keeps_a_suffix_of_the_letters_and_digits.

Theorem normalisation_preserves_the_digits cc alts s :
  Forall no_digits (cc :: alts) -> filter is_digit (norm_generic cc alts s) = filter is_digit s.
Proof. exact (norm_generic_digits cc alts s). Qed.
Print Assumptions normalisation_preserves_the_digits.

Theorem regime_normalisation_preserves_the_digits cc raw :
  In cc simple_regimes -> filter is_digit (snd (normalize cc raw)) = filter is_digit raw.
Proof. exact (normalize_simple_digits cc raw). Qed.
Print Assumptions regime_normalisation_preserves_the_digits.

Theorem regime_normalisation_with_alternative_codes_preserves_the_digits cc cc' alts raw :
  In (cc, (cc', alts)) multi_regimes -> filter is_digit (snd (normalize cc raw)) = filter is_digit raw.
Proof. exact (normalize_multi_digits cc cc' alts raw). Qed.
Print Assumptions regime_normalisation_with_alternative_codes_preserves_the_digits.

Theorem CH_normalisation_preserves_the_digits raw :
  filter is_digit (snd (normalize (bs "CH") raw)) = filter is_digit raw.
Proof. exact (normalize_CH_digits raw). Qed.
Print Assumptions CH_normalisation_preserves_the_digits.

(* accepted codes are fixed points of normalisation (so the idempotence guard is vacuous on them) *)
Theorem accepted_ES_codes_are_already_normalised c : valid_ES c = true -> normalize (bs "ES") c = (bs "ES", c).
Proof. exact (accepted_ES_fixed c). Qed.
Print Assumptions accepted_ES_codes_are_already_normalised.

Theorem accepted_all_digit_codes_are_already_normalised cc c :
  In cc simple_regimes -> forallb is_digit c = true -> normalize cc c = (cc, c).
Proof. exact (accepted_digit_codes_fixed cc c). Qed.
Print Assumptions accepted_all_digit_codes_are_already_normalised.

Theorem accepted_PL_PT_IT_DE_codes_are_already_normalised c :
  (valid_PL c = true -> normalize (bs "PL") c = (bs "PL", c)) /\
  (valid_PT c = true -> normalize (bs "PT") c = (bs "PT", c)) /\
  (valid_IT c = true -> normalize (bs "IT") c = (bs "IT", c)) /\
  (valid_DE c = true -> normalize (bs "DE") c = (bs "DE", c)).
Proof. exact (conj (accepted_PL_fixed c) (conj (accepted_PT_fixed c) (conj (accepted_IT_fixed c) (accepted_DE_fixed c)))). Qed.
Print Assumptions accepted_PL_PT_IT_DE_codes_are_already_normalised.

(* ================================================================================================
   (c) accepted iff the published rule (empty codes are accepted: the code is optional)
   ================================================================================================ *)

Theorem PL_accepts_exactly_the_published_rule c : valid_PL c = true <-> c = [] \/ Spec_PL c.
Proof. exact (valid_PL_iff_spec c). Qed.
Print Assumptions PL_accepts_exactly_the_published_rule.

Theorem CH_accepts_exactly_the_published_rule c : valid_CH c = true <-> c = [] \/ Spec_CH c.
Proof. exact (valid_CH_iff_spec c). Qed.
Print Assumptions CH_accepts_exactly_the_published_rule.

Theorem PT_accepts_exactly_the_published_rule c : valid_PT c = true <-> c = [] \/ Spec_PT c.
Proof. exact (valid_PT_iff_spec c). Qed.
Print Assumptions PT_accepts_exactly_the_published_rule.

Theorem EL_accepts_exactly_the_published_rule c : valid_EL c = true <-> c = [] \/ Spec_EL c.
Proof. exact (valid_EL_iff_spec c). Qed.
Print Assumptions EL_accepts_exactly_the_published_rule.

Theorem IT_accepts_exactly_the_published_rule c : valid_IT c = true <-> c = [] \/ Spec_IT c.
Proof. exact (valid_IT_iff_spec c). Qed.
Print Assumptions IT_accepts_exactly_the_published_rule.

Theorem FR_accepts_exactly_the_published_rule c : valid_FR c = true <-> c = [] \/ Spec_FR c.
Proof. exact (valid_FR_iff_spec c). Qed.
Print Assumptions FR_accepts_exactly_the_published_rule.

Theorem BE_accepts_exactly_the_published_rule c : valid_BE c = true <-> c = [] \/ Spec_BE c.
Proof. exact (valid_BE_iff_spec c). Qed.
Print Assumptions BE_accepts_exactly_the_published_rule.

(* the enterprise numbers issued since 2023 start with 1: each one carrying the right key is accepted,
   and no other leading digit than 0 or 1 is *)
Theorem BE_accepts_every_number_starting_with_1_that_has_the_right_key c :
  List.length c = 10%nat -> digits_between c 0 10 -> dig c 0 = 1 ->
  number c 8 10 = 97 - (number c 0 8) mod 97 -> valid_BE c = true.
Proof. exact (valid_BE_leading_1 c). Qed.
Print Assumptions BE_accepts_every_number_starting_with_1_that_has_the_right_key.

Theorem BE_ten_digit_numbers_start_with_0_or_1 c :
  valid_BE c = true -> List.length c = 10%nat -> dig c 0 = 0 \/ dig c 0 = 1.
Proof. exact (valid_BE_leading_digit c). Qed.
Print Assumptions BE_ten_digit_numbers_start_with_0_or_1.

Example BE_numbers_starting_with_1_exist :
  (List.length (bs "1000000021") = 10%nat /\ digits_between (bs "1000000021") 0 10 /\ dig (bs "1000000021") 0 = 1 /\
   number (bs "1000000021") 8 10 = 97 - (number (bs "1000000021") 0 8) mod 97) /\
  valid_BE (bs "1000000021") = true /\ valid_BE (bs "1000123448") = true /\ valid_BE (bs "1012345646") = true /\
  valid_BE (bs "1000123449") = false /\ valid_BE (bs "2000000042") = false /\ valid_BE (bs "0012345625") = false.
Proof. exact be_leading_1_witnesses. Qed.

Theorem NL_accepts_exactly_the_published_rule c : valid_NL c = true <-> c = [] \/ Spec_NL c.
Proof. exact (valid_NL_iff_spec c). Qed.
Print Assumptions NL_accepts_exactly_the_published_rule.

Theorem AT_accepts_exactly_the_published_rule c : valid_AT c = true <-> c = [] \/ Spec_AT c.
Proof. exact (valid_AT_iff_spec c). Qed.
Print Assumptions AT_accepts_exactly_the_published_rule.

Theorem DE_accepts_exactly_the_published_rule c : valid_DE c = true <-> c = [] \/ Spec_DE c.
Proof. exact (valid_DE_iff_spec c). Qed.
Print Assumptions DE_accepts_exactly_the_published_rule.

Theorem CO_accepts_exactly_the_published_rule c : valid_CO c = true <-> c = [] \/ Spec_CO c.
Proof. exact (valid_CO_iff_spec c). Qed.
Print Assumptions CO_accepts_exactly_the_published_rule.

Theorem BR_accepts_exactly_the_published_rule c : valid_BR c = true <-> c = [] \/ Spec_BR c.
Proof. exact (valid_BR_iff_spec c). Qed.
Print Assumptions BR_accepts_exactly_the_published_rule.

(* ES: every code of the published rule is accepted, and the validator accepts exactly the published
   shapes and check characters - except that the control character of a CIF / K-L-M number is
   accepted in either form (digit or letter) whatever the first letter, where the published rule
   fixes the form for K L M N P Q R S W (letter) and A B E H (digit) *)
Theorem ES_accepts_every_code_of_the_published_rule c : c = [] \/ Spec_ES c -> valid_ES c = true.
Proof. exact (spec_ES_accepted c). Qed.
Print Assumptions ES_accepts_every_code_of_the_published_rule.

Theorem ES_accepts_exactly_the_published_rule_with_either_control_form c :
  valid_ES c = true <-> c = [] \/ Spec_ES_either_form c.
Proof. exact (valid_ES_iff_either_form c). Qed.
Print Assumptions ES_accepts_exactly_the_published_rule_with_either_control_form.

Theorem ES_accepts_exactly_the_published_rule_refuted :
  (exists c, valid_ES c = true /\ ~ (c = [] \/ Spec_ES c)) /\
  valid_ES (bs "Q28260008") = true /\ ~ Spec_ES (bs "Q28260008") /\ Spec_ES (bs "Q2826000H") /\
  valid_ES (bs "A5881850A") = true /\ ~ Spec_ES (bs "A5881850A") /\ Spec_ES (bs "A58818501").
Proof. exact valid_ES_iff_spec_refuted. Qed.
Print Assumptions ES_accepts_exactly_the_published_rule_refuted.

Theorem IN_accepts_exactly_the_published_rule c : valid_IN c = true <-> c = [] \/ Spec_IN c.
Proof. exact (valid_IN_iff_spec c). Qed.
Print Assumptions IN_accepts_exactly_the_published_rule.

(* GB (9 digits) *)
Theorem GB_accepts_exactly_the_published_rule c :
  List.length c = 9%nat ->
  (digits_n 9 c = true /\ gb_commercial c = true <-> Spec_GB_commercial c).
Proof. exact (gb_commercial_iff_spec_9 c). Qed.
Print Assumptions GB_accepts_exactly_the_published_rule.

(* GB, all forms: 9 digits, 12 digits (with a branch identifier), GD000-GD499, HA500-HA999 *)
Theorem GB_all_forms_accepts_exactly_the_published_rule c : valid_GB c = true <-> c = [] \/ Spec_GB c.
Proof. exact (valid_GB_iff_spec c). Qed.
Print Assumptions GB_all_forms_accepts_exactly_the_published_rule.

(* AE: format only (15 digits) *)
Theorem AE_accepts_exactly_the_published_rule c : valid_AE c = true <-> c = [] \/ Spec_AE c.
Proof. exact (valid_AE_iff_spec c). Qed.
Print Assumptions AE_accepts_exactly_the_published_rule.

(* MX: format only (RFC of persons and companies) *)
Theorem MX_accepts_exactly_the_published_rule c : valid_MX c = true <-> c = [] \/ Spec_MX c.
Proof. exact (valid_MX_iff_spec c). Qed.
Print Assumptions MX_accepts_exactly_the_published_rule.

Example published_rules_are_satisfiable :
  Spec_NL (bs "029729975B45") /\ Spec_GB_commercial (bs "930000297").
Proof.
  split.
  - destruct (proj1 (valid_NL_iff_spec (bs "029729975B45")) ltac:(vm_compute; reflexivity)) as [E|S]; [discriminate E | exact S].
  - apply (gb_commercial_iff_spec_9 (bs "930000297") eq_refl). split; vm_compute; reflexivity.
Qed.

Example more_published_rules_are_satisfiable :
  Spec_AT (bs "U03082467") /\ Spec_DE (bs "767127680") /\ Spec_CO (bs "497465072") /\ Spec_CO (bs "2917034236") /\
  Spec_BR (bs "75432319487558") /\ Spec_IN (bs "28AYQJU1485FNZH") /\ Spec_AE (bs "526018159083016") /\
  Spec_MX (bs "KGP9907517OC") /\ Spec_GB (bs "957117743") /\ Spec_GB (bs "GD499") /\ Spec_GB (bs "HA500") /\
  Spec_ES (bs "Q2826000H") /\ Spec_ES (bs "A58818501") /\
  Spec_ES_either_form (bs "Y6031372G") /\ Spec_ES_either_form (bs "54362315K").
Proof.
  assert (Q : forall (S : bytes -> Prop) (v : bytes -> bool) c,
             (forall c, v c = true <-> c = [] \/ S c) -> v c = true -> c <> [] -> S c).
  { intros S v c H V NE. apply H in V. destruct V as [E|V]; [contradiction | exact V]. }
  destruct valid_ES_iff_spec_refuted as (_ & _ & _ & S1 & _ & _ & S2).
  split; [apply (Q _ _ _ valid_AT_iff_spec); [vm_compute; reflexivity | discriminate]|].
  split; [apply (Q _ _ _ valid_DE_iff_spec); [vm_compute; reflexivity | discriminate]|].
  split; [apply (Q _ _ _ valid_CO_iff_spec); [vm_compute; reflexivity | discriminate]|].
  split; [apply (Q _ _ _ valid_CO_iff_spec); [vm_compute; reflexivity | discriminate]|].
  split; [apply (Q _ _ _ valid_BR_iff_spec); [vm_compute; reflexivity | discriminate]|].
  split; [apply (Q _ _ _ valid_IN_iff_spec); [vm_compute; reflexivity | discriminate]|].
  split; [apply (Q _ _ _ valid_AE_iff_spec); [vm_compute; reflexivity | discriminate]|].
  split; [apply (Q _ _ _ valid_MX_iff_spec); [vm_compute; reflexivity | discriminate]|].
  split; [apply (Q _ _ _ valid_GB_iff_spec); [vm_compute; reflexivity | discriminate]|].
  split; [apply (Q _ _ _ valid_GB_iff_spec); [vm_compute; reflexivity | discriminate]|].
  split; [apply (Q _ _ _ valid_GB_iff_spec); [vm_compute; reflexivity | discriminate]|].
  split; [exact S1|]. split; [exact S2|].
  split; apply (Q _ _ _ valid_ES_iff_either_form); first [vm_compute; reflexivity | discriminate].
Qed.
