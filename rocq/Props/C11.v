(* C11 - Published JSON Schemas are valid and every valid document conforms.
   Property theorems only; every proof is `exact <lemma>` (or the evaluation of a boolean checker
   on the generated data, lifted by a proved lemma).

   What is proved here:
   (a) the regular-expression matcher decides the denoted language;
   (b) the fuelled validator decides the relational specification conforms / violates of the
       modelled keyword subset (draft 2020-12), for every fuel that suffices;
   (c) about the files under data/schemas as they are NOW (Gen/Schemas.v, Gen/SchemasJson.v are
       regenerated from the repository by every check): every keyword of every file carries a value
       of the type the meta-schema requires - except the recorded finding; every $ref resolves to a
       shipped definition; every $id is the file's path; every pattern is in the modelled subset;
       the translated schemas carry exactly the raw files' patterns and references;
   (d) the schema's key / code rules are literally the rules of the Go code (cbc.KeyPattern,
       cbc.CodePattern and the length limits), and the key pattern means what its documentation says.
   What is NOT proved: that every document the library accepts conforms (that would need a model of
   every Validate method); tools/props/c11.py establishes it by sweep. *)
From Coq Require Import List ZArith Strings.Byte String Bool.
From Verif Require Import Base.Wire Schema.Regex Schema.RegexProofs Schema.Schema Schema.Validate
  Schema.ValidateProofs Schema.WellFormed Schema.WellFormedProofs Schema.ShippedProofs Schema.LeafProofs.
From Verif Require Import Gen.Schemas Gen.SchemasJson.
Import ListNotations.
Open Scope Z_scope.

(* ---- (a) regular expressions ---- *)
Theorem regex_match_correct r s : matches r s = true <-> lang r s.
Proof. exact (RegexProofs.regex_match_correct r s). Qed.
Print Assumptions regex_match_correct.

(* "pattern" is a search, anchored where the text has ^ / $ *)
Theorem pattern_keyword_is_anchored_search p s : pattern_matches p s = true <-> pattern_lang p s.
Proof. exact (pattern_matches_correct p s). Qed.
Print Assumptions pattern_keyword_is_anchored_search.

(* r{m,n} means between m and n copies *)
Theorem bounded_repetition_meaning r m n s :
  match n with Some k => (m <= k)%nat | None => True end ->
  (lang (rrep r m n) s <->
   exists k, (m <= k)%nat /\ match n with Some q => (k <= q)%nat | None => True end /\ lang (rpow r k) s).
Proof. exact (lang_rrep r m n s). Qed.
Print Assumptions bounded_repetition_meaning.

(* ---- (b) the validator ---- *)
Theorem validate_sound e n base s j :
  (validate e n base s j = Some true -> conforms e base s j) /\
  (validate e n base s j = Some false -> violates e base s j).
Proof. exact (ValidateProofs.validate_sound e n base s j). Qed.
Print Assumptions validate_sound.

Theorem validate_sound_complete e base s j :
  ((exists n, validate e n base s j = Some true) <-> conforms e base s j) /\
  ((exists n, validate e n base s j = Some false) <-> violates e base s j).
Proof. exact (ValidateProofs.validate_sound_complete e base s j). Qed.
Print Assumptions validate_sound_complete.

(* enough fuel exists, and every larger fuel gives the same verdict *)
Theorem validate_complete_for_all_larger_fuel e base s j :
  (conforms e base s j -> exists n, forall m, (n <= m)%nat -> validate e m base s j = Some true) /\
  (violates e base s j -> exists n, forall m, (n <= m)%nat -> validate e m base s j = Some false).
Proof. exact (validate_complete e base s j). Qed.
Print Assumptions validate_complete_for_all_larger_fuel.

Theorem verdict_is_unique e base s j : conforms e base s j -> violates e base s j -> False.
Proof. exact (conforms_violates_exclusive e base s j). Qed.
Print Assumptions verdict_is_unique.

(* what the runner's entry point returns is a conformance derivation *)
Theorem accepted_by_the_runner_conforms e n id j : validate_id e n id j = Some true -> conforms_id e id j.
Proof. exact (validate_id_sound e n id j). Qed.
Print Assumptions accepted_by_the_runner_conforms.

(* the boolean well-formedness report is exact *)
Theorem wellformed_iff_empty_report j : wf_schema no_excuse j <-> malformed j = [].
Proof. exact (wf_schema_iff j). Qed.
Print Assumptions wellformed_iff_empty_report.

(* ---- (c) the shipped files ---- *)
(* C11-1 (fixes/C11-1-delivery-enum.diff): bill/delivery.json carries "enum": "advice".
   When the fix is applied this list becomes [] - and must, because
   known_malformed_each_refuted below then fails for a stale entry. *)
Definition known_malformed : list (bytes * bytes) := [].   (* bill/delivery.json enum repaired (findings/C11.json, fixed) *)

Theorem all_schemas_wellformed_except_known :
  files_wellformed_except known_malformed shipped_schema_json.
Proof. exact (wf_files_except_sound known_malformed shipped_schema_json eq_refl (@eq_refl bool true <: wf_files_except known_malformed shipped_schema_json = true)). Qed.
Print Assumptions all_schemas_wellformed_except_known.

(* each recorded exception is a real defect: the named file is NOT a well-formed schema
   (for the committed list: delivery_enum_malformed_refuted) *)
Theorem known_malformed_each_refuted : exceptions_are_real known_malformed shipped_schema_json.
Proof. exact (known_are_real_sound known_malformed shipped_schema_json (@eq_refl bool true <: known_are_real known_malformed shipped_schema_json = true)). Qed.
Print Assumptions known_malformed_each_refuted.

Theorem all_refs_resolve : refs_resolve shipped_schemas.
Proof. exact (refs_resolve_in_sound shipped_schemas (@eq_refl bool true <: refs_resolve_in shipped_schemas = true)). Qed.
Print Assumptions all_refs_resolve.

Theorem all_ids_are_the_file_paths : ids_match_paths shipped_schemas.
Proof. exact (ids_match_paths_sound shipped_schemas (@eq_refl bool true <: forallb id_matches_path shipped_schemas = true)). Qed.
Print Assumptions all_ids_are_the_file_paths.

Theorem all_patterns_in_supported_subset : patterns_supported shipped_schemas.
Proof. exact (patterns_supported_sound shipped_schemas (@eq_refl bool true <: patterns_supported_b shipped_schemas = true)). Qed.
Print Assumptions all_patterns_in_supported_subset.

(* the translator lost no pattern and no reference *)
Theorem translated_schemas_agree_with_raw_files : translation_agrees shipped_schema_json shipped_schemas.
Proof. exact (translation_faithful_sound shipped_schema_json shipped_schemas (@eq_refl bool true <: translation_faithful shipped_schema_json shipped_schemas = true)). Qed.
Print Assumptions translated_schemas_agree_with_raw_files.

(* ---- (d) leaf rules: the schema says what the Go code checks ---- *)
Theorem key_rule_is_the_implementations :
  string_rule shipped_schemas (bs "cbc/key.json") (bs "Key") =
    Some (go_key_pattern, Some go_key_min_length, Some go_key_max_length) /\
  go_key_pattern = bs "^(?:[a-z]|[a-z0-9][a-z0-9-+]*[a-z0-9])$" /\
  go_key_min_length = 1 /\ go_key_max_length = 64.
Proof. exact (conj eq_refl (conj eq_refl (conj eq_refl eq_refl))). Qed.
Print Assumptions key_rule_is_the_implementations.

Theorem code_rule_is_the_implementations :
  string_rule shipped_schemas (bs "cbc/code.json") (bs "Code") =
    Some (go_code_pattern, Some go_code_min_length, Some go_code_max_length) /\
  go_code_pattern = bs "^[A-Za-z0-9]+([\.\-\/ _\:]?[A-Za-z0-9]+)*$" /\
  go_code_min_length = 1 /\ go_code_max_length = 32.
Proof. exact (conj eq_refl (conj eq_refl (conj eq_refl eq_refl))). Qed.
Print Assumptions code_rule_is_the_implementations.

(* the published key pattern accepts exactly: one lower-case letter, or lower-case alphanumerics
   with inner '-' / '+' starting and ending alphanumeric (LeafProofs.key_spec) *)
Theorem published_key_pattern_accepts_exactly_keys s :
  exists p, def_pattern shipped_schemas (bs "cbc/key.json") (bs "Key") = Some p /\
            (pattern_matches p s = true <-> key_spec s).
Proof. exact (ex_intro _ _ (conj eq_refl (key_pattern_meaning go_key_pattern s))). Qed.
Print Assumptions published_key_pattern_accepts_exactly_keys.

(* ---- non-vacuity ---- *)
Example regex_examples :
  let key := nth 0 shipped_patterns (mkPattern [] false false RNone) in
  p_src key = bs "^(?:[a-z]|[a-z0-9][a-z0-9-+]*[a-z0-9])$" /\
  pattern_matches key (bs "standard+eqs") = true /\ pattern_matches key (bs "Standard") = false /\
  pattern_matches key (bs "a-") = false /\ pattern_matches key (bs "9") = false /\
  pattern_matches (mkPattern (bs "b+") false false (rplus (rbyte 98))) (bs "aabba") = true /\
  pattern_matches (mkPattern (bs "^b+") true false (rplus (rbyte 98))) (bs "aabba") = false /\
  pattern_matches (mkPattern (bs "[^a]$") false true (rnegclass [(97, 97)]%N)) (map byte_of_Z [97; 195; 169]) = true /\
  re_scan (bs "^a.b$") true false true = false /\ re_scan (bs "^(?=a)b$") true false true = false /\
  re_scan (bs "^a*?$") true false true = false /\ re_scan (bs "^\w+$") true false true = false.
Proof. vm_compute. repeat split. Qed.

Example validate_examples :
  let e := env_of_files shipped_schemas in
  validate_id e 50 (bs "https://gobl.org/draft-0/cbc/key") (JStr (bs "reduced")) = Some true /\
  validate_id e 50 (bs "https://gobl.org/draft-0/cbc/key") (JStr (bs "Reduced")) = Some false /\
  validate_id e 50 (bs "https://gobl.org/draft-0/cbc/key") (JNum 1 0) = Some false /\
  validate_id e 50 (bs "https://gobl.org/draft-0/cal/date") (JStr (bs "2024-02-29")) = Some true /\
  validate_id e 50 (bs "https://gobl.org/draft-0/cal/date") (JStr (bs "2023-02-29")) = Some false /\
  validate_id e 50 (bs "https://gobl.org/draft-0/num/amount") (JStr (bs "-12.50")) = Some true /\
  validate_id e 50 (bs "https://gobl.org/draft-0/tax/identity")
     (JObj [(bs "country", JStr (bs "ES")); (bs "code", JStr (bs "B98602642"))]) = Some true /\
  validate_id e 50 (bs "https://gobl.org/draft-0/tax/identity")
     (JObj [(bs "code", JStr (bs "B98602642"))]) = Some false /\
  validate_id e 2 (bs "https://gobl.org/draft-0/tax/identity")
     (JObj [(bs "country", JStr (bs "ES"))]) = None.
Proof. vm_compute. repeat split. Qed.

(* the well-formedness report on hand-written schemas: the shape of the recorded finding
   ("enum" given a string), a missing array, a nested position, and a clean schema *)
Example report_examples :
  malformed (JObj [(bs "type", JStr (bs "string")); (bs "enum", JStr (bs "advice"))]) = [bs "enum"] /\
  malformed (JObj [(bs "properties", JObj [(bs "a", JObj [(bs "required", JStr (bs "x"))])])]) = [bs "required"] /\
  malformed (JObj [(bs "oneOf", JArr [])]) = [bs "oneOf"] /\
  malformed (JObj [(bs "type", JArr [JStr (bs "string"); JStr (bs "null")]);
                   (bs "enum", JArr [JStr (bs "advice"); JStr (bs "note")]);
                   (bs "items", JBool true); (bs "minLength", JNum 1 0)]) = [] /\
  map (fun p => (fst p, lookup (fst p) (map (fun f => (fst f, malformed (snd f))) shipped_schema_json)))
      known_malformed = map (fun p => (fst p, Some [snd p])) known_malformed.
Proof. vm_compute. repeat split. Qed.

(* ================================================================================================ *)
(* ---- (e) typed documents have the published shape ----
   What the library writes for a registered Go type (Marshal/Typed.v: `reenc`, type descriptors regenerated
   by reflection into Gen/GoTypes.v) has, STRUCTURALLY, the shape the published schema of that type allows
   (Gen/Schemas.v, translated from data/schemas on every run):
     (S1) every member a struct writes is a member the schema declares - `shaped` reads a schema object that
          lists `properties` (and has neither patternProperties nor additionalProperties) as closed, so
          `additionalProperties: false` could be added to the published schemas without rejecting anything
          written at these types, and no member is misspelled or left over after a regeneration;
     (S2) every written value has a JSON type the schema allows at its place, recursively through $ref,
          allOf, properties, patternProperties / additionalProperties (maps), items (slices), pointers.
   Value-level keywords (pattern, format, enum/const, required, minLength/maxLength, oneOf/anyOf) are
   ignored here: they stay with the sweep.  The data theorems are re-checked by vm_compute against the
   regenerated tables: a Go member added, renamed or retyped without regenerating the schema (or the
   reverse) breaks them.
   Stated limits: trees with a null directly inside an array are excluded (null_clean; the reader of
   documents rejects them); cbc.Definition is recursive and it and the three registry types containing it
   are not covered (shape_unchecked); a schema.Object member is only known to be an object (its payload is
   covered as a registered type of its own, but the `$schema` member the wrapper adds is NOT declared by the
   payload's schema).  Lax reading: trees without null members.  Strict reading: a nil pointer / slice / map
   member without omitempty is written as null, no shipped schema allows null: holds for the types without
   such a member, the others are listed (shape_null_members, with the members in Schema/ShapeShipped.v). *)
From Verif Require Import Marshal.Typed Marshal.Wf Marshal.Env Schema.Shape Schema.ShapeProofs
  Schema.ShapeShipped Schema.ShapeShippedDataProofs Schema.ShapeShippedProofs Gen.GoTypes.

(* the boolean shape check means the relation *)
Theorem shape_check_sound e fuel base s v : shape_ok e fuel base s v = true -> shaped e base s v.
Proof. exact (shape_ok_sound e fuel base s v). Qed.
Print Assumptions shape_check_sound.

(* every tree the model writes at a well-formed type is a tree the type `writes`: members are declared
   fields written at the field's type, an omitempty nilable field is never null, leaves write their kind *)
Theorem written_trees_follow_the_type E fuel t j v :
  env_wfb E = true -> ty_wfb t = true -> reenc E fuel t j = Ok v -> writes (e_types E) t v.
Proof. exact (fun WF => reenc_writes E WF fuel t j v). Qed.
Print Assumptions written_trees_follow_the_type.

(* the checker's meaning: if it accepts (type, schema), every tree the type writes is shaped by the schema *)
Theorem shape_checker_sound strict types e fuel nl t base s v :
  shape_conforms strict types e fuel nl t base s = true ->
  writes types t v -> (nl = true \/ v <> Typed.TNull) -> null_clean strict v = true ->
  shaped e base s v.
Proof. exact (shape_conforms_sound strict types e fuel nl t base s v). Qed.
Print Assumptions shape_checker_sound.

(* the data theorems over the regenerated tables *)
Theorem registered_types_conform_to_their_schemas_partial :
  go_shape_conforms false shape_unchecked = true.
Proof. exact go_shapes_conform_partial. Qed.
Print Assumptions registered_types_conform_to_their_schemas_partial.

Theorem registered_types_conform_with_written_nulls_partial :
  go_shape_conforms true (shape_unchecked ++ shape_null_members) = true.
Proof. exact go_shapes_conform_strict_partial. Qed.
Print Assumptions registered_types_conform_with_written_nulls_partial.

(* the listed exceptions of the strict reading do fail: a nil required member is written as null *)
Theorem types_with_nilable_required_members_do_not_conform :
  forallb (fun id => match assoc id go_schemas with
                     | Some t => negb (shape_conforms_id true go_types shipped_env shape_fuel id t)
                     | None => false
                     end) shape_null_members = true.
Proof. exact go_null_members_fail. Qed.
Print Assumptions types_with_nilable_required_members_do_not_conform.

(* what is written for a registered type has the published shape *)
Theorem typed_documents_have_published_shape_partial id j v :
  ~ In id shape_unchecked ->
  reenc_schema id j = Ok v -> v <> Typed.TNull -> null_clean false v = true ->
  shaped_id shipped_env id v.
Proof. exact (written_documents_shaped_partial id j v). Qed.
Print Assumptions typed_documents_have_published_shape_partial.

Theorem typed_documents_have_published_shape_with_nulls_partial id j v :
  ~ In id (shape_unchecked ++ shape_null_members) ->
  reenc_schema id j = Ok v -> v <> Typed.TNull -> null_clean true v = true ->
  shaped_id shipped_env id v.
Proof. exact (written_documents_shaped_strict_partial id j v). Qed.
Print Assumptions typed_documents_have_published_shape_with_nulls_partial.

(* non-vacuity: a note.Message is read (an unknown member is dropped, members are written in declaration
   order), satisfies the hypotheses, and has the shape; an undeclared member and an ill-typed one have not *)
Example typed_shape_example :
  reenc_schema msg_id msg_in = Ok msg_out /\ ~ In msg_id shape_unchecked /\
  msg_out <> Typed.TNull /\ null_clean false msg_out = true /\
  shape_ok_id shipped_env 20 msg_id msg_out = true /\
  shape_ok_id shipped_env 20 msg_id msg_undeclared = false /\
  shape_ok_id shipped_env 20 msg_id msg_illtyped = false.
Proof. exact msg_example. Qed.

(* ---- (e, continued) the shape relation and the validator ----
   `shaped` is linked to the validator of (b): Schema/Skeleton.v reads a written tree as a JSON value (`to_json`:
   number texts by the JSON grammar into mantissa * 10^exponent, None outside the grammar) and erases from a schema,
   at every depth, exactly the value-level keywords `shaped` ignores (`skeleton`: required, oneOf, anyOf, const,
   enum, pattern, format, minLength, maxLength; $id / $defs / annotations and everything structural are kept;
   `skeleton_env`: the same on a reference environment).  No well-formedness hypothesis is needed. *)
From Verif Require Import Schema.Skeleton Schema.SkeletonProofs Schema.SkeletonWrittenProofs Schema.SkeletonShippedProofs.

(* a tree the schema shapes, read as a JSON value, conforms to the schema's skeleton ... *)
Theorem shaped_is_validated_by_the_skeleton e base s v j :
  shaped e base s v -> to_json v = Some j -> conforms (skeleton_env e) base (skeleton s) j.
Proof. exact (shaped_conforms_skeleton e base s v j). Qed.
Print Assumptions shaped_is_validated_by_the_skeleton.

(* ... and the executable validator says so for every fuel above a bound *)
Theorem shaped_is_accepted_by_the_validator_on_the_skeleton e base s v j :
  shaped e base s v -> to_json v = Some j ->
  exists n, forall m, (n <= m)%nat -> validate (skeleton_env e) m base (skeleton s) j = Some true.
Proof. exact (shaped_validates_skeleton e base s v j). Qed.
Print Assumptions shaped_is_accepted_by_the_validator_on_the_skeleton.

(* monotonicity: whatever the full schema accepts, its skeleton accepts (every kept applicator is used positively;
   additionalProperties sees the same covered names, oneOf / anyOf are dropped whole) *)
Theorem accepted_by_the_schema_is_accepted_by_its_skeleton e base s j :
  conforms e base s j -> conforms (skeleton_env e) base (skeleton s) j.
Proof. exact (conforms_skeleton e base s j). Qed.
Print Assumptions accepted_by_the_schema_is_accepted_by_its_skeleton.

Theorem accepted_document_is_accepted_by_the_skeleton e id j :
  conforms_id e id j -> conforms_id (skeleton_env e) id j.
Proof. exact (conforms_id_skeleton e id j). Qed.
Print Assumptions accepted_document_is_accepted_by_the_skeleton.

(* what `skeleton` is: nothing value-level is left, a schema without value-level keywords is untouched, and the
   skeletonised environment is the environment of the skeletonised files *)
Theorem skeleton_has_no_value_level_keyword s : structural (skeleton s) = true.
Proof. exact (skeleton_structural s). Qed.
Print Assumptions skeleton_has_no_value_level_keyword.

Theorem skeleton_keeps_structural_schemas s : structural s = true -> skeleton s = s.
Proof. exact (structural_skeleton s). Qed.
Print Assumptions skeleton_keeps_structural_schemas.

Theorem skeleton_env_is_the_env_of_skeleton_files files :
  env_of_files (map (fun f => (fst f, skeleton (snd f))) files) = skeleton_env (env_of_files files).
Proof. exact (env_of_files_skeleton files). Qed.
Print Assumptions skeleton_env_is_the_env_of_skeleton_files.

(* an integer literal reads as an integer: the `type: integer` of `shaped` and of the validator agree *)
Theorem written_type_is_the_validators_type v t j :
  tv_has_type v t = true -> to_json v = Some j -> has_type j t = true.
Proof. exact (tv_has_type_to_json v t j). Qed.
Print Assumptions written_type_is_the_validators_type.

(* documents: what the library serialises for a registered type (outside the listed exceptions) is ACCEPTED by the
   published schema of that type with the value-level keywords erased *)
Theorem typed_documents_conform_to_the_published_skeleton_partial id j v d :
  ~ In id shape_unchecked ->
  reenc_schema id j = Ok v -> v <> Typed.TNull -> null_clean false v = true -> to_json v = Some d ->
  conforms_id (skeleton_env shipped_env) id d.
Proof. exact (written_documents_conform_to_skeleton_partial id j v d). Qed.
Print Assumptions typed_documents_conform_to_the_published_skeleton_partial.

Theorem typed_documents_are_validated_by_the_published_skeleton_partial id j v d :
  ~ In id shape_unchecked ->
  reenc_schema id j = Ok v -> v <> Typed.TNull -> null_clean false v = true -> to_json v = Some d ->
  exists n, forall m, (n <= m)%nat -> validate_id (skeleton_env shipped_env) m id d = Some true.
Proof. exact (written_documents_validated_by_skeleton_partial id j v d). Qed.
Print Assumptions typed_documents_are_validated_by_the_published_skeleton_partial.

Theorem typed_documents_with_nulls_are_validated_by_the_published_skeleton_partial id j v d :
  ~ In id (shape_unchecked ++ shape_null_members) ->
  reenc_schema id j = Ok v -> v <> Typed.TNull -> null_clean true v = true -> to_json v = Some d ->
  exists n, forall m, (n <= m)%nat -> validate_id (skeleton_env shipped_env) m id d = Some true.
Proof. exact (written_documents_validated_by_skeleton_strict_partial id j v d). Qed.
Print Assumptions typed_documents_with_nulls_are_validated_by_the_published_skeleton_partial.

(* the written tree reads as a JSON value whenever the tree that was given does (`readable`: every number text is
   in the JSON grammar - true of whatever a JSON parser builds).  The hypothesis is needed: the model's
   canonical_float accepts the text "--1", outside the grammar *)
Theorem written_trees_read_as_json E fuel t j v :
  readable j = true -> reenc E fuel t j = Ok v -> exists d, to_json v = Some d.
Proof. exact (reenc_readable E fuel t j v). Qed.
Print Assumptions written_trees_read_as_json.

(* ... so for a registered type outside the listed exceptions, what the library serialises from a readable tree IS
   a JSON value and the validator ACCEPTS it for the published schema with the value-level keywords erased *)
Theorem typed_documents_are_accepted_by_the_published_skeleton_partial id j v :
  ~ In id shape_unchecked -> readable j = true ->
  reenc_schema id j = Ok v -> v <> Typed.TNull -> null_clean false v = true ->
  exists d, to_json v = Some d /\
            exists n, forall m, (n <= m)%nat -> validate_id (skeleton_env shipped_env) m id d = Some true.
Proof. exact (written_documents_read_and_validated_by_skeleton_partial id j v). Qed.
Print Assumptions typed_documents_are_accepted_by_the_published_skeleton_partial.

Theorem typed_documents_with_nulls_are_accepted_by_the_published_skeleton_partial id j v :
  ~ In id (shape_unchecked ++ shape_null_members) -> readable j = true ->
  reenc_schema id j = Ok v -> v <> Typed.TNull -> null_clean true v = true ->
  exists d, to_json v = Some d /\
            exists n, forall m, (n <= m)%nat -> validate_id (skeleton_env shipped_env) m id d = Some true.
Proof. exact (written_documents_read_and_validated_by_skeleton_strict_partial id j v). Qed.
Print Assumptions typed_documents_with_nulls_are_accepted_by_the_published_skeleton_partial.

(* the published skeleton is a real weakening: it has no value-level keyword left, the published files have *)
Theorem published_skeleton_is_structural :
  forallb (fun t => structural (snd t)) (skeleton_env shipped_env) = true /\
  forallb (fun t => structural (snd t)) shipped_env = false.
Proof. exact shipped_skeleton_structural. Qed.
Print Assumptions published_skeleton_is_structural.

(* non-vacuity on note.Message: the written tree reads as a JSON value; the skeleton and the published schema
   accept it; a message without the required `content` passes the skeleton only; the undeclared member that
   `shaped` refuses passes the skeleton (the validator reads schema objects as open: `shaped` is the stronger
   notion); an ill-typed member does not *)
Example typed_skeleton_example :
  let d := JObj [(bs "title", JStr (bs "T")); (bs "content", JStr (bs "hello"));
                 (bs "meta", JObj [(bs "a", JStr (bs "1")); (bs "b", JStr (bs "2"))])] in
  let no_content := JObj [(bs "title", JStr (bs "T"))] in
  reenc_schema msg_id msg_in = Ok msg_out /\ readable msg_in = true /\ to_json msg_out = Some d /\
  validate_id (skeleton_env shipped_env) 20 msg_id d = Some true /\
  validate_id shipped_env 20 msg_id d = Some true /\
  validate_id (skeleton_env shipped_env) 20 msg_id no_content = Some true /\
  validate_id shipped_env 20 msg_id no_content = Some false /\
  option_map (validate_id (skeleton_env shipped_env) 20 msg_id) (to_json msg_undeclared) = Some (Some true) /\
  option_map (validate_id (skeleton_env shipped_env) 20 msg_id) (to_json msg_illtyped) = Some (Some false).
Proof. exact msg_skeleton_example. Qed.

Example number_text_examples :
  map num_of_text [bs "0"; bs "-0"; bs "12.50"; bs "-1.5e-3"; bs "1E+2"] =
    [Some (0, 0); Some (0, 0); Some (1250, -2); Some (-15, -4); Some (1, 2)]%Z /\
  map num_of_text [bs "01"; bs "1."; bs ".5"; bs "1e"; bs "--1"; bs ""; bs "-"; bs "1x"; bs "+1"; bs "1e5x"] =
    [None; None; None; None; None; None; None; None; None; None].
Proof. exact num_of_text_examples. Qed.
