(* C07 - placeholder while the proofs are being built; replaced below. *)
From Coq Require Import List ZArith Strings.Byte String.
From Verif Require Import Base.Wire Json.Json Json.C14n.
Import ListNotations.

Theorem canon_today_panics_refuted : exists t, canon_today t = Panic.
Proof. exists []. vm_compute. reflexivity. Qed.
Print Assumptions canon_today_panics_refuted.
