(* C07 - Canonical JSON follows its specification (c14n/README.md).

   Property theorems only; every proof is `exact <lemma>` from Json/JsonProofs.v, Json/LexProofs.v,
   Json/C14nProofs.v, or a witness by vm_compute.

   Reading guide
     canon        c14n.CanonicalJSON as the code is AFTER the six repairs (Json/C14n.v,
                  canon_at cfg_fixed): result Ok bytes | Err kind | Panic
     canon_today  the same function as the code stood when first examined (canon_at cfg_today)
     canon_signed_zero  the code after the first five repairs, before Float.MarshalJSON's
                  `if f == 0 { f = 0 }` (canon_at cfg_signed_zero); the `_refuted` theorems below are
                  about these two, their witnesses are replayed on the Go implementation by
                  tools/props/c07.py
     parse        the fixed code's reader without Object.Sort: one complete JSON value -> jv, members
                  in text order (duplicates and nulls kept)
     print        the fixed code's MarshalJSON
     norm v       members sorted byte-wise by name and null members dropped, recursively
     unsign v     every float zero of v without its sign (-0.0 and 0.0 are the same number; every
                  other value is left alone, unsign_changes_only_negative_zero)
     floats_ok v  premise: for every float in v, Float.MarshalJSON's text has the shape -?d.d+E-?d+
                  and strconv.ParseFloat reads it back as the same float (a zero: as zero).  strconv is external code:
                  its stand-in (Json/Number.v) is validated differentially, not verified; for
                  float-free values the premise is discharged (theorems ..._float_free).
   The tie to c14n/*.go is the correspondence check of tools/props/c07.py. *)
From Coq Require Import String.
From Coq Require Import List ZArith Strings.Byte Bool Permutation Sorting.Sorted.
From Verif Require Import Base.Wire Json.Utf8 Json.Json Json.Number Json.Lexer Json.C14n
  Json.JsonProofs Json.LexProofs Json.C14nProofs Json.PanicProofs Json.ShapeProofs.
Import ListNotations.
Open Scope Z_scope.

(* ---------------------------------------------------------------------------------------------- *)
(* (a) the canonical form is a function of the logical content                                      *)
(* ---------------------------------------------------------------------------------------------- *)

(* canon = read, sort every object, print (and printing ignores null members) *)
Theorem canon_is_print_of_norm t v o : parse t = Ok v -> canon t = Ok o -> print (norm v) = Ok o.
Proof. exact (canon_prints_norm t v o). Qed.
Print Assumptions canon_is_print_of_norm.

(* member order, insignificant whitespace, escape style and null members do not matter: two texts
   whose values have the same norm have the same canonical form *)
Theorem canon_order_ws_escape_null_invariant t1 t2 v1 v2 o1 o2 :
  parse t1 = Ok v1 -> parse t2 = Ok v2 -> norm v1 = norm v2 ->
  canon t1 = Ok o1 -> canon t2 = Ok o2 -> o1 = o2.
Proof. exact (canon_invariant t1 t2 v1 v2 o1 o2). Qed.
Print Assumptions canon_order_ws_escape_null_invariant.

(* Object.Sort does not depend on the order of members with pairwise different names *)
Theorem sort_ignores_member_order m1 m2 :
  Permutation m1 m2 -> NoDup (map fst m1) -> sort_members m1 = sort_members m2.
Proof. exact (sort_permutation_invariant m1 m2). Qed.
Print Assumptions sort_ignores_member_order.

(* ... at every nesting level: same_content = equal up to permuting members of objects *)
Theorem norm_ignores_member_order v1 v2 : same_content v1 v2 -> dupfree v1 = true -> norm v1 = norm v2.
Proof. exact (norm_same_content v1 v2). Qed.
Print Assumptions norm_ignores_member_order.

Theorem canon_ignores_member_order t1 t2 v1 v2 o1 o2 :
  parse t1 = Ok v1 -> parse t2 = Ok v2 -> same_content v1 v2 -> dupfree v1 = true ->
  canon t1 = Ok o1 -> canon t2 = Ok o2 -> o1 = o2.
Proof. exact (canon_member_order t1 t2 v1 v2 o1 o2). Qed.
Print Assumptions canon_ignores_member_order.

(* ... and neither does the sign of a float zero: two texts whose values differ only in member
   order, null members and the sign of zeros have the same canonical form (no float premise) *)
Theorem canon_sign_of_zero_invariant t1 t2 v1 v2 o1 o2 :
  parse t1 = Ok v1 -> parse t2 = Ok v2 -> unsign (norm v1) = unsign (norm v2) ->
  canon t1 = Ok o1 -> canon t2 = Ok o2 -> o1 = o2.
Proof. exact (canon_invariant_zero t1 t2 v1 v2 o1 o2). Qed.
Print Assumptions canon_sign_of_zero_invariant.

(* zero has a single float form, whatever its sign *)
Theorem float_zero_has_one_form neg e : float_marshal cfg_fixed (F64 neg 0 e) = bs "0.0E0".
Proof. exact (float_marshal_zero neg e). Qed.
Print Assumptions float_zero_has_one_form.

(* unsign touches nothing but the sign bit of a zero *)
Theorem unsign_changes_only_negative_zero neg m e :
  unsign_zero (F64 neg m e) = if m =? 0 then F64 false 0 0 else F64 neg m e.
Proof. exact (eq_refl _). Qed.
Print Assumptions unsign_changes_only_negative_zero.

Theorem unsign_is_idempotent v : unsign (unsign v) = unsign v.
Proof. exact (unsign_idem v). Qed.
Print Assumptions unsign_is_idempotent.

Theorem unsign_commutes_with_norm v : norm (unsign v) = unsign (norm v).
Proof. exact (norm_unsign v). Qed.
Print Assumptions unsign_commutes_with_norm.

Theorem norm_is_idempotent v : norm (norm v) = norm v.
Proof. exact (norm_idem v). Qed.
Print Assumptions norm_is_idempotent.

Theorem norm_drops_null_members k m : norm (JObj ((k, JNull) :: m)) = norm (JObj m).
Proof. exact (norm_drops_null_member k m). Qed.
Print Assumptions norm_drops_null_members.

Theorem norm_has_no_null_member v : no_null_members (norm v).
Proof. exact (no_null_members_strip (sortrec v)). Qed.
Print Assumptions norm_has_no_null_member.

Theorem norm_keeps_array_elements l : norm (JArr l) = JArr (map norm l).
Proof. exact (norm_arr l). Qed.
Print Assumptions norm_keeps_array_elements.

(* ---------------------------------------------------------------------------------------------- *)
(* (b) parsing the canonical form gives back the content; different content, different form        *)
(* ---------------------------------------------------------------------------------------------- *)

(* value level: what print writes for a readable value is read back as that value minus null
   members and the sign of zeros *)
Theorem print_then_parse v o : print v = Ok o -> readable v -> parse o = Ok (strip (unsign v)).
Proof. exact (parse_print v o). Qed.
Print Assumptions print_then_parse.

(* strings: for EVERY byte string that encodeString accepts (= valid UTF-8 without U+FFFD), the
   scanner reads the written text back as the same bytes *)
Theorem encode_string_round_trip s o rest : encode_string s = Ok o ->
  exists body, o = c_quote :: body /\ scan_string (S (length (body ++ rest))) (body ++ rest) = Some (s, rest).
Proof. exact (encode_string_scan s o rest). Qed.
Print Assumptions encode_string_round_trip.

(* encodeString accepts every well-formed UTF-8 string in which Go's DecodeRune never answers
   RuneError (valid UTF-8 without U+FFFD), so the round trip above covers all of them *)
Theorem encode_string_accepts_clean_utf8 s : clean_utf8 s = true ->
  (exists o, encode_string s = Ok o) /\ valid_utf8 s = true.
Proof. exact (fun H => conj (encode_string_accepts s H) (clean_implies_valid (length s) s H)). Qed.
Print Assumptions encode_string_accepts_clean_utf8.

(* integers: FormatInt's text is scanned as one number and ParseInt reads the same int64 back *)
Theorem integer_round_trip z rest : in_int64 z = true -> term rest ->
  scan_number (format_int z ++ rest) = Some (format_int z, rest) /\ parse_int64 (format_int z) = Some z.
Proof. exact (fun H T => conj (scan_number_int z rest T) (parse_int64_format z H)). Qed.
Print Assumptions integer_round_trip.

Theorem canon_parses_back_to_norm t v o :
  parse t = Ok v -> floats_ok v -> canon t = Ok o -> parse o = Ok (unsign (norm v)).
Proof. exact (canon_parses_back t v o). Qed.
Print Assumptions canon_parses_back_to_norm.

(* the premise in computable form: floats_okb is evaluated by the check on every generated input *)
Theorem float_premise_is_computable v : floats_okb v = true -> floats_ok v.
Proof. exact (floats_okb_sound v). Qed.
Print Assumptions float_premise_is_computable.

Theorem canon_parses_back_to_norm_float_free t v o :
  parse t = Ok v -> float_free v = true -> canon t = Ok o -> parse o = Ok (norm v).
Proof. exact (canon_parses_back_float_free t v o). Qed.
Print Assumptions canon_parses_back_to_norm_float_free.

(* two inputs with different content never share a canonical form (content: norm, and a float
   zero has no sign) *)
Theorem canon_injective_on_content t1 t2 v1 v2 o :
  parse t1 = Ok v1 -> parse t2 = Ok v2 -> floats_ok v1 -> floats_ok v2 ->
  canon t1 = Ok o -> canon t2 = Ok o -> unsign (norm v1) = unsign (norm v2).
Proof. exact (canon_injective t1 t2 v1 v2 o). Qed.
Print Assumptions canon_injective_on_content.

(* both directions: same canonical form exactly when same content *)
Theorem canon_same_form_iff_same_content t1 t2 v1 v2 o1 o2 :
  parse t1 = Ok v1 -> parse t2 = Ok v2 -> floats_ok v1 -> floats_ok v2 ->
  canon t1 = Ok o1 -> canon t2 = Ok o2 -> (o1 = o2 <-> unsign (norm v1) = unsign (norm v2)).
Proof. exact (canon_same_form_iff t1 t2 v1 v2 o1 o2). Qed.
Print Assumptions canon_same_form_iff_same_content.

Theorem canon_injective_on_content_float_free t1 t2 v1 v2 o :
  parse t1 = Ok v1 -> parse t2 = Ok v2 -> float_free v1 = true -> float_free v2 = true ->
  canon t1 = Ok o -> canon t2 = Ok o -> norm v1 = norm v2.
Proof. exact (canon_injective_float_free t1 t2 v1 v2 o). Qed.
Print Assumptions canon_injective_on_content_float_free.

(* ---------------------------------------------------------------------------------------------- *)
(* (c) the canonical form canonicalises to itself                                                   *)
(* ---------------------------------------------------------------------------------------------- *)
Theorem canon_is_idempotent t v o : parse t = Ok v -> floats_ok v -> canon t = Ok o -> canon o = Ok o.
Proof. exact (canon_idempotent t v o). Qed.
Print Assumptions canon_is_idempotent.

Theorem canon_is_idempotent_float_free t v o :
  parse t = Ok v -> float_free v = true -> canon t = Ok o -> canon o = Ok o.
Proof. exact (fun P F => canon_idempotent t v o P (floats_ok_float_free v F)). Qed.
Print Assumptions canon_is_idempotent_float_free.

(* ---------------------------------------------------------------------------------------------- *)
(* (d) shape                                                                                        *)
(* ---------------------------------------------------------------------------------------------- *)

(* the members of every object of the printed value are in non-decreasing byte order of their
   names (the printed text follows that order by definition of print) *)
Theorem canonical_members_sorted v : keys_sorted (norm v).
Proof. exact (keys_sorted_norm v). Qed.
Print Assumptions canonical_members_sorted.

(* ... strictly increasing when no object of the input repeats a name *)
Theorem canonical_members_strictly_sorted v : dupfree v = true -> keys_strict (norm v).
Proof. exact (keys_strict_norm v). Qed.
Print Assumptions canonical_members_strictly_sorted.

(* Object.Sort yields a sorted permutation and is the identity on sorted input *)
Theorem sort_sorts m : StronglySorted kle (sort_members m) /\ Permutation (sort_members m) m.
Proof. exact (conj (sort_sorted m) (sort_perm m)). Qed.
Print Assumptions sort_sorts.

(* byte-wise order is a strict total order on names *)
Theorem byte_order_is_strict_total a b c :
  bytes_ltb a a = false /\ (bytes_ltb a b = true -> bytes_ltb b c = true -> bytes_ltb a c = true) /\
  (bytes_ltb a b = false -> bytes_ltb b a = false -> a = b).
Proof. exact (conj (bytes_ltb_irrefl a) (conj (bytes_ltb_trans a b c) (bytes_ltb_total a b))). Qed.
Print Assumptions byte_order_is_strict_total.

(* escapes are the minimal ones of the README's table, for every ASCII byte; bytes >= 0x80 are
   copied (enc_body).  Proved over the safeSet table regenerated from c14n/tables.go. *)
Theorem escapes_follow_readme b : (bZ b <? 128) = true -> (if safe b then [b] else escape b) = readme_piece b.
Proof. exact (escapes_are_readme b). Qed.
Print Assumptions escapes_follow_readme.

(* integers are printed plain: optional minus sign, digits, no leading zero, never "-0" *)
Theorem integers_are_plain z : exists sg d r,
  format_int z = sg ++ d :: r /\ ((sg = [] /\ 0 <= z) \/ (sg = [c_minus] /\ z < 0)) /\
  is_digit d = true /\ all_digits r = true /\ (bZ d = 48 -> r = [] /\ z = 0).
Proof. exact (format_int_shape z). Qed.
Print Assumptions integers_are_plain.

(* PARTIAL, not proved: byte order of valid UTF-8 names = code point order (true of UTF-8 by design;
   the check compares Go's order with python's code point order on all ordered pairs of a 160-key
   alphabet);  the float text shape
   -?d.d+E-?d+ as a theorem about format_float_E (it is a premise, floats_ok, here). *)

(* ---------------------------------------------------------------------------------------------- *)
(* (e) incomplete input is rejected                                                                 *)
(* ---------------------------------------------------------------------------------------------- *)

(* canon accepts a text only if the strict reader accepts it as exactly one complete value *)
Theorem canon_accepts_only_complete_values t o :
  canon t = Ok o -> exists v, parse t = Ok v /\ print (norm v) = Ok o.
Proof. exact (canon_accepts_only_parsed t o). Qed.
Print Assumptions canon_accepts_only_complete_values.

(* the witnesses that the unfixed code mishandles are rejected / handled by canon *)
Example canon_on_the_witnesses :
  canon [] = Err EIncomplete /\ canon (bs " ") = Err EIncomplete /\
  canon (bs "{""a"":") = Err EIncomplete /\ canon (bs "[1,2") = Err EIncomplete /\
  canon (bs "1 2") = Err ETrailing /\ canon (bs "{""a"":1}}") = Err ETrailing /\ canon (bs "01") = Err ETrailing /\
  canon (bs "1e400") = Err ERange /\
  canon (bs "{""a"":null,""b"":1}") = Ok (bs "{""b"":1}") /\
  canon (bs "-1.5") = Ok (bs "-1.5E0") /\ canon (bs "-2e0") = Ok (bs "-2.0E0") /\
  canon (bs "-0.0") = Ok (bs "0.0E0") /\ canon (bs "0.0") = Ok (bs "0.0E0") /\ canon (bs "-0e5") = Ok (bs "0.0E0") /\
  canon (bs "-1e-400") = Ok (bs "0.0E0") /\ canon (bs "-0") = Ok (bs "0") /\
  canon ([x7b; x22; xff; x22; x3a] ++ bs "null}") = Err EUtf8.
Proof. vm_compute. repeat split. Qed.

(* no input makes the fixed code panic: the token machine never lets handleNextToken return nil
   where a value is required, so no nil Canonicalable is stored or marshalled *)
Theorem canon_never_panics t : canon t <> Panic.
Proof. exact (canon_no_panic t). Qed.
Print Assumptions canon_never_panics.

(* ---------------------------------------------------------------------------------------------- *)
(* non-vacuity of the hypotheses                                                                    *)
(* ---------------------------------------------------------------------------------------------- *)
Definition ex_text : bytes := bs " { ""b"" : [1, ""xA"", null, {""z"":null}], ""a"":null , """":-7}".
Definition ex_text2 : bytes := bs "{"""":-7,""b"":[1,""xA"",null,{}]}".
Example hypotheses_satisfiable :
  exists v1 v2 o, parse ex_text = Ok v1 /\ parse ex_text2 = Ok v2 /\ float_free v1 = true /\ dupfree v1 = true /\
    norm v1 = norm v2 /\ v1 <> v2 /\ canon ex_text = Ok o /\ canon ex_text2 = Ok o /\ o = ex_text2.
Proof.
  eexists _, _, _. split; [vm_compute; reflexivity|]. split; [vm_compute; reflexivity|].
  repeat split; try (vm_compute; reflexivity). vm_compute. discriminate.
Qed.

(* the float premise holds of a concrete float: 1.5 = 6755399441055744 * 2^-52 *)
Example float_premise_satisfiable : float_ok (F64 false 6755399441055744 (-52)) /\
  float_marshal cfg_fixed (F64 false 6755399441055744 (-52)) = bs "1.5E0".
Proof.
  split; [split|vm_compute; reflexivity].
  - exists [], (ch 49), [ch 53], [], [ch 48]. repeat split; try (vm_compute; reflexivity); auto; discriminate.
  - vm_compute. reflexivity.
Qed.

(* ... and of negative zero, which is written without its sign and read back as zero *)
Example float_premise_satisfiable_negative_zero : float_ok (F64 true 0 0) /\
  float_marshal cfg_fixed (F64 true 0 0) = bs "0.0E0" /\ floats_okb (JArr [JFloat (F64 true 0 0)]) = true.
Proof.
  split; [split|split; vm_compute; reflexivity].
  - exists [], (ch 48), [ch 48], [], [ch 48]. repeat split; try (vm_compute; reflexivity); auto; discriminate.
  - vm_compute. reflexivity.
Qed.

(* the texts -0.0 and 0.0 differ as values and agree once unsigned *)
Example sign_of_zero_hypotheses_satisfiable :
  exists v1 v2 o, parse (bs "[-0.0,1]") = Ok v1 /\ parse (bs "[0.0,1]") = Ok v2 /\ v1 <> v2 /\
    unsign (norm v1) = unsign (norm v2) /\ floats_ok v1 /\ floats_ok v2 /\
    canon (bs "[-0.0,1]") = Ok o /\ canon (bs "[0.0,1]") = Ok o /\ o = bs "[0.0E0,1]".
Proof.
  eexists _, _, _. split; [vm_compute; reflexivity|]. split; [vm_compute; reflexivity|].
  split; [vm_compute; discriminate|]. split; [vm_compute; reflexivity|].
  split; [apply floats_okb_sound; vm_compute; reflexivity|].
  split; [apply floats_okb_sound; vm_compute; reflexivity|].
  repeat split; vm_compute; reflexivity.
Qed.

Example clean_utf8_examples :
  clean_utf8 [x61; xc3; xa9; xe2; x82; xac; xf0; x9f; x98; x80; x00; x7f] = true /\
  clean_utf8 [xef; xbf; xbd] = false /\ clean_utf8 [xff] = false /\ clean_utf8 [xed; xa0; x80] = false /\
  clean_utf8 [xc0; x80] = false /\ valid_utf8 [xef; xbf; xbd] = true.
Proof. vm_compute. repeat split. Qed.

Example same_content_example :
  same_content (JObj [(bs "a", JInt 1); (bs "b", JArr [JObj [(bs "x", JNull); (bs "y", JInt 2)]])])
               (JObj [(bs "b", JArr [JObj [(bs "y", JInt 2); (bs "x", JNull)]]); (bs "a", JInt 1)]).
Proof.
  eapply sc_obj; [|apply perm_swap].
  constructor; [split; [reflexivity|apply sc_atom]|].
  constructor; [|constructor]. split; [reflexivity|].
  apply sc_arr. constructor; [|constructor].
  eapply sc_obj; [|apply perm_swap]. repeat constructor.
Qed.

(* ---------------------------------------------------------------------------------------------- *)
(* what the code did BEFORE its repairs: refuted properties, each with a witness (replayed on Go)   *)
(* ---------------------------------------------------------------------------------------------- *)

(* #4: the output is not JSON when the first member in key order is null and a later one is not *)
Theorem canon_today_output_is_json_refuted :
  exists t v o, parse t = Ok v /\ canon_today t = Ok o /\ o = bs "{,""b"":1}" /\ parse o = Err ESyntax.
Proof.
  exists (bs "{""a"":null,""b"":1}"), (JObj [(bs "a", JNull); (bs "b", JInt 1)]), (bs "{,""b"":1}").
  vm_compute. repeat split.
Qed.
Print Assumptions canon_today_output_is_json_refuted.

(* #5: negative floats are mangled *)
Theorem canon_today_negative_float_refuted :
  exists t1 t2 o1 o2, canon_today t1 = Ok o1 /\ o1 = bs "-.01.5E0" /\ parse o1 = Err ESyntax /\
                      canon_today t2 = Ok o2 /\ o2 = bs "-.02E0" /\ parse o2 = Err ESyntax.
Proof. exists (bs "-1.5"), (bs "-2e0"), (bs "-.01.5E0"), (bs "-.02E0"). vm_compute. repeat split. Qed.
Print Assumptions canon_today_negative_float_refuted.

(* #6: empty input and input ending after a member name or colon panic *)
Theorem canon_today_panics_refuted :
  canon_today [] = Panic /\ canon_today (bs "  ") = Panic /\ canon_today (bs "{""a"":") = Panic /\
  canon_today (bs "{""a""") = Panic.
Proof. vm_compute. repeat split. Qed.
Print Assumptions canon_today_panics_refuted.

(* #6: truncated and trailing input is accepted *)
Theorem canon_today_accepts_incomplete_refuted :
  (parse (bs "[1,2") = Err EIncomplete /\ canon_today (bs "[1,2") = Ok (bs "[1,2]")) /\
  (parse (bs "1 2") = Err ETrailing /\ canon_today (bs "1 2") = Ok (bs "1")) /\
  (parse (bs "{""a"":1}}") = Err ETrailing /\ canon_today (bs "{""a"":1}}") = Ok (bs "{""a"":1}")) /\
  (parse (bs "01") = Err ETrailing /\ canon_today (bs "01") = Ok (bs "0")).
Proof. vm_compute. repeat split. Qed.
Print Assumptions canon_today_accepts_incomplete_refuted.

(* #7: a number beyond float64 silently becomes null: different content, same canonical form *)
Theorem canon_today_out_of_range_refuted :
  canon_today (bs "1e400") = Ok (bs "null") /\ canon_today (bs "null") = Ok (bs "null") /\
  canon_today (bs "{""a"":1e400}") = Ok (bs "{}") /\ parse (bs "1e400") = Err ERange.
Proof. vm_compute. repeat split. Qed.
Print Assumptions canon_today_out_of_range_refuted.

(* the sign of zero (repaired last): the same number of the same type had two canonical forms,
   canon_sign_of_zero_invariant was false of the code before `if f == 0 { f = 0 }` *)
Theorem canon_signed_zero_two_forms_refuted :
  exists t1 t2 v1 v2 o1 o2, parse t1 = Ok v1 /\ parse t2 = Ok v2 /\ unsign (norm v1) = unsign (norm v2) /\
    canon_signed_zero t1 = Ok o1 /\ canon_signed_zero t2 = Ok o2 /\ o1 = bs "-0.0E0" /\ o2 = bs "0.0E0" /\ o1 <> o2 /\
    canon t1 = Ok o2 /\ canon t2 = Ok o2.
Proof.
  exists (bs "-0.0"), (bs "0.0"), (JFloat (F64 true 0 0)), (JFloat (F64 false 0 0)), (bs "-0.0E0"), (bs "0.0E0").
  vm_compute. repeat split. discriminate.
Qed.
Print Assumptions canon_signed_zero_two_forms_refuted.

(* invalid UTF-8 in the name of a null member is accepted *)
Theorem canon_today_invalid_utf8_accepted_refuted :
  exists t, valid_utf8 t = false /\ canon_today t = Ok (bs "{}") /\ canon t = Err EUtf8.
Proof. exists ([x7b; x22; xff; x22; x3a] ++ bs "null}"). vm_compute. repeat split. Qed.
Print Assumptions canon_today_invalid_utf8_accepted_refuted.

(* #8 (no patch proposed, holds of canon and canon_today alike): a legitimate U+FFFD is rejected *)
Theorem canon_replacement_character_refuted :
  exists s, valid_utf8 s = true /\ canon (c_quote :: s ++ [c_quote]) = Err EUtf8 /\
            canon_today (c_quote :: s ++ [c_quote]) = Err EUtf8.
Proof. exists [xef; xbf; xbd]. vm_compute. repeat split. Qed.
Print Assumptions canon_replacement_character_refuted.
