(* C08 - The header digest makes every change to the document evident.

   Model: Digest/Envelope.v (validate, calculate, with_doc) over Digest/Content.v (content, norm, wf);
   Digest/Link.v ties `content` to the JSON values of the real canonicaliser of C07 (Json/C14n.v).

   READ THIS FIRST - what "the document" is.  `content` is the logical content of the PARSED
   document (what json.Marshal prints for the Go value the envelope holds), not the bytes that
   were received.  Envelope.Digest hashes that.  Hence a change of the serialised text that the
   parser undoes is not a change of the document in these theorems:
     * a `$regime` member equal to the supplier's tax country can be deleted - Invoice.UnmarshalJSON
       derives it again (regime_member_is_derived below; DESIGN.md section 8 row 29; by design);
     * members unknown to the Go type are dropped by encoding/json.
   That parsing is otherwise lossless (every schema-defined member of the text arrives in the
   parsed value and is printed again) is NOT proved: struct marshalling is reflection-driven; it
   is established per document by the sweep of tools/props/c08.py, which is search, not proof.
   This is the ONLY unproved link left between the theorems `..._real` below and the Go code
   (besides the differential ties of the models themselves).

   Two families of statements.
   (1) generic in the canonicaliser `canon`, with the premises
         canon_invariant, canon_injective   canonical JSON is invariant under, and injective up to,
                                            `norm` (member order, null members)
         wf                                 no duplicate member names
       (calculated_validates ... recalculated_digest_differs).
   (2) `..._real`: the same statements for canon := real_canon, the canonical form C07's model of
       c14n.CanonicalJSON computes (real_canon_is_c14n_canon: it IS C14n.canon's answer on every
       text that reads as the document).  The two premises are discharged - they are theorems
       (real_canon_invariant, real_canon_injective, from C07's print/parse round trip) on the domain
         in_domain d   every string and member name is UTF-8 without U+FFFD (encodeString refuses
                       anything else); every number text is canonical: an int64 as FormatInt prints
                       it, or a float satisfying C07's float premise (float_okb) as
                       Float.MarshalJSON prints it.
       No canon premise and no wf premise is left (both sorts are the same stable sort, so
       duplicate names do no harm); norm / wf correspond to C07's norm / dupfree
       (norm_corresponds, wf_corresponds).
   There is NO hypothesis on the hash H: where one would be needed, the conclusion instead
   exhibits the collision.
   `structural` stands for all Validate methods of header, document and signatures (one boolean),
   `calc_doc` for the document's own Calculate. *)
From Coq Require Import List Bool Strings.Byte String.
From Verif Require Import Json.Json Json.C14n.
From Verif Require Import Base.Wire Digest.Content Digest.ContentProofs Digest.Envelope Digest.Regime
  Digest.EnvelopeProofs Digest.Toy Digest.ToyProofs Digest.Link.
From Verif Require Digest.LinkProofs.
Import ListNotations.

Definition canon_invariant (canon : content -> bytes) := forall v, wf v -> canon v = canon (norm v).
Definition canon_injective (canon : content -> bytes) :=
  forall v1 v2, wf v1 -> wf v2 -> canon v1 = canon v2 -> norm v1 = norm v2.

(* A calculated envelope validates (given that its parts pass their own validation rules). *)
Theorem calculated_validates :
  forall (rest : Type) (canon : content -> bytes) (H : bytes -> bytes)
         (structural : envelope content rest -> bool) (calc_doc : content -> option content)
         (e e1 : envelope content rest),
    calculate content rest canon H calc_doc e = Some e1 ->
    structural e1 = true ->
    validate content rest canon H structural e1 = Valid.
Proof. exact calculated_validates. Qed.
Print Assumptions calculated_validates.

(* ... and continues to validate when its document is replaced by any re-encoding of the same
   logical content (member order, null members; whitespace, escapes and number formatting are
   already identified in `content`). *)
Theorem reencoding_preserves_validity :
  forall (rest : Type) (canon : content -> bytes) (H : bytes -> bytes)
         (structural : envelope content rest -> bool),
    canon_invariant canon ->
    forall (e : envelope content rest) (d' : content),
      wf (e_doc e) -> wf d' -> norm d' = norm (e_doc e) ->
      structural (with_doc e d') = structural e ->
      validate content rest canon H structural e = Valid ->
      validate content rest canon H structural (with_doc e d') = Valid.
Proof. intros rest canon H structural CN. exact (reencoding_preserves_validity rest canon H structural CN). Qed.
Print Assumptions reencoding_preserves_validity.

(* If a valid envelope still validates after its document was replaced (nothing else touched),
   then the logical content is unchanged - or H collides on the two explicit, distinct byte strings
   canon (old document), canon (new document). *)
Theorem digest_tamper_evident :
  forall (rest : Type) (canon : content -> bytes) (H : bytes -> bytes)
         (structural : envelope content rest -> bool),
    canon_injective canon ->
    forall (e : envelope content rest) (d' : content),
      wf (e_doc e) -> wf d' ->
      validate content rest canon H structural e = Valid ->
      validate content rest canon H structural (with_doc e d') = Valid ->
      norm d' = norm (e_doc e) \/
      (canon (e_doc e) <> canon d' /\ H (canon (e_doc e)) = H (canon d')).
Proof. intros rest canon H structural CI. exact (digest_tamper_evident rest canon H structural CI). Qed.
Print Assumptions digest_tamper_evident.

(* The same read forwards: changed content and no collision on those two strings => validation
   fails; and it fails with the DIGEST error whenever the changed envelope passes the structural
   rules (those are checked first, envelope.go ValidateWithContext). *)
Theorem tampered_is_rejected :
  forall (rest : Type) (canon : content -> bytes) (H : bytes -> bytes)
         (structural : envelope content rest -> bool),
    canon_injective canon ->
    forall (e : envelope content rest) (d' : content),
      wf (e_doc e) -> wf d' ->
      validate content rest canon H structural e = Valid ->
      norm d' <> norm (e_doc e) ->
      H (canon (e_doc e)) <> H (canon d') ->
      validate content rest canon H structural (with_doc e d') <> Valid /\
      (structural (with_doc e d') = true ->
       validate content rest canon H structural (with_doc e d') = ErrDigest).
Proof. intros rest canon H structural CI. exact (tampered_is_rejected rest canon H structural CI). Qed.
Print Assumptions tampered_is_rejected.

(* After recalculating an envelope whose document was changed, the digest differs from the
   previous one (the comparison is on the recalculated document) - or, again, a collision. *)
Theorem recalculated_digest_differs :
  forall (rest : Type) (canon : content -> bytes) (H : bytes -> bytes)
         (structural : envelope content rest -> bool) (calc_doc : content -> option content),
    canon_injective canon ->
    forall (e : envelope content rest) (d' : content) (e1 : envelope content rest),
      wf (e_doc e) -> wf (e_doc e1) ->
      validate content rest canon H structural e = Valid ->
      calculate content rest canon H calc_doc (with_doc e d') = Some e1 ->
      norm (e_doc e1) <> norm (e_doc e) ->
      e_dig e1 <> e_dig e \/
      (canon (e_doc e) <> canon (e_doc e1) /\ H (canon (e_doc e)) = H (canon (e_doc e1))).
Proof. intros rest canon H structural calc_doc CI. exact (recalculated_digest_differs rest canon H structural calc_doc CI). Qed.
Print Assumptions recalculated_digest_differs.

(* ---------------------------------------------------------------------------------------------- *)
(* The premises discharged: canon := real_canon, the canonical form of C07's model of c14n          *)
(* ---------------------------------------------------------------------------------------------- *)

(* real_canon d is what c14n.CanonicalJSON (C07's `canon`) answers on EVERY text that its reader
   reads as the document - whatever the member order, whitespace, escapes of that text *)
Theorem real_canon_is_c14n_canon :
  forall (d : content) (t : bytes),
    in_domain d = true -> C14n.parse t = Ok (to_json d) -> C14n.canon t = Ok (real_canon d).
Proof. exact LinkProofs.real_canon_is_canon. Qed.
Print Assumptions real_canon_is_c14n_canon.

(* ... and every text the reader accepts with a good value (jgood: strings clean, floats
   satisfying the float premise) is the text of a document of the domain *)
Theorem every_good_text_is_a_document :
  forall (t : bytes) (v : jv),
    C14n.parse t = Ok v -> jgood v = true ->
    in_domain (of_json v) = true /\ to_json (of_json v) = v /\ C14n.canon t = Ok (real_canon (of_json v)).
Proof.
  exact (fun t v P G => conj (proj2 (LinkProofs.of_json_good v G))
                             (conj (proj1 (LinkProofs.of_json_good v G)) (proj2 (LinkProofs.real_canon_of_text t v P G)))).
Qed.
Print Assumptions every_good_text_is_a_document.

(* C08's norm and wf are C07's norm and dupfree, through the translation (all documents) *)
Theorem norm_corresponds : forall d : content, to_json (norm d) = Json.norm (to_json d).
Proof. exact LinkProofs.to_json_norm. Qed.
Print Assumptions norm_corresponds.

Theorem wf_corresponds : forall d : content, wf d <-> dupfree (to_json d) = true.
Proof. exact LinkProofs.wf_dupfree. Qed.
Print Assumptions wf_corresponds.

(* the translation loses nothing on the domain *)
Theorem translation_is_injective :
  forall d1 d2 : content, in_domain d1 = true -> in_domain d2 = true -> to_json d1 = to_json d2 -> d1 = d2.
Proof. exact LinkProofs.to_json_inj. Qed.
Print Assumptions translation_is_injective.

(* the two premises, relativised to the domain, as theorems about the real canonical form *)
Definition canon_invariant_on (dom : content -> bool) (canon : content -> bytes) :=
  forall v, dom v = true -> canon v = canon (norm v).
Definition canon_injective_on (dom : content -> bool) (canon : content -> bytes) :=
  forall v1 v2, dom v1 = true -> dom v2 = true -> canon v1 = canon v2 -> norm v1 = norm v2.

Theorem real_canon_invariant : canon_invariant_on in_domain real_canon.
Proof. exact LinkProofs.real_canon_invariant. Qed.
Print Assumptions real_canon_invariant.

Theorem real_canon_injective : canon_injective_on in_domain real_canon.
Proof. exact LinkProofs.real_canon_injective. Qed.
Print Assumptions real_canon_injective.

(* the canonical form of a document of the domain parses back (C07's reader) to its content *)
Theorem real_canon_parses_back :
  forall d : content, in_domain d = true -> C14n.parse (real_canon d) = Ok (to_json (norm d)).
Proof. exact LinkProofs.real_canon_parses_back. Qed.
Print Assumptions real_canon_parses_back.

(* the C08 theorems with no premise on the canonicaliser *)
Theorem reencoding_preserves_validity_real :
  forall (rest : Type) (H : bytes -> bytes) (structural : envelope content rest -> bool)
         (e : envelope content rest) (d' : content),
    in_domain (e_doc e) = true -> in_domain d' = true -> norm d' = norm (e_doc e) ->
    structural (with_doc e d') = structural e ->
    validate content rest real_canon H structural e = Valid ->
    validate content rest real_canon H structural (with_doc e d') = Valid.
Proof. exact LinkProofs.reencoding_preserves_validity_real. Qed.
Print Assumptions reencoding_preserves_validity_real.

Theorem digest_tamper_evident_real :
  forall (rest : Type) (H : bytes -> bytes) (structural : envelope content rest -> bool)
         (e : envelope content rest) (d' : content),
    in_domain (e_doc e) = true -> in_domain d' = true ->
    validate content rest real_canon H structural e = Valid ->
    validate content rest real_canon H structural (with_doc e d') = Valid ->
    norm d' = norm (e_doc e) \/
    (real_canon (e_doc e) <> real_canon d' /\ H (real_canon (e_doc e)) = H (real_canon d')).
Proof. exact LinkProofs.digest_tamper_evident_real. Qed.
Print Assumptions digest_tamper_evident_real.

Theorem tampered_is_rejected_real :
  forall (rest : Type) (H : bytes -> bytes) (structural : envelope content rest -> bool)
         (e : envelope content rest) (d' : content),
    in_domain (e_doc e) = true -> in_domain d' = true ->
    validate content rest real_canon H structural e = Valid ->
    norm d' <> norm (e_doc e) ->
    H (real_canon (e_doc e)) <> H (real_canon d') ->
    validate content rest real_canon H structural (with_doc e d') <> Valid /\
    (structural (with_doc e d') = true ->
     validate content rest real_canon H structural (with_doc e d') = ErrDigest).
Proof. exact LinkProofs.tampered_is_rejected_real. Qed.
Print Assumptions tampered_is_rejected_real.

Theorem recalculated_digest_differs_real :
  forall (rest : Type) (H : bytes -> bytes) (structural : envelope content rest -> bool)
         (calc_doc : content -> option content)
         (e : envelope content rest) (d' : content) (e1 : envelope content rest),
    in_domain (e_doc e) = true -> in_domain (e_doc e1) = true ->
    validate content rest real_canon H structural e = Valid ->
    calculate content rest real_canon H calc_doc (with_doc e d') = Some e1 ->
    norm (e_doc e1) <> norm (e_doc e) ->
    e_dig e1 <> e_dig e \/
    (real_canon (e_doc e) <> real_canon (e_doc e1) /\ H (real_canon (e_doc e)) = H (real_canon (e_doc e1))).
Proof. exact LinkProofs.recalculated_digest_differs_real. Qed.
Print Assumptions recalculated_digest_differs_real.

(* The derived member: deleting `$regime` when it equals the supplier's tax country (and a regime
   is defined for it) leaves the parsed document - hence digest and validity - unchanged. *)
Theorem regime_member_is_derived :
  forall (defined : bytes -> bool) (m : list member) (c : bytes),
    regime_of m = c -> c <> [] -> supplier_country m = c -> defined c = true ->
    parse_invoice defined (CObj (remove_member k_regime m)) = parse_invoice defined (CObj m).
Proof. exact regime_deletion_invisible. Qed.
Print Assumptions regime_member_is_derived.

(* so "every edit of the serialised TEXT is evident" is false of the faithful model: *)
Local Open Scope string_scope.
Definition raw_es : content :=
  CObj [(bs "$regime", CStr (bs "ES"));
        (bs "supplier", CObj [(bs "tax_id", CObj [(bs "country", CStr (bs "ES"))])])].
Definition raw_es_without : content := CObj (remove_member k_regime (members_of raw_es)).

Theorem every_text_edit_evident_refuted :
  exists (raw raw' : content), norm raw <> norm raw' /\
    parse_invoice (fun _ => true) raw = parse_invoice (fun _ => true) raw'.
Proof. exists raw_es, raw_es_without. split; [vm_compute; discriminate | vm_compute; reflexivity]. Qed.
Print Assumptions every_text_edit_evident_refuted.

(* ---- non-vacuity: the hypotheses are satisfiable, the conclusions are not trivial ---- *)
Example toy_canon_satisfies_the_premises : canon_invariant toy_canon /\ canon_injective toy_canon.
Proof. split; [exact toy_canon_norm | exact toy_canon_inj]. Qed.

Definition d_a : content := CObj [(bs "b", CNum (bs "1")); (bs "a", CStr (bs "x")); (bs "n", CNull)].
Definition d_a_reencoded : content := CObj [(bs "a", CStr (bs "x")); (bs "b", CNum (bs "1"))].
Definition d_a_edited : content := CObj [(bs "b", CNum (bs "2")); (bs "a", CStr (bs "x"))].
Definition all_ok (e : envelope content unit) : bool := true.
Definition e0 : envelope content unit := mkEnv tt None d_a.

Example toy_run :
  (* calculated => valid; re-encoded => still valid; edited => digest error (injective hash) *)
  (exists e1, calculate content unit toy_canon H_id Some e0 = Some e1 /\
     validate content unit toy_canon H_id all_ok e1 = Valid /\
     norm d_a_reencoded = norm d_a /\ d_a_reencoded <> d_a /\
     validate content unit toy_canon H_id all_ok (with_doc e1 d_a_reencoded) = Valid /\
     norm d_a_edited <> norm d_a /\
     validate content unit toy_canon H_id all_ok (with_doc e1 d_a_edited) = ErrDigest) /\
  (* with a colliding hash the edit goes through: the second disjunct of digest_tamper_evident
     is needed, the first alone would be false *)
  (exists e1, calculate content unit toy_canon H_const Some e0 = Some e1 /\
     validate content unit toy_canon H_const all_ok (with_doc e1 d_a_edited) = Valid /\
     norm d_a_edited <> norm d_a /\
     toy_canon d_a <> toy_canon d_a_edited /\ H_const (toy_canon d_a) = H_const (toy_canon d_a_edited)).
Proof.
  split; eexists; (split; [vm_compute; reflexivity|]); vm_compute; repeat split; try discriminate.
Qed.

(* ---- non-vacuity of the `_real` theorems: a concrete document in the domain (nested objects,
   arrays, null members, a null array element, a negative float, a non-ASCII name) ---- *)
Definition zoe : bytes := (bs "Zo" ++ [xc3; xab] ++ bs " ""x""")%list.
Definition inv_a : content :=
  CObj [(bs "type", CStr (bs "standard"));
        (bs "lines", CArr [CObj [(bs "i", CNum (bs "1"));
                                 (bs "item", CObj [(bs "price", CStr (bs "10.00"));
                                                   (bs "name", CStr zoe);
                                                   (bs "ref", CNull)]);
                                 (bs "quantity", CStr (bs "2"))];
                           CNull]);
        (bs "coords", CObj [(bs "lon", CNum (bs "-3.7E0")); (bs "lat", CNum (bs "4.0E1"))]);
        (bs "paid", CBool false);
        (bs "notes", CNull);
        (bs "tags", CArr []);
        (bs "n", CNum (bs "-12"))].
(* members reordered at two levels, null members removed here and added there *)
Definition inv_a_reencoded : content :=
  CObj [(bs "n", CNum (bs "-12"));
        (bs "coords", CObj [(bs "lat", CNum (bs "4.0E1")); (bs "alt", CNull); (bs "lon", CNum (bs "-3.7E0"))]);
        (bs "tags", CArr []);
        (bs "lines", CArr [CObj [(bs "quantity", CStr (bs "2"));
                                 (bs "item", CObj [(bs "name", CStr zoe);
                                                   (bs "price", CStr (bs "10.00"))]);
                                 (bs "i", CNum (bs "1"))];
                           CNull]);
        (bs "type", CStr (bs "standard"));
        (bs "paid", CBool false);
        (bs "zz", CNull)].
(* one price changed *)
Definition inv_a_edited : content :=
  CObj [(bs "type", CStr (bs "standard"));
        (bs "lines", CArr [CObj [(bs "i", CNum (bs "1"));
                                 (bs "item", CObj [(bs "price", CStr (bs "10.01"));
                                                   (bs "name", CStr zoe);
                                                   (bs "ref", CNull)]);
                                 (bs "quantity", CStr (bs "2"))];
                           CNull]);
        (bs "coords", CObj [(bs "lon", CNum (bs "-3.7E0")); (bs "lat", CNum (bs "4.0E1"))]);
        (bs "paid", CBool false);
        (bs "notes", CNull);
        (bs "tags", CArr []);
        (bs "n", CNum (bs "-12"))].
(* a text of inv_a as json.Marshal could print it (other number spellings, escapes, white space) *)
Definition inv_a_text : bytes :=
  (bs "{""type"":""standard"", ""lines"":[{""i"":1,""item"":{""price"":""10.00"",""name"":""Zo" ++ [xc3; xab] ++
   bs " \u0022x\"""",""ref"":null},""quantity"":""2""},null], ""coords"":{""lon"":-3.7,""lat"":40.0}," ++
   bs """paid"":false,""notes"":null,""tags"":[ ],""n"":-12}")%list.
Definition inv_a_canonical : bytes :=
  (bs "{""coords"":{""lat"":4.0E1,""lon"":-3.7E0},""lines"":[{""i"":1,""item"":{""name"":""Zo" ++ [xc3; xab] ++
   bs " \""x\"""",""price"":""10.00""},""quantity"":""2""},null],""n"":-12,""paid"":false,""tags"":[],""type"":""standard""}")%list.

Example real_run :
  in_domain inv_a = true /\ in_domain inv_a_reencoded = true /\ in_domain inv_a_edited = true /\
  (* the canonical form, and that it is C07's canon of a text of the document *)
  real_canon inv_a = inv_a_canonical /\
  C14n.parse inv_a_text = Ok (to_json inv_a) /\ C14n.canon inv_a_text = Ok (real_canon inv_a) /\
  (* re-encoded: another document, same content, same canonical form *)
  inv_a_reencoded <> inv_a /\ norm inv_a_reencoded = norm inv_a /\ real_canon inv_a_reencoded = real_canon inv_a /\
  (* edited: other content, other canonical form *)
  norm inv_a_edited <> norm inv_a /\ real_canon inv_a_edited <> real_canon inv_a /\
  (* with an injective hash: calculated => valid; re-encoded => valid; edited => digest error *)
  (exists e1, calculate content unit real_canon H_id Some (mkEnv tt None inv_a) = Some e1 /\
     validate content unit real_canon H_id all_ok e1 = Valid /\
     validate content unit real_canon H_id all_ok (with_doc e1 inv_a_reencoded) = Valid /\
     validate content unit real_canon H_id all_ok (with_doc e1 inv_a_edited) = ErrDigest) /\
  (* with a colliding hash the edit goes through, as the second disjunct of digest_tamper_evident_real says *)
  (exists e1, calculate content unit real_canon H_const Some (mkEnv tt None inv_a) = Some e1 /\
     validate content unit real_canon H_const all_ok (with_doc e1 inv_a_edited) = Valid).
Proof.
  do 11 (split; [vm_compute; first [reflexivity | discriminate]|]).
  split; eexists; (split; [vm_compute; reflexivity|]); vm_compute; repeat split.
Qed.

(* the `_real` theorems applied to it, for an ARBITRARY hash H *)
Example real_theorems_apply :
  forall (H : bytes -> bytes) (e1 : envelope content unit),
    calculate content unit real_canon H Some (mkEnv tt None inv_a) = Some e1 ->
    validate content unit real_canon H all_ok e1 = Valid /\
    validate content unit real_canon H all_ok (with_doc e1 inv_a_reencoded) = Valid /\
    (H (real_canon inv_a) <> H (real_canon inv_a_edited) ->
     validate content unit real_canon H all_ok (with_doc e1 inv_a_edited) = ErrDigest).
Proof.
  intros H e1 C.
  assert (V : validate content unit real_canon H all_ok e1 = Valid)
    by (apply (calculated_validates unit real_canon H all_ok Some _ e1 C); reflexivity).
  injection C as <-. cbn [e_doc e_rest] in *.
  split; [exact V|]. split.
  - apply reencoding_preserves_validity_real; [vm_compute; reflexivity | vm_compute; reflexivity | vm_compute; reflexivity | reflexivity | exact V].
  - intro NH. apply tampered_is_rejected_real; [vm_compute; reflexivity | vm_compute; reflexivity | exact V | vm_compute; discriminate | exact NH | reflexivity].
Qed.
