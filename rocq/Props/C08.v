(* C08 - The header digest makes every change to the document evident.

   Model: Digest/Envelope.v (validate, calculate, with_doc) over Digest/Content.v (content, norm, wf);
   Digest/Link.v ties `content` to the JSON values of the real canonicaliser of C07 (Json/C14n.v).

   READ THIS FIRST - what "the document" is.  `content` is the logical content of the PARSED
   document (what json.Marshal prints for the Go value the envelope holds), not the bytes that
   were received.  Envelope.Digest hashes that.  Hence a change of the serialised text that the
   parser undoes is not a change of the document in these theorems:
     * a `$regime` member equal to the supplier's tax country can be deleted - Invoice.UnmarshalJSON
       derives it again (regime_member_is_derived below; DESIGN.md section 8 row 29; by design);
     * members unknown to the Go type are dropped by encoding/json.
   That parsing is otherwise lossless (every schema-defined member of the text arrives in the
   parsed value and is printed again) is NOT proved: struct marshalling is reflection-driven; it
   is established per document by the sweep of tools/props/c08.py, which is search, not proof.
   This is the ONLY unproved link left between the theorems `..._real` below and the Go code
   (besides the differential ties of the models themselves).

   Two families of statements.
   (1) generic in the canonicaliser `canon`, with the premises
         canon_invariant, canon_injective   canonical JSON is invariant under, and injective up to,
                                            `norm` (member order, null members)
         wf                                 no duplicate member names
       (calculated_validates ... recalculated_digest_differs).
   (2) `..._real`: the same statements for canon := real_canon, the canonical form C07's model of
       c14n.CanonicalJSON computes (real_canon_is_c14n_canon: it IS C14n.canon's answer on every
       text that reads as the document).  The two premises are discharged - they are theorems
       (real_canon_invariant, real_canon_injective, from C07's print/parse round trip) on the domain
         in_domain d   every string and member name is UTF-8 without U+FFFD (encodeString refuses
                       anything else); every number text is canonical: an int64 as FormatInt prints
                       it, or a float that Float.MarshalJSON's text reads back as exactly (float_exactb:
                       C07's float premise without the dropped sign of zero) as Float.MarshalJSON
                       prints it (so 0.0E0, never -0.0E0).
       No canon premise and no wf premise is left (both sorts are the same stable sort, so
       duplicate names do no harm); norm / wf correspond to C07's norm / dupfree
       (norm_corresponds, wf_corresponds).
   There is NO hypothesis on the hash H: where one would be needed, the conclusion instead
   exhibits the collision.
   (3) "typed documents" (last section): for documents written by the typed-marshalling model of
       encoding/json over the Go types (Marshal/Typed.v, Props/C04.v) `wf` is a theorem, and the text
       edits the reader undoes (member order of a struct, unknown members) are theorems too.
   `structural` stands for all Validate methods of header, document and signatures (one boolean),
   `calc_doc` for the document's own Calculate. *)
From Coq Require Import List Bool Strings.Byte String.
From Verif Require Import Json.Json Json.C14n.
From Verif Require Import Base.Wire Digest.Content Digest.ContentProofs Digest.Envelope Digest.Regime
  Digest.EnvelopeProofs Digest.Toy Digest.ToyProofs Digest.Link.
From Verif Require Digest.LinkProofs.
Import ListNotations.

Definition canon_invariant (canon : content -> bytes) := forall v, wf v -> canon v = canon (norm v).
Definition canon_injective (canon : content -> bytes) :=
  forall v1 v2, wf v1 -> wf v2 -> canon v1 = canon v2 -> norm v1 = norm v2.

(* A calculated envelope validates (given that its parts pass their own validation rules). *)
Theorem calculated_validates :
  forall (rest : Type) (canon : content -> bytes) (H : bytes -> bytes)
         (structural : envelope content rest -> bool) (calc_doc : content -> option content)
         (e e1 : envelope content rest),
    calculate content rest canon H calc_doc e = Some e1 ->
    structural e1 = true ->
    validate content rest canon H structural e1 = Valid.
Proof. exact calculated_validates. Qed.
Print Assumptions calculated_validates.

(* ... and continues to validate when its document is replaced by any re-encoding of the same
   logical content (member order, null members; whitespace, escapes and number formatting are
   already identified in `content`). *)
Theorem reencoding_preserves_validity :
  forall (rest : Type) (canon : content -> bytes) (H : bytes -> bytes)
         (structural : envelope content rest -> bool),
    canon_invariant canon ->
    forall (e : envelope content rest) (d' : content),
      wf (e_doc e) -> wf d' -> norm d' = norm (e_doc e) ->
      structural (with_doc e d') = structural e ->
      validate content rest canon H structural e = Valid ->
      validate content rest canon H structural (with_doc e d') = Valid.
Proof. intros rest canon H structural CN. exact (reencoding_preserves_validity rest canon H structural CN). Qed.
Print Assumptions reencoding_preserves_validity.

(* If a valid envelope still validates after its document was replaced (nothing else touched),
   then the logical content is unchanged - or H collides on the two explicit, distinct byte strings
   canon (old document), canon (new document). *)
Theorem digest_tamper_evident :
  forall (rest : Type) (canon : content -> bytes) (H : bytes -> bytes)
         (structural : envelope content rest -> bool),
    canon_injective canon ->
    forall (e : envelope content rest) (d' : content),
      wf (e_doc e) -> wf d' ->
      validate content rest canon H structural e = Valid ->
      validate content rest canon H structural (with_doc e d') = Valid ->
      norm d' = norm (e_doc e) \/
      (canon (e_doc e) <> canon d' /\ H (canon (e_doc e)) = H (canon d')).
Proof. intros rest canon H structural CI. exact (digest_tamper_evident rest canon H structural CI). Qed.
Print Assumptions digest_tamper_evident.

(* The same read forwards: changed content and no collision on those two strings => validation
   fails; and it fails with the DIGEST error whenever the changed envelope passes the structural
   rules (those are checked first, envelope.go ValidateWithContext). *)
Theorem tampered_is_rejected :
  forall (rest : Type) (canon : content -> bytes) (H : bytes -> bytes)
         (structural : envelope content rest -> bool),
    canon_injective canon ->
    forall (e : envelope content rest) (d' : content),
      wf (e_doc e) -> wf d' ->
      validate content rest canon H structural e = Valid ->
      norm d' <> norm (e_doc e) ->
      H (canon (e_doc e)) <> H (canon d') ->
      validate content rest canon H structural (with_doc e d') <> Valid /\
      (structural (with_doc e d') = true ->
       validate content rest canon H structural (with_doc e d') = ErrDigest).
Proof. intros rest canon H structural CI. exact (tampered_is_rejected rest canon H structural CI). Qed.
Print Assumptions tampered_is_rejected.

(* After recalculating an envelope whose document was changed, the digest differs from the
   previous one (the comparison is on the recalculated document) - or, again, a collision. *)
Theorem recalculated_digest_differs :
  forall (rest : Type) (canon : content -> bytes) (H : bytes -> bytes)
         (structural : envelope content rest -> bool) (calc_doc : content -> option content),
    canon_injective canon ->
    forall (e : envelope content rest) (d' : content) (e1 : envelope content rest),
      wf (e_doc e) -> wf (e_doc e1) ->
      validate content rest canon H structural e = Valid ->
      calculate content rest canon H calc_doc (with_doc e d') = Some e1 ->
      norm (e_doc e1) <> norm (e_doc e) ->
      e_dig e1 <> e_dig e \/
      (canon (e_doc e) <> canon (e_doc e1) /\ H (canon (e_doc e)) = H (canon (e_doc e1))).
Proof. intros rest canon H structural calc_doc CI. exact (recalculated_digest_differs rest canon H structural calc_doc CI). Qed.
Print Assumptions recalculated_digest_differs.

(* ---------------------------------------------------------------------------------------------- *)
(* The premises discharged: canon := real_canon, the canonical form of C07's model of c14n          *)
(* ---------------------------------------------------------------------------------------------- *)

(* real_canon d is what c14n.CanonicalJSON (C07's `canon`) answers on EVERY text that its reader
   reads as the document - whatever the member order, whitespace, escapes of that text *)
Theorem real_canon_is_c14n_canon :
  forall (d : content) (t : bytes),
    in_domain d = true -> C14n.parse t = Ok (to_json d) -> C14n.canon t = Ok (real_canon d).
Proof. exact LinkProofs.real_canon_is_canon. Qed.
Print Assumptions real_canon_is_c14n_canon.

(* ... and every text the reader accepts with a good value (jgood: strings clean, floats
   satisfying the float premise) is the text of a document of the domain *)
Theorem every_good_text_is_a_document :
  forall (t : bytes) (v : jv),
    C14n.parse t = Ok v -> jgood v = true ->
    in_domain (of_json v) = true /\ to_json (of_json v) = v /\ C14n.canon t = Ok (real_canon (of_json v)).
Proof.
  exact (fun t v P G => conj (proj2 (LinkProofs.of_json_good v G))
                             (conj (proj1 (LinkProofs.of_json_good v G)) (proj2 (LinkProofs.real_canon_of_text t v P G)))).
Qed.
Print Assumptions every_good_text_is_a_document.

(* C08's norm and wf are C07's norm and dupfree, through the translation (all documents) *)
Theorem norm_corresponds : forall d : content, to_json (norm d) = Json.norm (to_json d).
Proof. exact LinkProofs.to_json_norm. Qed.
Print Assumptions norm_corresponds.

Theorem wf_corresponds : forall d : content, wf d <-> dupfree (to_json d) = true.
Proof. exact LinkProofs.wf_dupfree. Qed.
Print Assumptions wf_corresponds.

(* the translation loses nothing on the domain *)
Theorem translation_is_injective :
  forall d1 d2 : content, in_domain d1 = true -> in_domain d2 = true -> to_json d1 = to_json d2 -> d1 = d2.
Proof. exact LinkProofs.to_json_inj. Qed.
Print Assumptions translation_is_injective.

(* the two premises, relativised to the domain, as theorems about the real canonical form *)
Definition canon_invariant_on (dom : content -> bool) (canon : content -> bytes) :=
  forall v, dom v = true -> canon v = canon (norm v).
Definition canon_injective_on (dom : content -> bool) (canon : content -> bytes) :=
  forall v1 v2, dom v1 = true -> dom v2 = true -> canon v1 = canon v2 -> norm v1 = norm v2.

Theorem real_canon_invariant : canon_invariant_on in_domain real_canon.
Proof. exact LinkProofs.real_canon_invariant. Qed.
Print Assumptions real_canon_invariant.

Theorem real_canon_injective : canon_injective_on in_domain real_canon.
Proof. exact LinkProofs.real_canon_injective. Qed.
Print Assumptions real_canon_injective.

(* the canonical form of a document of the domain parses back (C07's reader) to its content *)
Theorem real_canon_parses_back :
  forall d : content, in_domain d = true -> C14n.parse (real_canon d) = Ok (to_json (norm d)).
Proof. exact LinkProofs.real_canon_parses_back. Qed.
Print Assumptions real_canon_parses_back.

(* the C08 theorems with no premise on the canonicaliser *)
Theorem reencoding_preserves_validity_real :
  forall (rest : Type) (H : bytes -> bytes) (structural : envelope content rest -> bool)
         (e : envelope content rest) (d' : content),
    in_domain (e_doc e) = true -> in_domain d' = true -> norm d' = norm (e_doc e) ->
    structural (with_doc e d') = structural e ->
    validate content rest real_canon H structural e = Valid ->
    validate content rest real_canon H structural (with_doc e d') = Valid.
Proof. exact LinkProofs.reencoding_preserves_validity_real. Qed.
Print Assumptions reencoding_preserves_validity_real.

Theorem digest_tamper_evident_real :
  forall (rest : Type) (H : bytes -> bytes) (structural : envelope content rest -> bool)
         (e : envelope content rest) (d' : content),
    in_domain (e_doc e) = true -> in_domain d' = true ->
    validate content rest real_canon H structural e = Valid ->
    validate content rest real_canon H structural (with_doc e d') = Valid ->
    norm d' = norm (e_doc e) \/
    (real_canon (e_doc e) <> real_canon d' /\ H (real_canon (e_doc e)) = H (real_canon d')).
Proof. exact LinkProofs.digest_tamper_evident_real. Qed.
Print Assumptions digest_tamper_evident_real.

Theorem tampered_is_rejected_real :
  forall (rest : Type) (H : bytes -> bytes) (structural : envelope content rest -> bool)
         (e : envelope content rest) (d' : content),
    in_domain (e_doc e) = true -> in_domain d' = true ->
    validate content rest real_canon H structural e = Valid ->
    norm d' <> norm (e_doc e) ->
    H (real_canon (e_doc e)) <> H (real_canon d') ->
    validate content rest real_canon H structural (with_doc e d') <> Valid /\
    (structural (with_doc e d') = true ->
     validate content rest real_canon H structural (with_doc e d') = ErrDigest).
Proof. exact LinkProofs.tampered_is_rejected_real. Qed.
Print Assumptions tampered_is_rejected_real.

Theorem recalculated_digest_differs_real :
  forall (rest : Type) (H : bytes -> bytes) (structural : envelope content rest -> bool)
         (calc_doc : content -> option content)
         (e : envelope content rest) (d' : content) (e1 : envelope content rest),
    in_domain (e_doc e) = true -> in_domain (e_doc e1) = true ->
    validate content rest real_canon H structural e = Valid ->
    calculate content rest real_canon H calc_doc (with_doc e d') = Some e1 ->
    norm (e_doc e1) <> norm (e_doc e) ->
    e_dig e1 <> e_dig e \/
    (real_canon (e_doc e) <> real_canon (e_doc e1) /\ H (real_canon (e_doc e)) = H (real_canon (e_doc e1))).
Proof. exact LinkProofs.recalculated_digest_differs_real. Qed.
Print Assumptions recalculated_digest_differs_real.

(* The derived member: deleting `$regime` when it equals the supplier's tax country (and a regime
   is defined for it) leaves the parsed document - hence digest and validity - unchanged. *)
Theorem regime_member_is_derived :
  forall (defined : bytes -> bool) (m : list member) (c : bytes),
    regime_of m = c -> c <> [] -> supplier_country m = c -> defined c = true ->
    parse_invoice defined (CObj (remove_member k_regime m)) = parse_invoice defined (CObj m).
Proof. exact regime_deletion_invisible. Qed.
Print Assumptions regime_member_is_derived.

(* so "every edit of the serialised TEXT is evident" is false of the faithful model: *)
Local Open Scope string_scope.
Definition raw_es : content :=
  CObj [(bs "$regime", CStr (bs "ES"));
        (bs "supplier", CObj [(bs "tax_id", CObj [(bs "country", CStr (bs "ES"))])])].
Definition raw_es_without : content := CObj (remove_member k_regime (members_of raw_es)).

Theorem every_text_edit_evident_refuted :
  exists (raw raw' : content), norm raw <> norm raw' /\
    parse_invoice (fun _ => true) raw = parse_invoice (fun _ => true) raw'.
Proof. exists raw_es, raw_es_without. split; [vm_compute; discriminate | vm_compute; reflexivity]. Qed.
Print Assumptions every_text_edit_evident_refuted.

(* ---- non-vacuity: the hypotheses are satisfiable, the conclusions are not trivial ---- *)
Example toy_canon_satisfies_the_premises : canon_invariant toy_canon /\ canon_injective toy_canon.
Proof. split; [exact toy_canon_norm | exact toy_canon_inj]. Qed.

Definition d_a : content := CObj [(bs "b", CNum (bs "1")); (bs "a", CStr (bs "x")); (bs "n", CNull)].
Definition d_a_reencoded : content := CObj [(bs "a", CStr (bs "x")); (bs "b", CNum (bs "1"))].
Definition d_a_edited : content := CObj [(bs "b", CNum (bs "2")); (bs "a", CStr (bs "x"))].
Definition all_ok (e : envelope content unit) : bool := true.
Definition e0 : envelope content unit := mkEnv tt None d_a.

Example toy_run :
  (* calculated => valid; re-encoded => still valid; edited => digest error (injective hash) *)
  (exists e1, calculate content unit toy_canon H_id Some e0 = Some e1 /\
     validate content unit toy_canon H_id all_ok e1 = Valid /\
     norm d_a_reencoded = norm d_a /\ d_a_reencoded <> d_a /\
     validate content unit toy_canon H_id all_ok (with_doc e1 d_a_reencoded) = Valid /\
     norm d_a_edited <> norm d_a /\
     validate content unit toy_canon H_id all_ok (with_doc e1 d_a_edited) = ErrDigest) /\
  (* with a colliding hash the edit goes through: the second disjunct of digest_tamper_evident
     is needed, the first alone would be false *)
  (exists e1, calculate content unit toy_canon H_const Some e0 = Some e1 /\
     validate content unit toy_canon H_const all_ok (with_doc e1 d_a_edited) = Valid /\
     norm d_a_edited <> norm d_a /\
     toy_canon d_a <> toy_canon d_a_edited /\ H_const (toy_canon d_a) = H_const (toy_canon d_a_edited)).
Proof.
  split; eexists; (split; [vm_compute; reflexivity|]); vm_compute; repeat split; try discriminate.
Qed.

(* ---- non-vacuity of the `_real` theorems: a concrete document in the domain (nested objects,
   arrays, null members, a null array element, a negative float, a non-ASCII name) ---- *)
Definition zoe : bytes := (bs "Zo" ++ [xc3; xab] ++ bs " ""x""")%list.
Definition inv_a : content :=
  CObj [(bs "type", CStr (bs "standard"));
        (bs "lines", CArr [CObj [(bs "i", CNum (bs "1"));
                                 (bs "item", CObj [(bs "price", CStr (bs "10.00"));
                                                   (bs "name", CStr zoe);
                                                   (bs "ref", CNull)]);
                                 (bs "quantity", CStr (bs "2"))];
                           CNull]);
        (bs "coords", CObj [(bs "lon", CNum (bs "-3.7E0")); (bs "lat", CNum (bs "4.0E1"))]);
        (bs "paid", CBool false);
        (bs "notes", CNull);
        (bs "tags", CArr []);
        (bs "n", CNum (bs "-12"))].
(* members reordered at two levels, null members removed here and added there *)
Definition inv_a_reencoded : content :=
  CObj [(bs "n", CNum (bs "-12"));
        (bs "coords", CObj [(bs "lat", CNum (bs "4.0E1")); (bs "alt", CNull); (bs "lon", CNum (bs "-3.7E0"))]);
        (bs "tags", CArr []);
        (bs "lines", CArr [CObj [(bs "quantity", CStr (bs "2"));
                                 (bs "item", CObj [(bs "name", CStr zoe);
                                                   (bs "price", CStr (bs "10.00"))]);
                                 (bs "i", CNum (bs "1"))];
                           CNull]);
        (bs "type", CStr (bs "standard"));
        (bs "paid", CBool false);
        (bs "zz", CNull)].
(* one price changed *)
Definition inv_a_edited : content :=
  CObj [(bs "type", CStr (bs "standard"));
        (bs "lines", CArr [CObj [(bs "i", CNum (bs "1"));
                                 (bs "item", CObj [(bs "price", CStr (bs "10.01"));
                                                   (bs "name", CStr zoe);
                                                   (bs "ref", CNull)]);
                                 (bs "quantity", CStr (bs "2"))];
                           CNull]);
        (bs "coords", CObj [(bs "lon", CNum (bs "-3.7E0")); (bs "lat", CNum (bs "4.0E1"))]);
        (bs "paid", CBool false);
        (bs "notes", CNull);
        (bs "tags", CArr []);
        (bs "n", CNum (bs "-12"))].
(* a text of inv_a as json.Marshal could print it (other number spellings, escapes, white space) *)
Definition inv_a_text : bytes :=
  (bs "{""type"":""standard"", ""lines"":[{""i"":1,""item"":{""price"":""10.00"",""name"":""Zo" ++ [xc3; xab] ++
   bs " \u0022x\"""",""ref"":null},""quantity"":""2""},null], ""coords"":{""lon"":-3.7,""lat"":40.0}," ++
   bs """paid"":false,""notes"":null,""tags"":[ ],""n"":-12}")%list.
Definition inv_a_canonical : bytes :=
  (bs "{""coords"":{""lat"":4.0E1,""lon"":-3.7E0},""lines"":[{""i"":1,""item"":{""name"":""Zo" ++ [xc3; xab] ++
   bs " \""x\"""",""price"":""10.00""},""quantity"":""2""},null],""n"":-12,""paid"":false,""tags"":[],""type"":""standard""}")%list.

Example real_run :
  in_domain inv_a = true /\ in_domain inv_a_reencoded = true /\ in_domain inv_a_edited = true /\
  (* the canonical form, and that it is C07's canon of a text of the document *)
  real_canon inv_a = inv_a_canonical /\
  C14n.parse inv_a_text = Ok (to_json inv_a) /\ C14n.canon inv_a_text = Ok (real_canon inv_a) /\
  (* re-encoded: another document, same content, same canonical form *)
  inv_a_reencoded <> inv_a /\ norm inv_a_reencoded = norm inv_a /\ real_canon inv_a_reencoded = real_canon inv_a /\
  (* edited: other content, other canonical form *)
  norm inv_a_edited <> norm inv_a /\ real_canon inv_a_edited <> real_canon inv_a /\
  (* with an injective hash: calculated => valid; re-encoded => valid; edited => digest error *)
  (exists e1, calculate content unit real_canon H_id Some (mkEnv tt None inv_a) = Some e1 /\
     validate content unit real_canon H_id all_ok e1 = Valid /\
     validate content unit real_canon H_id all_ok (with_doc e1 inv_a_reencoded) = Valid /\
     validate content unit real_canon H_id all_ok (with_doc e1 inv_a_edited) = ErrDigest) /\
  (* with a colliding hash the edit goes through, as the second disjunct of digest_tamper_evident_real says *)
  (exists e1, calculate content unit real_canon H_const Some (mkEnv tt None inv_a) = Some e1 /\
     validate content unit real_canon H_const all_ok (with_doc e1 inv_a_edited) = Valid).
Proof.
  do 11 (split; [vm_compute; first [reflexivity | discriminate]|]).
  split; eexists; (split; [vm_compute; reflexivity|]); vm_compute; repeat split.
Qed.

(* the `_real` theorems applied to it, for an ARBITRARY hash H *)
Example real_theorems_apply :
  forall (H : bytes -> bytes) (e1 : envelope content unit),
    calculate content unit real_canon H Some (mkEnv tt None inv_a) = Some e1 ->
    validate content unit real_canon H all_ok e1 = Valid /\
    validate content unit real_canon H all_ok (with_doc e1 inv_a_reencoded) = Valid /\
    (H (real_canon inv_a) <> H (real_canon inv_a_edited) ->
     validate content unit real_canon H all_ok (with_doc e1 inv_a_edited) = ErrDigest).
Proof.
  intros H e1 C.
  assert (V : validate content unit real_canon H all_ok e1 = Valid)
    by (apply (calculated_validates unit real_canon H all_ok Some _ e1 C); reflexivity).
  injection C as <-. cbn [e_doc e_rest] in *.
  split; [exact V|]. split.
  - apply reencoding_preserves_validity_real; [vm_compute; reflexivity | vm_compute; reflexivity | vm_compute; reflexivity | reflexivity | exact V].
  - intro NH. apply tampered_is_rejected_real; [vm_compute; reflexivity | vm_compute; reflexivity | exact V | vm_compute; discriminate | exact NH | reflexivity].
Qed.

(* ---------------------------------------------------------------------------------------------- *)
(* typed documents                                                                                  *)
(* ---------------------------------------------------------------------------------------------- *)
(* The document an envelope holds is what json.Marshal writes for a Go value json.Unmarshal built:
   `content_of r` (Digest/Typed.v) for a tree r that the typed-marshalling model wrote,
   `reenc E fuel t j = Ok r` (Marshal/Typed.v, type descriptors regenerated from Go reflection; the
   theorems about it are in Props/C04.v, section "typed serialisation").  For such documents the premise
   `wf` (no duplicate member names at any depth) of the theorems above is no longer an observation about
   encoding/json but a THEOREM: a struct writes a sub-list of its declared field names, which are pairwise
   distinct (env_wfb / ty_wfb, re-checked on the regenerated types: typed_env_well_formed in Props/C04.v);
   a map writes each key once; schema.Object adds `$schema` to a payload that has no such field. *)
From Verif Require Import Marshal.Typed Marshal.Wf Gen.GoTypes Marshal.Env Digest.Typed.
From Verif Require Digest.TypedProofs.
From Coq Require Import Permutation.

Theorem typed_output_wellformed :
  forall E : env, env_wfb E = true ->
  forall (fuel : nat) (t : ty) (j r : tv), ty_wfb t = true -> reenc E fuel t j = Ok r -> wf (content_of r).
Proof. exact Digest.TypedProofs.typed_output_wellformed. Qed.
Print Assumptions typed_output_wellformed.

(* the written form of a zero value (an absent member) too *)
Theorem typed_zero_wellformed :
  forall E : env, env_wfb E = true ->
  forall (fuel : nat) (t : ty) (z : tv), ty_wfb t = true -> zero_enc E fuel t = Ok z -> wf (content_of z).
Proof. exact Digest.TypedProofs.typed_zero_wellformed. Qed.
Print Assumptions typed_zero_wellformed.

(* the generated environment: a document of a registered schema, a value of a named Go type *)
Theorem typed_schema_document_wellformed :
  forall (id : bytes) (j r : tv), reenc_schema id j = Ok r -> wf (content_of r).
Proof. exact Digest.TypedProofs.typed_schema_document_wf. Qed.
Print Assumptions typed_schema_document_wellformed.

Theorem typed_value_wellformed :
  forall (n : bytes) (j r : tv), reenc_type n j = Ok r -> wf (content_of r).
Proof. exact Digest.TypedProofs.typed_value_wf. Qed.
Print Assumptions typed_value_wellformed.

(* The digest theorems over typed documents: the envelope e holds the typed document r (read from any
   tree j), its document is replaced by the typed document r' (read from any tree j' at the same type).
   No `wf` premise is left. *)
Theorem typed_reencoding_preserves_validity :
  forall (rest : Type) (canon : content -> bytes) (H : bytes -> bytes)
         (structural : envelope content rest -> bool)
         (E : env), env_wfb E = true -> forall t : ty, ty_wfb t = true ->
    canon_invariant canon ->
    forall (fuel fuel' : nat) (j j' r r' : tv) (e : envelope content rest),
      reenc E fuel t j = Ok r -> reenc E fuel' t j' = Ok r' -> e_doc e = content_of r ->
      norm (content_of r') = norm (content_of r) ->
      structural (with_doc e (content_of r')) = structural e ->
      validate content rest canon H structural e = Valid ->
      validate content rest canon H structural (with_doc e (content_of r')) = Valid.
Proof. exact Digest.TypedProofs.typed_reencoding_preserves_validity. Qed.
Print Assumptions typed_reencoding_preserves_validity.

Theorem typed_digest_tamper_evident :
  forall (rest : Type) (canon : content -> bytes) (H : bytes -> bytes)
         (structural : envelope content rest -> bool)
         (E : env), env_wfb E = true -> forall t : ty, ty_wfb t = true ->
    canon_injective canon ->
    forall (fuel fuel' : nat) (j j' r r' : tv) (e : envelope content rest),
      reenc E fuel t j = Ok r -> reenc E fuel' t j' = Ok r' -> e_doc e = content_of r ->
      validate content rest canon H structural e = Valid ->
      validate content rest canon H structural (with_doc e (content_of r')) = Valid ->
      norm (content_of r') = norm (content_of r) \/
      (canon (content_of r) <> canon (content_of r') /\ H (canon (content_of r)) = H (canon (content_of r'))).
Proof. exact Digest.TypedProofs.typed_digest_tamper_evident. Qed.
Print Assumptions typed_digest_tamper_evident.

Theorem typed_tampered_is_rejected :
  forall (rest : Type) (canon : content -> bytes) (H : bytes -> bytes)
         (structural : envelope content rest -> bool)
         (E : env), env_wfb E = true -> forall t : ty, ty_wfb t = true ->
    canon_injective canon ->
    forall (fuel fuel' : nat) (j j' r r' : tv) (e : envelope content rest),
      reenc E fuel t j = Ok r -> reenc E fuel' t j' = Ok r' -> e_doc e = content_of r ->
      validate content rest canon H structural e = Valid ->
      norm (content_of r') <> norm (content_of r) ->
      H (canon (content_of r)) <> H (canon (content_of r')) ->
      validate content rest canon H structural (with_doc e (content_of r')) <> Valid /\
      (structural (with_doc e (content_of r')) = true ->
       validate content rest canon H structural (with_doc e (content_of r')) = ErrDigest).
Proof. exact Digest.TypedProofs.typed_tampered_is_rejected. Qed.
Print Assumptions typed_tampered_is_rejected.

(* ... and over the real canonical form, for documents of a registered schema.  The `_real` theorems
   above never needed `wf` (both sorts are the same stable sort); what they ask is in_domain, and that is
   NOT implied by being a typed document: a Go string field carries any bytes (encodeString refuses the
   ones that are not clean UTF-8), and `content` carries number texts in the canonical spelling of
   c14n (a float field writes 3.5, c14n 3.5E0).  So in_domain stays a premise here. *)
Theorem typed_reencoding_preserves_validity_real :
  forall (rest : Type) (H : bytes -> bytes) (structural : envelope content rest -> bool)
         (id : bytes) (j j' r r' : tv) (e : envelope content rest),
    reenc_schema id j = Ok r -> reenc_schema id j' = Ok r' -> e_doc e = content_of r ->
    in_domain (content_of r) = true -> in_domain (content_of r') = true ->
    norm (content_of r') = norm (content_of r) ->
    structural (with_doc e (content_of r')) = structural e ->
    validate content rest real_canon H structural e = Valid ->
    validate content rest real_canon H structural (with_doc e (content_of r')) = Valid.
Proof. exact Digest.TypedProofs.typed_reencoding_preserves_validity_real. Qed.
Print Assumptions typed_reencoding_preserves_validity_real.

Theorem typed_digest_tamper_evident_real :
  forall (rest : Type) (H : bytes -> bytes) (structural : envelope content rest -> bool)
         (id : bytes) (j j' r r' : tv) (e : envelope content rest),
    reenc_schema id j = Ok r -> reenc_schema id j' = Ok r' -> e_doc e = content_of r ->
    in_domain (content_of r) = true -> in_domain (content_of r') = true ->
    validate content rest real_canon H structural e = Valid ->
    validate content rest real_canon H structural (with_doc e (content_of r')) = Valid ->
    norm (content_of r') = norm (content_of r) \/
    (real_canon (content_of r) <> real_canon (content_of r') /\
     H (real_canon (content_of r)) = H (real_canon (content_of r'))).
Proof. exact Digest.TypedProofs.typed_digest_tamper_evident_real. Qed.
Print Assumptions typed_digest_tamper_evident_real.

Theorem typed_tampered_is_rejected_real :
  forall (rest : Type) (H : bytes -> bytes) (structural : envelope content rest -> bool)
         (id : bytes) (j j' r r' : tv) (e : envelope content rest),
    reenc_schema id j = Ok r -> reenc_schema id j' = Ok r' -> e_doc e = content_of r ->
    in_domain (content_of r) = true -> in_domain (content_of r') = true ->
    validate content rest real_canon H structural e = Valid ->
    norm (content_of r') <> norm (content_of r) ->
    H (real_canon (content_of r)) <> H (real_canon (content_of r')) ->
    validate content rest real_canon H structural (with_doc e (content_of r')) <> Valid /\
    (structural (with_doc e (content_of r')) = true ->
     validate content rest real_canon H structural (with_doc e (content_of r')) = ErrDigest).
Proof. exact Digest.TypedProofs.typed_tampered_is_rejected_real. Qed.
Print Assumptions typed_tampered_is_rejected_real.

(* The edits of the TEXT that leave no trace - the blind spot recorded above as
   every_text_edit_evident_refuted, now exactly delimited for struct types: a text whose members are
   permuted, or extended by members no field listens to, is read to the SAME typed document (doc_of: the
   same content, or the same failure) ... *)
Theorem member_order_leaves_no_trace :
  forall (E : env) (fuel : nat) (h : hook) (fs : list field) (m m2 : list (bytes * tv)),
    Permutation m m2 ->
    doc_of (reenc E fuel (TyStruct h fs) (TObj m2)) = doc_of (reenc E fuel (TyStruct h fs) (TObj m)).
Proof. exact Digest.TypedProofs.member_order_no_trace. Qed.
Print Assumptions member_order_leaves_no_trace.

Theorem unknown_members_leave_no_trace :
  forall (E : env) (fuel : nat) (h : hook) (fs : list field) (m1 x m2 : list (bytes * tv)),
    (forall kv n, In kv x -> In n (map f_name fs ++ hook_names h) -> fold_eq (fst kv) n = false) ->
    members_in_domain (map f_name fs ++ hook_names h) (m1 ++ x ++ m2) = true ->
    doc_of (reenc E fuel (TyStruct h fs) (TObj (m1 ++ x ++ m2))) =
    doc_of (reenc E fuel (TyStruct h fs) (TObj (m1 ++ m2))).
Proof. exact Digest.TypedProofs.unknown_members_no_trace. Qed.
Print Assumptions unknown_members_leave_no_trace.

(* ... hence the same canonical bytes, the same digest, and the same verdict of the envelope holding it,
   for ANY canonicaliser and hash *)
Theorem member_order_keeps_digest_and_verdict :
  forall (rest : Type) (canon : content -> bytes) (H : bytes -> bytes)
         (structural : envelope content rest -> bool)
         (E : env) (fuel : nat) (h : hook) (fs : list field) (m m2 : list (bytes * tv)) (r r2 : tv)
         (e : envelope content rest),
    Permutation m m2 ->
    reenc E fuel (TyStruct h fs) (TObj m) = Ok r -> reenc E fuel (TyStruct h fs) (TObj m2) = Ok r2 ->
    e_doc e = content_of r ->
    content_of r2 = content_of r /\
    canon (content_of r2) = canon (content_of r) /\
    digest_of content canon H (content_of r2) = digest_of content canon H (content_of r) /\
    validate content rest canon H structural (with_doc e (content_of r2)) =
    validate content rest canon H structural e.
Proof. exact Digest.TypedProofs.member_order_keeps_verdict. Qed.
Print Assumptions member_order_keeps_digest_and_verdict.

Theorem unknown_members_keep_digest_and_verdict :
  forall (rest : Type) (canon : content -> bytes) (H : bytes -> bytes)
         (structural : envelope content rest -> bool)
         (E : env) (fuel : nat) (h : hook) (fs : list field) (m1 x m2 : list (bytes * tv)) (r r2 : tv)
         (e : envelope content rest),
    (forall kv n, In kv x -> In n (map f_name fs ++ hook_names h) -> fold_eq (fst kv) n = false) ->
    members_in_domain (map f_name fs ++ hook_names h) (m1 ++ x ++ m2) = true ->
    reenc E fuel (TyStruct h fs) (TObj (m1 ++ m2)) = Ok r ->
    reenc E fuel (TyStruct h fs) (TObj (m1 ++ x ++ m2)) = Ok r2 ->
    e_doc e = content_of r ->
    content_of r2 = content_of r /\
    canon (content_of r2) = canon (content_of r) /\
    digest_of content canon H (content_of r2) = digest_of content canon H (content_of r) /\
    validate content rest canon H structural (with_doc e (content_of r2)) =
    validate content rest canon H structural e.
Proof. exact Digest.TypedProofs.unknown_members_keep_verdict. Qed.
Print Assumptions unknown_members_keep_digest_and_verdict.

(* the same for a whole document of a registered schema whose Go type is a struct, each tree read with the
   fuel the runner computes from it (the trees may differ in depth) *)
Theorem schema_document_member_order_leaves_no_trace :
  forall (id n : bytes) (h : hook) (fs : list field) (m m2 : list (bytes * tv)) (r : tv),
    assoc id go_schemas = Some (TyRef n) -> assoc n go_types = Some (TyStruct h fs) ->
    Permutation m m2 ->
    (reenc_schema id (TObj m2) = Ok r <-> reenc_schema id (TObj m) = Ok r).
Proof. exact Digest.TypedProofs.schema_member_order_no_trace. Qed.
Print Assumptions schema_document_member_order_leaves_no_trace.

Theorem schema_document_unknown_members_leave_no_trace :
  forall (id n : bytes) (h : hook) (fs : list field) (m1 x m2 : list (bytes * tv)) (r : tv),
    assoc id go_schemas = Some (TyRef n) -> assoc n go_types = Some (TyStruct h fs) ->
    (forall kv k, In kv x -> In k (map f_name fs ++ hook_names h) -> fold_eq (fst kv) k = false) ->
    members_in_domain (map f_name fs ++ hook_names h) (m1 ++ x ++ m2) = true ->
    (reenc_schema id (TObj (m1 ++ x ++ m2)) = Ok r <-> reenc_schema id (TObj (m1 ++ m2)) = Ok r).
Proof. exact Digest.TypedProofs.schema_unknown_members_no_trace. Qed.
Print Assumptions schema_document_unknown_members_leave_no_trace.

(* ---- non-vacuity: a note.Message read through its registered schema.  The text has its members in
   scrambled order, a member no field listens to, a null title, a map with a duplicate and unsorted keys ---- *)
Definition tmsg_schema : bytes := bs "https://gobl.org/draft-0/note/message".
Definition tmsg_unknown : list (bytes * tv) := [(bs "x-unknown", TArr [TNum (bs "1"); TObj [(bs "a", TNull); (bs "a", TNull)]])].
Definition tmsg_before : list (bytes * tv) :=
  [(bs "meta", TObj [(bs "b", TStr (bs "2")); (bs "a", TStr (bs "1")); (bs "b", TStr (bs "3"))])].
Definition tmsg_after : list (bytes * tv) := [(bs "content", TStr (bs "hello")); (bs "title", TNull)].
Definition tmsg_text : tv := TObj (tmsg_before ++ tmsg_unknown ++ tmsg_after).
Definition tmsg_text_plain : tv := TObj (tmsg_before ++ tmsg_after).
Definition tmsg_text_permuted : tv := TObj (tmsg_after ++ tmsg_before).
Definition tmsg_text_edited : tv := TObj (tmsg_before ++ [(bs "content", TStr (bs "hullo"))]).
Definition tmsg_doc : tv :=
  TObj [(bs "content", TStr (bs "hello"));
        (bs "meta", TObj [(bs "a", TStr (bs "1")); (bs "b", TStr (bs "3"))])].
Definition tmsg_fields : list field :=
  [mkF (bs "uuid") true (TyLeaf LUUID); mkF (bs "title") true (TyLeaf LStr);
   mkF (bs "content") false (TyLeaf LStr); mkF (bs "meta") true (TyMap (TyLeaf LStr))].

Example typed_documents_nonvacuous :
  (* the typed document; it is well formed and in the domain of real_canon *)
  reenc_schema tmsg_schema tmsg_text = Ok tmsg_doc /\
  wf (content_of tmsg_doc) /\ in_domain (content_of tmsg_doc) = true /\
  (* the unknown member (itself with duplicate names inside) and the member order leave no trace *)
  tmsg_text <> tmsg_text_plain /\
  doc_of (reenc_schema tmsg_schema tmsg_text) = doc_of (reenc_schema tmsg_schema tmsg_text_plain) /\
  doc_of (reenc_schema tmsg_schema tmsg_text_permuted) = doc_of (reenc_schema tmsg_schema tmsg_text_plain) /\
  (* an edit of a member the type listens to does: other content, and with an injective hash a digest error *)
  (exists r', reenc_schema tmsg_schema tmsg_text_edited = Ok r' /\
     norm (content_of r') <> norm (content_of tmsg_doc) /\
     exists e1, calculate content unit real_canon H_id Some (Envelope.mkEnv tt None (content_of tmsg_doc)) = Some e1 /\
       validate content unit real_canon H_id all_ok e1 = Valid /\
       validate content unit real_canon H_id all_ok (with_doc e1 (content_of r')) = ErrDigest) /\
  (* the hypotheses of the schema-level theorems, for this type *)
  assoc tmsg_schema go_schemas = Some (TyRef (bs "note.Message")) /\
  assoc (bs "note.Message") go_types = Some (TyStruct HNone tmsg_fields) /\
  (forall kv k, In kv tmsg_unknown -> In k (map f_name tmsg_fields ++ hook_names HNone) -> fold_eq (fst kv) k = false) /\
  members_in_domain (map f_name tmsg_fields ++ hook_names HNone) (tmsg_before ++ tmsg_unknown ++ tmsg_after) = true /\
  Permutation (tmsg_before ++ tmsg_after) (tmsg_after ++ tmsg_before).
Proof.
  split; [vm_compute; reflexivity|].
  split; [apply Digest.LinkProofs.wf_wfb; vm_compute; reflexivity|].
  split; [vm_compute; reflexivity|].
  split; [vm_compute; discriminate|].
  split; [vm_compute; reflexivity|].
  split; [vm_compute; reflexivity|].
  split.
  { eexists. split; [vm_compute; reflexivity|]. split; [vm_compute; discriminate|].
    eexists. split; [vm_compute; reflexivity|]. split; vm_compute; reflexivity. }
  split; [vm_compute; reflexivity|].
  split; [vm_compute; reflexivity|].
  split.
  { intros kv k [<-|[]] Hk. cbn in Hk.
    repeat (destruct Hk as [<-|Hk]; [vm_compute; reflexivity|]). contradiction. }
  split; [vm_compute; reflexivity|].
  apply Permutation_app_comm.
Qed.

(* the theorems applied to it: from the reading of the plain text alone, the readings of the extended and
   of the permuted text (theorems, not computation), and the verdict of an envelope for an ARBITRARY hash *)
Example typed_theorems_apply :
  reenc_schema tmsg_schema tmsg_text = Ok tmsg_doc /\
  reenc_schema tmsg_schema tmsg_text_permuted = Ok tmsg_doc /\
  forall (H : bytes -> bytes) (e1 : envelope content unit) (r' : tv),
    calculate content unit real_canon H Some (Envelope.mkEnv tt None (content_of tmsg_doc)) = Some e1 ->
    reenc_schema tmsg_schema tmsg_text_edited = Ok r' ->
    H (real_canon (content_of tmsg_doc)) <> H (real_canon (content_of r')) ->
    validate content unit real_canon H all_ok (with_doc e1 (content_of r')) = ErrDigest.
Proof.
  destruct typed_documents_nonvacuous as (_ & _ & _ & _ & _ & _ & _ & A & B & U & M & P).
  assert (R : reenc_schema tmsg_schema tmsg_text_plain = Ok tmsg_doc) by (vm_compute; reflexivity).
  split; [apply (schema_document_unknown_members_leave_no_trace _ _ _ _ _ _ _ _ A B U M); exact R|].
  split; [apply (schema_document_member_order_leaves_no_trace _ _ _ _ _ _ _ A B P); exact R|].
  intros H e1 r' C R' NH.
  assert (V : validate content unit real_canon H all_ok e1 = Valid)
    by (apply (calculated_validates unit real_canon H all_ok Some _ e1 C); reflexivity).
  injection C as <-.
  assert (E' : r' = TObj [(bs "content", TStr (bs "hullo"));
                          (bs "meta", TObj [(bs "a", TStr (bs "1")); (bs "b", TStr (bs "3"))])])
    by (vm_compute in R'; injection R' as <-; reflexivity).
  apply (typed_tampered_is_rejected_real unit H all_ok tmsg_schema tmsg_text_plain tmsg_text_edited tmsg_doc r');
    [exact R | exact R' | reflexivity | vm_compute; reflexivity | subst r'; vm_compute; reflexivity
     | exact V | subst r'; vm_compute; discriminate | exact NH | reflexivity].
Qed.
