(* C08 - The header digest makes every change to the document evident.

   Model: Digest/Envelope.v (validate, calculate, with_doc) over Digest/Content.v (content, norm, wf).

   READ THIS FIRST - what "the document" is.  `content` is the logical content of the PARSED
   document (what json.Marshal prints for the Go value the envelope holds), not the bytes that
   were received.  Envelope.Digest hashes that.  Hence a change of the serialised text that the
   parser undoes is not a change of the document in these theorems:
     * a `$regime` member equal to the supplier's tax country can be deleted - Invoice.UnmarshalJSON
       derives it again (regime_member_is_derived below; DESIGN.md section 8 row 29; by design);
     * members unknown to the Go type are dropped by encoding/json.
   That parsing is otherwise lossless (every schema-defined member of the text arrives in the
   parsed value and is printed again) is NOT proved: struct marshalling is reflection-driven; it
   is established per document by the sweep of tools/props/c08.py, which is search, not proof.

   Premises that appear in every statement:
     canon_norm, canon_inj   canonical JSON is invariant under, and injective up to, `norm`
                             (member order, null members) - the theorems of C07, here hypotheses;
     wf                      no duplicate member names (true of whatever encoding/json prints).
   There is NO hypothesis on the hash H: where one would be needed, the conclusion instead
   exhibits the collision.
   `structural` stands for all Validate methods of header, document and signatures (one boolean),
   `calc_doc` for the document's own Calculate. *)
From Coq Require Import List Bool Strings.Byte String.
From Verif Require Import Base.Wire Digest.Content Digest.ContentProofs Digest.Envelope Digest.Regime
  Digest.EnvelopeProofs Digest.Toy Digest.ToyProofs.
Import ListNotations.

Definition canon_invariant (canon : content -> bytes) := forall v, wf v -> canon v = canon (norm v).
Definition canon_injective (canon : content -> bytes) :=
  forall v1 v2, wf v1 -> wf v2 -> canon v1 = canon v2 -> norm v1 = norm v2.

(* A calculated envelope validates (given that its parts pass their own validation rules). *)
Theorem calculated_validates :
  forall (rest : Type) (canon : content -> bytes) (H : bytes -> bytes)
         (structural : envelope content rest -> bool) (calc_doc : content -> option content)
         (e e1 : envelope content rest),
    calculate content rest canon H calc_doc e = Some e1 ->
    structural e1 = true ->
    validate content rest canon H structural e1 = Valid.
Proof. exact calculated_validates. Qed.
Print Assumptions calculated_validates.

(* ... and continues to validate when its document is replaced by any re-encoding of the same
   logical content (member order, null members; whitespace, escapes and number formatting are
   already identified in `content`). *)
Theorem reencoding_preserves_validity :
  forall (rest : Type) (canon : content -> bytes) (H : bytes -> bytes)
         (structural : envelope content rest -> bool),
    canon_invariant canon ->
    forall (e : envelope content rest) (d' : content),
      wf (e_doc e) -> wf d' -> norm d' = norm (e_doc e) ->
      structural (with_doc e d') = structural e ->
      validate content rest canon H structural e = Valid ->
      validate content rest canon H structural (with_doc e d') = Valid.
Proof. intros rest canon H structural CN. exact (reencoding_preserves_validity rest canon H structural CN). Qed.
Print Assumptions reencoding_preserves_validity.

(* If a valid envelope still validates after its document was replaced (nothing else touched),
   then the logical content is unchanged - or H collides on the two explicit, distinct byte strings
   canon (old document), canon (new document). *)
Theorem digest_tamper_evident :
  forall (rest : Type) (canon : content -> bytes) (H : bytes -> bytes)
         (structural : envelope content rest -> bool),
    canon_injective canon ->
    forall (e : envelope content rest) (d' : content),
      wf (e_doc e) -> wf d' ->
      validate content rest canon H structural e = Valid ->
      validate content rest canon H structural (with_doc e d') = Valid ->
      norm d' = norm (e_doc e) \/
      (canon (e_doc e) <> canon d' /\ H (canon (e_doc e)) = H (canon d')).
Proof. intros rest canon H structural CI. exact (digest_tamper_evident rest canon H structural CI). Qed.
Print Assumptions digest_tamper_evident.

(* The same read forwards: changed content and no collision on those two strings => validation
   fails; and it fails with the DIGEST error whenever the changed envelope passes the structural
   rules (those are checked first, envelope.go ValidateWithContext). *)
Theorem tampered_is_rejected :
  forall (rest : Type) (canon : content -> bytes) (H : bytes -> bytes)
         (structural : envelope content rest -> bool),
    canon_injective canon ->
    forall (e : envelope content rest) (d' : content),
      wf (e_doc e) -> wf d' ->
      validate content rest canon H structural e = Valid ->
      norm d' <> norm (e_doc e) ->
      H (canon (e_doc e)) <> H (canon d') ->
      validate content rest canon H structural (with_doc e d') <> Valid /\
      (structural (with_doc e d') = true ->
       validate content rest canon H structural (with_doc e d') = ErrDigest).
Proof. intros rest canon H structural CI. exact (tampered_is_rejected rest canon H structural CI). Qed.
Print Assumptions tampered_is_rejected.

(* After recalculating an envelope whose document was changed, the digest differs from the
   previous one (the comparison is on the recalculated document) - or, again, a collision. *)
Theorem recalculated_digest_differs :
  forall (rest : Type) (canon : content -> bytes) (H : bytes -> bytes)
         (structural : envelope content rest -> bool) (calc_doc : content -> option content),
    canon_injective canon ->
    forall (e : envelope content rest) (d' : content) (e1 : envelope content rest),
      wf (e_doc e) -> wf (e_doc e1) ->
      validate content rest canon H structural e = Valid ->
      calculate content rest canon H calc_doc (with_doc e d') = Some e1 ->
      norm (e_doc e1) <> norm (e_doc e) ->
      e_dig e1 <> e_dig e \/
      (canon (e_doc e) <> canon (e_doc e1) /\ H (canon (e_doc e)) = H (canon (e_doc e1))).
Proof. intros rest canon H structural calc_doc CI. exact (recalculated_digest_differs rest canon H structural calc_doc CI). Qed.
Print Assumptions recalculated_digest_differs.

(* The derived member: deleting `$regime` when it equals the supplier's tax country (and a regime
   is defined for it) leaves the parsed document - hence digest and validity - unchanged. *)
Theorem regime_member_is_derived :
  forall (defined : bytes -> bool) (m : list member) (c : bytes),
    regime_of m = c -> c <> [] -> supplier_country m = c -> defined c = true ->
    parse_invoice defined (CObj (remove_member k_regime m)) = parse_invoice defined (CObj m).
Proof. exact regime_deletion_invisible. Qed.
Print Assumptions regime_member_is_derived.

(* so "every edit of the serialised TEXT is evident" is false of the faithful model: *)
Local Open Scope string_scope.
Definition raw_es : content :=
  CObj [(bs "$regime", CStr (bs "ES"));
        (bs "supplier", CObj [(bs "tax_id", CObj [(bs "country", CStr (bs "ES"))])])].
Definition raw_es_without : content := CObj (remove_member k_regime (members_of raw_es)).

Theorem every_text_edit_evident_refuted :
  exists (raw raw' : content), norm raw <> norm raw' /\
    parse_invoice (fun _ => true) raw = parse_invoice (fun _ => true) raw'.
Proof. exists raw_es, raw_es_without. split; [vm_compute; discriminate | vm_compute; reflexivity]. Qed.
Print Assumptions every_text_edit_evident_refuted.

(* ---- non-vacuity: the hypotheses are satisfiable, the conclusions are not trivial ---- *)
Example toy_canon_satisfies_the_premises : canon_invariant toy_canon /\ canon_injective toy_canon.
Proof. split; [exact toy_canon_norm | exact toy_canon_inj]. Qed.

Definition d_a : content := CObj [(bs "b", CNum (bs "1")); (bs "a", CStr (bs "x")); (bs "n", CNull)].
Definition d_a_reencoded : content := CObj [(bs "a", CStr (bs "x")); (bs "b", CNum (bs "1"))].
Definition d_a_edited : content := CObj [(bs "b", CNum (bs "2")); (bs "a", CStr (bs "x"))].
Definition all_ok (e : envelope content unit) : bool := true.
Definition e0 : envelope content unit := mkEnv tt None d_a.

Example toy_run :
  (* calculated => valid; re-encoded => still valid; edited => digest error (injective hash) *)
  (exists e1, calculate content unit toy_canon H_id Some e0 = Some e1 /\
     validate content unit toy_canon H_id all_ok e1 = Valid /\
     norm d_a_reencoded = norm d_a /\ d_a_reencoded <> d_a /\
     validate content unit toy_canon H_id all_ok (with_doc e1 d_a_reencoded) = Valid /\
     norm d_a_edited <> norm d_a /\
     validate content unit toy_canon H_id all_ok (with_doc e1 d_a_edited) = ErrDigest) /\
  (* with a colliding hash the edit goes through: the second disjunct of digest_tamper_evident
     is needed, the first alone would be false *)
  (exists e1, calculate content unit toy_canon H_const Some e0 = Some e1 /\
     validate content unit toy_canon H_const all_ok (with_doc e1 d_a_edited) = Valid /\
     norm d_a_edited <> norm d_a /\
     toy_canon d_a <> toy_canon d_a_edited /\ H_const (toy_canon d_a) = H_const (toy_canon d_a_edited)).
Proof.
  split; eexists; (split; [vm_compute; reflexivity|]); vm_compute; repeat split; try discriminate.
Qed.
