(* C19 - Published definition files are what the code defines, and are coherent.
   Property theorems only; every proof is `exact <lemma>` from Defs/ShippedDefsProofs.v, whose
   lemmas are boolean checkers evaluated by vm_compute over the generated data plus proved
   soundness lemmas (Defs/DefEqProofs.v, Defs/CoherenceProofs.v).

   Vocabulary:
     in_code_regimes / in_code_addons / in_code_catalogues / currencies
           what the linked repository registers now (Gen/*.v, written by the translator from
           tax.AllRegimeDefs(), tax.AllAddonDefs(), tax.AllCatalogueDefs(), currency.Definitions()),
           each with the file name the repository's generator gives it
     published_regimes / published_addons / published_catalogues
           the JSON files shipped under data/ (Gen/Published.v), by file name
     assoc f l            the definition published under file name f
     RegimeCoherent, AddonCoherent, WorldCoherent, TagKeysUnique, RegimeScenarioTagsDefined
           Defs/Coherence.v (readable conjunctions of In / NoDup / Forall statements)
   The records compare the STRUCTURAL content (Defs/DefTypes.v); texts are covered by the byte
   comparison with the regenerated files (harness/c19.go), as are schemas and currencies.
   Time zones and RegimeDef.Validate()/AddonDef.Validate() are run on the implementation. *)
From Coq Require Import List ZArith Bool.
From Verif Require Import Base.Wire Defs.DefTypes Defs.DefEq Defs.Coherence Defs.ShippedDefsProofs.
From Verif Require Import Gen.Regimes Gen.Addons Gen.Catalogues Gen.Currencies Gen.Published.
Import ListNotations.

(* every definition the code registers is published, under the generator's file name, verbatim *)
Theorem published_equals_in_code :
  (forall f r, In (f, r) in_code_regimes -> assoc f published_regimes = Some r) /\
  (forall f a, In (f, a) in_code_addons -> assoc f published_addons = Some a) /\
  (forall f c, In (f, c) in_code_catalogues -> assoc f published_catalogues = Some c).
Proof. exact published_covers_in_code. Qed.
Print Assumptions published_equals_in_code.

(* ... and nothing else is published - except the recorded stale regime file (defect #22:
   recorded_orphan_regime_files = ["gr"]; set it to [] once data/regimes/gr.json is removed) *)
Theorem published_only_defined_partial :
  (forall f, In f (map fst published_regimes) -> In f (map fst in_code_regimes) \/ In f recorded_orphan_regime_files) /\
  (forall f, In f (map fst published_addons) -> In f (map fst in_code_addons)) /\
  (forall f, In f (map fst published_catalogues) -> In f (map fst in_code_catalogues)).
Proof. exact published_only_defined. Qed.
Print Assumptions published_only_defined_partial.

(* every registered regime and addon names an existing currency and only refers to extensions,
   codes, tags of rate values, addons and document types that are defined; keys are unique *)
Theorem all_definitions_coherent :
  WorldCoherent in_code_world /\
  (forall f r, In (f, r) in_code_regimes -> RegimeCoherent in_code_world r) /\
  (forall f a, In (f, a) in_code_addons -> AddonCoherent in_code_world a) /\
  (forall f r, In (f, r) in_code_regimes -> TagKeysUnique (rg_tags r)).
Proof. exact definitions_coherent. Qed.
Print Assumptions all_definitions_coherent.

(* scenario tags of regimes are tags of that regime; tag keys of addons are unique - except the two
   recorded definitions (regime "in": scenarios filter on tags the regime does not offer; addon
   "it-sdi-v1": tag b2g listed twice) *)
Theorem tags_defined_and_unique_partial :
  (forall f r, In (f, r) in_code_regimes -> ~ In f recorded_scenario_tag_exceptions -> RegimeScenarioTagsDefined r) /\
  (forall f a, In (f, a) in_code_addons -> ~ In f recorded_duplicate_tag_exceptions -> TagKeysUnique (ad_tags a)).
Proof. exact tags_defined_and_unique_except_recorded. Qed.
Print Assumptions tags_defined_and_unique_partial.

(* the document types the statements mention are the ones the code declares *)
Theorem invoice_types_are_the_declared_ones : gen_invoice_types = invoice_types.
Proof. exact gen_invoice_types_are_the_six. Qed.
Print Assumptions invoice_types_are_the_declared_ones.

(* non-vacuity: the quantifiers above range over this much *)
Example the_world_is_not_empty :
  (19 <= Z.of_nat (length in_code_regimes))%Z /\ (14 <= Z.of_nat (length in_code_addons))%Z /\
  (3 <= Z.of_nat (length in_code_catalogues))%Z /\ (150 <= Z.of_nat (length currencies))%Z /\
  (50 <= Z.of_nat (length (all_ext_defs in_code_world)))%Z.
Proof. exact world_sizes. Qed.
