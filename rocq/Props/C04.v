(* C04 - Calculation is a deterministic fixpoint and serialisation is lossless.
   Property theorems only (proofs in Calc/FixpointProofs.v).  `as_input d` (Calc/Symmetry.v) is the
   document a reader gets back from the serialised result of `calculate d`: stored prices are the
   converted prices, stored discount / charge / advance / due amounts are the PRESENTED amounts.
   The second half of this file is about the non-numeric mechanisms the property names: the code
   normalisers (Fix/CodeNorm.v), the scenario-note step (Fix/ScenarioNotes.v), the serialisation of
   maps with string keys (Fix/MapJson.v) and the leaf codecs (Fix/DateText.v, Num/Codec.v); each model
   is tied to the Go code by a correspondence stream of tools/props/c04norm.py and, for the regular
   expressions, by the translator (Gen/CodePatterns.v).  Tax-identity normalisation is C13
   (TaxId/NormProofs.v), read-only envelope operations are C10.  Serialisation of whole documents and
   process independence remain covered by iteration of the implementation (tools/props/c04.py). *)
From Coq Require Import Strings.String.
From Coq Require Import ZArith List Bool.
From Verif Require Import Base.Wire Num.Amount Calc.Doc Calc.Calc Calc.Symmetry Calc.CurrencySpec Calc.FixpointProofs Calc.FixpointGenProofs.
From Coq Require Import Permutation Strings.Byte QArith.
From Verif Require Import Schema.Regex Defs.DefTypes Json.Utf8 Json.Json Num.Codec Num.CodecProofs.
From Verif Require Import Fix.CodeNorm Fix.CodeNormProofs Fix.ScenarioNotes Fix.ScenarioNotesProofs Fix.MapJson Fix.MapJsonProofs Fix.DateText Fix.DateTextProofs.
From Verif Require Gen.CodePatterns.
Import ListNotations.
Open Scope Z_scope.

(* fixpoint_doc_wf d = the 'currency' rule applies; items priced in the document currency declare its
   subunits; fixed advance amounts and an external rounding are at the currency's precision; a document
   discount / charge without percentage has no base. *)
Theorem calc_fixpoint_currency_rule d d1 :
  fixpoint_doc_wf d -> as_input d = Some d1 -> calculate d1 = calculate d.
Proof. exact (calc_fixpoint_currency d d1). Qed.
Print Assumptions calc_fixpoint_currency_rule.


(* EITHER rule: the fixpoint holds whenever no fixed amount carries more decimals than it is presented
   with - no_excess_doc d: fixed line discount/charge amounts have at most the stored item price's
   decimals, fixed document discount/charge amounts (which then have no base) and fixed advances at most
   the currency's.  This is exactly the complement of the known finding below. *)
Theorem calc_fixpoint_without_excess_decimals d d1 :
  no_excess_doc d -> as_input d = Some d1 -> calculate d1 = calculate d.
Proof. exact (calc_fixpoint_no_excess d d1). Qed.
Print Assumptions calc_fixpoint_without_excess_decimals.

(* sub-lines and row amounts re-read to themselves under BOTH rules *)
Theorem subline_fixpoint cr c cur rates sl sc :
  CurrencySpec.item_wf cur c (sl_item sl) -> calc_sub cr c cur rates sl = Some sc ->
  calc_sub cr c cur rates (sub_as_input c sl sc) = Some sc.
Proof. exact (calc_sub_fix cr c cur rates sl sc). Qed.
Print Assumptions subline_fixpoint.

Theorem row_amount_fixpoint cr c sum qty ch d :
  ldc_amount cr c sum qty ch (ldc_as_input c d (ldc_amount cr c sum qty ch d)) = ldc_amount cr c sum qty ch d.
Proof. exact (ldc_amount_fix cr c sum qty ch d). Qed.
Print Assumptions row_amount_fixpoint.

(* FULL STATEMENT (false of the faithful model, hence of the code): for every d under either rule,
   as_input d = Some d1 -> calculate d1 = calculate d.  Refuted under 'precise' by a fixed amount with
   more decimals than it is presented with (known finding C04-excess-decimals-feed-back): *)
Theorem calc_fixpoint_refuted : exists d d1, as_input d = Some d1 /\ calculate d1 <> calculate d.
Proof.
  exists (mkDoc 2 false [] 1
            [mkLine (mkA 1 0) (mkItem (mkA 1000 2) None []) [] [mkLdc (mkA 1005 3) None None None None] [] []]
            [] [] [] [] [] None).
  eexists. split; [vm_compute; reflexivity|]. vm_compute. discriminate.
Qed.
Print Assumptions calc_fixpoint_refuted.

(* non-vacuity of the fixpoint theorem: ties, a fixed discount with excess decimals (rounded by the
   currency rule before use), a rate charge, a tax and an advance *)
Example fixpoint_hypotheses_are_satisfiable :
  let d := mkDoc 2 true [] 1
             [mkLine (mkA 15 1) (mkItem (mkA 1005 2) None []) []
                     [mkLdc (mkA 1005 3) None None None None]
                     [mkLdc (mkA 0 0) None None (Some (mkA 125 3)) (Some (mkA 3 0))]
                     [mkCombo [] [] [] (Some (mkA 210 3)) None false []]]
             [mkDdc (mkA 100 2) None None []] [] [] [mkProw (mkA 100 2) None] [] None in
  fixpoint_doc_wf d /\ exists d1 t, as_input d = Some d1 /\ calculate d = Totals t /\ calculate d1 = Totals t.
Proof.
  cbv zeta. split.
  - unfold fixpoint_doc_wf, currency_doc_wf, line_items_wf, ddc_fixed_ok. cbn. repeat split; repeat constructor; cbn; intros; auto.
  - eexists. eexists. split; [vm_compute; reflexivity|]. split; vm_compute; reflexivity.
Qed.


(* ======================================================================================== *)
(* Non-numeric half                                                                           *)
(* ======================================================================================== *)

(* ---- 1. code normalisers (cbc/code.go) ----
   The character classes of the model are the classes of the regular expressions in the Go source
   (rendered by harness/gen_codepatterns.go): a change of a pattern breaks these equalities. *)
Theorem normaliser_patterns_are_the_source_patterns :
  Gen.CodePatterns.code_pattern_src = bs "^[A-Za-z0-9]+([\.\-\/ _\:]?[A-Za-z0-9]+)*$"%string /\
  Gen.CodePatterns.code_separator_src = bs "([\.\-\/ _\:])[^A-Za-z0-9]+"%string /\
  Gen.CodePatterns.code_invalid_chars_src = bs "[^A-Za-z0-9\.\-\/ _\:]"%string /\
  Gen.CodePatterns.code_non_alphanumerical_src = bs "[^A-Z\d]"%string /\
  Gen.CodePatterns.code_non_numerical_src = bs "[^\d]"%string /\
  Gen.CodePatterns.key_pattern_src = bs "^(?:[a-z]|[a-z0-9][a-z0-9-+]*[a-z0-9])$"%string.
Proof. exact pattern_texts_pinned. Qed.
Print Assumptions normaliser_patterns_are_the_source_patterns.

Theorem code_separator_classes :
  Gen.CodePatterns.code_separator =
  mkPattern Gen.CodePatterns.code_separator_src false false (RCat (RSet false sep_ranges) (rplus (rnegclass alnum_ranges))).
Proof. exact code_separator_pinned. Qed.
Print Assumptions code_separator_classes.

Theorem code_invalid_chars_class :
  Gen.CodePatterns.code_invalid_chars = mkPattern Gen.CodePatterns.code_invalid_chars_src false false (rnegclass allowed_ranges).
Proof. exact code_invalid_chars_pinned. Qed.
Print Assumptions code_invalid_chars_class.

Theorem code_non_alphanumerical_class :
  Gen.CodePatterns.code_non_alphanumerical = mkPattern Gen.CodePatterns.code_non_alphanumerical_src false false (rnegclass upper_digit_ranges).
Proof. exact code_non_alphanumerical_pinned. Qed.
Print Assumptions code_non_alphanumerical_class.

Theorem code_non_numerical_class :
  Gen.CodePatterns.code_non_numerical = mkPattern Gen.CodePatterns.code_non_numerical_src false false (rnegclass digit_ranges).
Proof. exact code_non_numerical_pinned. Qed.
Print Assumptions code_non_numerical_class.

(* NormalizeCode is idempotent on EVERY byte string (Unicode white space, malformed UTF-8 included) *)
Theorem normalize_code_idempotent s : normalize_code (normalize_code s) = normalize_code s.
Proof. exact (normalize_code_idem s). Qed.
Print Assumptions normalize_code_idempotent.

(* its output: only A-Za-z0-9 and the six separators; a separator is followed by an alphanumerical or
   ends the text; no space at either end *)
Theorem normalize_code_output_is_clean s :
  let o := normalize_code s in
  Forall (fun c => is_allowed c = true) o /\
  (forall a c b, o = a ++ c :: b -> is_sep c = true -> b = [] \/ exists d b', b = d :: b' /\ is_alnum d = true) /\
  (forall c r, o = c :: r -> bN c <> 32%N) /\ (forall a c, o = a ++ [c] -> bN c <> 32%N).
Proof. exact (normalize_code_output_clean s). Qed.
Print Assumptions normalize_code_output_is_clean.

(* a valid code (Code.Validate: 1..32 characters matching CodePattern) is left alone *)
Theorem normalize_code_keeps_valid_codes s : code_valid s = true -> normalize_code s = s.
Proof. exact (normalize_code_fixes_valid s). Qed.
Print Assumptions normalize_code_keeps_valid_codes.
Example normalize_code_keeps_valid_codes_nonvacuous : code_valid (bs "INV-2024/001 A_b:c.d"%string) = true.
Proof. reflexivity. Qed.

(* FULL STATEMENT "the output is a valid code or empty" is false: a separator may remain at either
   end, and nothing limits the length *)
Theorem normalize_code_output_valid_refuted : exists s, normalize_code s = s /\ s <> [] /\ code_valid s = false.
Proof. exact normalize_code_valid_refuted. Qed.
Print Assumptions normalize_code_output_valid_refuted.

Theorem normalize_alphanumerical_code_idempotent s : normalize_alnum_code (normalize_alnum_code s) = normalize_alnum_code s.
Proof. exact (normalize_alnum_idem s). Qed.
Print Assumptions normalize_alphanumerical_code_idempotent.

Theorem normalize_alphanumerical_code_output s :
  forallb is_upper_digit (normalize_alnum_code s) = true /\
  (normalize_alnum_code s = [] \/ pattern_matches Gen.CodePatterns.code_pattern (normalize_alnum_code s) = true).
Proof. exact (conj (normalize_alnum_output s) (normalize_alnum_valid_or_empty s)). Qed.
Print Assumptions normalize_alphanumerical_code_output.

Theorem normalize_numerical_code_idempotent s : normalize_num_code (normalize_num_code s) = normalize_num_code s.
Proof. exact (normalize_num_idem s). Qed.
Print Assumptions normalize_numerical_code_idempotent.

Theorem normalize_numerical_code_output s : forallb is_digit_c (normalize_num_code s) = true.
Proof. exact (normalize_num_output s). Qed.
Print Assumptions normalize_numerical_code_output.

(* ---- 2. scenario notes (bill/invoice_scenarios.go) ----
   prepare_notes ss notes = inv.Notes after removePreviousScenarioNotes + the loop of prepareScenarios,
   for the scenarios ss (with the flag "matches this document") and the notes the document came with. *)

(* FULL STATEMENT (false of the faithful model, hence of the code; known finding
   C04-scenario-notes-reorder): a second calculation leaves the notes as the first one left them *)
Theorem scenario_notes_fixpoint_refuted : exists ss notes, prepare_notes ss (prepare_notes ss notes) <> prepare_notes ss notes.
Proof. exact shipped_refuted. Qed.
Print Assumptions scenario_notes_fixpoint_refuted.

(* what holds of the code as shipped, for EVERY scenario list and note list: the result of the second
   calculation is final *)
Theorem scenario_notes_stable_from_second_calculation ss notes :
  prepare_notes ss (prepare_notes ss (prepare_notes ss notes)) = prepare_notes ss (prepare_notes ss notes).
Proof. exact (shipped_stable_from_second ss notes). Qed.
Print Assumptions scenario_notes_stable_from_second_calculation.

(* ... and the first one already is when no scenario replaces the code of its note (ExtCode = Note.Code
   for every scenario that has a note: every regime and add-on shipped except pt-saft-v1) *)
Theorem scenario_notes_fixpoint_when_codes_agree ss notes :
  codes_agree ss -> prepare_notes ss (prepare_notes ss notes) = prepare_notes ss notes.
Proof. exact (shipped_fixpoint_when_codes_agree ss notes). Qed.
Print Assumptions scenario_notes_fixpoint_when_codes_agree.
Example codes_agree_nonvacuous :
  codes_agree [mkSc true [] (Some (mkSN (bs "legal"%string) [] (bs "reverse-charge"%string) (bs "Reverse Charge"%string) []))].
Proof. intros s n [<-|[]] H. inversion H. reflexivity. Qed.

(* with fixes/C04-1-scenario-note-codes.diff (ScenarioSet.Notes() lists the notes as SummaryFor adds
   them) the step is a fixpoint for EVERY scenario list and EVERY note list *)
Theorem scenario_notes_fixpoint_repaired ss notes :
  prepare_notes_fixed ss (prepare_notes_fixed ss notes) = prepare_notes_fixed ss notes.
Proof. exact (fixed_fixpoint ss notes). Qed.
Print Assumptions scenario_notes_fixpoint_repaired.

Theorem scenario_notes_repair_changes_nothing_when_codes_agree ss notes :
  codes_agree ss -> prepare_notes_fixed ss notes = prepare_notes ss notes.
Proof. exact (fixed_agrees_when_codes_agree ss notes). Qed.
Print Assumptions scenario_notes_repair_changes_nothing_when_codes_agree.

(* notes that no scenario declares (by key, code and source) are kept, in their order, in front of the
   notes the scenarios add *)
Theorem scenario_notes_keep_the_other_notes ss notes :
  exists added, prepare_notes ss notes = filter (keep_note (all_snotes ss)) notes ++ added /\
    forall x, In x added -> exists sn, In sn (summary_notes ss) /\ x = Some (from_scenario sn).
Proof. exact (other_notes_kept all_snotes ss notes). Qed.
Print Assumptions scenario_notes_keep_the_other_notes.

(* Note.SameAs compares key, code and source only: a note of the user's that shares them with a declared
   scenario note is replaced by the scenario's text when the scenario applies and DELETED when it does not *)
Theorem scenario_notes_user_note_with_scenario_key :
  prepare_notes [mkSc true [] (Some (mkSN (bs "legal"%string) [] (bs "reverse-charge"%string) (bs "Reverse Charge"%string) []))] [Some wit_user_note]
  = [Some (mkNote (bs "legal"%string) [] (bs "reverse-charge"%string) (bs "Reverse Charge"%string) [] [])] /\
  prepare_notes [mkSc false [] (Some (mkSN (bs "legal"%string) [] (bs "reverse-charge"%string) (bs "Reverse Charge"%string) []))] [Some wit_user_note] = [].
Proof. exact user_note_with_scenario_key_replaced. Qed.
Print Assumptions scenario_notes_user_note_with_scenario_key.

(* as shipped a note added under an ExtCode is never removed again (exemption M01 -> M02) *)
Theorem scenario_notes_stale_note :
  prepare_notes wit_scenarios_m02 (prepare_notes wit_scenarios_m01 [])
  = [Some (mkNote (bs "legal"%string) (bs "M01"%string) (bs "pt-saft-exemption"%string) (bs "Artigo 16"%string) [] []);
     Some (mkNote (bs "legal"%string) (bs "M02"%string) (bs "pt-saft-exemption"%string) (bs "Artigo 6"%string) [] [])] /\
  prepare_notes_fixed wit_scenarios_m02 (prepare_notes_fixed wit_scenarios_m01 [])
  = [Some (mkNote (bs "legal"%string) (bs "M02"%string) (bs "pt-saft-exemption"%string) (bs "Artigo 6"%string) [] [])].
Proof. exact stale_note_witness. Qed.
Print Assumptions scenario_notes_stale_note.

(* ---- 3. map iteration order (encoding/json on cbc.Meta / tax.Extensions) ----
   m1, m2: two listings of the entries of the same Go map *)
Theorem marshal_map_order_independent m1 m2 :
  Permutation m1 m2 -> NoDup (map fst m1) -> marshal_map m1 = marshal_map m2.
Proof. exact (marshal_map_perm m1 m2). Qed.
Print Assumptions marshal_map_order_independent.
Example marshal_map_order_independent_nonvacuous :
  Permutation [(bs "b"%string, bs "1"%string); (bs "a"%string, bs "<2>"%string)] [(bs "a"%string, bs "<2>"%string); (bs "b"%string, bs "1"%string)] /\
  NoDup (map fst [(bs "b"%string, bs "1"%string); (bs "a"%string, bs "<2>"%string)]) /\
  marshal_map [(bs "b"%string, bs "1"%string); (bs "a"%string, bs "<2>"%string)] = [x7b] ++ bs """a"":""\u003c2\u003e"",""b"":""1"""%string ++ [x7d].
Proof.
  split; [apply perm_swap|]. split; [|reflexivity].
  constructor; [intros [H|[]]; discriminate|]. constructor; [intros []|constructor].
Qed.

(* the members are written in ascending key order and are exactly the entries *)
Theorem marshal_map_writes_the_entries_in_key_order m :
  Permutation (sorted_entries m) m /\
  Sorted.StronglySorted (fun a b => bytes_ltb (fst b) (fst a) = false) (sorted_entries m).
Proof. exact (conj (sorted_entries_perm m) (sorted_entries_sorted m)). Qed.
Print Assumptions marshal_map_writes_the_entries_in_key_order.

(* reading back what was written: the members read are the entries, in key order.  Partial: for
   texts that are well-formed UTF-8 without U+FFFD, U+2028 and U+2029 (those three are written as
   escapes; they are compared with the implementation by the map-parse stream, not proved) *)
Theorem map_read_back_partial m :
  Forall (fun kv => text_plain (fst kv) = true /\ text_plain (snd kv) = true) m ->
  parse_map (marshal_map m) = Some (sorted_entries m).
Proof. exact (parse_marshal_map m). Qed.
Print Assumptions map_read_back_partial.
Example map_read_back_nonvacuous :
  Forall (fun kv => text_plain (fst kv) = true /\ text_plain (snd kv) = true)
    [(bs "b-1"%string, [x3c; xc3; xa9; x22; x0a; x5c]); (bs "a"%string, [])].
Proof. repeat constructor. Qed.

(* ---- 4. leaf codecs: parse then serialise is the identity ---- *)
(* cal.Date *)
Theorem date_read_back d : date_storable d = true -> parse_date (print_date d) = Some d.
Proof. exact (parse_print_date d). Qed.
Print Assumptions date_read_back.
Example date_read_back_nonvacuous : date_storable (mkDate 2024 2 29) = true /\ date_storable zero_date = true /\ date_storable (mkDate 2023 2 29) = false.
Proof. repeat split; reflexivity. Qed.

Theorem date_written_back s d : parse_date s = Some d -> print_date d = s /\ date_storable d = true.
Proof. exact (print_parse_date s d). Qed.
Print Assumptions date_written_back.
Example date_written_back_nonvacuous : parse_date (bs "2024-02-29"%string) = Some (mkDate 2024 2 29) /\ parse_date (bs "2024-2-29"%string) = None.
Proof. split; reflexivity. Qed.

Theorem date_reader_accepts_only_written_dates s :
  (exists d, parse_date s = Some d) <-> exists d, date_storable d = true /\ s = print_date d.
Proof. exact (parse_accepts_only_printed s). Qed.
Print Assumptions date_reader_accepts_only_written_dates.

(* amounts and percentages: the C06 theorems (Num/CodecProofs.v) under the names this property uses *)
Theorem amount_read_back a : amount_ok a = true -> parse_amount_fixed (print_amount_fixed a) = Some a.
Proof. exact (parse_print_fixed a). Qed.
Print Assumptions amount_read_back.

Theorem amount_read_back_shipped a : amount_ok a = true -> val a <> min64 -> parse_amount (print_amount a) = Some a.
Proof. exact (parse_print_shipped a). Qed.
Print Assumptions amount_read_back_shipped.

Theorem amount_json_read_back a :
  amount_ok a = true -> unmarshal_json parse_amount_fixed (quote (print_amount_fixed a)) = Rok a.
Proof. exact (json_quoted_roundtrip a). Qed.
Print Assumptions amount_json_read_back.

Theorem percentage_read_back p :
  amount_ok (pct_amount p) = true -> (2 <= exp p)%nat -> parse_pct_fixed (print_pct_fixed p) = Some p.
Proof. exact (pct_roundtrip_exact_fixed p). Qed.
Print Assumptions percentage_read_back.
Example leaf_codec_domains_nonvacuous : amount_ok (mkA (-12345) 3) = true /\ amount_ok (pct_amount (mkA 165 3)) = true.
Proof. split; reflexivity. Qed.

(* ------------------------------------------------------------------------------------------ *)
(* typed serialisation                                                                         *)
(* ------------------------------------------------------------------------------------------ *)
(* Marshal/Typed.v: `reenc E fuel t j` is the JSON tree json.Marshal writes for the Go value json.Unmarshal
   built from the tree j at the Go type t (type descriptors regenerated by reflection, Gen/GoTypes.v;
   Ok / Bad = Go error / Dom = outside the modelled domain; `fuel` bounds the recursion and never changes
   a result).  env_wfb / ty_wfb (Marshal/Wf.v): member names of a struct are ASCII and pairwise different
   up to case, also from the legacy members of its hook; the fields a hook writes are strings; integer
   kinds have at least one bit; interface-typed fields are omitempty.  `typed_env_well_formed` below is
   the data theorem that the GENERATED environment satisfies this. *)
From Verif Require Import Marshal.Typed Marshal.Wf Gen.GoTypes Marshal.Env Marshal.TypedLeafProofs Marshal.TypedProofs Marshal.EnvProofs.
From Coq Require Import Sorting.Sorted.

Theorem typed_env_well_formed : env_wfb go_env = true.
Proof. exact go_env_wf. Qed.
Print Assumptions typed_env_well_formed.

(* parsing any serialised document and serialising it again is the identity: what was written is read
   back and written identically *)
Theorem reenc_idempotent E : env_wfb E = true -> forall fuel t j j', ty_wfb t = true ->
  reenc E fuel t j = Ok j' -> reenc E fuel t j' = Ok j'.
Proof. exact (TypedProofs.reenc_idempotent E). Qed.
Print Assumptions reenc_idempotent.

(* the written form of an absent member (the zero value) is read back identically *)
Theorem zero_value_reads_back E : env_wfb E = true -> forall fuel t z, ty_wfb t = true -> is_any_ty t = false ->
  zero_enc E fuel t = Ok z -> reenc E fuel t z = Ok z.
Proof. exact (zero_enc_read_back E). Qed.
Print Assumptions zero_value_reads_back.

(* more fuel never changes a result *)
Theorem reenc_fuel_monotone E f f' t j r : reenc E f t j = Ok r -> (f <= f')%nat -> reenc E f' t j = Ok r.
Proof. exact (reenc_mono E f f' t j r). Qed.
Print Assumptions reenc_fuel_monotone.

(* members whose names are not, up to case, names the struct listens to are ignored, wherever they stand *)
Theorem reenc_ignores_unknown_members E fuel h fs m1 x m2 :
  (forall kv n, In kv x -> In n (map f_name fs ++ hook_names h) -> fold_eq (fst kv) n = false) ->
  members_in_domain (map f_name fs ++ hook_names h) (m1 ++ x ++ m2) = true ->
  reenc E fuel (TyStruct h fs) (TObj (m1 ++ x ++ m2)) = reenc E fuel (TyStruct h fs) (TObj (m1 ++ m2)).
Proof. exact (ignores_unknown_members E fuel h fs m1 x m2). Qed.
Print Assumptions reenc_ignores_unknown_members.

(* the order of the members of an object read at a struct type is irrelevant *)
Theorem reenc_struct_member_order_irrelevant E fuel h fs m m2 : Permutation m m2 ->
  reenc E fuel (TyStruct h fs) (TObj m2) = reenc E fuel (TyStruct h fs) (TObj m).
Proof. exact (struct_member_order_irrelevant E fuel h fs m m2). Qed.
Print Assumptions reenc_struct_member_order_irrelevant.

(* the written text has ONE layout: struct members in declaration order, map keys strictly increasing *)
Theorem written_members_follow_declaration_order E fuel h fs j m :
  reenc E fuel (TyStruct h fs) j = Ok (TObj m) -> sublist (map fst m) (map f_name fs).
Proof. exact (written_members_in_declaration_order E fuel h fs j m). Qed.
Print Assumptions written_members_follow_declaration_order.

Theorem written_map_keys_strictly_sorted E fuel t j m :
  reenc E fuel (TyMap t) j = Ok (TObj m) -> StronglySorted (fun a b => bytes_ltb a b = true) (map fst m).
Proof. exact (written_map_keys_sorted E fuel t j m). Qed.
Print Assumptions written_map_keys_strictly_sorted.

(* null array elements of what is written come from null array elements of what was read *)
Theorem written_null_elements_were_read E f t j j' :
  reenc E f t j = Ok j' -> has_null_element (depth j) j = false -> has_null_element (depth j') j' = false.
Proof. exact (reenc_NN E f t j j'). Qed.
Print Assumptions written_null_elements_were_read.

(* the generated environment: a document of a registered schema, or of a named Go type *)
Theorem serialised_document_reads_back_identically fuel id t j j' : assoc id go_schemas = Some t ->
  reenc go_env fuel t j = Ok j' -> reenc go_env fuel t j' = Ok j'.
Proof. exact (go_schema_read_back fuel id t j j'). Qed.
Print Assumptions serialised_document_reads_back_identically.

Theorem serialised_value_reads_back_identically fuel n j j' :
  reenc go_env fuel (TyRef n) j = Ok j' -> reenc go_env fuel (TyRef n) j' = Ok j'.
Proof. exact (go_type_read_back fuel n j j'). Qed.
Print Assumptions serialised_value_reads_back_identically.

(* with the fuel the runner computes from the tree itself (fuel_for, Marshal/Env.v): that fuel is enough -
   it gives the result any larger fuel gives (cost tables of the generated types: data theorems
   go_cost_ok / go_cost_bound, Marshal/EnvProofs.v) - so a serialised document is read back and written
   identically, whatever the depths of the two trees *)
Theorem reenc_schema_fuel_is_enough id t j f r : assoc id go_schemas = Some t ->
  reenc go_env f t j = Ok r -> reenc_schema id j = Ok r.
Proof. exact (reenc_schema_fuel_enough id t j f r). Qed.
Print Assumptions reenc_schema_fuel_is_enough.

Theorem serialised_schema_document_reads_back_identically id j j' :
  reenc_schema id j = Ok j' -> reenc_schema id j' = Ok j'.
Proof. exact (reenc_schema_read_back_full id j j'). Qed.
Print Assumptions serialised_schema_document_reads_back_identically.

Theorem serialised_typed_value_reads_back_identically n j j' :
  reenc_type n j = Ok j' -> reenc_type n j' = Ok j'.
Proof. exact (reenc_type_read_back_full n j j'). Qed.
Print Assumptions serialised_typed_value_reads_back_identically.

(* non-vacuity: a note.Message with its members in scrambled order, an unknown member, a null title, a
   map with a duplicate key and unsorted keys; and the same inside schema.Object *)
Definition msg_schema : bytes := bs "https://gobl.org/draft-0/note/message".
Definition msg_in : tv :=
  TObj [(bs "meta", TObj [(bs "b", TStr (bs "2")); (bs "a", TStr (bs "1")); (bs "b", TStr (bs "3"))]);
        (bs "x-unknown", TArr [TNum (bs "1")]);
        (bs "content", TStr (bs "hello"));
        (bs "title", TNull)].
Definition msg_out : tv :=
  TObj [(bs "content", TStr (bs "hello"));
        (bs "meta", TObj [(bs "a", TStr (bs "1")); (bs "b", TStr (bs "3"))])].
Example typed_read_back_nonvacuous :
  reenc_schema msg_schema msg_in = Ok msg_out /\ reenc_schema msg_schema msg_out = Ok msg_out /\
  assoc msg_schema go_schemas = Some (TyRef (bs "note.Message")) /\
  reenc_type (bs "note.Message") msg_in = Ok msg_out.
Proof. vm_compute. repeat split; auto. Qed.

Definition obj_in : tv :=
  TObj [(bs "content", TStr (bs "hello")); (bs "$schema", TStr msg_schema); (bs "x-unknown", TNum (bs "1"))].
Definition obj_out : tv := TObj [(bs "$schema", TStr msg_schema); (bs "content", TStr (bs "hello"))].
Example typed_object_read_back_nonvacuous :
  reenc go_env 60 TyObject obj_in = Ok obj_out /\ reenc go_env 60 TyObject obj_out = Ok obj_out.
Proof. vm_compute. split; reflexivity. Qed.

Example unknown_member_hypotheses_nonvacuous :
  let fs := [mkF (bs "content") false (TyLeaf LStr)] in
  let x := [(bs "x-unknown", TNull)] in
  (forall kv n, In kv x -> In n (map f_name fs ++ hook_names HNone) -> fold_eq (fst kv) n = false) /\
  members_in_domain (map f_name fs ++ hook_names HNone) ([] ++ x ++ [(bs "content", TStr (bs "a"))]) = true.
Proof.
  cbv zeta. split; [|reflexivity].
  intros kv n [<-|[]] [<-|[]]. reflexivity.
Qed.

(* ------------------------------------------------------------------------------------------ *)
(* the forgiving text readers of uuid.UUID and cal.DateTime                                    *)
(* ------------------------------------------------------------------------------------------ *)
(* Marshal/Typed.v: `parse_uuid s` is the text a uuid.UUID field holds (and json.Marshal writes) after
   UnmarshalText read s - uuid.Parse of the repository over github.com/google/uuid Parse; `parse_datetime s`
   is the text written for the cal.DateTime read from s - civil.ParseDateTime (time.Parse, T or t) and the
   repository's refusal of a fraction of a second; None = the reader returns an error.  At these two leaves
   the model never answers Dom (uuid_and_datetime_leaves_are_modelled_exactly).
   is_hex = 0-9 a-f A-F; lower_hex lowers A-F; hyphenate groups 32 bytes 8-4-4-4-12; fold_eq = equal up to
   ASCII case; pad2 = %02d; frac_zero f = f is empty, or '.' or ',' followed by digits only (at least one)
   of which the first nine are zeros. *)
From Verif Require Import Marshal.LeafTextProofs Rates.Date Json.Number.

Theorem uuid_reader_accepts_exactly s c :
  parse_uuid s = Some c <->
  (s = [] /\ c = []) \/
  exists h, length h = 32%nat /\ forallb is_hex h = true /\
    (s = h \/
     s = hyphenate h \/
     (exists p, length p = 9%nat /\ fold_eq p (bs "urn:uuid:"%string) = true /\ s = p ++ hyphenate h) \/
     (exists a z, s = a :: hyphenate h ++ [z])) /\
    c = hyphenate (map lower_hex h).
Proof. exact (parse_uuid_spec s c). Qed.
Print Assumptions uuid_reader_accepts_exactly.

Theorem uuid_written_form_is_canonical s c :
  parse_uuid s = Some c -> canonical_uuid c = true /\ parse_uuid c = Some c.
Proof. exact (parse_uuid_canonical s c). Qed.
Print Assumptions uuid_written_form_is_canonical.

Theorem uuid_kept_as_given_iff_canonical s : parse_uuid s = Some s <-> canonical_uuid s = true.
Proof. exact (parse_uuid_fixed_canonical s). Qed.
Print Assumptions uuid_kept_as_given_iff_canonical.

(* the "{...}" form: ANY two bytes around the 36 are accepted and dropped *)
Theorem uuid_reader_ignores_the_outer_bytes a z h : length h = 32%nat -> forallb is_hex h = true ->
  parse_uuid (a :: hyphenate h ++ [z]) = Some (hyphenate (map lower_hex h)).
Proof. exact (parse_uuid_outer_bytes a z h). Qed.
Print Assumptions uuid_reader_ignores_the_outer_bytes.

Example uuid_reader_nonvacuous :
  let u := bs "f47ac10b-58cc-0372-8567-0e02b2c3d479"%string in
  parse_uuid (bs "F47AC10B-58cc-0372-8567-0E02B2C3D479"%string) = Some u /\
  parse_uuid (bs "URN:uuid:F47AC10B-58cc-0372-8567-0E02B2C3D479"%string) = Some u /\
  parse_uuid (bs "{f47ac10b-58cc-0372-8567-0e02b2c3d479}"%string) = Some u /\
  parse_uuid (bs "xf47ac10b-58cc-0372-8567-0e02b2c3d479y"%string) = Some u /\
  parse_uuid (bs "f47ac10b58cc037285670e02b2c3d479"%string) = Some u /\
  parse_uuid (bs "f47ac10b-58cc-0372-8567-0e02b2c3d47"%string) = None /\
  parse_uuid (bs "f47ac10b-58cc-0372-85670-e02b2c3d479"%string) = None /\
  parse_uuid (bs "urn:uuix:f47ac10b-58cc-0372-8567-0e02b2c3d479"%string) = None /\
  canonical_uuid u = true /\ canonical_uuid (bs "{f47ac10b-58cc-0372-8567-0e02b2c3d479}"%string) = false.
Proof. vm_compute. repeat split; reflexivity. Qed.

Theorem datetime_reader_accepts_exactly s c :
  parse_datetime s = Some c <->
  (s = bs "0000-00-00T00:00:00"%string /\ c = bs "0000-00-00T00:00:00"%string) \/
  exists d t h hh n sec f,
    date_valid d = true /\ 0 <= d_year d <= 9999 /\ 0 <= h < 24 /\ 0 <= n < 60 /\ 0 <= sec < 60 /\
    (t = x54 \/ t = x74) /\                                   (* T or t *)
    (hh = pad2 h \/ (h < 10 /\ hh = [ch (48 + h)])) /\          (* the hour may have ONE digit *)
    frac_zero f = true /\
    s = print_date d ++ t :: hh ++ x3a :: pad2 n ++ x3a :: pad2 sec ++ f /\
    c = print_date d ++ x54 :: pad2 h ++ x3a :: pad2 n ++ x3a :: pad2 sec.
Proof. exact (parse_datetime_spec s c). Qed.
Print Assumptions datetime_reader_accepts_exactly.

Theorem datetime_written_form_is_canonical s c :
  parse_datetime s = Some c -> canonical_datetime c = true /\ parse_datetime c = Some c.
Proof. exact (parse_datetime_canonical s c). Qed.
Print Assumptions datetime_written_form_is_canonical.

Example datetime_reader_nonvacuous :
  let t := bs "2024-02-29T07:45:00"%string in
  parse_datetime t = Some t /\
  parse_datetime (bs "2024-02-29t7:45:00"%string) = Some t /\
  parse_datetime (bs "2024-02-29T07:45:00.000"%string) = Some t /\
  parse_datetime (bs "2024-02-29T07:45:00,0000000009"%string) = Some t /\
  parse_datetime (bs "2024-02-29T07:45:00.5"%string) = None /\
  parse_datetime (bs "2023-02-29T07:45:00"%string) = None /\
  parse_datetime (bs "2024-02-29T07:5:00"%string) = None /\
  parse_datetime (bs "2024-02-29T07:45:00Z"%string) = None /\
  parse_datetime (bs "2024-02-29T24:00:00"%string) = None /\
  parse_datetime (bs "0000-02-29T00:00:00"%string) = Some (bs "0000-02-29T00:00:00"%string) /\
  parse_datetime (bs "0000-00-00T00:00:00"%string) = Some (bs "0000-00-00T00:00:00"%string) /\
  parse_datetime (bs "0000-00-00t00:00:00"%string) = None.
Proof. vm_compute. repeat split; reflexivity. Qed.

Theorem uuid_and_datetime_leaves_are_modelled_exactly j :
  reenc_leaf LUUID j <> Dom /\ reenc_leaf LDateTime j <> Dom.
Proof. exact (uuid_datetime_leaves_total j). Qed.
Print Assumptions uuid_and_datetime_leaves_are_modelled_exactly.
