(* C04 - Calculation is a deterministic fixpoint and serialisation is lossless.
   Property theorems only (proofs in Calc/FixpointProofs.v).  `as_input d` (Calc/Symmetry.v) is the
   document a reader gets back from the serialised result of `calculate d`: stored prices are the
   converted prices, stored discount / charge / advance / due amounts are the PRESENTED amounts.
   Partial: the theorem covers the modelled calculation core; serialisation of whole documents,
   normalisers and map-order independence are covered by iteration of the implementation
   (tools/props/c04.py), the leaf codecs by C06, read-only envelope operations by C10. *)
From Coq Require Import ZArith List Bool.
From Verif Require Import Base.Wire Num.Amount Calc.Doc Calc.Calc Calc.Symmetry Calc.CurrencySpec Calc.FixpointProofs Calc.FixpointGenProofs.
Import ListNotations.
Open Scope Z_scope.

(* fixpoint_doc_wf d = the 'currency' rule applies; items priced in the document currency declare its
   subunits; fixed advance amounts and an external rounding are at the currency's precision; a document
   discount / charge without percentage has no base. *)
Theorem calc_fixpoint_currency_rule d d1 :
  fixpoint_doc_wf d -> as_input d = Some d1 -> calculate d1 = calculate d.
Proof. exact (calc_fixpoint_currency d d1). Qed.
Print Assumptions calc_fixpoint_currency_rule.


(* EITHER rule: the fixpoint holds whenever no fixed amount carries more decimals than it is presented
   with - no_excess_doc d: fixed line discount/charge amounts have at most the stored item price's
   decimals, fixed document discount/charge amounts (which then have no base) and fixed advances at most
   the currency's.  This is exactly the complement of the known finding below. *)
Theorem calc_fixpoint_without_excess_decimals d d1 :
  no_excess_doc d -> as_input d = Some d1 -> calculate d1 = calculate d.
Proof. exact (calc_fixpoint_no_excess d d1). Qed.
Print Assumptions calc_fixpoint_without_excess_decimals.

(* sub-lines and row amounts re-read to themselves under BOTH rules *)
Theorem subline_fixpoint cr c cur rates sl sc :
  CurrencySpec.item_wf cur c (sl_item sl) -> calc_sub cr c cur rates sl = Some sc ->
  calc_sub cr c cur rates (sub_as_input c sl sc) = Some sc.
Proof. exact (calc_sub_fix cr c cur rates sl sc). Qed.
Print Assumptions subline_fixpoint.

Theorem row_amount_fixpoint cr c sum qty ch d :
  ldc_amount cr c sum qty ch (ldc_as_input c d (ldc_amount cr c sum qty ch d)) = ldc_amount cr c sum qty ch d.
Proof. exact (ldc_amount_fix cr c sum qty ch d). Qed.
Print Assumptions row_amount_fixpoint.

(* FULL STATEMENT (false of the faithful model, hence of the code): for every d under either rule,
   as_input d = Some d1 -> calculate d1 = calculate d.  Refuted under 'precise' by a fixed amount with
   more decimals than it is presented with (known finding C04-excess-decimals-feed-back): *)
Theorem calc_fixpoint_refuted : exists d d1, as_input d = Some d1 /\ calculate d1 <> calculate d.
Proof.
  exists (mkDoc 2 false [] 1
            [mkLine (mkA 1 0) (mkItem (mkA 1000 2) None []) [] [mkLdc (mkA 1005 3) None None None None] [] []]
            [] [] [] [] [] None).
  eexists. split; [vm_compute; reflexivity|]. vm_compute. discriminate.
Qed.
Print Assumptions calc_fixpoint_refuted.

(* non-vacuity of the fixpoint theorem: ties, a fixed discount with excess decimals (rounded by the
   currency rule before use), a rate charge, a tax and an advance *)
Example fixpoint_hypotheses_are_satisfiable :
  let d := mkDoc 2 true [] 1
             [mkLine (mkA 15 1) (mkItem (mkA 1005 2) None []) []
                     [mkLdc (mkA 1005 3) None None None None]
                     [mkLdc (mkA 0 0) None None (Some (mkA 125 3)) (Some (mkA 3 0))]
                     [mkCombo [] [] [] (Some (mkA 210 3)) None false []]]
             [mkDdc (mkA 100 2) None None []] [] [] [mkProw (mkA 100 2) None] [] None in
  fixpoint_doc_wf d /\ exists d1 t, as_input d = Some d1 /\ calculate d = Totals t /\ calculate d1 = Totals t.
Proof.
  cbv zeta. split.
  - unfold fixpoint_doc_wf, currency_doc_wf, line_items_wf, ddc_fixed_ok. cbn. repeat split; repeat constructor; cbn; intros; auto.
  - eexists. eexists. split; [vm_compute; reflexivity|]. split; vm_compute; reflexivity.
Qed.
