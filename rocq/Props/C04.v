(* C04 - placeholder replaced by the real statements (kept compiling at every commit). *)
From Coq Require Import ZArith List.
From Verif Require Import Num.Amount Calc.Doc Calc.Calc Calc.Symmetry.
Import ListNotations.
Open Scope Z_scope.
(* the fixpoint statement is false when a fixed amount carries more decimals than it is presented with *)
Theorem calc_fixpoint_refuted : exists d d1, as_input d = Some d1 /\ calculate d1 <> calculate d.
Proof.
  exists (mkDoc 2 false [] 1
            [mkLine (mkA 1 0) (mkItem (mkA 1000 2) None []) [] [mkLdc (mkA 1005 3) None None None None] [] []]
            [] [] [] [] [] None).
  eexists. split; [vm_compute; reflexivity|]. vm_compute. discriminate.
Qed.
Print Assumptions calc_fixpoint_refuted.
