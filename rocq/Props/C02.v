(* C02 - Tax totals: every taxed row goes to exactly one rate group of its category; group,
   category and total amounts; prices that include a tax.
   Property theorems only; every proof is `exact <lemma>` from Calc/TaxProofs.v.  The statements are
   about the calculation model Calc/Calc.v (tied to bill/calculator.go, tax/totals_calculator.go,
   tax/totals.go by the differential check tools/props/c02.py).  toQ a is the rational an amount
   denotes, roundQ e q is q rounded half away from zero to e decimals (Num/AmountProofs.v).
   Rounding rule: cr = false is 'precise', cr = true is 'currency';
   contrib cr c x = x under 'precise', = rescale x c (x rounded to the currency's c decimals)
   under 'currency'. *)
From Coq Require Import ZArith QArith List Bool String.
From Verif Require Import Base.Wire Base.Rha Num.Amount Num.AmountProofs Calc.Doc Calc.Calc Calc.TaxProofs
  Calc.TaxSurchargeProofs.
Import ListNotations.
Open Scope Q_scope.

(* ---- (a) which group a row belongs to ---- *)
(* opt_eqQ a b: both absent or both present with equal value.
   same_rate p s q s2: both percentages absent (exempt), or both present and equal together with
   opt_eqQ of the surcharges. *)
Theorem group_matches_combo_iff rt cb :
  rt_matches rt cb = true <->
  rt_ext rt = cb_ext cb /\ rt_country rt = cb_country cb /\
  same_rate (rt_pct rt) (rt_sur rt) (cb_pct cb) (cb_sur cb).
Proof. exact (rt_matches_spec rt cb). Qed.
Print Assumptions group_matches_combo_iff.

Theorem new_group_matches_its_combo c cb : rt_matches (new_rt c cb) cb = true.
Proof. exact (rt_matches_new c cb). Qed.
Print Assumptions new_group_matches_its_combo.

Theorem adding_a_base_keeps_what_a_group_matches cr tot rt cb :
  rt_matches (rt_add_base cr tot rt) cb = rt_matches rt cb.
Proof. exact (rt_matches_add_base cr tot rt cb). Qed.
Print Assumptions adding_a_base_keeps_what_a_group_matches.

(* ---- (b), (c) one row, one combo: exactly one group of exactly one category changes ---- *)
(* the rows of a document: its lines (line total), its discounts (amount negated), its charges *)
Theorem rows_are_lines_negated_discounts_and_charges d lcs :
  doc_rows d lcs =
  map (fun p => mkTL (lc_total (fst p)) (ln_taxes (snd p))) (combine lcs (d_lines d)) ++
  map (fun p => mkTL (negate (snd p)) (dd_taxes (fst p))) (doc_ddc d lcs (d_discounts d)) ++
  map (fun p => mkTL (snd p) (dd_taxes (fst p))) (doc_ddc d lcs (d_charges d)).
Proof. exact (doc_rows_spec d lcs). Qed.
Print Assumptions rows_are_lines_negated_discounts_and_charges.

(* the group list is unchanged except for ONE group g - the first one matching the combo, or a
   fresh one appended when none matches - which receives the row's total *)
Theorem row_goes_to_exactly_one_group cr c tot cb rts :
  exists l1 g l2,
    (rts = l1 ++ g :: l2 \/ (rts = l1 /\ l2 = [] /\ g = new_rt c cb)) /\
    Forall (fun x => rt_matches x cb = false) l1 /\
    rt_matches g cb = true /\
    add_to_rates cr c tot cb rts = l1 ++ rt_add_base cr tot g :: l2.
Proof. exact (add_to_rates_effect cr c tot cb rts). Qed.
Print Assumptions row_goes_to_exactly_one_group.

Theorem row_goes_to_exactly_one_category cr c tot cb cts :
  exists l1 ct l2,
    (cts = l1 ++ ct :: l2 \/ (cts = l1 /\ l2 = [] /\ ct = new_ct c cb)) /\
    Forall (fun x => ct_code x <> cb_cat cb) l1 /\
    ct_code ct = cb_cat cb /\
    add_to_cats cr c tot cb cts =
      l1 ++ ct_with_rates ct (add_to_rates cr c tot cb (ct_rates ct)) :: l2.
Proof. exact (add_to_cats_effect cr c tot cb cts). Qed.
Print Assumptions row_goes_to_exactly_one_category.

(* exp_ok cr c g: under 'currency' the base has the currency's c decimals (always so in
   base_totals: bases_keep_currency_precision below) *)
Theorem group_base_grows_by_the_row cr c tot g :
  exp_ok cr c g -> toQ (rt_base (rt_add_base cr tot g)) == toQ (rt_base g) + toQ (contrib cr c tot).
Proof. exact (rt_add_base_toQ cr c tot g). Qed.
Print Assumptions group_base_grows_by_the_row.

Example group_base_grows_by_the_row_applies :
  exp_ok true 2 (new_rt 2 (mkCombo [] [] [] None None false [])).
Proof. exact (exp_ok_new true 2 _). Qed.

Theorem bases_keep_currency_precision cr c tls :
  Forall (fun ct => Forall (exp_ok cr c) (ct_rates ct)) (base_totals cr c tls).
Proof. exact (base_totals_exp_ok cr c tls). Qed.
Print Assumptions bases_keep_currency_precision.

(* cats_wf: every category code occurs once (NoDup) and inside a category no group matches the
   combo another group stands for (distinct_groups) *)
Theorem groups_are_pairwise_distinct cr c tls : cats_wf (base_totals cr c tls).
Proof. exact (groups_pairwise_distinct cr c tls). Qed.
Print Assumptions groups_are_pairwise_distinct.

Theorem at_most_one_group_matches_a_combo l1 g l2 cb :
  distinct_groups (l1 ++ g :: l2) -> rt_matches g cb = true ->
  forall h, In h (l1 ++ l2) -> rt_matches h cb = false.
Proof. exact (at_most_one_group_matches l1 g l2 cb). Qed.
Print Assumptions at_most_one_group_matches_a_combo.

Example at_most_one_group_matches_a_combo_applies :
  let cb := mkCombo [] [] [] (Some (mkA 21 2)) None false [] in
  let cb2 := mkCombo [] [] [] (Some (mkA 10 2)) None false [] in
  distinct_groups ([new_rt 2 cb2] ++ new_rt 2 cb :: []) /\ rt_matches (new_rt 2 cb) cb = true.
Proof.
  split; [|vm_compute; reflexivity]. cbn [app distinct_groups].
  split; [|split; [constructor|exact I]]. constructor; [vm_compute; reflexivity|constructor].
Qed.

(* sumQ_bases cat cts: sum of the bases of all groups of the category with code cat;
   sumQ_rows cr c cat rows: sum over the rows and over each row's combos of category cat of the
   row's total (under 'currency': rounded to c decimals) *)
Theorem tax_partition_precise c rows cat :
  sumQ_bases cat (base_totals false c rows) == sumQ_rows false c cat rows.
Proof. exact (tax_partition c rows cat). Qed.
Print Assumptions tax_partition_precise.

Theorem tax_partition_either_rule cr c rows cat :
  sumQ_bases cat (base_totals cr c rows) == sumQ_rows cr c cat rows.
Proof. exact (tax_partition_rule cr c rows cat). Qed.
Print Assumptions tax_partition_either_rule.

(* per step: the category of the combo grows by the row's contribution, every other one stays *)
Theorem one_row_changes_one_category_sum cr c tot cb cts cat :
  cats_exp_ok cr c cts ->
  sumQ_bases cat (add_to_cats cr c tot cb cts) ==
  sumQ_bases cat cts + (if eqb_bytes (cb_cat cb) cat then toQ (contrib cr c tot) else 0).
Proof. exact (add_to_cats_sum cr c tot cb cts cat). Qed.
Print Assumptions one_row_changes_one_category_sum.

Example one_row_changes_one_category_sum_applies : cats_exp_ok true 2 [].
Proof. constructor. Qed.

(* ---- (d) group and category amounts ---- *)
(* group_amounts_ok c g: an exempt group has amount zero; otherwise
   rt_amount g = pct_of p (rt_base g) with value roundQ (exp base) (toQ base * toQ p) at the base's
   precision, and likewise rt_suramount g for a surcharge s *)
Theorem group_amount_is_percentage_of_base cr c ct :
  Forall (group_amounts_ok c) (ct_rates (ct_calc cr c ct)) /\
  map rt_base (ct_rates (ct_calc cr c ct)) = map rt_base (ct_rates ct) /\
  ct_code (ct_calc cr c ct) = ct_code ct /\ ct_retained (ct_calc cr c ct) = ct_retained ct.
Proof. exact (TaxProofs.group_amount_is_percentage_of_base cr c ct). Qed.
Print Assumptions group_amount_is_percentage_of_base.

(* sumQ_amounts / sumQ_surcharges: sums of contrib cr c (rt_amount g) over the non-exempt groups,
   of contrib cr c (rt_suramount g) over the non-exempt groups carrying a surcharge *)
Theorem category_amount_is_sum_of_groups cr c ct :
  let ct' := ct_calc cr c ct in
  toQ (ct_amount ct') == sumQ_amounts cr c (ct_rates ct') /\
  optQ (ct_surcharge ct') == sumQ_surcharges cr c (ct_rates ct') /\
  (ct_surcharge ct' = None <-> existsb carries_surcharge (ct_rates ct') = false) /\
  ct_precise ct' = ct_amount ct'.
Proof. exact (TaxProofs.category_amount_is_sum_of_groups cr c ct). Qed.
Print Assumptions category_amount_is_sum_of_groups.

Theorem category_amount_is_sum_of_groups_precise c ct :
  let ct' := ct_calc false c ct in
  toQ (ct_amount ct') ==
    fold_right (fun g s => match rt_pct g with Some _ => toQ (rt_amount g) | None => 0 end + s) 0 (ct_rates ct').
Proof. exact (TaxProofs.category_amount_is_sum_of_groups_precise c ct). Qed.
Print Assumptions category_amount_is_sum_of_groups_precise.

Theorem category_amount_is_integer_sum_currency c ct :
  let ct' := ct_calc true c ct in
  exp (ct_amount ct') = c /\
  val (ct_amount ct') =
    fold_right (fun g s => match rt_pct g with Some _ => val (rescale (rt_amount g) c) | None => 0 end + s)%Z 0%Z
               (ct_rates ct').
Proof. exact (category_amount_currency c ct). Qed.
Print Assumptions category_amount_is_integer_sum_currency.

(* ---- (e) the tax sum ---- *)
(* signedQ ct = amount + surcharge of the category, negated when the category is retained *)
Theorem tax_sum_is_signed_sum_of_categories cr c cts :
  toQ (fold_left (sum_step cr) (map (ct_calc cr c) cts) (zero_of c)) == sumQ_signed (map (ct_calc cr c) cts).
Proof. exact (tax_sum_signed cr c cts). Qed.
Print Assumptions tax_sum_is_signed_sum_of_categories.

(* ---- where these sit in a calculated document ---- *)
Theorem calculated_document_tax_structure d t : calculate d = Totals t ->
  exists lcs rows,
    calc_lines (d_currency_rule d) (d_c d) (d_cur d) (d_rates d) (d_lines d) = Some lcs /\
    remove_included_all (d_pit d) (map (prepare_tl (d_c d)) (doc_rows d lcs)) = Some rows /\
    let cats := map (ct_calc (d_currency_rule d) (d_c d)) (base_totals (d_currency_rule d) (d_c d) rows) in
    t_cats t = map (ct_round (d_c d)) cats /\
    t_taxsum_precise t = fold_left (sum_step (d_currency_rule d)) cats (zero_of (d_c d)) /\
    t_taxsum t = rescale (t_taxsum_precise t) (d_c d).
Proof. exact (calculate_tax_structure d t). Qed.
Print Assumptions calculated_document_tax_structure.

(* ---- prices include a tax ---- *)
(* a row keeps its combos; if it carries the included category with a percentage p its total
   becomes remove total p ... *)
Theorem included_tax_is_taken_out_of_the_row pit tl tl' : remove_included pit tl = Some tl' ->
  tl_taxes tl' = tl_taxes tl /\
  match get_combo pit (tl_taxes tl) with
  | Some cb =>
    match pit, cb_pct cb with
    | _ :: _, Some p => cb_retained cb = false /\ tl_total tl' = remove (tl_total tl) p
    | _, _ => tl_total tl' = tl_total tl
    end
  | None => tl_total tl' = tl_total tl
  end.
Proof. exact (remove_included_spec pit tl tl'). Qed.
Print Assumptions included_tax_is_taken_out_of_the_row.

(* ... which is the total divided by 1 + p, rounded half away from zero at the row's precision *)
Theorem included_tax_uses_its_own_percentage a p : (val (factor p) <> 0)%Z ->
  val (remove a p) = roundQ (exp a) (toQ a / (toQ p + 1)) /\ exp (remove a p) = exp a.
Proof. exact (included_tax_taken_out a p). Qed.
Print Assumptions included_tax_uses_its_own_percentage.

Example included_tax_uses_its_own_percentage_applies : (val (factor (mkA 21 2)) <> 0)%Z.
Proof. vm_compute. discriminate. Qed.

(* only_included_tax d: a category is included in prices and every combo of every line, discount
   and charge is of that category, not retained and without surcharge (combo_inv).
   doc_gross d lcs: sum of the line totals, less document discounts, plus document charges.
   Partial: the property's "no other tax applies" is taken to exclude surcharges of the included
   category too (a surcharge is added on top of the gross sum); the statement with surcharges is
   included_tax_gross_identity_with_surcharges below, of which this is the special case
   (included_tax_gross_identity_is_the_case_without_surcharges). *)
Theorem included_tax_gross_identity_partial d t : only_included_tax d -> calculate d = Totals t ->
  exists lcs,
    calc_lines (d_currency_rule d) (d_c d) (d_cur d) (d_rates d) (d_lines d) = Some lcs /\
    t_twt t = rescale (doc_gross d lcs) (d_c d).
Proof. exact (included_tax_gross_identity d t). Qed.
Print Assumptions included_tax_gross_identity_partial.

(* 121.00 including 21%: total 100.00, tax 21.00, total with tax 121.00 *)
Definition c02_example_doc : doc :=
  mkDoc 2 false (bs "VAT") 1
        [mkLine (mkA 1 0) (mkItem (mkA 12100 2) None []) [] [] []
                [mkCombo (bs "VAT") [] [] (Some (mkA 21 2)) None false (bs "standard")]]
        [] [] [] [] [] None.
(* also witnesses the hypotheses of calculated_document_tax_structure and
   included_tax_is_taken_out_of_the_row *)
Example included_tax_gross_identity_applies :
  only_included_tax c02_example_doc /\
  exists t, calculate c02_example_doc = Totals t /\
            t_twt t = mkA 12100 2 /\ t_total t = mkA 10000 2 /\ t_tax t = mkA 2100 2.
Proof.
  split.
  - split; [discriminate|]. repeat constructor.
  - eexists. split; [vm_compute; reflexivity|]. repeat split.
Qed.

(* ---- prices include a tax that carries surcharges (equivalence surcharge) ---- *)
(* only_included_tax_with_surcharges d: a category is included in prices and every combo of every
   line, discount and charge is of that category and not retained (combo_included); surcharges
   are allowed.
   doc_cats d lcs: the categories at working precision, before presentation (the calculated
   document presents map (ct_round c) of them); included_cat d lcs: the one of the included
   category; included_surcharge d lcs: its ct_surcharge (the sum of its groups' surcharge amounts,
   category_amount_is_sum_of_groups above), zero when there is none.
   surcharge_precision_ok d lcs: when the included category carries a surcharge, its
   working-precision amount has no more decimals than the gross sum.
   A surcharge is computed on the tax-exclusive base and added on top: the total with tax is the
   gross sum plus the surcharge total, added without loss and rounded once to the currency. *)
Theorem included_tax_gross_identity_with_surcharges d t :
  only_included_tax_with_surcharges d -> calculate d = Totals t ->
  exists lcs,
    calc_lines (d_currency_rule d) (d_c d) (d_cur d) (d_rates d) (d_lines d) = Some lcs /\
    t_cats t = map (ct_round (d_c d)) (doc_cats d lcs) /\
    (surcharge_precision_ok d lcs ->
     t_twt t = rescale (add (doc_gross d lcs) (included_surcharge d lcs)) (d_c d) /\
     toQ (add (doc_gross d lcs) (included_surcharge d lcs)) ==
       toQ (doc_gross d lcs) + toQ (included_surcharge d lcs)).
Proof. exact (TaxSurchargeProofs.included_tax_gross_identity_with_surcharges d t). Qed.
Print Assumptions included_tax_gross_identity_with_surcharges.

(* under the 'currency' rule the hypothesis on precisions always holds *)
Theorem surcharge_precision_holds_under_the_currency_rule d lcs :
  d_currency_rule d = true -> surcharge_precision_ok d lcs.
Proof. exact (currency_rule_precision_ok d lcs). Qed.
Print Assumptions surcharge_precision_holds_under_the_currency_rule.

(* ... and under either rule for a document with at least one line whose document discounts and
   charges (doc_ddc: each paired with its calculated amount) have no more decimals than the gross
   sum *)
Theorem surcharge_precision_holds_unless_a_discount_or_charge_is_more_precise d lcs :
  d_lines d <> [] ->
  calc_lines (d_currency_rule d) (d_c d) (d_cur d) (d_rates d) (d_lines d) = Some lcs ->
  Forall (fun p => (exp (snd p) <= exp (doc_gross d lcs))%nat) (doc_ddc d lcs (d_discounts d)) ->
  Forall (fun p => (exp (snd p) <= exp (doc_gross d lcs))%nat) (doc_ddc d lcs (d_charges d)) ->
  surcharge_precision_ok d lcs.
Proof. exact (surcharge_precision_ok_from_document d lcs). Qed.
Print Assumptions surcharge_precision_holds_unless_a_discount_or_charge_is_more_precise.

(* in terms of the rows handed to the tax calculator (rows_precision_ok: no prepared row - line
   total, negated discount, charge, raised to two more decimals than the currency - has more
   decimals than the gross sum) *)
Theorem surcharge_precision_holds_when_no_row_is_more_precise d lcs :
  rows_precision_ok d lcs -> surcharge_precision_ok d lcs.
Proof. exact (rows_precision_ok_enough d lcs). Qed.
Print Assumptions surcharge_precision_holds_when_no_row_is_more_precise.

(* without surcharges: the hypothesis holds, the surcharge total is zero, the identity is the
   one of included_tax_gross_identity_partial *)
Theorem included_tax_gross_identity_is_the_case_without_surcharges d t :
  only_included_tax d -> calculate d = Totals t ->
  exists lcs,
    calc_lines (d_currency_rule d) (d_c d) (d_cur d) (d_rates d) (d_lines d) = Some lcs /\
    surcharge_precision_ok d lcs /\ included_surcharge d lcs = zero_of (d_c d) /\
    t_twt t = rescale (doc_gross d lcs) (d_c d).
Proof. exact (included_tax_gross_identity_special_case d t). Qed.
Print Assumptions included_tax_gross_identity_is_the_case_without_surcharges.

(* ES, 121.00 including 21 % with 5.2 % equivalence surcharge: total 100.00, tax 26.20,
   total with tax 126.20 = gross 121.00 + surcharge 5.20 *)
Definition c02_surcharge_example_doc : doc :=
  mkDoc 2 false (bs "VAT") 1
        [mkLine (mkA 1 0) (mkItem (mkA 12100 2) None []) [] [] []
                [mkCombo (bs "VAT") [] [] (Some (mkA 21 2)) (Some (mkA 52 3)) false (bs "standard+eqs")]]
        [] [] [] [] [] None.
Example included_tax_gross_identity_with_surcharges_applies :
  only_included_tax_with_surcharges c02_surcharge_example_doc /\
  exists t lcs,
    calculate c02_surcharge_example_doc = Totals t /\
    calc_lines false 2 1 [] (d_lines c02_surcharge_example_doc) = Some lcs /\
    surcharge_precision_ok c02_surcharge_example_doc lcs /\
    rows_precision_ok c02_surcharge_example_doc lcs /\
    d_lines c02_surcharge_example_doc <> [] /\
    Forall (fun p => (exp (snd p) <= exp (doc_gross c02_surcharge_example_doc lcs))%nat)
           (doc_ddc c02_surcharge_example_doc lcs (d_discounts c02_surcharge_example_doc)) /\
    Forall (fun p => (exp (snd p) <= exp (doc_gross c02_surcharge_example_doc lcs))%nat)
           (doc_ddc c02_surcharge_example_doc lcs (d_charges c02_surcharge_example_doc)) /\
    t_twt t = mkA 12620 2 /\ t_total t = mkA 10000 2 /\ t_tax t = mkA 2620 2 /\
    doc_gross c02_surcharge_example_doc lcs = mkA 1210000 4 /\
    included_surcharge c02_surcharge_example_doc lcs = mkA 52000 4.
Proof.
  split.
  - split; [discriminate|]. repeat constructor.
  - do 2 eexists. split; [vm_compute; reflexivity|]. split; [vm_compute; reflexivity|].
    split; [vm_compute; right; repeat constructor|].
    split; [vm_compute; repeat constructor|].
    split; [discriminate|]. split; [constructor|]. split; [constructor|]. repeat split.
Qed.

(* the hypothesis on precisions cannot be dropped under 'precise': surcharge_precision_witness is
   one line of 121.00 and a document charge of 0.023900 (six decimals, the lines have four), both
   at 21 % + 5.2 %; gross 121.0239 + surcharge 5.201027 = 126.224927 rounds to 126.22, the
   total with tax is 126.23 (the amount 21.004148 is taken out, and amount + surcharge put back,
   at the gross sum's four decimals) *)
Theorem included_tax_gross_identity_with_surcharges_at_any_precision_refuted :
  exists d t lcs,
    only_included_tax_with_surcharges d /\ calculate d = Totals t /\
    calc_lines (d_currency_rule d) (d_c d) (d_cur d) (d_rates d) (d_lines d) = Some lcs /\
    t_twt t = mkA 12623 2 /\
    rescale (add (doc_gross d lcs) (included_surcharge d lcs)) (d_c d) = mkA 12622 2.
Proof. exact surcharge_identity_needs_precision. Qed.
Print Assumptions included_tax_gross_identity_with_surcharges_at_any_precision_refuted.
