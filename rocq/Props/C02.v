(* C02 - placeholder replaced by the real statements (kept compiling at every commit). *)
From Coq Require Import ZArith List.
From Verif Require Import Num.Amount Calc.Doc Calc.Calc.
Theorem no_rows_no_groups cr c : base_totals cr c nil = nil.
Proof. reflexivity. Qed.
Print Assumptions no_rows_no_groups.
