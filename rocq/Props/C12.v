(* C12 - The tax rate applied on a date is the one in force on that date.
   Property theorems only; every proof is `exact <lemma>` from Rates/LookupProofs.v or
   Rates/ShippedProofs.v.

   Vocabulary (Rates/Lookup.v, transcribed from tax/regime_def.go and tax/combo.go):
     value d tags ext vals      RateDef.Value AFTER the proposed repair of defect #1 (inclusive start date)
     value_shipped ...          the same with the comparison as shipped (`Since.Before(date)`)
     applies tags ext v         v's tag and extension filters let the document through
     since_key v                v's start date; None = "always" (no date, or not a valid civil date)
     sk_le a b                  start-date order, None = minus infinity;  sk_le (since_key v) (Some d)
                                reads "v has started on or before d"
     descending_in tags ext l   the values of l applying in that context are listed newest first
                                (non-strictly: a qualified and an unqualified value may share a date)
     prepare_rate_with          Combo.prepareRate
     rate_def cat key           CategoryDef.RateDef AFTER the repair "a rate key is only resolved when its
                                first component is a rate of the category" (Key.HasPrefix);
     rate_def_shipped           the same with the second loop as shipped before it (Key.Has: any component)
     first_part key             the text before the first `+` of a key (the whole key without `+`)
   The model is tied to the Go code by tools/props/c12.py (exhaustive boundary dates over every
   shipped table, through RateDef.Value, tax.TotalCalculator and bill.Invoice.Calculate). *)
From Coq Require Import List ZArith Bool Sorting.Sorted.
From Verif Require Import Base.Wire Defs.DefTypes Rates.Date Rates.DateProofs Rates.Lookup Rates.LookupProofs
  Rates.ShippedProofs.
From Verif Require Import Gen.Regimes Gen.Published.
Import ListNotations.
Open Scope Z_scope.

(* the date order used throughout is a total order on civil triples *)
Theorem date_order_is_total_order :
  (forall a, date_le a a = true) /\
  (forall a b c, date_le a b = true -> date_le b c = true -> date_le a c = true) /\
  (forall a b, date_le a b = true -> date_le b a = true -> a = b) /\
  (forall a b, date_le a b = true \/ date_le b a = true) /\
  (forall a b, date_le a b = true <-> date_before a b = true \/ a = b).
Proof. exact (conj date_le_refl (conj date_le_trans (conj date_le_antisym (conj date_le_total date_le_iff)))). Qed.
Print Assumptions date_order_is_total_order.

(* The value chosen is applicable, has started, is the LATEST started among the applicable ones,
   and is the first such in table order. *)
Theorem lookup_latest_in_force d tags ext vals v :
  descending_in tags ext vals ->
  value d tags ext vals = Some v ->
  In v vals /\ applies tags ext v = true /\ sk_le (since_key v) (Some d) /\
  (forall v', In v' vals -> applies tags ext v' = true -> sk_le (since_key v') (Some d) ->
              sk_le (since_key v') (since_key v)) /\
  (exists l1 l2, vals = l1 ++ v :: l2 /\
     forall u, In u l1 -> ~ (applies tags ext u = true /\ sk_le (since_key u) (Some d))).
Proof. exact (value_latest d tags ext vals v). Qed.
Print Assumptions lookup_latest_in_force.

(* A value takes effect on its start date itself. *)
Theorem start_date_itself_in_force d tags ext vals v :
  descending_in tags ext vals ->
  In v vals -> applies tags ext v = true -> since_key v = Some d ->
  exists w, value d tags ext vals = Some w /\ since_key w = Some d.
Proof. exact (value_on_start_date d tags ext vals v). Qed.
Print Assumptions start_date_itself_in_force.

Theorem start_date_itself_in_force_strict d tags ext vals v :
  strictly_descending (filter (applies tags ext) vals) ->
  In v vals -> applies tags ext v = true -> since_key v = Some d ->
  value d tags ext vals = Some v.
Proof. exact (value_on_start_date_strict d tags ext vals v). Qed.
Print Assumptions start_date_itself_in_force_strict.

(* No answer exactly when the date is before the first applicable value... *)
Theorem lookup_none_iff_before_first d tags ext vals :
  value d tags ext vals = None <->
  (forall v, In v vals -> applies tags ext v = true -> ~ sk_le (since_key v) (Some d)).
Proof. exact (value_none_iff d tags ext vals). Qed.
Print Assumptions lookup_none_iff_before_first.

(* ... and then the combo preparation fails with `invalid-date` instead of guessing; when it
   succeeds the percentage and surcharge are those of the value looked up. *)
Theorem before_first_value_is_error_not_guess cat tags d c rate :
  cb_rate c <> [] -> rate_def cat (cb_rate c) = Some rate -> rt_exempt rate = false -> rt_values rate <> [] ->
  prepare_rate cat tags d c =
    match value d tags (prepared_ext rate c) (rt_values rate) with
    | None => inl ErrInvalidDate
    | Some v => inr (mkCombo (cb_rate c) (Some (rv_percent v)) (rv_surcharge v) (prepared_ext rate c) (cb_country_override c))
    end.
Proof. exact (prepare_values in_force cat tags d c rate). Qed.
Print Assumptions before_first_value_is_error_not_guess.

(* Exempt keys yield no percentage (and no surcharge). *)
Theorem exempt_no_percent cat tags d c rate :
  cb_rate c <> [] -> rate_def cat (cb_rate c) = Some rate -> rt_exempt rate = true ->
  prepare_rate cat tags d c = inr (mkCombo (cb_rate c) None None (prepared_ext rate c) (cb_country_override c)).
Proof. exact (prepare_exempt in_force cat tags d c rate). Qed.
Print Assumptions exempt_no_percent.

(* A rate without values leaves the percentage alone; a combo without rate key is untouched. *)
Theorem no_values_untouched cat tags d c rate :
  cb_rate c <> [] -> rate_def cat (cb_rate c) = Some rate -> rt_exempt rate = false -> rt_values rate = [] ->
  prepare_rate cat tags d c =
    inr (mkCombo (cb_rate c) (cb_percent c) (cb_surcharge c) (prepared_ext rate c) (cb_country_override c)).
Proof. exact (prepare_no_values in_force cat tags d c rate). Qed.
Print Assumptions no_values_untouched.

Theorem no_rate_key_untouched cat tags d c : cb_rate c = [] -> prepare_rate cat tags d c = inr c.
Proof. exact (prepare_no_rate_key in_force cat tags d c). Qed.
Print Assumptions no_rate_key_untouched.

(* ---- which rate a key resolves to (CategoryDef.RateDef after the repair) ---- *)

(* the rate a key resolves to is a rate of the category, and its key is the given key itself or the
   FIRST `+` component of the given key *)
Theorem rate_key_resolves_by_first_component cat key rate :
  rate_def cat key = Some rate ->
  In rate (cat_rates cat) /\ (rt_key rate = key \/ first_part key = rt_key rate).
Proof. exact (rate_def_some cat key rate). Qed.
Print Assumptions rate_key_resolves_by_first_component.

(* no rate exactly when neither the key nor its first component is the key of a rate of the category *)
Theorem rate_key_unresolved_iff cat key :
  rate_def cat key = None <->
  (forall r, In r (cat_rates cat) -> rt_key r <> key /\ first_part key <> rt_key r).
Proof. exact (rate_def_none_iff cat key). Qed.
Print Assumptions rate_key_unresolved_iff.

(* extended keys stay accepted: a defined first component followed by free suffixes resolves *)
Theorem rate_key_with_defined_first_component_resolves cat key r :
  In r (cat_rates cat) -> first_part key = rt_key r -> exists r', rate_def cat key = Some r'.
Proof. exact (rate_def_extended_key cat key r). Qed.
Print Assumptions rate_key_with_defined_first_component_resolves.

(* ... and the combo preparation fails with `invalid-rate` on every other key instead of borrowing the
   percentage of a rate named in a later component *)
Theorem undefined_first_component_is_invalid_rate cat tags d c :
  cb_rate c <> [] ->
  (forall r, In r (cat_rates cat) -> rt_key r <> cb_rate c /\ first_part (cb_rate c) <> rt_key r) ->
  prepare_rate cat tags d c = inl ErrInvalidRate.
Proof. exact (prepare_undefined_first_part in_force cat tags d c). Qed.
Print Assumptions undefined_first_component_is_invalid_rate.

(* With the second loop as shipped before the repair (`key.Has(r.Key)`) that statement was false:
   `bogus+standard` resolved to the standard rate (and received its 21 %) although neither `bogus`
   nor `bogus+standard` is a rate of the category. *)
Theorem shipped_any_component_rate_key_refuted :
  exists cat key r,
    (forall r', In r' (cat_rates cat) -> rt_key r' <> key /\ first_part key <> rt_key r') /\
    rate_def_shipped cat key = Some r /\ rt_key r = "standard"%bs /\ first_part key = "bogus"%bs /\
    rate_def cat key = None.
Proof. exact rate_def_shipped_any_part_witness. Qed.
Print Assumptions shipped_any_component_rate_key_refuted.

(* ---- generated data: every table the code registers now (Gen/Regimes.v) ---- *)

(* "Each table lists its undated-or-dated values in strictly descending date order" *)
Theorem shipped_unqualified_strictly_descending f r c rt :
  In (f, r) in_code_regimes -> In c (rg_categories r) -> In rt (cat_rates c) ->
  strictly_descending (filter unqualified (rt_values rt)).
Proof. exact (tables_unqualified_strict in_code_regimes in_code_unqualified_strict_check f r c rt). Qed.
Print Assumptions shipped_unqualified_strictly_descending.

(* in EVERY tag/extension context the applicable values are listed newest first *)
Theorem shipped_descending_in_every_context f r c rt :
  In (f, r) in_code_regimes -> In c (rg_categories r) -> In rt (cat_rates c) ->
  forall tags ext, descending_in tags ext (rt_values rt).
Proof. exact (tables_descending in_code_regimes in_code_descending_check f r c rt). Qed.
Print Assumptions shipped_descending_in_every_context.

Theorem shipped_dates_valid f r c rt v s :
  In (f, r) in_code_regimes -> In c (rg_categories r) -> In rt (cat_rates c) ->
  In v (rt_values rt) -> rv_since v = Some s -> date_valid s = true.
Proof. exact (tables_dates_valid in_code_regimes in_code_dates_valid_check f r c rt v s). Qed.
Print Assumptions shipped_dates_valid.

(* hence, for every shipped table, context and date, the answer is the latest value in force *)
Theorem shipped_lookup_is_latest_in_force f r c rt d tags ext v :
  In (f, r) in_code_regimes -> In c (rg_categories r) -> In rt (cat_rates c) ->
  value d tags ext (rt_values rt) = Some v ->
  In v (rt_values rt) /\ applies tags ext v = true /\ sk_le (since_key v) (Some d) /\
  (forall v', In v' (rt_values rt) -> applies tags ext v' = true -> sk_le (since_key v') (Some d) ->
              sk_le (since_key v') (since_key v)).
Proof. exact (tables_lookup_latest in_code_regimes in_code_descending_check f r c rt d tags ext v). Qed.
Print Assumptions shipped_lookup_is_latest_in_force.

(* ---- the same for the tables of the published files data/regimes/*.json (Gen/Published.v) ---- *)

Theorem published_unqualified_strictly_descending f r c rt :
  In (f, r) published_regimes -> In c (rg_categories r) -> In rt (cat_rates c) ->
  strictly_descending (filter unqualified (rt_values rt)).
Proof. exact (tables_unqualified_strict published_regimes published_unqualified_strict_check f r c rt). Qed.
Print Assumptions published_unqualified_strictly_descending.

Theorem published_descending_in_every_context f r c rt :
  In (f, r) published_regimes -> In c (rg_categories r) -> In rt (cat_rates c) ->
  forall tags ext, descending_in tags ext (rt_values rt).
Proof. exact (tables_descending published_regimes published_descending_check f r c rt). Qed.
Print Assumptions published_descending_in_every_context.

Theorem published_dates_valid f r c rt v s :
  In (f, r) published_regimes -> In c (rg_categories r) -> In rt (cat_rates c) ->
  In v (rt_values rt) -> rv_since v = Some s -> date_valid s = true.
Proof. exact (tables_dates_valid published_regimes published_dates_valid_check f r c rt v s). Qed.
Print Assumptions published_dates_valid.

(* ---- the order test of RateDef validation (checkRateValuesOrder) ---- *)

(* it accepts only strictly descending unqualified values - provided each carries a valid date *)
Theorem order_validator_sound vals :
  check_order vals None = Some true -> all_dated vals -> strictly_descending (filter unqualified vals).
Proof. exact (check_order_sound vals). Qed.
Print Assumptions order_validator_sound.

(* without the proviso it is not sound for the property's order: an undated value listed first is
   accepted (and shadows every later value); an undated value listed last makes the code dereference
   a nil date (None); an invalid date switches the test off *)
Theorem order_validator_gaps_refuted :
  let dated y := mkValue (Some (mkDate y 1 1)) (mkPct 1 2) None [] [] false in
  let undated := mkValue None (mkPct 2 2) None [] [] false in
  let invalid := mkValue (Some (mkDate 2021 2 30)) (mkPct 3 2) None [] [] false in
  check_order [undated; dated 2020] None = Some true /\
  table_unqualified_strict [undated; dated 2020] = false /\
  value (mkDate 2021 1 1) [] [] [undated; dated 2020] = Some undated /\
  check_order [dated 2020; undated] None = None /\
  table_unqualified_strict [dated 2020; undated] = true /\
  check_order [dated 2020; invalid; dated 2022] None = Some true /\
  table_unqualified_strict [dated 2020; invalid; dated 2022] = false.
Proof. exact check_order_gaps. Qed.
Print Assumptions order_validator_gaps_refuted.

(* ---- defect #1: the comparison as shipped (`rv.Since.Before(date)`) ---- *)

(* With the shipped comparison a value is NOT in force on its start date: on 2012-09-01 the lookup
   answers 18 % (the previous value); on the first start date of the table it answers nothing. *)
Theorem shipped_comparison_start_date_refuted :
  exists vals d v,
    descending_in [] [] vals /\ In v vals /\ applies [] [] v = true /\ since_key v = Some d /\
    value_shipped d [] [] vals <> Some v /\
    (exists w, value_shipped d [] [] vals = Some w /\ since_key w <> Some d /\ rv_percent w = mkPct 180 3) /\
    value_shipped (mkDate 1993 1 1) [] [] vals = None.
Proof. exact shipped_comparison_refuted_witness. Qed.
Print Assumptions shipped_comparison_start_date_refuted.

(* ---- non-vacuity ---- *)
#[local] Open Scope bs_scope.

Example es_table_satisfies_the_hypotheses :
  descending_in [] [] es_vat_standard /\ strictly_descending (filter (applies [] []) es_vat_standard) /\
  option_map rv_percent (value (mkDate 2012 9 1) [] [] es_vat_standard) = Some (mkPct 210 3) /\
  option_map rv_percent (value (mkDate 2012 8 31) [] [] es_vat_standard) = Some (mkPct 180 3) /\
  option_map rv_percent (value (mkDate 1993 1 1) [] [] es_vat_standard) = Some (mkPct 150 3) /\
  value (mkDate 1992 12 31) [] [] es_vat_standard = None.
Proof.
  split; [apply table_descending_sound; vm_compute; reflexivity|].
  split; [apply (all_pairs_sorted (fun a b => sk_ltb (since_key b) (since_key a)));
          [intros x y H; exact H | vm_compute; reflexivity]|].
  vm_compute. repeat split.
Qed.

(* a qualified and an unqualified value sharing a start date (PT regional rates): the regional
   value wins in its region, the unqualified one elsewhere *)
Example qualified_values_example :
  let ac := [("pt-region", "PT-AC")] in
  let ma := [("pt-region", "PT-MA")] in
  let t := [ mkValue (Some (mkDate 2011 1 1)) (mkPct 40 3) None [] ac false;
             mkValue (Some (mkDate 2024 10 1)) (mkPct 40 3) None [] ma false;
             mkValue (Some (mkDate 2011 1 1)) (mkPct 50 3) None [] ma false;
             mkValue (Some (mkDate 2011 1 1)) (mkPct 60 3) None [] [] false ] in
  table_descending_any_context t = true /\
  option_map rv_percent (value (mkDate 2024 10 1) [] ma t) = Some (mkPct 40 3) /\
  option_map rv_percent (value (mkDate 2024 9 30) [] ma t) = Some (mkPct 50 3) /\
  option_map rv_percent (value (mkDate 2024 9 30) [] [] t) = Some (mkPct 60 3) /\
  value (mkDate 2010 12 31) [] ac t = None.
Proof. vm_compute. repeat split. Qed.

(* an exempt rate, a rate without values and an unknown key through the preparation *)
Example prepare_examples :
  let cat := mkCategory "VAT" false
      [ mkRate "standard" false es_vat_standard [];
        mkRate "exempt" true [] [];
        mkRate "special" false [] [] ] [] [] [] in
  let c k := mkCombo k (Some (mkPct 1 2)) None [] false in
  prepare_rate cat [] (mkDate 2020 1 1) (c "standard") = inr (mkCombo "standard" (Some (mkPct 210 3)) None [] false) /\
  prepare_rate cat [] (mkDate 2020 1 1) (c "exempt") = inr (mkCombo "exempt" None None [] false) /\
  prepare_rate cat [] (mkDate 2020 1 1) (c "special") = inr (c "special") /\
  prepare_rate cat [] (mkDate 1990 1 1) (c "standard") = inl ErrInvalidDate /\
  prepare_rate cat [] (mkDate 2020 1 1) (c "nope") = inl ErrInvalidRate /\
  prepare_rate cat [] (mkDate 2020 1 1) (c "standard+eqs") = inr (mkCombo "standard+eqs" (Some (mkPct 210 3)) None [] false) /\
  prepare_rate cat [] (mkDate 2020 1 1) (c "exempt+reverse-charge") = inr (mkCombo "exempt+reverse-charge" None None [] false) /\
  prepare_rate cat [] (mkDate 2020 1 1) (c "bogus+standard") = inl ErrInvalidRate /\
  prepare_rate cat [] (mkDate 2020 1 1) (c "bogus+standard+x") = inl ErrInvalidRate /\
  prepare_rate cat [] (mkDate 2020 1 1) (c "eqs+standard") = inl ErrInvalidRate.
Proof. vm_compute. repeat split. Qed.

(* the hypotheses of the rate-key theorems are satisfiable: `bogus+standard` has no defined first
   component in a category shaped like ES VAT, `standard+bogus` has *)
Example rate_key_hypotheses_satisfiable :
  (forall r, In r (cat_rates es_vat_like) -> rt_key r <> "bogus+standard" /\ first_part "bogus+standard" <> rt_key r) /\
  first_part "standard+bogus" = "standard" /\
  option_map rt_key (rate_def es_vat_like "standard+bogus") = Some "standard" /\
  option_map rt_key (rate_def es_vat_like "standard+eqs") = Some "standard+eqs" /\
  option_map rt_key (rate_def es_vat_like "standard+eqs+x") = Some "standard".
Proof.
  split; [|vm_compute; repeat split].
  intros r [H|[H|[H|[]]]]; subst r; split; vm_compute; discriminate.
Qed.
