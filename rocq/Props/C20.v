(* C20 - placeholder replaced by the real statements (kept compiling at every commit). *)
From Coq Require Import ZArith List.
From Verif Require Import Num.Amount Calc.Doc Calc.Merge.
Theorem negate_of_empty_summary z p : tt_negate (mkTT nil z p) = mkTT nil (negate z) (negate p).
Proof. reflexivity. Qed.
Print Assumptions negate_of_empty_summary.
