(* C20 - merging and negating tax summaries (tax.Total Merge / Negate / Calculate), payment totals.

   Vocabulary (Calc/MergeProofs.v):
     wf_tt c t            t is a summary at currency precision c: category codes pairwise distinct,
                          rate groups of a category pairwise non-matching (rt_Matches), every presented
                          amount with exactly c decimals; an exempt group has no surcharge rate and a
                          group without surcharge rate has surcharge amount 0 (Go: one optional struct).
                          The unexported working-precision amounts (ct_precise, tt_precise) are free.
     group_base/amount/suramount t code key, has_group t code key
                          the integer (in units of 10^-c) of the rate group of category [code]
                          matching [key]; 0 / false when there is no such group
     cat_amount t code, cat_surcharge t code (option), has_cat t code
     ct_PreciseAmount ct, tt_PreciseSum t (Calc/Merge.v)
                          what CategoryTotal.PreciseAmount() / Total.PreciseSum() answer: the unexported
                          working-precision figure when it is set (non-zero), the presented one otherwise
     cat_precise t code   the rational PreciseAmount() of category [code] denotes (0 without the category);
     cat_precise_field t code   the same for the raw unexported field ct_precise
     wf_shape t           the same without any precision: codes distinct, groups of a category pairwise
                          non-matching, exempt groups without surcharge rate, no surcharge amount without
                          surcharge rate; every wf_tt c t is a wf_shape t (summary_shape)
     group_baseQ/amountQ/suramountQ, cat_amountQ, cat_surchargeQ (0 when absent), has_surcharge
                          the same lookups as rationals, for operands of different precisions
   The model is purely functional: neither Merge nor Negate can alter an operand, so that clause of the
   property (Merge copies the operand's rows instead of sharing them) is checked on the Go side only
   (harness/c20.go, tools/props/c20.py). *)
From Coq Require Import ZArith QArith List Bool.
From Verif Require Import Base.Wire Num.Amount Num.AmountProofs Calc.Doc Calc.Calc Calc.Merge Calc.MergeProofs.
Import ListNotations.
Open Scope Z_scope.

(* ---------- (a) RateTotal.Matches partitions rate groups ---------- *)
Theorem matches_is_equivalence :
  (forall a, rt_Matches a a = true) /\
  (forall a b, rt_Matches a b = rt_Matches b a) /\
  (forall a b c, rt_Matches a b = true -> rt_Matches b c = true -> rt_Matches a c = true).
Proof. exact (conj rt_Matches_refl (conj rt_Matches_sym rt_Matches_trans)). Qed.
Print Assumptions matches_is_equivalence.

(* ---------- (b) Merge adds component-wise ---------- *)
Theorem merge_componentwise c t1 t2 : wf_tt c t1 -> wf_tt c t2 ->
  let m := tt_merge t1 t2 in
  wf_tt c m /\
  (forall code key,
     group_base m code key = group_base t1 code key + group_base t2 code key /\
     group_amount m code key = group_amount t1 code key + group_amount t2 code key /\
     group_suramount m code key = group_suramount t1 code key + group_suramount t2 code key /\
     has_group m code key = has_group t1 code key || has_group t2 code key) /\
  (forall code,
     cat_amount m code = cat_amount t1 code + cat_amount t2 code /\
     cat_surcharge m code = opt_sum (cat_surcharge t1 code) (cat_surcharge t2 code) /\
     has_cat m code = has_cat t1 code || has_cat t2 code) /\
  val (tt_sum m) = val (tt_sum t1) + val (tt_sum t2).
Proof. exact (MergeProofs.merge_componentwise c t1 t2). Qed.
Print Assumptions merge_componentwise.

Example wf_summaries_exist : wf_tt 2 ex_tt /\ wf_tt 2 ex_tt2 /\ has_group ex_tt ex_code ex_rt = true.
Proof. exact (conj ex_tt_wf (conj ex_tt2_wf eq_refl)). Qed.

(* operands of any precisions (a payment settling a JPY and a EUR document): every presented figure is
   the exact sum, at the finer of the two precisions - nothing is rounded away.  The theorem above is the
   special case of one precision, stated in units of 10^-c. *)
Theorem summary_shape c t : wf_tt c t -> wf_shape t.
Proof. exact (wf_tt_shape c t). Qed.
Print Assumptions summary_shape.

Theorem merge_exact_for_any_precision t1 t2 : wf_shape t1 -> wf_shape t2 ->
  let m := tt_merge t1 t2 in
  wf_shape m /\
  (forall code key,
     group_baseQ m code key == group_baseQ t1 code key + group_baseQ t2 code key /\
     group_amountQ m code key == group_amountQ t1 code key + group_amountQ t2 code key /\
     group_suramountQ m code key == group_suramountQ t1 code key + group_suramountQ t2 code key /\
     has_group m code key = has_group t1 code key || has_group t2 code key) /\
  (forall code,
     cat_amountQ m code == cat_amountQ t1 code + cat_amountQ t2 code /\
     cat_surchargeQ m code == cat_surchargeQ t1 code + cat_surchargeQ t2 code /\
     has_surcharge m code = has_surcharge t1 code || has_surcharge t2 code /\
     has_cat m code = has_cat t1 code || has_cat t2 code) /\
  toQ (tt_sum m) == toQ (tt_sum t1) + toQ (tt_sum t2) /\
  exp (tt_sum m) = Nat.max (exp (tt_sum t1)) (exp (tt_sum t2)).
Proof. exact (MergeProofs.merge_exact_for_any_precision t1 t2). Qed.
Print Assumptions merge_exact_for_any_precision.

Example different_precisions_exist :
  wf_shape ex_jpy /\ wf_shape ex_eur /\ exp (tt_sum ex_jpy) <> exp (tt_sum ex_eur) /\
  group_baseQ (tt_merge ex_jpy ex_eur) ex_code (ex_rt10 (mkA 0 0) (mkA 0 0)) == 110055 # 100 /\
  group_baseQ (tt_merge ex_eur ex_jpy) ex_code (ex_rt10 (mkA 0 0) (mkA 0 0)) == 110055 # 100.
Proof.
  exact (conj (wf_tt_shape _ _ ex_jpy_wf) (conj (wf_tt_shape _ _ ex_eur_wf)
        (conj (fun H : 0%nat = 2%nat => O_S _ H)
        (conj (proj1 merge_different_precisions_example) (proj1 (proj2 merge_different_precisions_example)))))).
Qed.

(* any sequence of merges, as a payment performs over its lines *)
Theorem merge_all_componentwise c ts : Forall (wf_tt c) ts -> forall t, wf_tt c t ->
  let m := fold_left tt_merge ts t in
  wf_tt c m /\
  (forall code key,
     group_base m code key = group_base t code key + zsum (map (fun x => group_base x code key) ts) /\
     group_amount m code key = group_amount t code key + zsum (map (fun x => group_amount x code key) ts) /\
     group_suramount m code key =
       group_suramount t code key + zsum (map (fun x => group_suramount x code key) ts)) /\
  (forall code,
     cat_amount m code = cat_amount t code + zsum (map (fun x => cat_amount x code) ts) /\
     cat_surcharge m code = fold_left opt_sum (map (fun x => cat_surcharge x code) ts) (cat_surcharge t code)) /\
  val (tt_sum m) = val (tt_sum t) + zsum (map (fun x => val (tt_sum x)) ts).
Proof. exact (MergeProofs.merge_all_componentwise c ts). Qed.
Print Assumptions merge_all_componentwise.

(* ---------- (b') Merge sums the unexported precise figures without loss ---------- *)
(* only the second operand's category codes need to be distinct; no precision is assumed *)
Theorem merge_precise_fields t1 t2 : distinct_codes (tt_cats t2) ->
  let m := tt_merge t1 t2 in
  (forall code,
     cat_precise_field m code ==
     if has_cat t1 code && has_cat t2 code then cat_precise t1 code + cat_precise t2 code
     else cat_precise_field t1 code + cat_precise_field t2 code) /\
  toQ (tt_precise m) == toQ (tt_PreciseSum t1) + toQ (tt_PreciseSum t2).
Proof. exact (MergeProofs.merge_precise_fields t1 t2). Qed.
Print Assumptions merge_precise_fields.

(* as the accessors see it: the sum of the operands' precise figures, unless that sum is exactly zero *)
Theorem merge_precise_componentwise t1 t2 : distinct_codes (tt_cats t2) ->
  let m := tt_merge t1 t2 in
  (forall code, ~ cat_precise t1 code + cat_precise t2 code == 0 ->
     cat_precise m code == cat_precise t1 code + cat_precise t2 code) /\
  (~ toQ (tt_PreciseSum t1) + toQ (tt_PreciseSum t2) == 0 ->
     toQ (tt_PreciseSum m) == toQ (tt_PreciseSum t1) + toQ (tt_PreciseSum t2)).
Proof. exact (MergeProofs.merge_precise_componentwise t1 t2). Qed.
Print Assumptions merge_precise_componentwise.

Example merge_precise_example :
  distinct_codes (tt_cats ex_loaded) /\
  cat_precise (tt_merge ex_calc ex_loaded) ex_code == 42001 # 1000 /\
  toQ (tt_PreciseSum (tt_merge ex_loaded ex_calc)) == 42001 # 1000.
Proof. exact (conj (proj1 ex_loaded_wf) MergeProofs.merge_precise_example). Qed.

(* the exception is needed: the accessors read "zero" as "unset", so when the precise figures cancel
   (0.005 + 0.005 - 0.010) they answer the sum of the rounded figures (0.01 + 0.01 - 0.01) *)
Theorem merge_precise_accessor_cancel_refuted :
  exists c t1 t2 code, wf_tt c t1 /\ wf_tt c t2 /\
    ~ cat_precise (tt_merge t1 t2) code == cat_precise t1 code + cat_precise t2 code /\
    ~ toQ (tt_PreciseSum (tt_merge t1 t2)) == toQ (tt_PreciseSum t1) + toQ (tt_PreciseSum t2).
Proof. exact MergeProofs.merge_precise_accessor_cancel_refuted. Qed.
Print Assumptions merge_precise_accessor_cancel_refuted.

(* ---------- (c) operand order affects row order only ---------- *)
Theorem merge_comm_up_to_order c t1 t2 : wf_tt c t1 -> wf_tt c t2 ->
  let a := tt_merge t1 t2 in
  let b := tt_merge t2 t1 in
  (forall code key,
     group_base a code key = group_base b code key /\
     group_amount a code key = group_amount b code key /\
     group_suramount a code key = group_suramount b code key /\
     has_group a code key = has_group b code key) /\
  (forall code,
     cat_amount a code = cat_amount b code /\
     cat_surcharge a code = cat_surcharge b code /\
     has_cat a code = has_cat b code) /\
  val (tt_sum a) = val (tt_sum b) /\ exp (tt_sum a) = exp (tt_sum b).
Proof. exact (MergeProofs.merge_comm_up_to_order c t1 t2). Qed.
Print Assumptions merge_comm_up_to_order.

Theorem merge_order_independent_for_any_precision t1 t2 : wf_shape t1 -> wf_shape t2 ->
  let a := tt_merge t1 t2 in
  let b := tt_merge t2 t1 in
  (forall code key,
     group_baseQ a code key == group_baseQ b code key /\
     group_amountQ a code key == group_amountQ b code key /\
     group_suramountQ a code key == group_suramountQ b code key /\
     has_group a code key = has_group b code key) /\
  (forall code,
     cat_amountQ a code == cat_amountQ b code /\
     cat_surchargeQ a code == cat_surchargeQ b code /\
     has_surcharge a code = has_surcharge b code /\
     has_cat a code = has_cat b code) /\
  toQ (tt_sum a) == toQ (tt_sum b) /\ exp (tt_sum a) = exp (tt_sum b).
Proof. exact (MergeProofs.merge_order_independent_for_any_precision t1 t2). Qed.
Print Assumptions merge_order_independent_for_any_precision.

Theorem merge_precise_comm t1 t2 : distinct_codes (tt_cats t1) -> distinct_codes (tt_cats t2) ->
  (forall code, cat_precise_field (tt_merge t1 t2) code == cat_precise_field (tt_merge t2 t1) code) /\
  toQ (tt_precise (tt_merge t1 t2)) == toQ (tt_precise (tt_merge t2 t1)).
Proof. exact (MergeProofs.merge_precise_comm t1 t2). Qed.
Print Assumptions merge_precise_comm.

(* ---------- (d) Negate ---------- *)
(* row by row, in place: tt_negated / ct_negated / rt_negated say every amount field (base, amount,
   surcharge amount; category amount, surcharge, precise amount; sum, precise sum) is [negate] of the
   original and every other field is unchanged *)
Theorem negate_flips_everything t : tt_negated (tt_negate t) t.
Proof. exact (MergeProofs.negate_flips_everything t). Qed.
Print Assumptions negate_flips_everything.

Theorem negate_flips_lookup t :
  (forall code key,
     group_base (tt_negate t) code key = - group_base t code key /\
     group_amount (tt_negate t) code key = - group_amount t code key /\
     group_suramount (tt_negate t) code key = - group_suramount t code key /\
     has_group (tt_negate t) code key = has_group t code key) /\
  (forall code,
     cat_amount (tt_negate t) code = - cat_amount t code /\
     cat_surcharge (tt_negate t) code = option_map Z.opp (cat_surcharge t code) /\
     has_cat (tt_negate t) code = has_cat t code) /\
  val (tt_sum (tt_negate t)) = - val (tt_sum t) /\
  val (tt_precise (tt_negate t)) = - val (tt_precise t) /\
  (forall c, wf_tt c t -> wf_tt c (tt_negate t)).
Proof. exact (MergeProofs.negate_flips_lookup t). Qed.
Print Assumptions negate_flips_lookup.

Theorem negate_involutive t : tt_negate (tt_negate t) = t.
Proof. exact (tt_negate_involutive t). Qed.
Print Assumptions negate_involutive.

Theorem merge_negate_zero c t : wf_tt c t ->
  let m := tt_merge t (tt_negate t) in
  (forall code key,
     group_base m code key = 0 /\ group_amount m code key = 0 /\ group_suramount m code key = 0 /\
     has_group m code key = has_group t code key) /\
  (forall code,
     cat_amount m code = 0 /\
     cat_surcharge m code = option_map (fun _ => 0) (cat_surcharge t code) /\
     has_cat m code = has_cat t code) /\
  val (tt_sum m) = 0 /\ val (tt_precise m) = 0 /\ wf_tt c m.
Proof. exact (MergeProofs.merge_negate_zero c t). Qed.
Print Assumptions merge_negate_zero.

(* ---------- (e) the shipped code (before the repairs recorded in KNOWN_FINDINGS.json) ---------- *)
Theorem negate_flips_everything_shipped_refuted :
  exists c t code key, wf_tt c t /\
    group_suramount (tt_negate_shipped t) code key <> - group_suramount t code key /\
    cat_surcharge (tt_negate_shipped t) code <> option_map Z.opp (cat_surcharge t code).
Proof. exact MergeProofs.negate_flips_everything_shipped_refuted. Qed.
Print Assumptions negate_flips_everything_shipped_refuted.

Theorem merge_comm_shipped_refuted :
  exists c t1 t2 code, wf_tt c t1 /\ wf_tt c t2 /\
    cat_surcharge (tt_merge_shipped t1 t2) code <> cat_surcharge (tt_merge_shipped t2 t1) code.
Proof. exact MergeProofs.merge_comm_shipped_refuted. Qed.
Print Assumptions merge_comm_shipped_refuted.

Theorem merge_negate_zero_shipped_refuted :
  exists c t code key, wf_tt c t /\
    group_suramount (tt_merge_shipped t (tt_negate_shipped t)) code key <> 0 /\
    cat_surcharge (tt_merge_shipped t (tt_negate_shipped t)) code <> Some 0.
Proof. exact MergeProofs.merge_negate_zero_shipped_refuted. Qed.
Print Assumptions merge_negate_zero_shipped_refuted.

(* Merge with the unexported figures as shipped (category amount untouched, sums added at the left
   operand's precision): a recalculated summary (precise 21.001) merged with a loaded one (21.00) *)
Theorem merge_precise_shipped_refuted :
  exists c t1 t2 code, wf_tt c t1 /\ wf_tt c t2 /\
    ~ cat_precise (tt_merge_precise_shipped t1 t2) code == cat_precise t1 code + cat_precise t2 code /\
    ~ toQ (tt_PreciseSum (tt_merge_precise_shipped t2 t1)) == toQ (tt_PreciseSum t2) + toQ (tt_PreciseSum t1).
Proof. exact MergeProofs.merge_precise_shipped_refuted. Qed.
Print Assumptions merge_precise_shipped_refuted.

(* Merge with the presented figures as shipped (x.Add(y) rounds the right operand to the left one's
   decimals): JPY {10% of 1000 = 100} merged with EUR {10% of 100.55 = 10.06} has base 1101 in this order
   and 1100.55 in the other *)
Theorem merge_different_precisions_shipped_refuted :
  exists c1 c2 t1 t2 code key, wf_tt c1 t1 /\ wf_tt c2 t2 /\
    group_baseQ (tt_merge_rounding_shipped t1 t2) code key == 1101 # 1 /\
    group_baseQ (tt_merge_rounding_shipped t2 t1) code key == 110055 # 100 /\
    ~ group_baseQ (tt_merge_rounding_shipped t1 t2) code key == group_baseQ t1 code key + group_baseQ t2 code key /\
    ~ group_amountQ (tt_merge_rounding_shipped t1 t2) code key == group_amountQ (tt_merge_rounding_shipped t2 t1) code key /\
    ~ cat_amountQ (tt_merge_rounding_shipped t1 t2) code == cat_amountQ t1 code + cat_amountQ t2 code /\
    ~ toQ (tt_sum (tt_merge_rounding_shipped t1 t2)) == toQ (tt_sum t1) + toQ (tt_sum t2).
Proof. exact MergeProofs.merge_different_precisions_shipped_refuted. Qed.
Print Assumptions merge_different_precisions_shipped_refuted.

(* a correctly calculated summary (fixed point of the repaired Calculate) changes under the shipped
   Calculate, and changes again at every further recalculation *)
Theorem recalculation_accumulates_surcharge_shipped_refuted :
  exists cr c t code, wf_tt c t /\ tt_calculate cr c t = t /\
    cat_surcharge (tt_calculate_shipped cr c t) code <> cat_surcharge t code /\
    cat_surcharge (tt_calculate_shipped cr c (tt_calculate_shipped cr c t)) code
      <> cat_surcharge (tt_calculate_shipped cr c t) code.
Proof. exact MergeProofs.recalculation_accumulates_surcharge_shipped_refuted. Qed.
Print Assumptions recalculation_accumulates_surcharge_shipped_refuted.

(* the repaired Calculate is idempotent when the bases already have c decimals (bases_at c t) ... *)
Theorem tt_calculate_idempotent_partial cr c t : bases_at c t ->
  tt_calculate cr c (tt_calculate cr c t) = tt_calculate cr c t.
Proof. exact (MergeProofs.tt_calculate_idempotent_partial cr c t). Qed.
Print Assumptions tt_calculate_idempotent_partial.

Example bases_at_exists : bases_at 2 ex_tt.
Proof. repeat constructor. Qed.

(* ... hence always from its second application on ... *)
Theorem tt_calculate_idempotent_after_first cr c t :
  let t1 := tt_calculate cr c t in
  tt_calculate cr c (tt_calculate cr c t1) = tt_calculate cr c t1.
Proof. exact (MergeProofs.tt_calculate_idempotent_after_first cr c t). Qed.
Print Assumptions tt_calculate_idempotent_after_first.

(* ... but not on a summary with finer bases (rounding the base first moves the tax) *)
Theorem tt_calculate_idempotent_refuted :
  exists cr c t, tt_calculate cr c (tt_calculate cr c t) <> tt_calculate cr c t.
Proof. exact MergeProofs.tt_calculate_idempotent_refuted. Qed.
Print Assumptions tt_calculate_idempotent_refuted.

(* ---------- (f) payments ---------- *)
(* pl_side: one side (debit or credit) of a line in the payment currency - 0 when absent, None when
   there is no exchange rate; toQ is the rational an amount denotes *)
Theorem payment_line_total rates cur c l :
  match pl_side rates cur c l (pl_debit l), pl_side rates cur c l (pl_credit l) with
  | Some d, Some k => exists lt, pl_total true rates cur c l = Some lt /\ toQ lt == toQ d - toQ k
  | _, _ => pl_total true rates cur c l = None
  end.
Proof. exact (MergeProofs.payment_line_total rates cur c l). Qed.
Print Assumptions payment_line_total.

Theorem payment_line_total_shipped_refuted :
  exists rates cur c l d k lt,
    pl_side rates cur c l (pl_debit l) = Some d /\ pl_side rates cur c l (pl_credit l) = Some k /\
    pl_total false rates cur c l = Some lt /\ ~ toQ lt == toQ d - toQ k.
Proof. exact MergeProofs.payment_line_total_shipped_refuted. Qed.
Print Assumptions payment_line_total_shipped_refuted.

Theorem payment_total_is_sum cr rates cur c subunits ls out :
  pay_calc true cr rates cur c subunits ls = Some out ->
  Forall2 (fun l lt => pl_total true rates cur c l = Some lt) ls (po_lines out) /\
  match po_total out with
  | Some t => toQ t == qsum (po_lines out)
  | None => ls = []
  end.
Proof. exact (MergeProofs.payment_total_is_sum cr rates cur c subunits ls out). Qed.
Print Assumptions payment_total_is_sum.

Theorem payment_defined keep cr rates cur c subunits ls :
  Forall (fun l => pl_total keep rates cur c l <> None) ls ->
  pay_calc keep cr rates cur c subunits ls <> None.
Proof. exact (pay_calc_defined keep cr rates cur c subunits ls). Qed.
Print Assumptions payment_defined.

(* line_summaries: the recalculated (tt_calculate) document summaries of the lines that carry one *)
Theorem payment_tax_is_merge_of_lines keep cr rates cur c subunits ls out :
  pay_calc keep cr rates cur c subunits ls = Some out ->
  po_tax out = match line_summaries cr c subunits ls with
               | [] => None
               | d :: ds => Some (fold_left tt_merge ds d)
               end.
Proof. exact (MergeProofs.payment_tax_is_merge_of_lines keep cr rates cur c subunits ls out). Qed.
Print Assumptions payment_tax_is_merge_of_lines.

(* recalculated summaries are well formed (wf_shape: distinct codes and groups, exempt groups without
   surcharge rate, no surcharge amount without surcharge rate), so when the documents share the
   precision c the payment's summary is the component-wise sum of its lines' summaries *)
Theorem calculate_wf cr c t : wf_shape t -> wf_tt c (tt_calculate cr c t).
Proof. exact (MergeProofs.calculate_wf cr c t). Qed.
Print Assumptions calculate_wf.

Example wf_shape_exists : wf_shape ex_tt.
Proof. split; repeat constructor; discriminate. Qed.

Theorem payment_tax_componentwise keep cr rates cur c subunits ls out :
  pay_calc keep cr rates cur c subunits ls = Some out ->
  let ss := line_summaries cr c subunits ls in
  Forall (wf_tt c) ss ->
  match ss with
  | [] => po_tax out = None
  | _ :: _ =>
    exists m, po_tax out = Some m /\ wf_tt c m /\
      (forall code key,
         group_base m code key = zsum (map (fun x => group_base x code key) ss) /\
         group_amount m code key = zsum (map (fun x => group_amount x code key) ss) /\
         group_suramount m code key = zsum (map (fun x => group_suramount x code key) ss)) /\
      (forall code, cat_amount m code = zsum (map (fun x => cat_amount x code) ss)) /\
      val (tt_sum m) = zsum (map (fun x => val (tt_sum x)) ss)
  end.
Proof. exact (MergeProofs.payment_tax_componentwise keep cr rates cur c subunits ls out). Qed.
Print Assumptions payment_tax_componentwise.

Example payment_exists :
  exists out, pay_calc true true [] 0 2%nat (fun _ => 2%nat)
                [mkPL None (Some (mkA 1005 3)) (Some (mkA 1 3)) (Some (None, Some ex_tt));
                 mkPL None (Some (mkA 250 2)) None (Some (None, Some ex_tt2))] = Some out /\
              po_total out = Some (mkA 3504 3) /\ po_tax out = Some (tt_merge ex_tt ex_tt2).
Proof. eexists. split; [vm_compute; reflexivity|]. split; reflexivity. Qed.
