(* C09 - Signature verification accepts exactly what was signed, on every path.
   Property theorems only; every proof is `exact <lemma>` from Env/VerifyProofs.v.

   [verify e ks] is Envelope.Verify(keys...), [cli_verify hash fx e (Some k)] is
   internal/cli.Verify - the one function behind `gobl verify`, the bulk "verify" action and
   POST /verify - on the JSON text of e.  Signatures are symbolic ([Sig k h]: the holder of key k
   signed header h; Env/Sig.v names the assumption: ES256 unforgeability and go-jose's
   correctness).  [covers_* hd h]: the member of the signed header h is present and equal in
   the envelope's header hd (Env/HeaderProofs.v).  [shipped] = the repository as it stands
   (commit b9cd510), [repaired] = the code after fixes/C09-9-*.diff and fixes/C10-10-*.diff;
   Envelope.Verify itself is the same in both.
   Tie: tools/props/c09.py presents modified envelopes to every entry point. *)
From Coq Require Import ZArith List Bool String.
From Verif Require Import Base.Wire Env.Header Env.HeaderProofs Env.Sig Env.Lifecycle Env.Abs Env.LifecycleProofs Env.VerifyProofs.
Import ListNotations.
Open Scope Z_scope.

(* after signing, verification with the matching key (or without keys) succeeds *)
Theorem sign_then_verify hash e k ks h :
  head e = Some h -> wf_meta h ->
  (sigs e = [] \/ verify e ks = OK) -> (ks = [] \/ In k ks) ->
  snd (step hash repaired e (Sign k)) = OK ->
  verify (fst (step hash repaired e (Sign k))) ks = OK.
Proof. exact (VerifyProofs.sign_then_verify hash e k ks h). Qed.
Print Assumptions sign_then_verify.

(* it keeps succeeding under any list of additions that do not overwrite a covered entry *)
Theorem verify_stable_under_additions hash ops e ks :
  safe_adds hash e ops -> verify e ks = OK -> verify (run hash repaired e ops) ks = OK.
Proof. exact (VerifyProofs.verify_stable_under_additions hash ops e ks). Qed.
Print Assumptions verify_stable_under_additions.

(* it fails with any other key *)
Theorem verify_wrong_key_fails e k ks :
  sigs e <> [] -> (exists h, In (Sig k h) (sigs e)) -> ks <> [] -> ~ In k ks ->
  verify e ks = ERR EValidation.
Proof. exact (VerifyProofs.verify_wrong_key_fails e k ks). Qed.
Print Assumptions verify_wrong_key_fails.

(* success means: every signature is by one of the keys, over a header of which EVERY covered
   member - identifier, digest, each stamp, each link, each tag, each meta entry, the notes -
   is present and equal in the envelope's header.  One conjunct per comparison of Contains. *)
Theorem verify_sound e ks :
  verify e ks = OK ->
  sigs e <> [] /\
  exists hd, head e = Some hd /\
  forall s, In s (sigs e) ->
    exists k h, s = Sig k h /\ (ks = [] \/ In k ks) /\
      covers_uuid hd h /\ covers_dig hd h /\ covers_stamps hd h /\ covers_links hd h /\
      covers_tags hd h /\ covers_meta hd h /\ covers_notes hd h.
Proof. exact (VerifyProofs.verify_sound e ks). Qed.
Print Assumptions verify_sound.

(* ... and nothing more is demanded *)
Theorem verify_complete e ks hd :
  sigs e <> [] -> head e = Some hd ->
  (forall s, In s (sigs e) -> exists k h, s = Sig k h /\ (ks = [] \/ In k ks) /\ covers hd h) ->
  verify e ks = OK.
Proof. exact (VerifyProofs.verify_complete e ks hd). Qed.
Print Assumptions verify_complete.

(* the document is modified and recalculated after signing: verification fails - or the digest
   function collides on the two documents (stated, not assumed away) *)
Theorem verify_after_recalc_fails hash e k ks c :
  doc e = Some c -> cok c = true ->
  snd (step hash repaired e (Sign k)) = OK ->
  let e1 := fst (step hash repaired e (Sign k)) in
  let e3 := run hash repaired e1 [EditDoc; Calculate] in
  let c3 := mkC (cid c) (ver c + 1) (code c) false (cok c) (vok c) in
  verify e3 ks <> OK \/ hash c3 = hash c.
Proof. exact (VerifyProofs.verify_after_recalc_fails hash e k ks c). Qed.
Print Assumptions verify_after_recalc_fails.

(* every entry point gives the library's answer (repaired command-line path) *)
Theorem entry_points_agree hash e k :
  cli_verify hash repaired e (Some k) = OK <->
  validate hash repaired e = OK /\ verify e [k] = OK.
Proof. exact (VerifyProofs.entry_points_agree hash e k). Qed.
Print Assumptions entry_points_agree.

(* no path reports success for content the key holder did not sign *)
Theorem cli_verify_sound hash e k :
  cli_verify hash repaired e (Some k) = OK ->
  validate hash repaired e = OK /\ sigs e <> [] /\
  exists hd, head e = Some hd /\ forall s, In s (sigs e) -> exists h, s = Sig k h /\ covers hd h.
Proof. exact (VerifyProofs.cli_verify_sound hash e k). Qed.
Print Assumptions cli_verify_sound.

(* no verification path dereferences nil *)
Theorem verification_never_panics hash fx e ks key :
  verify e ks <> PANIC /\ cli_verify hash fx e key <> PANIC.
Proof. exact (conj (verify_nopanic e ks) (cli_verify_nopanic hash fx e key)). Qed.
Print Assumptions verification_never_panics.

(* ---- the repository as shipped (defect 9): sign, modify, recalculate - the library refuses,
   the command-line path accepts ---- *)
Theorem entry_points_agree_shipped_refuted :
  exists ops, let e := run h0 shipped new_envelope ops in
    cli_verify h0 shipped e (Some 0) = OK /\ validate h0 shipped e = OK /\ verify e [0] = ERR EValidation /\
    ops = [Insert base0; Sign 0; EditDoc; Calculate].
Proof. exact VerifyProofs.entry_points_agree_shipped_refuted. Qed.
Print Assumptions entry_points_agree_shipped_refuted.

(* ---- non-vacuity ---- *)
Example signed_envelope_verifies :
  let e := run h0 repaired new_envelope [Insert base0; Sign 0] in
  verify e [0] = OK /\ verify e [1] = ERR EValidation /\ verify e [] = OK /\
  cli_verify h0 repaired e (Some 0) = OK.
Proof. exact sign_then_verify_example. Qed.
Example additions_are_possible :
  let e := run h0 repaired new_envelope [Insert base0; Sign 0] in
  let adds := [AddStamp (bs "p1") (bs "v1"); AddLink (bs "l1") (bs "a"); AddTag (bs "t"); AddMeta (bs "m") (bs "v")] in
  safe_adds h0 e adds /\ verify (run h0 repaired e adds) [0] = OK.
Proof. exact additions_example. Qed.
Example recalculation_is_detected :
  let e := run h0 repaired new_envelope [Insert base0; Sign 0; EditDoc; Calculate] in
  verify e [0] = ERR EValidation /\ cli_verify h0 repaired e (Some 0) = ERR EValidation.
Proof. exact recalc_example. Qed.
