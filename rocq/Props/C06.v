(* C06 - Amount and percentage text codec round-trips and accepts only the schema.
   Property theorems only; every proof is `exact <lemma>` from Num/CodecProofs.v.

   Model (Num/Codec.v): print_amount / parse_amount / parse_pct / print_pct / unquote /
   unmarshal_text / unmarshal_json transcribe num/amount.go and num/percentage.go AS SHIPPED;
   print_amount_fixed / parse_amount_fixed (and parse_pct_fixed / print_pct_fixed over them)
   transcribe the same functions with fixes/C06-1-strict-amount-parse.diff applied.
   Specification: matches_amount_pattern / matches_pct_pattern are the two published patterns,
   value_of s = (n, e) is the number n / 10^e a pattern member denotes (e = digits after the
   point), amount_of s the amount with that value and precision, fits_int64 s says that n is
   an int64 and e <= 18, amount_ok a says the same of an amount.

   The positive theorems are about the REPAIRED functions (and, where they also hold of the
   shipped ones, about those too: *_shipped).  What is false of the shipped code is stated as
   *_refuted with witnesses by computation.  The models are tied to the Go code by the
   correspondence check tools/props/c06.py. *)
From Coq Require Import Strings.String.
From Coq Require Import ZArith QArith List Strings.Byte.
From Verif Require Import Base.Wire Base.Int64 Num.Amount Num.AmountProofs Num.Codec Num.CodecProofs.
From Verif Require Gen.NumPatterns.
Import ListNotations.
Open Scope Z_scope.

(* ---- the published patterns are the ones the matcher was written for ---- *)
Theorem amount_pattern_in_code : Gen.NumPatterns.amount_pattern_code = bs "^\-?[0-9]+(\.[0-9]+)?$".
Proof. reflexivity. Qed.
Print Assumptions amount_pattern_in_code.
Theorem amount_pattern_in_schema_file : Gen.NumPatterns.amount_pattern_schema = bs "^\-?[0-9]+(\.[0-9]+)?$".
Proof. reflexivity. Qed.
Print Assumptions amount_pattern_in_schema_file.
Theorem percentage_pattern_in_code : Gen.NumPatterns.percentage_pattern_code = bs "^\-?[0-9]+(\.[0-9]+)?%$".
Proof. reflexivity. Qed.
Print Assumptions percentage_pattern_in_code.
Theorem percentage_pattern_in_schema_file : Gen.NumPatterns.percentage_pattern_schema = bs "^\-?[0-9]+(\.[0-9]+)?%$".
Proof. reflexivity. Qed.
Print Assumptions percentage_pattern_in_schema_file.

(* ---- writing ---- *)
(* every int64 amount with 0..18 decimals (math.MinInt64 included) prints as a pattern member *)
Theorem print_matches_pattern a : amount_ok a = true -> matches_amount_pattern (print_amount_fixed a) = true.
Proof. exact (print_fixed_matches a). Qed.
Print Assumptions print_matches_pattern.
Example print_matches_pattern_nonvacuous : amount_ok (mkA min64 18) = true /\ amount_ok (mkA (-12345) 3) = true.
Proof. split; reflexivity. Qed.

(* the shipped printer: the same for every value except math.MinInt64 *)
Theorem print_matches_pattern_shipped a :
  amount_ok a = true -> val a <> min64 -> matches_amount_pattern (print_amount a) = true.
Proof. exact (print_shipped_matches a). Qed.
Print Assumptions print_matches_pattern_shipped.

Theorem print_shipped_is_fixed_except_min_int64 a :
  amount_ok a = true -> val a <> min64 -> print_amount a = print_amount_fixed a.
Proof. exact (print_shipped_eq_fixed a). Qed.
Print Assumptions print_shipped_is_fixed_except_min_int64.

Theorem print_min_int64_refuted :
  print_amount (mkA min64 0) = t "-9223372036854775808" /\ parse_amount (print_amount (mkA min64 0)) = None /\
  print_amount (mkA min64 1) = t "--922337203685477580.-8" /\ matches_amount_pattern (print_amount (mkA min64 1)) = false /\
  parse_amount (print_amount (mkA min64 1)) = Some (mkA (-72) 2).
Proof. exact shipped_min_int64_print. Qed.
Print Assumptions print_min_int64_refuted.

(* String() does not panic on amounts with at most 18 decimals (it divides by zero from 64) *)
Theorem string_does_not_panic a :
  (exp a <= 18)%nat -> amount_string_panics a = false /\ amount_string_fixed_panics a = false.
Proof. exact (string_never_panics a). Qed.
Print Assumptions string_does_not_panic.

(* MinimalString: a pattern member of the same value without trailing zeros in the fraction *)
Theorem minimal_string_is_minimal a :
  amount_ok a = true ->
  matches_amount_pattern (minimal_string_fixed a) = true /\
  (toQ (amount_of (minimal_string_fixed a)) == toQ a)%Q /\
  (snd (value_of (minimal_string_fixed a)) = 0%nat \/ Byte.eqb (last (minimal_string_fixed a) x00) b_zero = false).
Proof. exact (minimal_string_fixed_spec a). Qed.
Print Assumptions minimal_string_is_minimal.

Theorem minimal_string_shipped_is_fixed_except_min_int64 a :
  amount_ok a = true -> val a <> min64 -> minimal_string a = minimal_string_fixed a.
Proof. exact (minimal_string_shipped_eq_fixed a). Qed.
Print Assumptions minimal_string_shipped_is_fixed_except_min_int64.

(* ---- round trip ---- *)
Theorem parse_print_roundtrip a : amount_ok a = true -> parse_amount_fixed (print_amount_fixed a) = Some a.
Proof. exact (parse_print_fixed a). Qed.
Print Assumptions parse_print_roundtrip.

Theorem parse_print_roundtrip_shipped a :
  amount_ok a = true -> val a <> min64 -> parse_amount (print_amount a) = Some a.
Proof. exact (parse_print_shipped a). Qed.
Print Assumptions parse_print_roundtrip_shipped.
Example parse_print_roundtrip_shipped_nonvacuous : amount_ok (mkA (-12345) 3) = true /\ val (mkA (-12345) 3) <> min64.
Proof. split; [reflexivity|discriminate]. Qed.

(* ---- reading: exactly the pattern members that fit, never a different number ---- *)
Theorem parse_accepts_iff_pattern s a :
  parse_amount_fixed s = Some a <->
  matches_amount_pattern s = true /\ fits_int64 s = true /\ a = amount_of s.
Proof. exact (parse_fixed_iff s a). Qed.
Print Assumptions parse_accepts_iff_pattern.
Example parse_accepts_iff_pattern_nonvacuous :
  parse_amount_fixed (t "-0012.50") = Some (mkA (-1250) 2) /\ parse_amount_fixed (t "12.") = None.
Proof. split; reflexivity. Qed.

Theorem parse_rejects_everything_else s :
  parse_amount_fixed s = None <-> ~ (matches_amount_pattern s = true /\ fits_int64 s = true).
Proof. exact (parse_fixed_rejects_iff s). Qed.
Print Assumptions parse_rejects_everything_else.

Theorem parse_never_misreads s a :
  parse_amount_fixed s = Some a -> val a = fst (value_of s) /\ exp a = snd (value_of s).
Proof. exact (parse_fixed_never_misreads s a). Qed.
Print Assumptions parse_never_misreads.

(* the repair changes nothing on texts it accepts, math.MinInt64 aside *)
Theorem repair_keeps_accepted_readings s a :
  parse_amount_fixed s = Some a -> val a <> min64 -> parse_amount s = Some a.
Proof. exact (parse_shipped_agrees s a). Qed.
Print Assumptions repair_keeps_accepted_readings.

(* the shipped reader: refuted *)
Theorem parse_accepts_iff_pattern_refuted :
  (parse_amount (t "+5") = Some (mkA 5 0) /\ matches_amount_pattern (t "+5") = false) /\
  (parse_amount (t "--5") = Some (mkA 5 0) /\ matches_amount_pattern (t "--5") = false) /\
  (parse_amount (t "1.+5") = Some (mkA 105 2) /\ matches_amount_pattern (t "1.+5") = false) /\
  (parse_amount (t "1.-5") = Some (mkA 95 2) /\ matches_amount_pattern (t "1.-5") = false) /\
  (parse_amount (t "-9223372036854775808") = None /\
   matches_amount_pattern (t "-9223372036854775808") = true /\ fits_int64 (t "-9223372036854775808") = true).
Proof.
  exact (conj shipped_accepts_plus_sign (conj shipped_accepts_double_minus (conj shipped_accepts_plus_in_fraction
        (conj shipped_accepts_minus_in_fraction shipped_rejects_min_int64)))).
Qed.
Print Assumptions parse_accepts_iff_pattern_refuted.

Theorem parse_never_misreads_refuted :
  (parse_amount (t "922337203685477580.75") = Some (mkA (-5) 2) /\
   matches_amount_pattern (t "922337203685477580.75") = true /\
   value_of (t "922337203685477580.75") = (92233720368547758075, 2%nat)) /\
  (parse_amount (t "1.0000000000000000000") = Some (mkA (-8446744073709551616) 19) /\
   value_of (t "1.0000000000000000000") = (10000000000000000000, 19%nat)).
Proof. exact (conj shipped_wraps_int64 shipped_wraps_pow10). Qed.
Print Assumptions parse_never_misreads_refuted.

Theorem parse_then_string_panics_refuted :
  parse_amount (t "0.0000000000000000000000000000000000000000000000000000000000000000") = Some (mkA 0 64) /\
  amount_string_panics (mkA 0 64) = true.
Proof. exact shipped_parse_then_string_panics. Qed.
Print Assumptions parse_then_string_panics_refuted.

Theorem repaired_on_the_witnesses :
  parse_amount_fixed (t "+5") = None /\ parse_amount_fixed (t "--5") = None /\
  parse_amount_fixed (t "1.+5") = None /\ parse_amount_fixed (t "1.-5") = None /\
  parse_amount_fixed (t "922337203685477580.75") = None /\
  parse_amount_fixed (t "1.0000000000000000000") = None /\
  parse_amount_fixed (t "-9223372036854775808") = Some (mkA min64 0) /\
  print_amount_fixed (mkA min64 1) = t "-922337203685477580.8" /\
  parse_amount_fixed (t "-922337203685477580.8") = Some (mkA min64 1).
Proof. exact fixed_on_witnesses. Qed.
Print Assumptions repaired_on_the_witnesses.

(* ---- JSON entry points (UnmarshalJSON = unquote, then UnmarshalText) ---- *)
Theorem json_text_accepts_iff_pattern s a :
  unmarshal_text parse_amount_fixed s = Rok a <->
  matches_amount_pattern s = true /\ fits_int64 s = true /\ a = amount_of s.
Proof. exact (unmarshal_text_fixed_iff s a). Qed.
Print Assumptions json_text_accepts_iff_pattern.

Theorem json_accepts_iff_pattern s a :
  unmarshal_json parse_amount_fixed s = Rok a <->
  matches_amount_pattern (unquote s) = true /\ fits_int64 (unquote s) = true /\ a = amount_of (unquote s).
Proof. exact (unmarshal_text_fixed_iff (unquote s) a). Qed.
Print Assumptions json_accepts_iff_pattern.

Theorem json_rejects_everything_else s :
  unmarshal_json parse_amount_fixed s = Rerr <->
  unquote s <> text_null /\ ~ (matches_amount_pattern (unquote s) = true /\ fits_int64 (unquote s) = true).
Proof. exact (unmarshal_text_fixed_err_iff (unquote s)). Qed.
Print Assumptions json_rejects_everything_else.

(* the receiver is left untouched exactly for the text null - also when it is quoted *)
Theorem json_null_iff pa s : unmarshal_json pa s = Rnull <-> unquote s = text_null.
Proof. exact (unmarshal_text_null_iff pa (unquote s)). Qed.
Print Assumptions json_null_iff.

Theorem unquote_strips_one_pair_of_quotes s : s <> [] -> unquote (quote s) = s.
Proof. exact (unquote_quote s). Qed.
Print Assumptions unquote_strips_one_pair_of_quotes.

Theorem json_quoted_print_roundtrip a :
  amount_ok a = true -> unmarshal_json parse_amount_fixed (quote (print_amount_fixed a)) = Rok a.
Proof. exact (json_quoted_roundtrip a). Qed.
Print Assumptions json_quoted_print_roundtrip.

Theorem json_bare_print_roundtrip a :
  amount_ok a = true -> unmarshal_json parse_amount_fixed (print_amount_fixed a) = Rok a.
Proof. exact (json_bare_roundtrip a). Qed.
Print Assumptions json_bare_print_roundtrip.

Theorem quoted_null_is_accepted_refuted :
  unmarshal_json parse_amount (quote text_null) = Rnull /\ unmarshal_json parse_amount_fixed (quote text_null) = Rnull /\
  matches_amount_pattern text_null = false.
Proof. exact quoted_null_accepted. Qed.
Print Assumptions quoted_null_is_accepted_refuted.

(* ---- percentages (exact arithmetic of Num/Amount.v, see C05 for its tie to float64) ---- *)
Theorem pct_print_matches_pattern p :
  amount_ok (pct_amount p) = true -> matches_pct_pattern (print_pct_fixed p) = true.
Proof. exact (print_pct_fixed_matches p). Qed.
Print Assumptions pct_print_matches_pattern.
Example pct_domain_nonvacuous : amount_ok (pct_amount (mkA 165 3)) = true /\ amount_ok (pct_amount (mkA 16 0)) = true.
Proof. split; reflexivity. Qed.

(* reading a printed percentage back gives the same value, at max(precision, 2) decimals *)
Theorem pct_roundtrip_value p :
  amount_ok (pct_amount p) = true ->
  exists q, parse_pct_fixed (print_pct_fixed p) = Some q /\ (toQ q == toQ p)%Q /\ exp q = Nat.max (exp p) 2.
Proof. exact (pct_roundtrip_value_fixed p). Qed.
Print Assumptions pct_roundtrip_value.

Theorem pct_roundtrip_exact p :
  amount_ok (pct_amount p) = true -> (2 <= exp p)%nat -> parse_pct_fixed (print_pct_fixed p) = Some p.
Proof. exact (pct_roundtrip_exact_fixed p). Qed.
Print Assumptions pct_roundtrip_exact.

Theorem pct_text_stable p :
  amount_ok (pct_amount p) = true ->
  exists q, parse_pct_fixed (print_pct_fixed p) = Some q /\ print_pct_fixed q = print_pct_fixed p.
Proof. exact (pct_text_stable_fixed p). Qed.
Print Assumptions pct_text_stable.

(* the exact language of the percentage reader: the empty text, pattern members that fit, and
   (documented intent, KNOWN finding) members of the AMOUNT pattern, read as a plain factor *)
Theorem pct_accepted_language s q :
  parse_pct_fixed s = Some q <->
  (s = [] /\ q = mkA 0 0) \/
  (matches_pct_pattern s = true /\ fits_int64 (removelast s) = true /\
   q = pct_from_amount (amount_of (removelast s))) \/
  (s <> [] /\ Byte.eqb (last s x00) b_pct = false /\ matches_amount_pattern s = true /\
   fits_int64 s = true /\ q = amount_of s).
Proof. exact (parse_pct_fixed_language s q). Qed.
Print Assumptions pct_accepted_language.

Theorem pct_accepts_only_pattern_refuted :
  parse_pct (t "0.16") = Some (mkA 16 2) /\ parse_pct_fixed (t "0.16") = Some (mkA 16 2) /\
  matches_pct_pattern (t "0.16") = false /\
  parse_pct (t "") = Some (mkA 0 0) /\ parse_pct_fixed (t "") = Some (mkA 0 0) /\ matches_pct_pattern (t "") = false.
Proof. exact pct_without_symbol_accepted. Qed.
Print Assumptions pct_accepts_only_pattern_refuted.
