(* C14 - No input crashes the library; failures are structured errors.
   Property theorems only; proofs are in Crash/CrashProofs.v.

   Each core below is a nil/bounds-aware transcription of one Go function (result = Ok | Err |
   Panic, nil pointers = None).  For the code AS SHIPPED "never panics" is refuted with a witness;
   for the repaired core (the nil-guard patches in fixes/C14-*.diff) it is proved for every
   input, together with "the repair changes nothing where the shipped code does not panic".
   Panic-freedom of the rest of the library is NOT proved: it is searched by the mutation sweep
   of tools/props/c14.py. *)
From Coq Require Import List ZArith Bool.
From Verif Require Import Crash.Result Num.Amount Crash.ScenarioNotes Crash.ItemPrice Crash.HeaderValidate
  Crash.WrapError Crash.CrashProofs.
Import ListNotations.

(* (1) bill/invoice_scenarios.go removePreviousScenarioNotes: inv.Notes edited while ranged over *)
Theorem remove_notes_no_panic_refuted :
  exists sns notes, remove_notes_shipped sns notes = Panic.
Proof. exact remove_notes_shipped_panics. Qed.
Print Assumptions remove_notes_no_panic_refuted.

Theorem remove_notes_no_panic sns notes : remove_notes_repaired sns notes <> Panic.
Proof. exact (remove_notes_repaired_total sns notes). Qed.
Print Assumptions remove_notes_no_panic.

(* the repaired function removes every note matching a scenario note, keeps all others (nil
   entries included, for validation to report) and invents nothing *)
Theorem remove_notes_repaired_correct sns notes :
  exists r, remove_notes_repaired sns notes = Ok r /\
    (forall x, In (Some x) r -> forall n, In n sns -> same_as n x = false) /\
    (forall e, In e notes -> keep sns e = true -> In e r) /\
    (forall e, In e r -> In e notes).
Proof. exact (remove_notes_repaired_spec sns notes). Qed.
Print Assumptions remove_notes_repaired_correct.

(* (2) bill/line_calculate.go calculateLineItemPrice: unknown currency, nil alt price, nil rate *)
Theorem item_price_no_panic_refuted :
  exists defs it cur rates, it_price it <> None /\ calc_item_price defs false it cur rates = Panic.
Proof. exact item_price_shipped_panics. Qed.
Print Assumptions item_price_no_panic_refuted.

Theorem item_price_no_panic defs it cur rates :
  it_price it <> None -> calc_item_price defs true it cur rates <> Panic.
Proof. exact (item_price_guarded_total defs it cur rates). Qed.
Print Assumptions item_price_no_panic.

Theorem item_price_repair_is_conservative defs it cur rates :
  calc_item_price defs false it cur rates <> Panic ->
  calc_item_price defs true it cur rates = calc_item_price defs false it cur rates.
Proof. exact (item_price_repair_conservative defs it cur rates). Qed.
Print Assumptions item_price_repair_is_conservative.

(* the hypothesis of item_price_no_panic is satisfiable and the guarded result is an error *)
Example item_price_nonvacuous :
  it_price wit_item <> None /\ calc_item_price wit_defs true wit_item 978%Z [] = Err UnknownCurrency /\
  calc_item_price wit_defs true (mkItem 0 (Some (mkA 1000 2)) []) 978%Z [] = Ok (mkItem 0 (Some (mkA 1000 2)) []).
Proof. split; [discriminate|split; vm_compute; reflexivity]. Qed.

(* (3) head/header.go validation over nil stamp / link entries *)
Theorem header_no_panic_refuted :
  validate_header false false wit_links_null = Panic /\ validate_header false true wit_stamps_null = Panic.
Proof. exact (conj header_links_null_panics header_stamps_null_panics). Qed.
Print Assumptions header_no_panic_refuted.

Theorem header_no_panic signed h : validate_header true signed h <> Panic.
Proof. exact (header_guarded_total signed h). Qed.
Print Assumptions header_no_panic.

Theorem header_repair_is_conservative signed h :
  no_nil (h_stamps h) -> no_nil (h_links h) ->
  validate_header true signed h = validate_header false signed h.
Proof. exact (header_repair_conservative signed h). Qed.
Print Assumptions header_repair_is_conservative.

(* (4) errors.go wrapError: every error value maps to exactly one documented key ... *)
Theorem wrap_error_total e :
  top_documented e -> exists k c, wrap_error (Some e) = Some (EGobl k c) /\ documented k = true.
Proof. exact (wrap_error_total_proof e). Qed.
Print Assumptions wrap_error_total.

Theorem wrap_error_idempotent e : wrap_error (wrap_error e) = wrap_error e.
Proof. exact (wrap_error_idem e). Qed.
Print Assumptions wrap_error_idempotent.

(* ... but Envelope.Verify does not go through it when there are no signatures: REFUTED as
   shipped (a plain errors.New value reaches the caller), true once repaired *)
Theorem envelope_errors_structured_refuted :
  exists n errs e, envelope_verify false n errs = Some e /\ is_gobl e = false.
Proof. exact verify_plain_error. Qed.
Print Assumptions envelope_errors_structured_refuted.

Theorem envelope_errors_structured n errs e :
  envelope_verify true n errs = Some e -> is_gobl e = true.
Proof. exact (verify_structured n errs e). Qed.
Print Assumptions envelope_errors_structured.

(* the command line's error record carries the documented key of a structured error *)
Theorem cli_record_key_documented code e :
  top_documented e ->
  match ce_key (cli_wrap code e) with Some k => documented k = true | None => is_gobl e = false end.
Proof. exact (cli_key_documented code e). Qed.
Print Assumptions cli_record_key_documented.

Example wrap_error_nonvacuous :
  wrap_error (Some (EWrapped (EWrapped EUnknownSchema))) = Some (EGobl K_UNKNOWN_SCHEMA None) /\
  wrap_error (Some (EValidation [(1, EPlain 2)]%Z)) = Some (EGobl K_VALIDATION (Some (EFields [(1, EPlain 2)]%Z))) /\
  wrap_error (Some (EPlain 3)) = Some (EGobl K_INTERNAL (Some (EPlain 3))) /\
  envelope_verify true 0 [] = Some (EGobl K_SIGNATURE (Some (EPlain 1))).
Proof. repeat split. Qed.

(* non-vacuity of the remaining implications *)
Example header_conservative_nonvacuous :
  no_nil (h_stamps (mkHeader true true [Some (mkStamp 1 1)] [Some (mkLink 1 true 1)])) /\
  validate_header false true (mkHeader true true [Some (mkStamp 1 1)] [Some (mkLink 1 true 1)]) = Ok tt.
Proof. split; [repeat constructor; discriminate|vm_compute; reflexivity]. Qed.

Example item_price_conservative_nonvacuous :
  calc_item_price wit_defs false (mkItem 0 (Some (mkA 1000 2)) []) 978%Z [] <> Panic.
Proof. vm_compute. discriminate. Qed.
