(* C17 - Totals are symmetric under negation and independent of line order.
   Property theorems only (proofs in Calc/NegProofs.v, Calc/PermProofs.v); vocabulary in
   Calc/Symmetry.v (neg_doc, invert_doc, invert, remove_included_taxes, as_input) and
   Calc/NegSpec.v (result_neg, totals_neg).  Both rounding rules, every document. *)
From Coq Require Import ZArith QArith List Bool String Permutation.
From Verif Require Import Base.Wire Base.Rha Base.RhaProofs Num.Amount Calc.Doc Calc.Calc Calc.Merge Calc.Symmetry
  Calc.NegSpec Calc.NegProofs Calc.PermProofs Calc.TaxProofs Calc.PermTaxProofs.
Import ListNotations.
Open Scope Z_scope.

(* rounding half away from zero is an odd function: the root of the symmetry *)
Theorem rounding_is_odd n d : 0 < d -> rha (- n) d = - rha n d.
Proof. exact (rha_neg n d). Qed.
Print Assumptions rounding_is_odd.

(* negating every signed input (quantities, fixed amounts, bases, charge quantities, advances, due
   amounts, rounding) negates every line total, tax amount and document total - and nothing else *)
Theorem calculation_commutes_with_negation d : calculate (neg_doc d) = result_neg (calculate d).
Proof. exact (calculate_negate d). Qed.
Print Assumptions calculation_commutes_with_negation.

Theorem negating_twice_restores d : neg_doc (neg_doc d) = d /\ calculate (neg_doc (neg_doc d)) = calculate d.
Proof. exact (conj (neg_doc_involutive d) (f_equal calculate (neg_doc_involutive d))). Qed.
Print Assumptions negating_twice_restores.

(* Invoice.Invert (invert_doc: like neg_doc but due-date amounts are kept and the stored totals,
   with the external rounding, are dropped): the recalculated figures are exactly the negated ones *)
Theorem invert_produces_negated_figures d :
  d_rounding d = None -> drop_dues (calculate (invert_doc d)) = drop_dues (result_neg (calculate d)).
Proof. exact (invert_doc_negates d). Qed.
Print Assumptions invert_produces_negated_figures.

(* ... so Invert succeeds (its payable check passes) whenever re-reading the calculated document is a
   fixpoint for payable - C04, which fails only for fixed amounts with excess decimals *)
Theorem invert_succeeds_on_fixpoints d t0 d1 t1 :
  calculate d = Totals t0 -> as_input d = Some d1 -> d_rounding d = None ->
  calculate d1 = Totals t1 -> t_payable t1 = t_payable t0 ->
  exists t2, invert d = Inverted t2 /\ drop_dues (Totals t2) = drop_dues (Totals (totals_neg t1)).
Proof. exact (invert_succeeds d t0 d1 t1). Qed.
Print Assumptions invert_succeeds_on_fixpoints.

(* the behaviour before the repair (bases and explicit charge quantities not negated): refuted *)
Theorem invert_shipped_refuted :
  exists d, d_rounding d = None /\
            drop_dues (calculate (invert_doc_shipped d)) <> drop_dues (result_neg (calculate d)).
Proof.
  exists (mkDoc 2 false [] 1
            [mkLine (mkA 1 0) (mkItem (mkA 10000 2) None []) []
                    [mkLdc (mkA 0 0) (Some (mkA 10 2)) (Some (mkA 5000 2)) None None] [] []]
            [] [] [] [] [] None).
  split; [reflexivity|]. vm_compute. discriminate.
Qed.
Print Assumptions invert_shipped_refuted.

(* row order: the accumulator is commutative, each line is calculated on its own *)
Theorem accumulation_is_order_independent cr s x y : acc_rr cr (acc_rr cr s x) y = acc_rr cr (acc_rr cr s y) x.
Proof. exact (acc_rr_comm cr s x y). Qed.
Print Assumptions accumulation_is_order_independent.

Theorem document_sum_and_line_figures_independent_of_line_order cr c cur rates ls ls' lcs :
  Permutation ls ls' -> calc_lines cr c cur rates ls = Some lcs ->
  exists lcs', calc_lines cr c cur rates ls' = Some lcs' /\ Permutation lcs lcs' /\
               fold_left acc (map lc_total lcs') (zero_of c) = fold_left acc (map lc_total lcs) (zero_of c).
Proof. exact (document_sum_independent_of_line_order cr c cur rates ls ls' lcs). Qed.
Print Assumptions document_sum_and_line_figures_independent_of_line_order.

Theorem discount_charge_advance_totals_independent_of_row_order c xs ys :
  Permutation xs ys -> sum_opt c xs = sum_opt c ys.
Proof. exact (row_totals_independent_of_order c xs ys). Qed.
Print Assumptions discount_charge_advance_totals_independent_of_row_order.

(* tax side (partial): the total base every category receives is independent of row order, under either
   rule (corollary of C02's partition theorem).  sumQ_bases / base_totals: Calc/TaxProofs.v, Calc/Calc.v *)
Theorem category_tax_base_independent_of_row_order cr c cat tls tls' :
  Permutation tls tls' ->
  (sumQ_bases cat (base_totals cr c tls) == sumQ_bases cat (base_totals cr c tls'))%Q.
Proof. exact (category_base_independent_of_row_order cr c cat tls tls'). Qed.
Print Assumptions category_tax_base_independent_of_row_order.
(* NOT PROVED (kept visible): invariance of the individual tax groups under row permutation
     Permutation tls tls' -> base_totals cr c tls' is base_totals cr c tls up to the order of categories
     and groups and up to the textual precision of a group's percentage (first-fit grouping takes the
     text of the first row).  Covered by the relational harness (tools/props/c17.py) only. *)

(* RemoveIncludedTaxes: "payable equals the original total with tax" is FALSE of the faithful model
   (the residue is computed from presented totals but added to the unrounded total) - known finding *)
Theorem remove_included_taxes_payable_refuted :
  exists d t0 t, calculate d = Totals t0 /\ remove_included_taxes d = RitDone t /\
                 equals (t_payable t) (t_twt t0) = false.
Proof.
  exists (mkDoc 0 false (bs "VAT") 1
            [mkLine (mkA 5 1) (mkItem (mkA 157878 0) None []) [] [] [] []]
            []
            [mkDdc (mkA 0 0) (Some (mkA 125 3)) (Some (mkA 13592 0)) [mkCombo (bs "VAT") [] [] (Some (mkA 6 2)) None false []];
             mkDdc (mkA 6105 0) None None [mkCombo (bs "VAT") [] [] (Some (mkA 24 2)) None false []]]
            [] [] [] None).
  eexists. eexists. split; [vm_compute; reflexivity|]. split; [vm_compute; reflexivity|]. vm_compute. reflexivity.
Qed.
Print Assumptions remove_included_taxes_payable_refuted.

(* non-vacuity: a document with ties, a discount with base and a rate charge with explicit quantity *)
Example negation_example :
  let d := mkDoc 2 false [] 1
             [mkLine (mkA 5 1) (mkItem (mkA 1005 2) None []) []
                     [mkLdc (mkA 0 0) (Some (mkA 10 2)) (Some (mkA 5000 2)) None None]
                     [mkLdc (mkA 0 0) None None (Some (mkA 125 3)) (Some (mkA 3 0))]
                     [mkCombo (bs "VAT") [] [] (Some (mkA 210 3)) None false []]]
             [] [] [] [] [] None in
  exists t, calculate d = Totals t /\ t_payable t = mkA 48 2 /\
            calculate (invert_doc d) = Totals (totals_neg t).
Proof. cbv zeta. eexists. split; [vm_compute; reflexivity|]. split; vm_compute; reflexivity. Qed.
