(* C17 - Totals are symmetric under negation and independent of line order.
   Property theorems only (proofs in Calc/NegProofs.v, Calc/PermProofs.v, Calc/PermTaxProofs.v, Calc/RitProofs.v); vocabulary in
   Calc/Symmetry.v (neg_doc, invert_doc, invert, remove_included_taxes, strip_doc, rit_document, as_input) and
   Calc/NegSpec.v (result_neg, totals_neg).  Both rounding rules, every document. *)
From Coq Require Import ZArith QArith List Bool String Permutation SetoidList SetoidPermutation.
From Verif Require Import Base.Wire Base.Rha Base.RhaProofs Num.Amount Calc.Doc Calc.Calc Calc.Merge Calc.Symmetry
  Calc.NegSpec Calc.NegProofs Calc.PermProofs Calc.TaxProofs Calc.PermTaxProofs Calc.FixpointGenProofs Calc.RitProofs.
Import ListNotations.
Open Scope Z_scope.

(* rounding half away from zero is an odd function: the root of the symmetry *)
Theorem rounding_is_odd n d : 0 < d -> rha (- n) d = - rha n d.
Proof. exact (rha_neg n d). Qed.
Print Assumptions rounding_is_odd.

(* negating every signed input (quantities, fixed amounts, bases, charge quantities, advances, due
   amounts, rounding) negates every line total, tax amount and document total - and nothing else *)
Theorem calculation_commutes_with_negation d : calculate (neg_doc d) = result_neg (calculate d).
Proof. exact (calculate_negate d). Qed.
Print Assumptions calculation_commutes_with_negation.

Theorem negating_twice_restores d : neg_doc (neg_doc d) = d /\ calculate (neg_doc (neg_doc d)) = calculate d.
Proof. exact (conj (neg_doc_involutive d) (f_equal calculate (neg_doc_involutive d))). Qed.
Print Assumptions negating_twice_restores.

(* Invoice.Invert (invert_doc: like neg_doc but due-date amounts are kept and the stored totals,
   are dropped, an external rounding is kept negated): the recalculated figures are exactly the negated ones *)
Theorem invert_produces_negated_figures d :
  drop_dues (calculate (invert_doc d)) = drop_dues (result_neg (calculate d)).
Proof. exact (invert_doc_negates d). Qed.
Print Assumptions invert_produces_negated_figures.

(* ... so Invert succeeds (its payable check passes) whenever re-reading the calculated document is a
   fixpoint for payable - C04, which fails only for fixed amounts with excess decimals *)
Theorem invert_succeeds_on_fixpoints d t0 d1 t1 :
  calculate d = Totals t0 -> as_input d = Some d1 ->
  calculate d1 = Totals t1 -> t_payable t1 = t_payable t0 ->
  exists t2, invert d = Inverted t2 /\ drop_dues (Totals t2) = drop_dues (Totals (totals_neg t1)).
Proof. exact (invert_succeeds d t0 d1 t1). Qed.
Print Assumptions invert_succeeds_on_fixpoints.

(* the behaviour before the repair (bases and explicit charge quantities not negated): refuted *)
Theorem invert_shipped_refuted :
  exists d, drop_dues (calculate (invert_doc_shipped d)) <> drop_dues (result_neg (calculate d)).
Proof.
  exists (mkDoc 2 false [] 1
            [mkLine (mkA 1 0) (mkItem (mkA 10000 2) None []) []
                    [mkLdc (mkA 0 0) (Some (mkA 10 2)) (Some (mkA 5000 2)) None None] [] []]
            [] [] [] [] [] None).
  vm_compute. discriminate.
Qed.
Print Assumptions invert_shipped_refuted.

(* row order: the accumulator is commutative, each line is calculated on its own *)
Theorem accumulation_is_order_independent cr s x y : acc_rr cr (acc_rr cr s x) y = acc_rr cr (acc_rr cr s y) x.
Proof. exact (acc_rr_comm cr s x y). Qed.
Print Assumptions accumulation_is_order_independent.

Theorem document_sum_and_line_figures_independent_of_line_order cr c cur rates ls ls' lcs :
  Permutation ls ls' -> calc_lines cr c cur rates ls = Some lcs ->
  exists lcs', calc_lines cr c cur rates ls' = Some lcs' /\ Permutation lcs lcs' /\
               fold_left acc (map lc_total lcs') (zero_of c) = fold_left acc (map lc_total lcs) (zero_of c).
Proof. exact (document_sum_independent_of_line_order cr c cur rates ls ls' lcs). Qed.
Print Assumptions document_sum_and_line_figures_independent_of_line_order.

Theorem discount_charge_advance_totals_independent_of_row_order c xs ys :
  Permutation xs ys -> sum_opt c xs = sum_opt c ys.
Proof. exact (row_totals_independent_of_order c xs ys). Qed.
Print Assumptions discount_charge_advance_totals_independent_of_row_order.

(* tax side (partial): the total base every category receives is independent of row order, under either
   rule (corollary of C02's partition theorem).  sumQ_bases / base_totals: Calc/TaxProofs.v, Calc/Calc.v *)
Theorem category_tax_base_independent_of_row_order cr c cat tls tls' :
  Permutation tls tls' ->
  (sumQ_bases cat (base_totals cr c tls) == sumQ_bases cat (base_totals cr c tls'))%Q.
Proof. exact (category_base_independent_of_row_order cr c cat tls tls'). Qed.
Print Assumptions category_tax_base_independent_of_row_order.
(* tax side (complete): vocabulary in Calc/PermTaxProofs.v -
     cat_rates code cts   the rate groups of the category with that code ([] when absent)
     geqv g h             groups of the same class (country, extensions, percentage and surcharge equal as
                          rationals) with equal base, amount and surcharge amount; the informational key and
                          the TEXT of the percentage (21% / 21.0%) are those of the first row seen and are
                          not compared
     ceqv ct ct'          categories with equal code, retention flag, amount, surcharge and precise amount,
                          and PermutationA geqv rate groups
     PermutationA         permutation up to the given equivalence (Coq.Lists.SetoidPermutation)
     retained_consistent  combos of the same category agree on `retained` (in the implementation the flag is
                          copied from the regime's category definition; the category's flag is taken from
                          the first combo seen, so this hypothesis is needed for the flag and the tax sum) *)
Theorem tax_groups_of_a_category_independent_of_row_order cr c code tls tls' :
  Permutation tls tls' ->
  PermutationA geqv (cat_rates code (base_totals cr c tls)) (cat_rates code (base_totals cr c tls')).
Proof. exact (category_groups_independent_of_row_order cr c code tls tls'). Qed.
Print Assumptions tax_groups_of_a_category_independent_of_row_order.

(* the calculated and presented categories are the same up to order (of categories, and of the groups in
   each), and the precise tax sum is identical *)
Theorem tax_summary_and_tax_sum_independent_of_row_order cr c tls tls' :
  Permutation tls tls' -> retained_consistent tls ->
  let cats := map (ct_round c) (map (ct_calc cr c) (base_totals cr c tls)) in
  let cats' := map (ct_round c) (map (ct_calc cr c) (base_totals cr c tls')) in
  PermutationA ceqv cats cats' /\
  fold_left (sum_step cr) (map (ct_calc cr c) (base_totals cr c tls)) (zero_of c) =
  fold_left (sum_step cr) (map (ct_calc cr c) (base_totals cr c tls')) (zero_of c).
Proof. exact (tax_summary_independent_of_row_order cr c tls tls'). Qed.
Print Assumptions tax_summary_and_tax_sum_independent_of_row_order.

(* ... and the hypothesis cannot be dropped: without it the sign of the tax sum depends on row order *)
Theorem tax_sum_independent_of_row_order_without_retention_hypothesis_refuted :
  exists cr c tls tls', Permutation tls tls' /\
    fold_left (sum_step cr) (map (ct_calc cr c) (base_totals cr c tls)) (zero_of c) <>
    fold_left (sum_step cr) (map (ct_calc cr c) (base_totals cr c tls')) (zero_of c).
Proof. exact tax_sum_without_consistent_retention_refuted. Qed.
Print Assumptions tax_sum_independent_of_row_order_without_retention_hypothesis_refuted.

(* the same without the up-to-order vocabulary: for every category code and every query combo q, the group
   q falls into has the same base, amount and surcharge amount (or is absent in both) *)
Theorem tax_group_figures_independent_of_row_order cr c tls tls' code q :
  Permutation tls tls' ->
  let cats := map (ct_round c) (map (ct_calc cr c) (base_totals cr c tls)) in
  let cats' := map (ct_round c) (map (ct_calc cr c) (base_totals cr c tls')) in
  option_map group_figures (find_group q (cat_rates code cats)) =
  option_map group_figures (find_group q (cat_rates code cats')).
Proof. exact (group_figures_independent_of_row_order cr c tls tls' code q). Qed.
Print Assumptions tax_group_figures_independent_of_row_order.

(* the whole calculation: reordering the lines, the document discounts and the document charges
   (reorder d ls ds cs = d with these three lists replaced) gives the same outcome - an error in both, or
   in both the same totals: every figure identical, the lists of lines / presented discounts / presented
   charges permuted, the tax categories PermutationA ceqv (totals_same_up_to_order) *)
Theorem calculation_independent_of_row_order d ls ds cs :
  Permutation (d_lines d) ls -> Permutation (d_discounts d) ds -> Permutation (d_charges d) cs ->
  doc_retained_consistent d ->
  result_same_up_to_order (calculate d) (calculate (reorder d ls ds cs)).
Proof. exact (calculate_independent_of_row_order d ls ds cs). Qed.
Print Assumptions calculation_independent_of_row_order.

Theorem document_totals_independent_of_row_order d ls ds cs t :
  Permutation (d_lines d) ls -> Permutation (d_discounts d) ds -> Permutation (d_charges d) cs ->
  doc_retained_consistent d -> calculate d = Totals t ->
  exists t', calculate (reorder d ls ds cs) = Totals t' /\
    Permutation (t_lines t) (t_lines t') /\
    t_sum t = t_sum t' /\ t_discount t = t_discount t' /\ t_charge t = t_charge t' /\
    t_tax_included t = t_tax_included t' /\ t_total t = t_total t' /\ t_tax t = t_tax t' /\
    t_twt t = t_twt t' /\ t_payable t = t_payable t' /\ t_advances t = t_advances t' /\ t_due t = t_due t' /\
    Permutation (t_dd t) (t_dd t') /\ Permutation (t_cc t) (t_cc t') /\
    t_adv_rows t = t_adv_rows t' /\ t_dues t = t_dues t' /\
    PermutationA ceqv (t_cats t) (t_cats t') /\
    t_taxsum t = t_taxsum t' /\ t_taxsum_precise t = t_taxsum_precise t' /\ t_rounding t = t_rounding t'.
Proof. exact (totals_independent_of_row_order d ls ds cs t). Qed.
Print Assumptions document_totals_independent_of_row_order.

(* non-vacuity, and why "up to order" and "up to the text of the percentage" cannot be dropped: two lines
   (retained IRPF 15% + VAT 21.0%; VAT 21%) and a charge (VAT 10%), swapped - same figures, but the
   categories come out in the other order and the 21% group carries the other text *)
Example reorder_example :
  let l1 := mkLine (mkA 3 0) (mkItem (mkA 1005 2) None []) [] [] []
              [mkCombo (bs "IRPF") [] [] (Some (mkA 15 2)) None true [];
               mkCombo (bs "VAT") [] [] (Some (mkA 210 3)) None false []] in
  let l2 := mkLine (mkA 1 0) (mkItem (mkA 999 2) None []) [] [] []
              [mkCombo (bs "VAT") [] [] (Some (mkA 21 2)) None false []] in
  let ch := mkDdc (mkA 500 2) None None [mkCombo (bs "VAT") [] [] (Some (mkA 10 2)) None false []] in
  let d := mkDoc 2 false [] 1 [l1; l2] [] [ch] [] [] [] None in
  doc_retained_consistent d /\ Permutation (d_lines d) [l2; l1] /\
  exists t t', calculate d = Totals t /\ calculate (reorder d [l2; l1] [] [ch]) = Totals t' /\
               t_payable t = t_payable t' /\ t_cats t <> t_cats t' /\
               map ct_code (t_cats t) = [bs "IRPF"; bs "VAT"] /\ map ct_code (t_cats t') = [bs "VAT"; bs "IRPF"] /\
               map (map rt_pct) (map ct_rates (t_cats t)) <> map (map rt_pct) (map ct_rates (t_cats t')).
Proof.
  cbv zeta. split; [|split].
  - intros cb cb' I1 I2. cbn in I1, I2.
    destruct I1 as [<-|[<-|[<-|[<-|[]]]]], I2 as [<-|[<-|[<-|[<-|[]]]]]; cbn; intros E; try reflexivity; discriminate E.
  - apply perm_swap.
  - eexists. eexists. split; [vm_compute; reflexivity|]. split; [vm_compute; reflexivity|].
    split; [vm_compute; reflexivity|]. split; [vm_compute; discriminate|].
    split; [vm_compute; reflexivity|]. split; [vm_compute; reflexivity|]. vm_compute. discriminate.
Qed.

(* ---- RemoveIncludedTaxes (remove_included_taxes d; d1 = the calculated document it finds, strip_doc pit d1 =
   the document it calculates after taking the tax out of prices and fixed amounts, t1 its totals).
   Since the repair C17-rit-not-a-fixpoint document discounts / charges are stripped at the precision they are
   presented with (ddc_strip); the earlier behaviour is kept as remove_included_taxes_shipped.

   Payable after the removal IS the original total with tax (the difference is what totals.rounding records),
   and the total with tax shown is that of the stripped document, whenever
     - the stripped document has no fixed amount with more decimals than it is presented with (no_excess_doc,
       Calc/FixpointGenProofs.v: C04's hypothesis, under which it re-reads to itself), and
     - same_strict_sign_or_zero: the original and the stripped total with tax are both positive, both negative,
       or the stripped one is zero.
   The residue is what totals.rounding presents (none when the two totals with tax agree), and
   payable_is_twt_plus_rounding t: t_payable t = t_twt t + t_rounding t (t_twt t when there is none). ---- *)
Theorem remove_included_taxes_payable d t0 d1 t1 t :
  d_pit d <> [] -> calculate d = Totals t0 -> as_input d = Some d1 ->
  calculate (strip_doc (d_pit d) d1) = Totals t1 ->
  no_excess_doc (strip_doc (d_pit d) d1) ->
  same_strict_sign_or_zero (t_twt t0) (t_twt t1) ->
  remove_included_taxes d = RitDone t ->
  t_payable t = t_twt t0 /\ t_twt t = t_twt t1 /\
  t_rounding t = (if equals (t_twt t0) (t_twt t1) then None else Some (sub (t_twt t0) (t_twt t1))) /\
  payable_is_twt_plus_rounding t.
Proof. exact (rit_payable d t0 d1 t1 t). Qed.
Print Assumptions remove_included_taxes_payable.

(* the same for either way of stripping the document rows, from the fixpoint itself instead of no_excess_doc *)
Theorem remove_included_taxes_payable_when_stripped_document_is_a_fixpoint ds d t0 d1 t1 t :
  d_pit d <> [] -> calculate d = Totals t0 -> as_input d = Some d1 ->
  calculate (strip_doc_with ds (d_pit d) d1) = Totals t1 ->
  (forall d3, as_input (strip_doc_with ds (d_pit d) d1) = Some d3 -> calculate d3 = calculate (strip_doc_with ds (d_pit d) d1)) ->
  same_strict_sign_or_zero (t_twt t0) (t_twt t1) ->
  remove_included_taxes_with ds d = RitDone t ->
  t_payable t = t_twt t0 /\ t_twt t = t_twt t1 /\
  t_rounding t = (if equals (t_twt t0) (t_twt t1) then None else Some (sub (t_twt t0) (t_twt t1))) /\
  payable_is_twt_plus_rounding t.
Proof. exact (rit_payable_with ds d t0 d1 t1 t). Qed.
Print Assumptions remove_included_taxes_payable_when_stripped_document_is_a_fixpoint.

(* the first hypothesis, for the document rows, is what the repair establishes: whatever the calculated rows
   are, a fixed document discount / charge without base comes out of ddc_strip within the currency's precision *)
Theorem stripped_document_rows_have_no_excess_decimals c pit x a :
  (opt_nonzero (dd_pct x) = None -> dd_base x = None) ->
  ddc_no_excess c (ddc_strip pit (ddc_as_input x (present_ddc c x a))).
Proof. exact (ddc_strip_no_excess c pit x a). Qed.
Print Assumptions stripped_document_rows_have_no_excess_decimals.

(* ... which the earlier stripping (two extra decimals) did not: 0.38 with 21% included became 0.3140 *)
Theorem stripped_document_rows_shipped_refuted :
  exists c pit x a, (opt_nonzero (dd_pct x) = None -> dd_base x = None) /\
    ~ ddc_no_excess c (ddc_strip_shipped pit (ddc_as_input x (present_ddc c x a))).
Proof. exact ddc_strip_shipped_excess. Qed.
Print Assumptions stripped_document_rows_shipped_refuted.

(* the witness of the repaired defect (ES, prices include VAT, precise rule; 3 x 1.00 at 21%, 7 x 1.37 at 10%,
   discount 0.38 at 21%): hypotheses satisfied, payable 12.21 = original total with tax, total with tax 12.22;
   and calculating the returned document again gives the same totals *)
Example remove_included_taxes_example :
  let vat p := [mkCombo (bs "VAT") [] [] (Some (mkA p 3)) None false []] in
  let d := mkDoc 2 false (bs "VAT") 3
             [mkLine (mkA 3 0) (mkItem (mkA 100 2) None []) [] [] [] (vat 210);
              mkLine (mkA 7 0) (mkItem (mkA 137 2) None []) [] [] [] (vat 100)]
             [mkDdc (mkA 38 2) None None (vat 210)] [] [] [] [] None in
  exists t0 d1 t1 t d',
    d_pit d <> [] /\ calculate d = Totals t0 /\ as_input d = Some d1 /\
    calculate (strip_doc (d_pit d) d1) = Totals t1 /\ no_excess_doc (strip_doc (d_pit d) d1) /\
    same_strict_sign_or_zero (t_twt t0) (t_twt t1) /\ remove_included_taxes d = RitDone t /\
    t_twt t0 = mkA 1221 2 /\ t_payable t = mkA 1221 2 /\ t_twt t = mkA 1222 2 /\ t_rounding t = Some (mkA (-1) 2) /\
    rit_document d = Some d' /\ calculate d' = Totals t.
Proof. exact rit_example. Qed.

(* the earlier behaviour on the same document: the returned document is NOT a fixpoint (total 10.88 becomes
   10.89, payable 12.21 becomes 12.22 when it is calculated again) *)
Theorem remove_included_taxes_shipped_fixpoint_refuted :
  exists d t d' t', remove_included_taxes_shipped d = RitDone t /\ rit_document_shipped d = Some d' /\
                    calculate d' = Totals t' /\ t_total t <> t_total t' /\ t_payable t <> t_payable t'.
Proof. exact rit_shipped_not_fixpoint. Qed.
Print Assumptions remove_included_taxes_shipped_fixpoint_refuted.

(* ... and its payable could miss the original total with tax by a minor unit (the former witness of
   C17-rit-residue: the stripped charge 6105 / 1.24 = 4923.39 is presented, and recalculated, as 4923) *)
Theorem remove_included_taxes_shipped_payable_refuted :
  exists d t0 t, calculate d = Totals t0 /\ remove_included_taxes_shipped d = RitDone t /\
                 equals (t_payable t) (t_twt t0) = false.
Proof.
  exists (mkDoc 0 false (bs "VAT") 1
            [mkLine (mkA 5 1) (mkItem (mkA 157878 0) None []) [] [] [] []]
            []
            [mkDdc (mkA 0 0) (Some (mkA 125 3)) (Some (mkA 13592 0)) [mkCombo (bs "VAT") [] [] (Some (mkA 6 2)) None false []];
             mkDdc (mkA 6105 0) None None [mkCombo (bs "VAT") [] [] (Some (mkA 24 2)) None false []]]
            [] [] [] None).
  eexists. eexists. split; [vm_compute; reflexivity|]. split; [vm_compute; reflexivity|]. vm_compute. reflexivity.
Qed.
Print Assumptions remove_included_taxes_shipped_payable_refuted.

(* FULL STATEMENT "payable equals the original total with tax" is still FALSE of the faithful model, exactly
   outside the sign hypothesis: the residue is a whole number of minor units added BEFORE rounding, and
   rounding half away from zero is not invariant under a shift that crosses zero.  JPY, 1 x 3 at 0%,
   discount 3 at 25% included: original total with tax 0; stripped: 3.00 - 2 - 0.50 = 0.50, presented as 1;
   residue -1; payable = round(0.50 - 1) = -1.  Known finding C17-rit-residue. *)
Theorem remove_included_taxes_payable_refuted :
  exists d t0 t, calculate d = Totals t0 /\ remove_included_taxes d = RitDone t /\
                 equals (t_payable t) (t_twt t0) = false.
Proof.
  exists (mkDoc 0 false (bs "VAT") 5
            [mkLine (mkA 1 0) (mkItem (mkA 3 0) None []) [] [] [] [mkCombo (bs "VAT") [] [] (Some (mkA 0 2)) None false []]]
            [mkDdc (mkA 3 0) None None [mkCombo (bs "VAT") [] [] (Some (mkA 25 2)) None false []]]
            [] [] [] [] None).
  eexists. eexists. split; [vm_compute; reflexivity|]. split; [vm_compute; reflexivity|]. vm_compute. reflexivity.
Qed.
Print Assumptions remove_included_taxes_payable_refuted.

(* the arithmetic behind it *)
Theorem residue_added_before_rounding_restores_the_target n d T : 0 < d ->
  (0 < T /\ 0 < rha n d) \/ (T < 0 /\ rha n d < 0) \/ rha n d = 0 ->
  rha (n + (T - rha n d) * d) d = T.
Proof. exact (rha_retarget n d T). Qed.
Print Assumptions residue_added_before_rounding_restores_the_target.

Theorem residue_added_before_rounding_without_sign_hypothesis_refuted : rha (5 + (0 - rha 5 10) * 10) 10 <> 0.
Proof. exact rha_retarget_refuted. Qed.
Print Assumptions residue_added_before_rounding_without_sign_hypothesis_refuted.

(* non-vacuity: a document with ties, a discount with base and a rate charge with explicit quantity *)
Example negation_example :
  let d := mkDoc 2 false [] 1
             [mkLine (mkA 5 1) (mkItem (mkA 1005 2) None []) []
                     [mkLdc (mkA 0 0) (Some (mkA 10 2)) (Some (mkA 5000 2)) None None]
                     [mkLdc (mkA 0 0) None None (Some (mkA 125 3)) (Some (mkA 3 0))]
                     [mkCombo (bs "VAT") [] [] (Some (mkA 210 3)) None false []]]
             [] [] [] [] [] None in
  exists t, calculate d = Totals t /\ t_payable t = mkA 48 2 /\
            calculate (invert_doc d) = Totals (totals_neg t).
Proof. cbv zeta. eexists. split; [vm_compute; reflexivity|]. split; vm_compute; reflexivity. Qed.
