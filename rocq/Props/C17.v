(* C17 - placeholder replaced by the real statements (kept compiling at every commit). *)
From Coq Require Import ZArith.
From Verif Require Import Num.Amount Base.RhaProofs Base.Rha.
Open Scope Z_scope.
Theorem rounding_is_odd n d : 0 < d -> rha (- n) d = - rha n d.
Proof. exact (rha_neg n d). Qed.
Print Assumptions rounding_is_odd.
