(* C03 - Under currency rounding every presented amount re-adds exactly.
   Property theorems only.  The vocabulary (currency_doc_wf, currency_identities, line_out_readds,
   ct_readds, rt_readds, signed_sum ...) is defined, without proofs, in Calc/CurrencySpec.v; the model
   `calculate` is Calc/Calc.v, tied to bill/*.go and tax/*.go by the correspondence checks of C01/C03.

   currency_doc_wf d      = the 'currency' rule applies; items priced in the document currency declare
                            its subunits; FIXED advance amounts are supplied at the currency's precision
                            - the hypothesis the property states.  Nothing is asked of a supplied
                            totals.rounding: it is presented at the currency's decimals and that figure is
                            what payable adds (repair recorded in findings/C03.json; before it the clause
                            `payable = total_with_tax + rounding` needed the rounding at currency precision).
   currency_identities d t = for c = the currency's decimals, as integers at exponent c:
     every line: total = sum - discounts + charges;  sum = sum of line totals;
     total = sum - discount + charge - tax_included;
     every rate group: amount = rha(base * percent), surcharge likewise, exempt groups 0;
     category amount = sum of its groups, category surcharge = sum of its groups' surcharges;
     tax sum = ordinary categories - retained ones (surcharges included); totals.tax = tax sum;
     total_with_tax = total + tax;  payable = total_with_tax + rounding (the PRESENTED totals.rounding,
     t_rounding, itself at exponent c);  due = payable - advances,
     advances = sum of advance rows;  and no figure carries more decimals than the currency. *)
From Coq Require Import ZArith List Bool String.
From Verif Require Import Base.Wire Base.Rha Num.Amount Calc.Doc Calc.Calc Calc.CurrencySpec Calc.CurrencyProofs.
Import ListNotations.
Open Scope Z_scope.

Theorem currency_rule_every_presented_amount_readds d t :
  currency_doc_wf d -> calculate d = Totals t -> currency_identities d t.
Proof. exact (currency_rule_readds d t). Qed.
Print Assumptions currency_rule_every_presented_amount_readds.

(* the presented totals.rounding is the supplied one rounded half away from zero to the currency *)
Theorem currency_rule_presented_rounding d t :
  currency_doc_wf d -> calculate d = Totals t ->
  t_rounding t = match d_rounding d with Some r => Some (rescale r (d_c d)) | None => None end.
Proof. exact (currency_rule_rounding d t). Qed.
Print Assumptions currency_rule_presented_rounding.

(* the line clause on its own: it needs no hypothesis on discounts/charges at all, because line
   discount and charge amounts follow the rounding rule (repair recorded in findings/C03.json) *)
Theorem currency_rule_line_total_readds c cur rates l lc :
  item_wf cur c (ln_item l) -> calc_line true c cur rates l = Some lc ->
  line_readds c (lc_price lc) (lc_sum lc) (lc_total lc) (lc_ds lc) (lc_cs lc).
Proof. exact (calc_line_currency c cur rates l lc). Qed.
Print Assumptions currency_rule_line_total_readds.

(* each rate amount is its percentage of its base, rounded half away from zero to the currency *)
Theorem currency_rule_rate_amounts c ct : ct_at c ct -> ct_readds c (ct_calc true c ct).
Proof. exact (ct_calc_currency c ct). Qed.
Print Assumptions currency_rule_rate_amounts.

(* non-vacuity: a document with a tie (0.125 x 3 = 0.375 -> 0.38), a tax and an advance meets the
   hypotheses and calculates *)
Example hypotheses_are_satisfiable :
  let d := mkDoc 2 true [] 1
             [mkLine (mkA 1 0) (mkItem (mkA 1000 2) None []) [] []
                     [mkLdc (mkA 0 0) None None (Some (mkA 125 3)) (Some (mkA 3 0))]
                     [mkCombo (bs "VAT"%string) [] [] (Some (mkA 210 3)) None false []]]
             [] [] [] [mkProw (mkA 100 2) None] [] None in
  currency_doc_wf d /\
  exists t, calculate d = Totals t /\ t_payable t = mkA 1256 2 /\ t_due t = Some (mkA 1156 2).
Proof.
  cbv zeta. split.
  - unfold currency_doc_wf. cbn. repeat split; repeat constructor; cbn; intros; auto.
  - eexists. split; [vm_compute; reflexivity|]. split; reflexivity.
Qed.

(* the witness of the repair: EUR, 2 x 100.00 at 21% VAT, supplied totals.rounding 0.005 (three decimals):
   inside the hypotheses, presented rounding 0.01, payable 242.01 = 242.00 + 0.01 *)
Example rounding_with_more_decimals_than_the_currency :
  let d := mkDoc 2 true [] 1
             [mkLine (mkA 2 0) (mkItem (mkA 10000 2) None []) [] [] []
                     [mkCombo (bs "VAT"%string) [] [] (Some (mkA 210 3)) None false []]]
             [] [] [] [] [] (Some (mkA 5 3)) in
  currency_doc_wf d /\
  exists t, calculate d = Totals t /\ t_twt t = mkA 24200 2 /\ t_rounding t = Some (mkA 1 2) /\ t_payable t = mkA 24201 2.
Proof.
  cbv zeta. split.
  - unfold currency_doc_wf. cbn. repeat split; repeat constructor; cbn; intros; auto.
  - eexists. split; [vm_compute; reflexivity|]. repeat split; reflexivity.
Qed.
