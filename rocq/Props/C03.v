(* C03 - placeholder replaced by the real statements (kept compiling at every commit). *)
From Coq Require Import ZArith.
From Verif Require Import Num.Amount Num.AmountProofs.
Theorem same_precision_rescale_is_identity a : rescale a (exp a) = a.
Proof. exact (rescale_same a (exp a) eq_refl). Qed.
Print Assumptions same_precision_rescale_is_identity.
