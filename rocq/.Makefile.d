Base/Wire.vo Base/Wire.glob Base/Wire.v.beautified Base/Wire.required_vo: Base/Wire.v 
Base/Wire.vio: Base/Wire.v 
Base/Wire.vos Base/Wire.vok Base/Wire.required_vos: Base/Wire.v 
Base/Rha.vo Base/Rha.glob Base/Rha.v.beautified Base/Rha.required_vo: Base/Rha.v 
Base/Rha.vio: Base/Rha.v 
Base/Rha.vos Base/Rha.vok Base/Rha.required_vos: Base/Rha.v 
Base/RhaProofs.vo Base/RhaProofs.glob Base/RhaProofs.v.beautified Base/RhaProofs.required_vo: Base/RhaProofs.v Base/Rha.vo
Base/RhaProofs.vio: Base/RhaProofs.v Base/Rha.vio
Base/RhaProofs.vos Base/RhaProofs.vok Base/RhaProofs.required_vos: Base/RhaProofs.v Base/Rha.vos
Base/Int64.vo Base/Int64.glob Base/Int64.v.beautified Base/Int64.required_vo: Base/Int64.v 
Base/Int64.vio: Base/Int64.v 
Base/Int64.vos Base/Int64.vok Base/Int64.required_vos: Base/Int64.v 
Num/Amount.vo Num/Amount.glob Num/Amount.v.beautified Num/Amount.required_vo: Num/Amount.v Base/Rha.vo
Num/Amount.vio: Num/Amount.v Base/Rha.vio
Num/Amount.vos Num/Amount.vok Num/Amount.required_vos: Num/Amount.v Base/Rha.vos
Num/AmountProofs.vo Num/AmountProofs.glob Num/AmountProofs.v.beautified Num/AmountProofs.required_vo: Num/AmountProofs.v Base/Rha.vo Base/RhaProofs.vo Num/Amount.vo
Num/AmountProofs.vio: Num/AmountProofs.v Base/Rha.vio Base/RhaProofs.vio Num/Amount.vio
Num/AmountProofs.vos Num/AmountProofs.vok Num/AmountProofs.required_vos: Num/AmountProofs.v Base/Rha.vos Base/RhaProofs.vos Num/Amount.vos
