(* C18 - validated documents only reference defined codes, keys and rates.

   This file has
   (a) the REFERENCE VIEW of a document ([doc_refs]): every code, key and rate the typed Go document
       carries that points into the definition tables - written by harness/c18.go by reflection over
       the Go structures (tax.Regime, tax.Addons, tax.Tags, every tax.Combo, every tax.Extensions map,
       every currency.Code, every l10n.ISOCountryCode / l10n.TaxCountryCode);
   (b) the reference-checking rules TRANSCRIBED from the Go validators, as boolean functions over the
       definition tables ([validate_refs_gen]); the rule set is an argument so that both the code as
       shipped ([shipped_rules]: `$regime` and a combo's `country` are never looked up) and the code
       after the proposed repairs ([repaired_rules]) are models;
   (c) the declarative side ([ref], [refs], [resolves]): what it means for each kind of reference to
       resolve in a set of published definitions, written from the property text;
   (d) a matcher for the fixed-shape regular expressions the extension definitions declare
       ([simple_match]); the rules and statements take the matcher as a Section variable [mp] (Go
       calls regexp.MatchString), the runner instantiates it with [simple_match].
   Model file: no proofs here (Defs/RefCheckProofs.v). *)
From Coq Require Import List ZArith Bool Strings.Byte String.
From Verif Require Import Base.Wire Defs.DefTypes Defs.DefEq.
Import ListNotations.
Open Scope Z_scope.

(* ---------------------------------------------------------------------------------------------- *)
(* definition tables                                                                               *)
(* ---------------------------------------------------------------------------------------------- *)

(* what is registered (in the code) or published (under data/): only membership matters *)
Record defs := mkDefs {
  df_regimes : list regime;
  df_addons : list addon;
  df_catalogues : list catalogue;
  df_currencies : list str;          (* currency.Definitions(): ISO codes *)
  df_iso_countries : list str;       (* l10n.Countries().ISO() *)
  df_tax_countries : list str        (* l10n.Countries().Tax() *)
}.

(* tax.RegisterExtension is called for every extension of every regime, addon and catalogue *)
Definition ext_defs (d : defs) : list keydef :=
  flat_map rg_extensions (df_regimes d) ++ flat_map ad_extensions (df_addons d) ++
  flat_map cg_extensions (df_catalogues d).

(* ---------------------------------------------------------------------------------------------- *)
(* the reference view of a document                                                                *)
(* ---------------------------------------------------------------------------------------------- *)

(* tax.Combo: category, rate key ("" = none), country override ("" = none), extension pairs *)
Record combo_ref := mkComboRef {
  cr_path : str; cr_cat : str; cr_rate : str; cr_country : str; cr_ext : kvs }.
(* one entry of a tax.Extensions map and where the map sits in the document *)
Record ext_ref := mkExtRef { er_path : str; er_key : str; er_value : str }.
Record currency_ref := mkCurrencyRef { ur_path : str; ur_code : str }.
(* l10n.ISOCountryCode field | l10n.TaxCountryCode field | `$regime` of an embedded party |
   `country` of a tax.Combo *)
Inductive country_kind := CkISO | CkTax | CkRegime | CkCombo.
Record country_ref := mkCountryRef { kr_path : str; kr_kind : country_kind; kr_code : str }.

Record doc_refs := mkDocRefs {
  r_regime : str;                    (* `$regime`, "" = none *)
  r_addons : list str;               (* `$addons` *)
  r_schema : str;                    (* short schema name: "bill/invoice" *)
  r_tags : list str;                 (* `$tags` *)
  r_combos : list combo_ref;
  r_exts : list ext_ref;             (* every extension map that is not a combo's *)
  r_currencies : list currency_ref;
  r_countries : list country_ref
}.

(* ---------------------------------------------------------------------------------------------- *)
(* fixed-shape regular expressions (extension `pattern`)                                           *)
(* ---------------------------------------------------------------------------------------------- *)
(* Supported: ^ item* $ with item = atom, atom?, atom{n};  atom = \d | \s | \<char> | [class] |
   plain character; class members: \d \s \<char> a-b plain.  Anything else: not supported ([None]).
   Go: regexp.MatchString (RE2 syntax, `$` = end of text, unanchored unless the pattern says so). *)

Definition cls := list (Z * Z).                       (* inclusive byte ranges *)
Definition in_cls (c : cls) (b : byte) : bool := existsb (fun r => (fst r <=? bZ b) && (bZ b <=? snd r)) c.
Definition cls_digit : cls := [(48, 57)].
Definition cls_space : cls := [(9, 10); (12, 13); (32, 32)].
Definition cls_char (b : byte) : cls := [(bZ b, bZ b)].
Definition escape_cls (b : byte) : option cls :=
  if bZ b =? 100 (* d *) then Some cls_digit
  else if bZ b =? 115 (* s *) then Some cls_space
  else if ((48 <=? bZ b) && (bZ b <=? 57)) || ((65 <=? bZ b) && (bZ b <=? 90)) || ((97 <=? bZ b) && (bZ b <=? 122))
       then None                                      (* other letter/digit escapes have a meaning *)
       else Some (cls_char b).
Definition is_special (b : byte) : bool :=
  existsb (fun z => bZ b =? z) [94; 36; 91; 93; 40; 41; 123; 125; 63; 42; 43; 124; 46; 92].

(* the members of a [class] up to the closing bracket; returns the class and what follows *)
Fixpoint parse_class (l : bytes) (acc : cls) : option (cls * bytes) :=
  match l with
  | [] => None
  | b :: r =>
    if bZ b =? 93 (* ] *) then match acc with [] => None | _ => Some (acc, r) end
    else if bZ b =? 92 (* \ *) then
      match r with
      | e :: r' => match escape_cls e with Some c => parse_class r' (acc ++ c) | None => None end
      | [] => None
      end
    else if (bZ b =? 94) || (bZ b =? 91) then None  (* negation, nested classes *)
    else match r with
         | d :: hi :: r' =>
           if (bZ d =? 45) && negb (bZ hi =? 93) then
             if (bZ hi =? 92) || (bZ hi <? bZ b) then None else parse_class r' (acc ++ [(bZ b, bZ hi)])
           else parse_class r (acc ++ cls_char b)
         | _ => parse_class r (acc ++ cls_char b)
         end
  end.

(* {n} with 1-2 digits *)
Definition parse_count (l : bytes) : option (nat * bytes) :=
  match l with
  | a :: c :: r =>
    if is_digit a && (bZ c =? 125) then Some (Z.to_nat (bZ a - 48), r)
    else match r with
         | e :: r' => if is_digit a && is_digit c && (bZ e =? 125)
                      then Some (Z.to_nat ((bZ a - 48) * 10 + (bZ c - 48)), r') else None
         | [] => None
         end
  | _ => None
  end.

(* an item list: (class, optional) *)
Definition pitem := (cls * bool)%type.
Definition quantified (c : cls) (l : bytes) : option (list pitem * bytes) :=
  match l with
  | q :: r =>
    if bZ q =? 63 (* ? *) then Some ([(c, true)], r)
    else if bZ q =? 123 (* { *) then
      match parse_count r with Some (n, r') => Some (repeat (c, false) n, r') | None => None end
    else if (bZ q =? 42) || (bZ q =? 43) then None
    else Some ([(c, false)], l)
  | [] => Some ([(c, false)], [])
  end.

(* the items up to the final `$` (fuel: the pattern's length) *)
Fixpoint parse_items (fuel : nat) (l : bytes) : option (list pitem) :=
  match fuel with
  | O => None
  | S f =>
    match l with
    | [] => None                                        (* no closing `$`: unanchored, unsupported *)
    | b :: r =>
      if bZ b =? 36 (* $ *) then match r with [] => Some [] | _ => None end
      else
        let atom :=
          if bZ b =? 92 then
            match r with e :: r' => match escape_cls e with Some c => Some (c, r') | None => None end | [] => None end
          else if bZ b =? 91 then parse_class r []
          else if is_special b then None
          else Some (cls_char b, r) in
        match atom with
        | Some (c, r1) =>
          match quantified c r1 with
          | Some (its, r2) => match parse_items f r2 with Some rest => Some (its ++ rest) | None => None end
          | None => None
          end
        | None => None
        end
    end
  end.

Definition compile_pattern (p : bytes) : option (list pitem) :=
  match p with
  | b :: r => if bZ b =? 94 (* ^ *) then parse_items (S (List.length r)) r else None
  | [] => None
  end.

Fixpoint match_items (its : list pitem) (s : bytes) : bool :=
  match its with
  | [] => match s with [] => true | _ => false end
  | (c, opt) :: rest =>
    match s with
    | b :: s' => in_cls c b && match_items rest s'
    | [] => false
    end || (opt && match_items rest s)
  end.

Definition pattern_supported (p : bytes) : bool := match compile_pattern p with Some _ => true | None => false end.
(* an unsupported pattern matches nothing (Go: a pattern that does not compile is an error) *)
Definition simple_match (p v : bytes) : bool :=
  match compile_pattern p with Some its => match_items its v | None => false end.

(* ---------------------------------------------------------------------------------------------- *)
(* helpers shared by the rules and the statements                                                  *)
(* ---------------------------------------------------------------------------------------------- *)

Definition is_empty (s : str) : bool := match s with [] => true | _ => false end.

(* strings.Split(k, "+") *)
Fixpoint split_plus_aux (l cur : bytes) : list bytes :=
  match l with
  | [] => [rev cur]
  | b :: r => if bZ b =? 43 then rev cur :: split_plus_aux r [] else split_plus_aux r (b :: cur)
  end.
Definition key_parts (k : str) : list str := split_plus_aux k [].
(* cbc.Key.Has: some `+`-separated part is ke *)
Definition key_has (k ke : str) : bool := memb ke (key_parts k).
(* strings.SplitN(k, "+", 2): cut at the first `+` only *)
Fixpoint split_plus_2_aux (l cur : bytes) : list bytes :=
  match l with
  | [] => [rev cur]
  | b :: r => if bZ b =? 43 then [rev cur; r] else split_plus_2_aux r (b :: cur)
  end.
(* cbc.Key.HasPrefix: ks := strings.SplitN(k, "+", 2); ks[0] == ke *)
Definition key_has_prefix (k ke : str) : bool :=
  match split_plus_2_aux k [] with
  | p :: _ => eqb_bytes p ke
  | [] => false
  end.
(* the first `+`-separated component of a key (the whole key when it has no `+`) *)
Definition key_first (k : str) : str := hd [] (key_parts k).

(* RegimeDefCollection: registered under the country code and under every alternative code *)
Definition regime_has_code (r : regime) (c : str) : bool :=
  eqb_bytes (rg_country r) c || memb c (rg_alt_countries r).
(* tax.RegimeDefFor / Regimes().For *)
Definition regime_for (d : defs) (c : str) : option regime :=
  find (fun r => regime_has_code r c) (df_regimes d).
(* tax.AddonForKey *)
Definition addon_for (d : defs) (k : str) : option addon :=
  find (fun a => eqb_bytes (ad_key a) k) (df_addons d).
(* tax.ExtensionForKey *)
Definition ext_for_key (d : defs) (k : str) : option keydef :=
  find (fun kd => eqb_bytes (kd_key kd) k) (ext_defs d).
(* RegimeDef.CategoryDef *)
Definition category_for (r : regime) (cat : str) : option category :=
  find (fun c => eqb_bytes (cat_code c) cat) (rg_categories r).
(* tax.TagSetForSchema(...).Keys(): the FIRST tag set of that schema *)
Definition tagset_keys (tss : list tagset) (schema : str) : list str :=
  match find (fun ts => eqb_bytes (ts_schema ts) schema) tss with Some ts => ts_keys ts | None => [] end.

Definition is_some {A} (o : option A) : bool := match o with Some _ => true | None => false end.

(* the country whose regime applies to a combo: its own override, else the document's regime *)
Definition applying_country (doc_regime : str) (c : combo_ref) : str :=
  match cr_country c with [] => doc_regime | k => k end.

Section Rules.
(* regexp.MatchString(pattern, value) *)
Variable mp : bytes -> bytes -> bool.

(* ---------------------------------------------------------------------------------------------- *)
(* the rules, transcribed                                                                          *)
(* ---------------------------------------------------------------------------------------------- *)

(* which look-ups the code performs *)
Record rules := mkRules {
  ru_regime : bool;          (* tax.Regime has a Validate() that looks the code up *)
  ru_combo_country : bool    (* Combo validation validates its Country member *)
}.
Definition shipped_rules := mkRules false false.
Definition repaired_rules := mkRules true true.

(* RegimeDef.InCategories (after validation.Required): validation.Skip without a regime *)
Definition in_categories (r : option regime) (cat : str) : bool :=
  negb (is_empty cat) &&
  match r with
  | None => true
  | Some r => memb cat (map cat_code (rg_categories r))
  end.

(* RegimeDef.InCategoryRates + inCategoryRatesRule: blank without regime or category, otherwise
   some rate key of the category matches the key by [has]. After the repair "a rate key is only
   accepted when its first component is a rate of the category" the test is key.HasPrefix(k): the
   rate key is the FIRST `+`-separated component of the key *)
Definition in_category_rates_with (has : str -> str -> bool) (r : option regime) (cat rate : str) : bool :=
  match r with
  | None => is_empty rate
  | Some r =>
    match category_for r cat with
    | None => is_empty rate
    | Some c => is_empty rate || existsb (fun rt => has rate (rt_key rt)) (cat_rates c)
    end
  end.
Definition in_category_rates := in_category_rates_with key_has_prefix.
(* the rule as shipped before that repair: key.Has(k), ANY component (kept for the `_refuted` theorem) *)
Definition in_category_rates_any_part := in_category_rates_with key_has.

(* Extensions.Validate, one entry: the key is registered; when the definition lists values the
   code is one of them; when it declares a pattern the value matches it *)
Definition ext_value_ok (kd : keydef) (v : str) : bool :=
  (match kd_values kd with [] => true | _ => memb v (map vd_code (kd_values kd)) end) &&
  (is_empty (kd_pattern kd) || mp (kd_pattern kd) v).
Definition ext_ok (d : defs) (k v : str) : bool :=
  match ext_for_key d k with
  | None => false
  | Some kd => ext_value_ok kd v
  end.

(* Combo.ValidateWithContext: the regime is the one of the country override, else the context's *)
Definition combo_ok (d : defs) (doc_regime : str) (c : combo_ref) : bool :=
  let r := regime_for d (applying_country doc_regime c) in
  in_categories r (cr_cat c) && in_category_rates r (cr_cat c) (cr_rate c) &&
  forallb (fun kv => ext_ok d (fst kv) (snd kv)) (cr_ext c).

(* supportedTags (bill/invoice.go) + tax.TagsIn: the regime's tag set for the document's schema
   merged with the tag sets of the addons in use *)
Definition supported_tags (d : defs) (doc_regime : str) (addons : list str) (schema : str) : list str :=
  (match regime_for d doc_regime with Some r => tagset_keys (rg_tags r) schema | None => [] end) ++
  flat_map (fun k => match addon_for d k with Some a => tagset_keys (ad_tags a) schema | None => [] end) addons.
Definition tags_ok (d : defs) (r : doc_refs) : bool :=
  forallb (fun t => memb t (supported_tags d (r_regime r) (r_addons r) (r_schema r))) (r_tags r).

(* Addons.Validate: validation.Each(AddonRegistered) *)
Definition addons_ok (d : defs) (r : doc_refs) : bool := forallb (fun k => is_some (addon_for d k)) (r_addons r).

(* tax.Regime: as shipped there is no Validate method; repaired: empty or registered *)
Definition regime_code_ok (d : defs) (c : str) : bool := is_empty c || is_some (regime_for d c).

(* currency.Code.Validate *)
Definition currency_ok (d : defs) (c : currency_ref) : bool := is_empty (ur_code c) || memb (ur_code c) (df_currencies d).

(* l10n.ISOCountryCode.Validate / l10n.TaxCountryCode.Validate (validation.In skips the empty code) *)
Definition country_ok (ru : rules) (d : defs) (k : country_ref) : bool :=
  is_empty (kr_code k) ||
  match kr_kind k with
  | CkISO => memb (kr_code k) (df_iso_countries d)
  | CkTax => memb (kr_code k) (df_tax_countries d)
  | CkRegime => negb (ru_regime ru) || is_some (regime_for d (kr_code k))
  | CkCombo => negb (ru_combo_country ru) || memb (kr_code k) (df_tax_countries d)
  end.

Definition validate_refs_gen (ru : rules) (d : defs) (r : doc_refs) : bool :=
  (negb (ru_regime ru) || regime_code_ok d (r_regime r)) &&
  addons_ok d r &&
  tags_ok d r &&
  forallb (combo_ok d (r_regime r)) (r_combos r) &&
  forallb (fun e => ext_ok d (er_key e) (er_value e)) (r_exts r) &&
  forallb (currency_ok d) (r_currencies r) &&
  forallb (country_ok ru d) (r_countries r).

(* the model of the repaired code, and of the code as shipped *)
Definition validate_refs : defs -> doc_refs -> bool := validate_refs_gen repaired_rules.
Definition validate_refs_shipped : defs -> doc_refs -> bool := validate_refs_gen shipped_rules.

(* ---------------------------------------------------------------------------------------------- *)
(* the declarative side                                                                            *)
(* ---------------------------------------------------------------------------------------------- *)

Inductive ref :=
| RefRegime (code : str)                                  (* `$regime` (of the document or of a party) *)
| RefAddon (key : str)                                    (* a member of `$addons` *)
| RefCategory (country cat : str)                         (* a combo's category, under the country that applies *)
| RefRate (country cat rate : str)                        (* a combo's rate key *)
| RefExt (key value : str)                                (* an extension entry, anywhere *)
| RefTag (regime : str) (addons : list str) (schema tag : str)   (* a member of `$tags` *)
| RefCurrency (code : str)
| RefISOCountry (code : str)
| RefTaxCountry (code : str).

(* every reference a document makes *)
Definition combo_refs (doc_regime : str) (c : combo_ref) : list ref :=
  RefCategory (applying_country doc_regime c) (cr_cat c) ::
  (match cr_rate c with [] => [] | rt => [RefRate (applying_country doc_regime c) (cr_cat c) rt] end) ++
  map (fun kv => RefExt (fst kv) (snd kv)) (cr_ext c).
Definition country_refs (k : country_ref) : list ref :=
  match kr_code k with
  | [] => []
  | c => match kr_kind k with
         | CkISO => [RefISOCountry c]
         | CkTax | CkCombo => [RefTaxCountry c]
         | CkRegime => [RefRegime c]
         end
  end.
Definition refs (r : doc_refs) : list ref :=
  (match r_regime r with [] => [] | c => [RefRegime c] end) ++
  map RefAddon (r_addons r) ++
  map (RefTag (r_regime r) (r_addons r) (r_schema r)) (r_tags r) ++
  flat_map (combo_refs (r_regime r)) (r_combos r) ++
  map (fun e => RefExt (er_key e) (er_value e)) (r_exts r) ++
  flat_map (fun c => match ur_code c with [] => [] | x => [RefCurrency x] end) (r_currencies r) ++
  flat_map country_refs (r_countries r).

(* a regime is THE regime of a country code when it is registered under it *)
Definition RegimeOf (d : defs) (c : str) (r : regime) : Prop :=
  In r (df_regimes d) /\ (rg_country r = c \/ In c (rg_alt_countries r)).
(* an extension is defined by a regime, an addon or a catalogue *)
Definition ExtDefined (d : defs) (kd : keydef) : Prop :=
  (exists r, In r (df_regimes d) /\ In kd (rg_extensions r)) \/
  (exists a, In a (df_addons d) /\ In kd (ad_extensions a)) \/
  (exists c, In c (df_catalogues d) /\ In kd (cg_extensions c)).
(* a tag-set list offers a tag for a schema *)
Definition Offers (tss : list tagset) (schema tag : str) : Prop :=
  exists ts, In ts tss /\ ts_schema ts = schema /\ In tag (ts_keys ts).

Definition resolves (d : defs) (rf : ref) : Prop :=
  match rf with
  | RefRegime c => exists r, RegimeOf d c r
  | RefAddon k => exists a, In a (df_addons d) /\ ad_key a = k
  (* the category belongs to the regime that applies; when no regime is defined for the country
     that applies there is nothing it could belong to (the library leaves such combos alone) *)
  | RefCategory c cat =>
      (~ exists r, RegimeOf d c r) \/ (exists r, RegimeOf d c r /\ In cat (map cat_code (rg_categories r)))
  (* the rate key - its FIRST `+`-separated component - is a rate of that category of that regime *)
  | RefRate c cat rate =>
      exists r ca rt, RegimeOf d c r /\ In ca (rg_categories r) /\ cat_code ca = cat /\
                      In rt (cat_rates ca) /\ key_first rate = rt_key rt
  (* the key is defined; the value is one of the allowed codes (when codes are listed) and matches
     the declared pattern (when one is declared) *)
  | RefExt k v =>
      exists kd, ExtDefined d kd /\ kd_key kd = k /\
                 (kd_values kd = [] \/ In v (map vd_code (kd_values kd))) /\
                 (kd_pattern kd = [] \/ mp (kd_pattern kd) v = true)
  (* offered by the regime, or by an addon in use, for that document type *)
  | RefTag c addons schema t =>
      (exists r, RegimeOf d c r /\ Offers (rg_tags r) schema t) \/
      (exists a, In (ad_key a) addons /\ In a (df_addons d) /\ Offers (ad_tags a) schema t)
  | RefCurrency c => In c (df_currencies d)
  | RefISOCountry c => In c (df_iso_countries d)
  | RefTaxCountry c => In c (df_tax_countries d)
  end.

End Rules.

(* which items of a view fail which rule - used by the runner to name positions
   (kind, path, detail) *)
Definition failing_items (mp : bytes -> bytes -> bool) (ru : rules) (d : defs) (r : doc_refs) : list (str * str * str) :=
  (if negb (ru_regime ru) || regime_code_ok d (r_regime r) then [] else [(bs "regime", bs "$regime", r_regime r)]) ++
  map (fun k => (bs "addon", bs "$addons", k)) (filter (fun k => negb (is_some (addon_for d k))) (r_addons r)) ++
  map (fun t => (bs "tag", bs "$tags", t))
      (filter (fun t => negb (memb t (supported_tags d (r_regime r) (r_addons r) (r_schema r)))) (r_tags r)) ++
  flat_map (fun c =>
    let rg := regime_for d (applying_country (r_regime r) c) in
    (if in_categories rg (cr_cat c) then [] else [(bs "category", cr_path c, cr_cat c)]) ++
    (if in_category_rates rg (cr_cat c) (cr_rate c) then [] else [(bs "rate", cr_path c, cr_rate c)]) ++
    flat_map (fun kv => match ext_for_key d (fst kv) with
                        | None => [(bs "ext-key", cr_path c, fst kv)]
                        | Some kd => if ext_value_ok mp kd (snd kv) then [] else [(bs "ext-value", cr_path c, fst kv)]
                        end) (cr_ext c)) (r_combos r) ++
  flat_map (fun e => match ext_for_key d (er_key e) with
                     | None => [(bs "ext-key", er_path e, er_key e)]
                     | Some kd => if ext_value_ok mp kd (er_value e) then [] else [(bs "ext-value", er_path e, er_key e)]
                     end) (r_exts r) ++
  map (fun c => (bs "currency", ur_path c, ur_code c)) (filter (fun c => negb (currency_ok d c)) (r_currencies r)) ++
  map (fun k => (bs "country", kr_path k, kr_code k)) (filter (fun k => negb (country_ok ru d k)) (r_countries r)).
