(* Boolean equality on the definition records of Defs/DefTypes.v (used to compare the published
   files with the in-code definitions inside Coq).  Model file: soundness is in DefEqProofs.v. *)
From Coq Require Import List ZArith Bool Strings.Byte.
From Verif Require Import Base.Wire Defs.DefTypes.
Import ListNotations.
Open Scope Z_scope.

Fixpoint list_eqb {A} (e : A -> A -> bool) (l1 l2 : list A) : bool :=
  match l1, l2 with
  | [], [] => true
  | x :: r1, y :: r2 => e x y && list_eqb e r1 r2
  | _, _ => false
  end.
Definition option_eqb {A} (e : A -> A -> bool) (o1 o2 : option A) : bool :=
  match o1, o2 with
  | None, None => true
  | Some x, Some y => e x y
  | _, _ => false
  end.
Definition pair_eqb {A B} (e1 : A -> A -> bool) (e2 : B -> B -> bool) (p q : A * B) : bool :=
  e1 (fst p) (fst q) && e2 (snd p) (snd q).

Definition str_eqb : str -> str -> bool := eqb_bytes.
Definition strs_eqb := list_eqb str_eqb.
Definition kvs_eqb := list_eqb (pair_eqb str_eqb str_eqb).

Definition date_eqb' (a b : date) : bool :=
  (d_year a =? d_year b) && (d_month a =? d_month b) && (d_day a =? d_day b).
Definition pct_eqb (a b : pct) : bool := (p_val a =? p_val b) && (p_exp a =? p_exp b).

Definition valdef_eqb (a b : valdef) : bool := str_eqb (vd_key a) (vd_key b) && str_eqb (vd_code a) (vd_code b).
Definition keydef_eqb (a b : keydef) : bool :=
  str_eqb (kd_key a) (kd_key b) && str_eqb (kd_code a) (kd_code b) && list_eqb valdef_eqb (kd_values a) (kd_values b) &&
  str_eqb (kd_pattern a) (kd_pattern b) && kvs_eqb (kd_map a) (kd_map b).
Definition keydefs_eqb := list_eqb keydef_eqb.
Definition tagset_eqb (a b : tagset) : bool := str_eqb (ts_schema a) (ts_schema b) && strs_eqb (ts_keys a) (ts_keys b).
Definition scnote_eqb (a b : scnote) : bool :=
  str_eqb (sn_key a) (sn_key b) && str_eqb (sn_code a) (sn_code b) && str_eqb (sn_src a) (sn_src b) && kvs_eqb (sn_ext a) (sn_ext b).
Definition scenario_eqb (a b : scenario) : bool :=
  strs_eqb (sc_types a) (sc_types b) && strs_eqb (sc_tags a) (sc_tags b) && str_eqb (sc_ext_key a) (sc_ext_key b) &&
  str_eqb (sc_ext_code a) (sc_ext_code b) && option_eqb scnote_eqb (sc_note a) (sc_note b) &&
  kvs_eqb (sc_codes a) (sc_codes b) && kvs_eqb (sc_ext a) (sc_ext b).
Definition scenarioset_eqb (a b : scenarioset) : bool :=
  str_eqb (ss_schema a) (ss_schema b) && list_eqb scenario_eqb (ss_list a) (ss_list b).
Definition correction_eqb (a b : correction) : bool :=
  str_eqb (co_schema a) (co_schema b) && strs_eqb (co_types a) (co_types b) && strs_eqb (co_extensions a) (co_extensions b) &&
  Bool.eqb (co_reason_required a) (co_reason_required b) && strs_eqb (co_stamps a) (co_stamps b) &&
  Bool.eqb (co_copy_tax a) (co_copy_tax b).
Definition ratevalue_eqb (a b : ratevalue) : bool :=
  option_eqb date_eqb' (rv_since a) (rv_since b) && pct_eqb (rv_percent a) (rv_percent b) &&
  option_eqb pct_eqb (rv_surcharge a) (rv_surcharge b) && strs_eqb (rv_tags a) (rv_tags b) &&
  kvs_eqb (rv_ext a) (rv_ext b) && Bool.eqb (rv_disabled a) (rv_disabled b).
Definition ratedef_eqb (a b : ratedef) : bool :=
  str_eqb (rt_key a) (rt_key b) && Bool.eqb (rt_exempt a) (rt_exempt b) &&
  list_eqb ratevalue_eqb (rt_values a) (rt_values b) && kvs_eqb (rt_ext a) (rt_ext b).
Definition category_eqb (a b : category) : bool :=
  str_eqb (cat_code a) (cat_code b) && Bool.eqb (cat_retained a) (cat_retained b) &&
  list_eqb ratedef_eqb (cat_rates a) (cat_rates b) && strs_eqb (cat_extensions a) (cat_extensions b) &&
  kvs_eqb (cat_map a) (cat_map b) && kvs_eqb (cat_ext a) (cat_ext b).
Definition regime_eqb (a b : regime) : bool :=
  str_eqb (rg_country a) (rg_country b) && strs_eqb (rg_alt_countries a) (rg_alt_countries b) &&
  str_eqb (rg_zone a) (rg_zone b) && str_eqb (rg_currency a) (rg_currency b) &&
  str_eqb (rg_time_zone a) (rg_time_zone b) && str_eqb (rg_tax_scheme a) (rg_tax_scheme b) &&
  str_eqb (rg_rounding a) (rg_rounding b) && list_eqb tagset_eqb (rg_tags a) (rg_tags b) &&
  keydefs_eqb (rg_extensions a) (rg_extensions b) && keydefs_eqb (rg_identities a) (rg_identities b) &&
  keydefs_eqb (rg_payment_means a) (rg_payment_means b) && keydefs_eqb (rg_inboxes a) (rg_inboxes b) &&
  list_eqb scenarioset_eqb (rg_scenarios a) (rg_scenarios b) &&
  list_eqb correction_eqb (rg_corrections a) (rg_corrections b) &&
  list_eqb category_eqb (rg_categories a) (rg_categories b).
Definition addon_eqb (a b : addon) : bool :=
  str_eqb (ad_key a) (ad_key b) && strs_eqb (ad_requires a) (ad_requires b) &&
  keydefs_eqb (ad_extensions a) (ad_extensions b) && list_eqb tagset_eqb (ad_tags a) (ad_tags b) &&
  list_eqb scenarioset_eqb (ad_scenarios a) (ad_scenarios b) && keydefs_eqb (ad_identities a) (ad_identities b) &&
  keydefs_eqb (ad_inboxes a) (ad_inboxes b) && list_eqb correction_eqb (ad_corrections a) (ad_corrections b).
Definition catalogue_eqb (a b : catalogue) : bool :=
  str_eqb (cg_key a) (cg_key b) && keydefs_eqb (cg_extensions a) (cg_extensions b).

(* ---- files: published versus in code ---- *)

Fixpoint assoc {A} (k : str) (l : list (named A)) : option A :=
  match l with
  | [] => None
  | (k', x) :: r => if eqb_bytes k' k then Some x else assoc k r
  end.

Definition memb (x : str) (l : list str) : bool := existsb (eqb_bytes x) l.

(* every in-code definition has a published file of its name with the same content *)
Definition covered {A} (e : A -> A -> bool) (code pub : list (named A)) : bool :=
  forallb (fun nc => match assoc (fst nc) pub with Some p => e p (snd nc) | None => false end) code.

(* names of the in-code definitions whose published file is missing or different *)
Definition uncovered {A} (e : A -> A -> bool) (code pub : list (named A)) : list str :=
  map fst (filter (fun nc => negb (match assoc (fst nc) pub with Some p => e p (snd nc) | None => false end)) code).

(* published files that no in-code definition produces *)
Definition orphans {A} (code pub : list (named A)) : list str :=
  filter (fun f => negb (memb f (map fst code))) (map fst pub).
