(* Soundness of the boolean equalities of Defs/DefEq.v. *)
From Coq Require Import List ZArith Bool Strings.Byte Lia.
From Verif Require Import Base.Wire Defs.DefTypes Defs.DefEq.
Import ListNotations.
Open Scope Z_scope.

Definition sound {A} (e : A -> A -> bool) : Prop := forall x y, e x y = true -> x = y.

Lemma str_eqb_sound : sound str_eqb.
Proof.
  intros a. induction a as [|x a IH]; intros [|y b]; cbn; intro H; try reflexivity; try discriminate.
  apply andb_true_iff in H as [H1 H2]. apply Byte.byte_dec_bl in H1. apply IH in H2. subst; reflexivity.
Qed.

Lemma str_eqb_refl a : str_eqb a a = true.
Proof. induction a as [|x a IH]; cbn; [reflexivity|]. rewrite IH, (Byte.byte_dec_lb eq_refl). reflexivity. Qed.

Lemma str_eqb_iff a b : eqb_bytes a b = true <-> a = b.
Proof. split; [apply str_eqb_sound|intros ->; apply str_eqb_refl]. Qed.

Lemma list_eqb_sound {A} (e : A -> A -> bool) : sound e -> sound (list_eqb e).
Proof.
  intros He a. induction a as [|x a IH]; intros [|y b]; cbn; intro H; try reflexivity; try discriminate.
  apply andb_true_iff in H as [H1 H2]. apply He in H1. apply IH in H2. subst; reflexivity.
Qed.

Lemma option_eqb_sound {A} (e : A -> A -> bool) : sound e -> sound (option_eqb e).
Proof. intros He [x|] [y|]; cbn; intro H; try reflexivity; try discriminate. apply He in H; subst; reflexivity. Qed.

Lemma pair_eqb_sound {A B} (e1 : A -> A -> bool) (e2 : B -> B -> bool) : sound e1 -> sound e2 -> sound (pair_eqb e1 e2).
Proof.
  intros H1 H2 [a b] [c d]; unfold pair_eqb; cbn; intro H. apply andb_true_iff in H as [Ha Hb].
  apply H1 in Ha. apply H2 in Hb. subst; reflexivity.
Qed.

Lemma bool_eqb_sound : sound Bool.eqb.
Proof. intros x y H. apply Bool.eqb_prop; assumption. Qed.
Lemma Z_eqb_sound : sound Z.eqb.
Proof. intros x y H. apply Z.eqb_eq; assumption. Qed.

Lemma strs_eqb_sound : sound strs_eqb.
Proof. apply list_eqb_sound, str_eqb_sound. Qed.
Lemma kvs_eqb_sound : sound kvs_eqb.
Proof. apply list_eqb_sound, pair_eqb_sound; apply str_eqb_sound. Qed.

Ltac split_ands H :=
  repeat match type of H with
         | (_ && _ = true) => let H2 := fresh "E" in apply andb_true_iff in H as [H H2]
         end.

#[local] Hint Resolve str_eqb_sound strs_eqb_sound kvs_eqb_sound bool_eqb_sound Z_eqb_sound : eqs.

Ltac record_sound :=
  let H := fresh "H" in
  intros [] [] H; cbn in H; split_ands H;
  f_equal; match goal with |- ?a = ?b => first
    [ apply str_eqb_sound; assumption | apply strs_eqb_sound; assumption | apply kvs_eqb_sound; assumption
    | apply bool_eqb_sound; assumption | apply Z_eqb_sound; assumption ] end.

Lemma date_eqb'_sound : sound date_eqb'.
Proof. unfold date_eqb'. record_sound. Qed.
Lemma pct_eqb_sound : sound pct_eqb.
Proof. unfold pct_eqb. record_sound. Qed.
Lemma valdef_eqb_sound : sound valdef_eqb.
Proof. unfold valdef_eqb. record_sound. Qed.

Ltac record_sound_with tac :=
  let H := fresh "H" in
  intros [] [] H; cbn in H; split_ands H;
  f_equal; match goal with |- ?a = ?b => first
    [ apply str_eqb_sound; assumption | apply strs_eqb_sound; assumption | apply kvs_eqb_sound; assumption
    | apply bool_eqb_sound; assumption | apply Z_eqb_sound; assumption | tac ] end.

Lemma keydef_eqb_sound : sound keydef_eqb.
Proof. unfold keydef_eqb. record_sound_with ltac:(apply (list_eqb_sound _ valdef_eqb_sound); assumption). Qed.
Lemma keydefs_eqb_sound : sound keydefs_eqb.
Proof. apply list_eqb_sound, keydef_eqb_sound. Qed.
Lemma tagset_eqb_sound : sound tagset_eqb.
Proof. unfold tagset_eqb. record_sound. Qed.
Lemma scnote_eqb_sound : sound scnote_eqb.
Proof. unfold scnote_eqb. record_sound. Qed.
Lemma scenario_eqb_sound : sound scenario_eqb.
Proof. unfold scenario_eqb. record_sound_with ltac:(apply (option_eqb_sound _ scnote_eqb_sound); assumption). Qed.
Lemma scenarioset_eqb_sound : sound scenarioset_eqb.
Proof. unfold scenarioset_eqb. record_sound_with ltac:(apply (list_eqb_sound _ scenario_eqb_sound); assumption). Qed.
Lemma correction_eqb_sound : sound correction_eqb.
Proof. unfold correction_eqb. record_sound. Qed.
Lemma ratevalue_eqb_sound : sound ratevalue_eqb.
Proof.
  unfold ratevalue_eqb.
  record_sound_with ltac:(first [ apply (option_eqb_sound _ date_eqb'_sound); assumption
                                | apply pct_eqb_sound; assumption
                                | apply (option_eqb_sound _ pct_eqb_sound); assumption ]).
Qed.
Lemma ratedef_eqb_sound : sound ratedef_eqb.
Proof. unfold ratedef_eqb. record_sound_with ltac:(apply (list_eqb_sound _ ratevalue_eqb_sound); assumption). Qed.
Lemma category_eqb_sound : sound category_eqb.
Proof. unfold category_eqb. record_sound_with ltac:(apply (list_eqb_sound _ ratedef_eqb_sound); assumption). Qed.
Lemma regime_eqb_sound : sound regime_eqb.
Proof.
  unfold regime_eqb.
  record_sound_with ltac:(first [ apply (list_eqb_sound _ tagset_eqb_sound); assumption
                                | apply keydefs_eqb_sound; assumption
                                | apply (list_eqb_sound _ scenarioset_eqb_sound); assumption
                                | apply (list_eqb_sound _ correction_eqb_sound); assumption
                                | apply (list_eqb_sound _ category_eqb_sound); assumption ]).
Qed.
Lemma addon_eqb_sound : sound addon_eqb.
Proof.
  unfold addon_eqb.
  record_sound_with ltac:(first [ apply (list_eqb_sound _ tagset_eqb_sound); assumption
                                | apply keydefs_eqb_sound; assumption
                                | apply (list_eqb_sound _ scenarioset_eqb_sound); assumption
                                | apply (list_eqb_sound _ correction_eqb_sound); assumption ]).
Qed.
Lemma catalogue_eqb_sound : sound catalogue_eqb.
Proof. unfold catalogue_eqb. record_sound_with ltac:(apply keydefs_eqb_sound; assumption). Qed.

(* ---- files ---- *)

Lemma memb_In x l : memb x l = true <-> In x l.
Proof.
  unfold memb. rewrite existsb_exists. split.
  - intros [y [Hy E]]. apply str_eqb_iff in E. subst; assumption.
  - intro H. exists x; split; [assumption|apply str_eqb_refl].
Qed.

Lemma covered_sound {A} (e : A -> A -> bool) code pub :
  sound e -> covered e code pub = true -> forall f x, In (f, x) code -> assoc f pub = Some x.
Proof.
  intros He H f x Hin. unfold covered in H. rewrite forallb_forall in H. specialize (H _ Hin). cbn in H.
  destruct (assoc f pub) as [p|]; [|discriminate]. apply He in H. subst; reflexivity.
Qed.

Lemma orphans_nil_sound {A} (code pub : list (named A)) (allowed : list str) :
  forallb (fun f => memb f allowed) (orphans code pub) = true ->
  forall f, In f (map fst pub) -> In f (map fst code) \/ In f allowed.
Proof.
  intros H f Hin. rewrite forallb_forall in H.
  destruct (memb f (map fst code)) eqn:E; [left; apply memb_In; assumption|].
  right. apply memb_In. apply H. unfold orphans. apply filter_In. split; [assumption|]. rewrite E. reflexivity.
Qed.
