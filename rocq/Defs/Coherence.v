(* C19, second half: the shipped definitions are coherent - they only refer to currencies, tags,
   extensions and document types that are themselves defined.
   This file has (a) the readable Prop-level statements (WorldCoherent, RegimeCoherent,
   AddonCoherent, ...) over the reference lists collected by the *_refs functions and (b) boolean
   checkers of the same shape; Defs/CoherenceProofs.v proves checker = true -> statement.
   Model file: no proofs here. *)
From Coq Require Import List ZArith Bool Strings.Byte String.
From Verif Require Import Base.Wire Defs.DefTypes Defs.DefEq.
Import ListNotations.
Open Scope Z_scope.

(* everything registered *)
Record world := mkWorld {
  w_regimes : list (named regime);
  w_addons : list (named addon);
  w_catalogues : list (named catalogue);
  w_currencies : list currency
}.

(* the six invoice types of bill/invoice_type.go *)
Definition invoice_types : list str :=
  map bs ["standard"; "proforma"; "corrective"; "credit-note"; "debit-note"; "other"]%string.

(* ---- what is defined ---- *)

(* the global extension registry (tax.RegisterExtension is called for regimes, addons, catalogues) *)
Definition all_ext_defs (w : world) : list keydef :=
  flat_map (fun nr => rg_extensions (snd nr)) (w_regimes w) ++
  flat_map (fun na => ad_extensions (snd na)) (w_addons w) ++
  flat_map (fun nc => cg_extensions (snd nc)) (w_catalogues w).
Definition all_ext_keys (w : world) : list str := map kd_key (all_ext_defs w).

(* tag keys a tag-set list offers for a schema *)
Definition tags_for (schema : str) (tss : list tagset) : list str :=
  flat_map ts_keys (filter (fun ts => eqb_bytes (ts_schema ts) schema) tss).
Definition all_tag_keys (tss : list tagset) : list str := flat_map ts_keys tss.
(* tags any regime offers for a schema (an addon's scenarios may rely on the regime's tags) *)
Definition regime_tags_for (w : world) (schema : str) : list str :=
  flat_map (fun nr => tags_for schema (rg_tags (snd nr))) (w_regimes w).

(* ---- what is referred to ---- *)

Definition kv_keys (m : kvs) : list str := map fst m.

Definition scenario_list (sss : list scenarioset) : list scenario := flat_map ss_list sss.
Definition scenario_ext_pairs (sc : scenario) : kvs :=
  (match sc_ext_key sc, sc_ext_code sc with
   | [], _ => []
   | _, [] => []
   | k, c => [(k, c)]
   end) ++ sc_ext sc ++ match sc_note sc with Some n => sn_ext n | None => [] end.
Definition scenario_ext_keys (sc : scenario) : list str :=
  (match sc_ext_key sc with [] => [] | k => [k] end) ++ kv_keys (sc_ext sc) ++
  match sc_note sc with Some n => kv_keys (sn_ext n) | None => [] end.
(* (schema, tag) for every tag a scenario filters on *)
Definition scenario_tag_refs (sss : list scenarioset) : list (str * str) :=
  flat_map (fun ss => flat_map (fun sc => map (fun t => (ss_schema ss, t)) (sc_tags sc)) (ss_list ss)) sss.
Definition scenario_type_refs (sss : list scenarioset) : list str := flat_map sc_types (scenario_list sss).

Definition correction_type_refs (cs : list correction) : list str := flat_map co_types cs.
Definition correction_ext_refs (cs : list correction) : list str := flat_map co_extensions cs.
Definition correction_stamp_refs (cs : list correction) : list str := flat_map co_stamps cs.

Definition regime_rates (r : regime) : list ratedef := flat_map cat_rates (rg_categories r).
Definition regime_values (r : regime) : list ratevalue := flat_map rt_values (regime_rates r).

(* extension keys that must be the regime's OWN (CategoryDef validation: cbc.InKeyDefs(r.Extensions);
   rate value filters are compared with the combo's extensions of that regime) *)
Definition regime_own_ext_refs (r : regime) : list str :=
  flat_map cat_extensions (rg_categories r) ++ flat_map (fun v => kv_keys (rv_ext v)) (regime_values r).
(* extension (key, code) pairs written by the definitions: they end up in documents *)
Definition regime_ext_pairs (r : regime) : kvs :=
  flat_map cat_ext (rg_categories r) ++ flat_map rt_ext (regime_rates r) ++ flat_map rv_ext (regime_values r) ++
  flat_map scenario_ext_pairs (scenario_list (rg_scenarios r)).
Definition regime_ext_key_refs (r : regime) : list str :=
  kv_keys (regime_ext_pairs r) ++ flat_map scenario_ext_keys (scenario_list (rg_scenarios r)) ++
  correction_ext_refs (rg_corrections r).
Definition regime_value_tag_refs (r : regime) : list str := flat_map rv_tags (regime_values r).

Definition addon_ext_pairs (a : addon) : kvs := flat_map scenario_ext_pairs (scenario_list (ad_scenarios a)).
Definition addon_ext_key_refs (a : addon) : list str :=
  flat_map scenario_ext_keys (scenario_list (ad_scenarios a)) ++ correction_ext_refs (ad_corrections a).

(* ---- the statements ---- *)

(* a (key, code) pair names a defined extension and, when that extension lists its codes, one of them *)
Definition ext_pair_allowed (w : world) (kv : str * str) : Prop :=
  exists d, In d (all_ext_defs w) /\ kd_key d = fst kv /\
            (kd_values d = [] \/ In (snd kv) (map vd_code (kd_values d))).

Definition TagKeysUnique (tss : list tagset) : Prop :=
  NoDup (map ts_schema tss) /\ Forall (fun ts => NoDup (ts_keys ts)) tss.

Definition WorldCoherent (w : world) : Prop :=
  NoDup (map (fun nr => rg_country (snd nr)) (w_regimes w)) /\
  NoDup (map (fun na => ad_key (snd na)) (w_addons w)) /\
  NoDup (map (fun nc => cg_key (snd nc)) (w_catalogues w)) /\
  NoDup (map cu_code (w_currencies w)) /\
  NoDup (all_ext_keys w) /\
  Forall (fun d => NoDup (map (fun v => (vd_key v, vd_code v)) (kd_values d))) (all_ext_defs w).

(* keys of a list of keyed definitions (identity types, payment means, inboxes): those given are pairwise distinct *)
Definition given_keys (l : list keydef) : list str :=
  filter (fun k => match k with [] => false | _ => true end) (map kd_key l).

Definition regime_key_lists (r : regime) : list (list keydef) := [rg_identities r; rg_payment_means r; rg_inboxes r].
Definition addon_key_lists (a : addon) : list (list keydef) := [ad_identities a; ad_inboxes a].

Definition RegimeCoherent (w : world) (r : regime) : Prop :=
  (* names an existing currency *)
  In (rg_currency r) (map cu_code (w_currencies w)) /\
  (* category extension lists and rate-value filters use the regime's own extensions *)
  Forall (fun k => In k (map kd_key (rg_extensions r))) (regime_own_ext_refs r) /\
  (* every extension key referred to anywhere is registered by a regime, an addon or a catalogue *)
  Forall (fun k => In k (all_ext_keys w)) (regime_ext_key_refs r) /\
  (* ... and every code given for one is among that extension's codes *)
  Forall (ext_pair_allowed w) (regime_ext_pairs r) /\
  (* category codes and, per category, rate keys are unique *)
  NoDup (map cat_code (rg_categories r)) /\
  Forall (fun c => NoDup (map rt_key (cat_rates c))) (rg_categories r) /\
  (* tags filtering a rate value are tags of the regime *)
  Forall (fun t => In t (all_tag_keys (rg_tags r))) (regime_value_tag_refs r) /\
  (* scenario and correction document types are invoice types *)
  Forall (fun t => In t invoice_types) (scenario_type_refs (rg_scenarios r) ++ correction_type_refs (rg_corrections r)) /\
  (* stamps to copy are named *)
  Forall (fun s => s <> []) (correction_stamp_refs (rg_corrections r)) /\
  (* exempt rates carry no values *)
  Forall (fun rt => rt_exempt rt = true -> rt_values rt = []) (regime_rates r) /\
  (* identity, payment-means and inbox definitions are found by their own key *)
  Forall (fun l => NoDup (given_keys l)) (regime_key_lists r).

(* every tag a regime's scenario filters on is a tag the regime offers for that schema *)
Definition RegimeScenarioTagsDefined (r : regime) : Prop :=
  Forall (fun st => In (snd st) (tags_for (fst st) (rg_tags r))) (scenario_tag_refs (rg_scenarios r)).

Definition AddonCoherent (w : world) (a : addon) : Prop :=
  Forall (fun k => In k (map (fun na => ad_key (snd na)) (w_addons w))) (ad_requires a) /\
  Forall (fun k => In k (all_ext_keys w)) (addon_ext_key_refs a) /\
  Forall (ext_pair_allowed w) (addon_ext_pairs a) /\
  (* scenario tags: the addon's own or a regime's, for the same schema *)
  Forall (fun st => In (snd st) (tags_for (fst st) (ad_tags a) ++ regime_tags_for w (fst st)))
         (scenario_tag_refs (ad_scenarios a)) /\
  Forall (fun t => In t invoice_types) (scenario_type_refs (ad_scenarios a) ++ correction_type_refs (ad_corrections a)) /\
  Forall (fun s => s <> []) (correction_stamp_refs (ad_corrections a)) /\
  Forall (fun l => NoDup (given_keys l)) (addon_key_lists a).

(* ---- boolean checkers of the same shape ---- *)

Fixpoint nodupb {A} (e : A -> A -> bool) (l : list A) : bool :=
  match l with
  | [] => true
  | x :: r => negb (existsb (e x) r) && nodupb e r
  end.
Definition nodup_strs := nodupb eqb_bytes.

Definition all_in (refs defined : list str) : bool := forallb (fun k => memb k defined) refs.

Definition ext_pair_allowedb (w : world) (kv : str * str) : bool :=
  existsb (fun d => eqb_bytes (kd_key d) (fst kv) &&
                    (match kd_values d with [] => true | _ => false end || memb (snd kv) (map vd_code (kd_values d))))
          (all_ext_defs w).

Definition tag_keys_uniqueb (tss : list tagset) : bool :=
  nodup_strs (map ts_schema tss) && forallb (fun ts => nodup_strs (ts_keys ts)) tss.

Definition world_coherentb (w : world) : bool :=
  nodup_strs (map (fun nr => rg_country (snd nr)) (w_regimes w)) &&
  nodup_strs (map (fun na => ad_key (snd na)) (w_addons w)) &&
  nodup_strs (map (fun nc => cg_key (snd nc)) (w_catalogues w)) &&
  nodup_strs (map cu_code (w_currencies w)) &&
  nodup_strs (all_ext_keys w) &&
  forallb (fun d => nodupb (pair_eqb str_eqb str_eqb) (map (fun v => (vd_key v, vd_code v)) (kd_values d))) (all_ext_defs w).

(* one boolean per clause so that a failing clause can be named (Run/RunC19.v) *)
Definition regime_clauses (w : world) (r : regime) : list bool :=
  [ memb (rg_currency r) (map cu_code (w_currencies w));
    all_in (regime_own_ext_refs r) (map kd_key (rg_extensions r));
    all_in (regime_ext_key_refs r) (all_ext_keys w);
    forallb (ext_pair_allowedb w) (regime_ext_pairs r);
    nodup_strs (map cat_code (rg_categories r));
    forallb (fun c => nodup_strs (map rt_key (cat_rates c))) (rg_categories r);
    all_in (regime_value_tag_refs r) (all_tag_keys (rg_tags r));
    all_in (scenario_type_refs (rg_scenarios r) ++ correction_type_refs (rg_corrections r)) invoice_types;
    forallb (fun s => match s with [] => false | _ => true end) (correction_stamp_refs (rg_corrections r));
    forallb (fun rt => negb (rt_exempt rt) || match rt_values rt with [] => true | _ => false end) (regime_rates r);
    forallb (fun l => nodup_strs (given_keys l)) (regime_key_lists r) ].
Definition regime_coherentb (w : world) (r : regime) : bool := forallb (fun b => b) (regime_clauses w r).

Definition regime_scenario_tagsb (r : regime) : bool :=
  forallb (fun st => memb (snd st) (tags_for (fst st) (rg_tags r))) (scenario_tag_refs (rg_scenarios r)).

Definition addon_clauses (w : world) (a : addon) : list bool :=
  [ all_in (ad_requires a) (map (fun na => ad_key (snd na)) (w_addons w));
    all_in (addon_ext_key_refs a) (all_ext_keys w);
    forallb (ext_pair_allowedb w) (addon_ext_pairs a);
    forallb (fun st => memb (snd st) (tags_for (fst st) (ad_tags a) ++ regime_tags_for w (fst st))) (scenario_tag_refs (ad_scenarios a));
    all_in (scenario_type_refs (ad_scenarios a) ++ correction_type_refs (ad_corrections a)) invoice_types;
    forallb (fun s => match s with [] => false | _ => true end) (correction_stamp_refs (ad_corrections a));
    forallb (fun l => nodup_strs (given_keys l)) (addon_key_lists a) ].
Definition addon_coherentb (w : world) (a : addon) : bool := forallb (fun b => b) (addon_clauses w a).

(* ---- recorded exceptions (genuine defects of the pinned tree, see findings/C19.json) ----
   They weaken ONLY the two `_partial` theorems of Props/C19.v; set them to [] once the fixes are in. *)
Definition recorded_orphan_regime_files : list str := [].        (* C19-stale-gr-json *)
Definition recorded_scenario_tag_exceptions : list str := [].     (* C19-in-scenario-tags-undefined *)
Definition recorded_duplicate_tag_exceptions : list str := []. (* C19-it-sdi-duplicate-tag *)

(* whole-world checks used by the generated-data lemmas *)
Definition all_regimes_coherentb (w : world) : bool := forallb (fun nr => regime_coherentb w (snd nr)) (w_regimes w).
Definition all_addons_coherentb (w : world) : bool := forallb (fun na => addon_coherentb w (snd na)) (w_addons w).
Definition regimes_scenario_tagsb (w : world) (except : list str) : bool :=
  forallb (fun nr => memb (fst nr) except || regime_scenario_tagsb (snd nr)) (w_regimes w).
Definition regimes_tags_uniqueb (w : world) : bool := forallb (fun nr => tag_keys_uniqueb (rg_tags (snd nr))) (w_regimes w).
Definition addons_tags_uniqueb (w : world) (except : list str) : bool :=
  forallb (fun na => memb (fst na) except || tag_keys_uniqueb (ad_tags (snd na))) (w_addons w).
