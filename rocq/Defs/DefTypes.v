(* Gallina record types for the definition data of the library: tax regimes, addons, catalogues
   and currencies.  rocq/Gen/Regimes.v, Addons.v, Catalogues.v, Currencies.v (what the linked
   code registers now) and rocq/Gen/Published.v (what the JSON files shipped under data/ say) are
   terms of these types, written by the translator (harness/gen_regimes.go) through ONE rendering
   routine, so that "published = in code" is an equality of two closed terms.

   What is kept is the STRUCTURAL content that the library computes with or validates against:
   keys, codes, dates, percentages, flags, references between definitions.  Human-readable text
   (i18n names, descriptions, sources, note texts, meta) is not kept; the byte comparison of the
   regenerated files (harness/c19.go) covers those.

   Conventions:
   - strings are [bytes] (= list byte); literals are written "abc"%bs (String Notation below);
     the empty string stands for an absent optional string member (Go's zero value, `omitempty`);
   - Go maps (tax.Extensions, cbc.CodeMap) are association lists sorted by key (byte order);
   - numbers are Z; a percentage is (value, exp) exactly as num.Percentage{value, exp}, i.e. the
     fraction value / 10^exp  (21.0 % = (210, 3));
   - a date is the civil triple (y, m, d) as stored (it may be invalid; see Rates/Date.v);
   - Go slices keep their order (order of rate values matters for C12).  *)
From Coq Require Import List ZArith Strings.Byte.
From Verif Require Import Base.Wire.
Import ListNotations.

(* ---- byte-string literals: "abc"%bs : bytes ---- *)
Inductive bslit := bsnil | bscons (b : byte) (r : bslit).
Fixpoint bslit_parse (l : list byte) : bslit :=
  match l with nil => bsnil | cons b r => bscons b (bslit_parse r) end.
Fixpoint bslit_print (l : bslit) : list byte :=
  match l with bsnil => nil | bscons b r => cons b (bslit_print r) end.
Declare Scope bs_scope.
Delimit Scope bs_scope with bs.
#[local] Set Warnings "-via-type-remapping,-via-type-mismatch".
String Notation bytes bslit_parse bslit_print (via bslit mapping [[nil] => bsnil, [cons] => bscons]) : bs_scope.
#[local] Set Warnings "via-type-remapping,via-type-mismatch".

Definition str := bytes.
Definition kvs := list (str * str).          (* sorted association list key -> code *)

Record date := mkDate { d_year : Z; d_month : Z; d_day : Z }.
Record pct := mkPct { p_val : Z; p_exp : Z }.

(* cbc.Definition (one level of nested values; the translator refuses deeper nesting) *)
Record valdef := mkValDef {
  vd_key : str;                (* values of key-valued definitions *)
  vd_code : str                (* values of code-valued definitions (extensions) *)
}.
Record keydef := mkKeyDef {
  kd_key : str;
  kd_code : str;
  kd_values : list valdef;     (* allowed values; [] = any value (or pattern) *)
  kd_pattern : str;            (* regular expression source, "" = none *)
  kd_map : kvs
}.

(* tax.TagSet *)
Record tagset := mkTagSet { ts_schema : str; ts_keys : list str }.

(* tax.Scenario / tax.ScenarioSet (the Go-only Filter func is not data; sc_filter says whether one is set,
   always false for published files) *)
Record scnote := mkScNote { sn_key : str; sn_code : str; sn_src : str; sn_ext : kvs }.
Record scenario := mkScenario {
  sc_types : list str;
  sc_tags : list str;
  sc_ext_key : str;
  sc_ext_code : str;
  sc_note : option scnote;
  sc_codes : kvs;
  sc_ext : kvs
}.
Record scenarioset := mkScenarioSet { ss_schema : str; ss_list : list scenario }.

(* tax.CorrectionDefinition *)
Record correction := mkCorrection {
  co_schema : str;
  co_types : list str;
  co_extensions : list str;
  co_reason_required : bool;
  co_stamps : list str;
  co_copy_tax : bool
}.

(* tax.RateValueDef / RateDef / CategoryDef *)
Record ratevalue := mkValue {
  rv_since : option date;
  rv_percent : pct;
  rv_surcharge : option pct;
  rv_tags : list str;
  rv_ext : kvs;
  rv_disabled : bool
}.
Record ratedef := mkRate {
  rt_key : str;
  rt_exempt : bool;
  rt_values : list ratevalue;
  rt_ext : kvs
}.
Record category := mkCategory {
  cat_code : str;
  cat_retained : bool;
  cat_rates : list ratedef;
  cat_extensions : list str;   (* extension keys usable with the category *)
  cat_map : kvs;
  cat_ext : kvs
}.

(* tax.RegimeDef *)
Record regime := mkRegime {
  rg_country : str;
  rg_alt_countries : list str;
  rg_zone : str;
  rg_currency : str;
  rg_time_zone : str;
  rg_tax_scheme : str;
  rg_rounding : str;           (* calculator_rounding_rule, "" = default *)
  rg_tags : list tagset;
  rg_extensions : list keydef;
  rg_identities : list keydef;
  rg_payment_means : list keydef;
  rg_inboxes : list keydef;
  rg_scenarios : list scenarioset;
  rg_corrections : list correction;
  rg_categories : list category
}.

(* tax.AddonDef *)
Record addon := mkAddon {
  ad_key : str;
  ad_requires : list str;
  ad_extensions : list keydef;
  ad_tags : list tagset;
  ad_scenarios : list scenarioset;
  ad_identities : list keydef;
  ad_inboxes : list keydef;
  ad_corrections : list correction
}.

(* tax.CatalogueDef *)
Record catalogue := mkCatalogue { cg_key : str; cg_extensions : list keydef }.

(* currency.Def (the members calculations use) *)
Record currency := mkCurrency { cu_code : str; cu_numeric : str; cu_subunits : Z }.

(* A published or generated definition file: base name without ".json" and content. *)
Definition named (A : Type) := (str * A)%type.
