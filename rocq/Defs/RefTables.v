(* C18: the generated tables as [defs] (Defs/RefCheck.v): what the linked code registers and what is
   published under data/.  Model file (no proofs); the runner Run/RunC18.v depends on this file only,
   so that it still builds when a generated-data proof (C19, Defs/RefCheckShipped.v) stops checking. *)
From Coq Require Import List ZArith Bool Strings.Byte String.
From Verif Require Import Base.Wire Defs.DefTypes Defs.DefEq Defs.RefCheck.
From Verif Require Import Gen.Regimes Gen.Addons Gen.Catalogues Gen.Currencies Gen.Countries Gen.Published.
Import ListNotations.

(* what the linked code registers *)
Definition in_code_defs : defs :=
  mkDefs (map snd in_code_regimes) (map snd in_code_addons) (map snd in_code_catalogues)
         (map cu_code currencies)
         (map (fun c => fst (fst c)) (filter (fun c => snd (fst c)) countries))
         (map (fun c => fst (fst c)) (filter (fun c => snd c) countries)).

(* what is published under data/: regimes, addons, catalogues; the code lists of data/schemas *)
Definition published_defs : defs :=
  mkDefs (map snd published_regimes) (map snd published_addons) (map snd published_catalogues)
         published_currencies published_iso_countries published_tax_countries.

