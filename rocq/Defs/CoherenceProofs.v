(* Soundness of the boolean coherence checkers of Defs/Coherence.v: checker = true -> statement. *)
From Coq Require Import List ZArith Bool Strings.Byte.
From Verif Require Import Base.Wire Defs.DefTypes Defs.DefEq Defs.DefEqProofs Defs.Coherence.
Import ListNotations.
Open Scope Z_scope.

Lemma nodupb_sound {A} (e : A -> A -> bool) l :
  (forall x, e x x = true) -> nodupb e l = true -> NoDup l.
Proof.
  intro Hr. induction l as [|x r IH]; cbn; intro H; [constructor|].
  apply andb_true_iff in H as [H1 H2]. constructor; [|apply IH; assumption].
  intro Hin. apply negb_true_iff in H1.
  assert (existsb (e x) r = true) by (apply existsb_exists; exists x; split; [assumption|apply Hr]).
  congruence.
Qed.

Lemma nodup_strs_sound l : nodup_strs l = true -> NoDup l.
Proof. apply nodupb_sound. apply str_eqb_refl. Qed.

Lemma nodup_pairs_sound (l : list (str * str)) : nodupb (pair_eqb str_eqb str_eqb) l = true -> NoDup l.
Proof.
  apply nodupb_sound. intros [a b]. unfold pair_eqb; cbn. rewrite !str_eqb_refl. reflexivity.
Qed.

Lemma all_in_sound refs defined : all_in refs defined = true -> Forall (fun k => In k defined) refs.
Proof.
  unfold all_in. rewrite forallb_forall, Forall_forall. intros H k Hk. apply memb_In. apply H; assumption.
Qed.

Lemma forallb_Forall {A} (f : A -> bool) (P : A -> Prop) l :
  (forall x, f x = true -> P x) -> forallb f l = true -> Forall P l.
Proof.
  intros HP H. rewrite forallb_forall in H. apply Forall_forall. intros x Hx. apply HP, H; assumption.
Qed.

Ltac split_all :=
  repeat match goal with H : (_ && _ = true) |- _ => apply andb_true_iff in H; destruct H end.

Ltac use_forallb :=
  match goal with H : forallb _ ?l = true |- Forall _ ?l => revert H; apply forallb_Forall end.

Lemma ext_pair_allowedb_sound w kv : ext_pair_allowedb w kv = true -> ext_pair_allowed w kv.
Proof.
  unfold ext_pair_allowedb, ext_pair_allowed. intro H. apply existsb_exists in H as [d [Hd H]].
  apply andb_true_iff in H as [H1 H2]. apply str_eqb_iff in H1.
  exists d. split; [assumption|]. split; [assumption|].
  apply orb_true_iff in H2 as [H2 | H2].
  - left. destruct (kd_values d); [reflexivity|discriminate].
  - right. apply memb_In; assumption.
Qed.

Lemma nonempty_sound (s : str) : match s with [] => false | _ => true end = true -> s <> [].
Proof. destruct s; [discriminate|intros _; discriminate]. Qed.

Lemma tag_keys_uniqueb_sound tss : tag_keys_uniqueb tss = true -> TagKeysUnique tss.
Proof.
  unfold tag_keys_uniqueb, TagKeysUnique. intro H. apply andb_true_iff in H as [H1 H2].
  split; [apply nodup_strs_sound; assumption|].
  use_forallb. intros ts; apply nodup_strs_sound.
Qed.

Lemma world_coherentb_sound w : world_coherentb w = true -> WorldCoherent w.
Proof.
  unfold world_coherentb, WorldCoherent. intro H. split_ands H.
  repeat split; try (apply nodup_strs_sound; assumption).
  use_forallb. intros d; apply nodup_pairs_sound.
Qed.

Lemma regime_coherentb_sound w r : regime_coherentb w r = true -> RegimeCoherent w r.
Proof.
  unfold regime_coherentb, regime_clauses, RegimeCoherent. cbn [forallb]. intro H. split_all.
  split; [apply memb_In; assumption|].
  split; [apply all_in_sound; assumption|].
  split; [apply all_in_sound; assumption|].
  split; [use_forallb; apply ext_pair_allowedb_sound|].
  split; [apply nodup_strs_sound; assumption|].
  split; [use_forallb; intros c; apply nodup_strs_sound|].
  split; [apply all_in_sound; assumption|].
  split; [apply all_in_sound; assumption|].
  split; [use_forallb; apply nonempty_sound|].
  split; [|use_forallb; intros l; apply nodup_strs_sound].
  use_forallb. intros rt Hrt Hex. rewrite Hex in Hrt. cbn in Hrt.
  destruct (rt_values rt); [reflexivity|discriminate].
Qed.

Lemma regime_scenario_tagsb_sound r : regime_scenario_tagsb r = true -> RegimeScenarioTagsDefined r.
Proof.
  unfold regime_scenario_tagsb, RegimeScenarioTagsDefined. apply forallb_Forall. intros st; apply memb_In.
Qed.

Lemma addon_coherentb_sound w a : addon_coherentb w a = true -> AddonCoherent w a.
Proof.
  unfold addon_coherentb, addon_clauses, AddonCoherent. cbn [forallb]. intro H. split_all.
  split; [apply all_in_sound; assumption|].
  split; [apply all_in_sound; assumption|].
  split; [use_forallb; apply ext_pair_allowedb_sound|].
  split; [use_forallb; intros st; apply memb_In|].
  split; [apply all_in_sound; assumption|].
  split; [use_forallb; apply nonempty_sound|].
  use_forallb; intros l; apply nodup_strs_sound.
Qed.

(* ---- whole world ---- *)

Lemma all_regimes_coherentb_sound w :
  all_regimes_coherentb w = true -> forall f r, In (f, r) (w_regimes w) -> RegimeCoherent w r.
Proof.
  unfold all_regimes_coherentb. rewrite forallb_forall. intros H f r Hin.
  apply regime_coherentb_sound. exact (H _ Hin).
Qed.

Lemma all_addons_coherentb_sound w :
  all_addons_coherentb w = true -> forall f a, In (f, a) (w_addons w) -> AddonCoherent w a.
Proof.
  unfold all_addons_coherentb. rewrite forallb_forall. intros H f a Hin.
  apply addon_coherentb_sound. exact (H _ Hin).
Qed.

Lemma regimes_scenario_tagsb_sound w except :
  regimes_scenario_tagsb w except = true ->
  forall f r, In (f, r) (w_regimes w) -> ~ In f except -> RegimeScenarioTagsDefined r.
Proof.
  unfold regimes_scenario_tagsb. rewrite forallb_forall. intros H f r Hin Hex.
  specialize (H _ Hin). cbn in H. apply orb_true_iff in H as [H | H].
  - exfalso; apply Hex; apply memb_In; assumption.
  - apply regime_scenario_tagsb_sound; assumption.
Qed.

Lemma regimes_tags_uniqueb_sound w :
  regimes_tags_uniqueb w = true -> forall f r, In (f, r) (w_regimes w) -> TagKeysUnique (rg_tags r).
Proof.
  unfold regimes_tags_uniqueb. rewrite forallb_forall. intros H f r Hin.
  apply tag_keys_uniqueb_sound. exact (H _ Hin).
Qed.

Lemma addons_tags_uniqueb_sound w except :
  addons_tags_uniqueb w except = true ->
  forall f a, In (f, a) (w_addons w) -> ~ In f except -> TagKeysUnique (ad_tags a).
Proof.
  unfold addons_tags_uniqueb. rewrite forallb_forall. intros H f a Hin Hex.
  specialize (H _ Hin). cbn in H. apply orb_true_iff in H as [H | H].
  - exfalso; apply Hex; apply memb_In; assumption.
  - apply tag_keys_uniqueb_sound; assumption.
Qed.
