(* C19, generated data: the boolean checkers of Defs/DefEq.v and Defs/Coherence.v evaluated by
   vm_compute over what the linked code registers (Gen/Regimes.v, Addons.v, Catalogues.v,
   Currencies.v) and what the published files say (Gen/Published.v), lifted to Prop by the soundness
   lemmas.  If a definition changes in the code without its published file (or the reverse), or a
   definition starts referring to something undefined, THIS file stops compiling. *)
From Coq Require Import List ZArith Bool.
From Verif Require Import Base.Wire Defs.DefTypes Defs.DefEq Defs.DefEqProofs Defs.Coherence Defs.CoherenceProofs.
From Verif Require Import Gen.Regimes Gen.Addons Gen.Catalogues Gen.Currencies Gen.Published.
Import ListNotations.

Definition in_code_world : world := mkWorld in_code_regimes in_code_addons in_code_catalogues currencies.

(* ---- published = in code ---- *)
Lemma regimes_covered_check : covered regime_eqb in_code_regimes published_regimes = true.
Proof. vm_compute. reflexivity. Qed.
Lemma addons_covered_check : covered addon_eqb in_code_addons published_addons = true.
Proof. vm_compute. reflexivity. Qed.
Lemma catalogues_covered_check : covered catalogue_eqb in_code_catalogues published_catalogues = true.
Proof. vm_compute. reflexivity. Qed.

Lemma published_covers_in_code :
  (forall f r, In (f, r) in_code_regimes -> assoc f published_regimes = Some r) /\
  (forall f a, In (f, a) in_code_addons -> assoc f published_addons = Some a) /\
  (forall f c, In (f, c) in_code_catalogues -> assoc f published_catalogues = Some c).
Proof.
  split; [exact (covered_sound _ _ _ regime_eqb_sound regimes_covered_check)|].
  split; [exact (covered_sound _ _ _ addon_eqb_sound addons_covered_check)|].
  exact (covered_sound _ _ _ catalogue_eqb_sound catalogues_covered_check).
Qed.

Lemma regime_orphans_check :
  forallb (fun f => memb f recorded_orphan_regime_files) (orphans in_code_regimes published_regimes) = true.
Proof. vm_compute. reflexivity. Qed.
Lemma addon_orphans_check : forallb (fun f => memb f []) (orphans in_code_addons published_addons) = true.
Proof. vm_compute. reflexivity. Qed.
Lemma catalogue_orphans_check : forallb (fun f => memb f []) (orphans in_code_catalogues published_catalogues) = true.
Proof. vm_compute. reflexivity. Qed.

Lemma published_only_defined :
  (forall f, In f (map fst published_regimes) -> In f (map fst in_code_regimes) \/ In f recorded_orphan_regime_files) /\
  (forall f, In f (map fst published_addons) -> In f (map fst in_code_addons)) /\
  (forall f, In f (map fst published_catalogues) -> In f (map fst in_code_catalogues)).
Proof.
  split; [exact (orphans_nil_sound _ _ _ regime_orphans_check)|].
  split; intros f Hf.
  - destruct (orphans_nil_sound _ _ _ addon_orphans_check f Hf) as [H | []]; exact H.
  - destruct (orphans_nil_sound _ _ _ catalogue_orphans_check f Hf) as [H | []]; exact H.
Qed.

(* ---- coherence ---- *)
Lemma world_check : world_coherentb in_code_world = true.
Proof. vm_compute. reflexivity. Qed.
Lemma regimes_check : all_regimes_coherentb in_code_world = true.
Proof. vm_compute. reflexivity. Qed.
Lemma addons_check : all_addons_coherentb in_code_world = true.
Proof. vm_compute. reflexivity. Qed.
Lemma regimes_scenario_tags_check : regimes_scenario_tagsb in_code_world recorded_scenario_tag_exceptions = true.
Proof. vm_compute. reflexivity. Qed.
Lemma regimes_tags_unique_check : regimes_tags_uniqueb in_code_world = true.
Proof. vm_compute. reflexivity. Qed.
Lemma addons_tags_unique_check : addons_tags_uniqueb in_code_world recorded_duplicate_tag_exceptions = true.
Proof. vm_compute. reflexivity. Qed.

Lemma definitions_coherent :
  WorldCoherent in_code_world /\
  (forall f r, In (f, r) in_code_regimes -> RegimeCoherent in_code_world r) /\
  (forall f a, In (f, a) in_code_addons -> AddonCoherent in_code_world a) /\
  (forall f r, In (f, r) in_code_regimes -> TagKeysUnique (rg_tags r)).
Proof.
  split; [exact (world_coherentb_sound _ world_check)|].
  split; [exact (all_regimes_coherentb_sound _ regimes_check)|].
  split; [exact (all_addons_coherentb_sound _ addons_check)|].
  exact (regimes_tags_uniqueb_sound _ regimes_tags_unique_check).
Qed.

Lemma tags_defined_and_unique_except_recorded :
  (forall f r, In (f, r) in_code_regimes -> ~ In f recorded_scenario_tag_exceptions -> RegimeScenarioTagsDefined r) /\
  (forall f a, In (f, a) in_code_addons -> ~ In f recorded_duplicate_tag_exceptions -> TagKeysUnique (ad_tags a)).
Proof.
  split; [exact (regimes_scenario_tagsb_sound _ _ regimes_scenario_tags_check)|].
  exact (addons_tags_uniqueb_sound _ _ addons_tags_unique_check).
Qed.

Lemma gen_invoice_types_are_the_six : gen_invoice_types = invoice_types.
Proof. vm_compute. reflexivity. Qed.

(* non-vacuity: how much the checks ran over *)
Lemma world_sizes :
  (19 <= Z.of_nat (length in_code_regimes))%Z /\ (14 <= Z.of_nat (length in_code_addons))%Z /\
  (3 <= Z.of_nat (length in_code_catalogues))%Z /\ (150 <= Z.of_nat (length currencies))%Z /\
  (50 <= Z.of_nat (length (all_ext_defs in_code_world)))%Z.
Proof. vm_compute. repeat split; discriminate. Qed.
