(* C18 over the generated tables: the in-code and the published definition tables as [defs],
   the corollary of C19 (resolution in the published tables = resolution in the in-code tables),
   the witness refuting soundness of the rules AS SHIPPED, the patterns the matcher has to cover,
   and satisfiable examples. *)
From Coq Require Import List ZArith Bool Strings.Byte String.
From Verif Require Import Base.Wire Defs.DefTypes Defs.DefEq Defs.DefEqProofs Defs.Coherence Defs.CoherenceProofs
  Defs.ShippedDefsProofs Defs.RefCheck Defs.RefTables Defs.RefCheckProofs.
From Verif Require Import Gen.Regimes Gen.Addons Gen.Catalogues Gen.Currencies Gen.Countries Gen.Published.
Import ListNotations.
Open Scope bs_scope.

(* ---- published = in code, as sets of definitions ---- *)

Lemma published_regime_names_unique : nodup_strs (map fst published_regimes) = true.
Proof. vm_compute. reflexivity. Qed.
Lemma published_addon_names_unique : nodup_strs (map fst published_addons) = true.
Proof. vm_compute. reflexivity. Qed.
Lemma published_catalogue_names_unique : nodup_strs (map fst published_catalogues) = true.
Proof. vm_compute. reflexivity. Qed.

Definition same_strs (a b : list str) : bool := all_in a b && all_in b a.
Lemma same_strs_sound a b : same_strs a b = true -> forall x, In x a <-> In x b.
Proof.
  unfold same_strs. intro H. apply andb_true_iff in H as [H1 H2].
  apply all_in_sound in H1. apply all_in_sound in H2. rewrite Forall_forall in H1, H2.
  intro x. split; [apply H1|apply H2].
Qed.

Lemma currencies_published_check : same_strs published_currencies (map cu_code currencies) = true.
Proof. vm_compute. reflexivity. Qed.
Lemma iso_countries_published_check :
  same_strs published_iso_countries (map (fun c => fst (fst c)) (filter (fun c => snd (fst c)) countries)) = true.
Proof. vm_compute. reflexivity. Qed.
Lemma tax_countries_published_check :
  same_strs published_tax_countries (map (fun c => fst (fst c)) (filter (fun c => snd c) countries)) = true.
Proof. vm_compute. reflexivity. Qed.

(* corollary of C19: published_covers_in_code (= Props/C19.v published_equals_in_code) and
   published_only_defined (= published_only_defined_partial, whose list of recorded orphans is empty) *)
Lemma published_regimes_only_defined f : In f (map fst published_regimes) -> In f (map fst in_code_regimes).
Proof.
  intro Hf. destruct (proj1 published_only_defined f Hf) as [H | H]; [exact H|].
  unfold recorded_orphan_regime_files in H. destruct H.
Qed.

Lemma published_same_as_in_code : same_defs published_defs in_code_defs.
Proof.
  exact (same_defs_of_files in_code_regimes published_regimes in_code_addons published_addons
           in_code_catalogues published_catalogues _ _ _ _ _ _
           (proj1 published_covers_in_code) published_regimes_only_defined
           (nodup_strs_sound _ published_regime_names_unique)
           (proj1 (proj2 published_covers_in_code)) (proj1 (proj2 published_only_defined))
           (nodup_strs_sound _ published_addon_names_unique)
           (proj2 (proj2 published_covers_in_code)) (proj2 (proj2 published_only_defined))
           (nodup_strs_sound _ published_catalogue_names_unique)
           (same_strs_sound _ _ currencies_published_check)
           (same_strs_sound _ _ iso_countries_published_check)
           (same_strs_sound _ _ tax_countries_published_check)).
Qed.

Lemma resolves_published_iff_in_code_lemma (mp : bytes -> bytes -> bool) (rf : ref) :
  resolves mp published_defs rf <-> resolves mp in_code_defs rf.
Proof. apply resolves_same. exact published_same_as_in_code. Qed.

(* a document accepted by the repaired rules over what the code registers resolves in what is published *)
Lemma validated_resolves_in_published_lemma (mp : bytes -> bytes -> bool) (r : doc_refs) :
  validate_refs mp in_code_defs r = true -> Forall (resolves mp published_defs) (refs r).
Proof.
  intro H. apply refcheck_sound_lemma in H. rewrite Forall_forall in *. intros rf Hrf.
  apply resolves_published_iff_in_code_lemma. apply H; assumption.
Qed.

(* ---- the rules as shipped: `$regime` is never looked up ---- *)

(* the reference view of  {"$schema": ".../bill/invoice", "$regime": "QQ", "currency": "EUR",
   "supplier": {"name": "x", "tax_id": {"country": "ES"}}, "lines": [{... "taxes": [{"cat": "VAT",
   "percent": "21%"}]}]}  (corpus/C18/regime-undefined.json) *)
Definition regime_qq_view : doc_refs :=
  mkDocRefs "QQ" [] "bill/invoice" []
            [mkComboRef "lines/0/taxes/0" "VAT" "" "" []] []
            [mkCurrencyRef "currency" "EUR"] [mkCountryRef "supplier/tax_id/country" CkTax "ES"].

Lemma regime_qq_accepted_as_shipped (mp : bytes -> bytes -> bool) : validate_refs_shipped mp in_code_defs regime_qq_view = true.
Proof. vm_compute. reflexivity. Qed.
Lemma regime_qq_rejected_when_repaired (mp : bytes -> bytes -> bool) : validate_refs mp in_code_defs regime_qq_view = false.
Proof. vm_compute. reflexivity. Qed.
Lemma regime_qq_undefined : regime_for in_code_defs "QQ" = None.
Proof. vm_compute. reflexivity. Qed.

Lemma refcheck_shipped_unsound (mp : bytes -> bytes -> bool) :
  exists r, validate_refs_shipped mp in_code_defs r = true /\ ~ Forall (resolves mp in_code_defs) (refs r).
Proof.
  exists regime_qq_view. split; [apply regime_qq_accepted_as_shipped|].
  intro F. inversion F as [|rf l H _]; subst. cbn in H.
  exact (regime_for_none _ _ regime_qq_undefined H).
Qed.

(* the same for a combo's country override: never validated as shipped *)
Definition combo_country_qq_view : doc_refs :=
  mkDocRefs "ES" [] "bill/invoice" []
            [mkComboRef "lines/0/taxes/0" "VAT" "" "QQ" []] []
            [mkCurrencyRef "currency" "EUR"] [mkCountryRef "lines/0/taxes/0/country" CkCombo "QQ"].
Lemma qq_not_a_tax_country : memb "QQ" (df_tax_countries in_code_defs) = false.
Proof. vm_compute. reflexivity. Qed.
Lemma combo_country_shipped_unsound (mp : bytes -> bytes -> bool) :
  validate_refs_shipped mp in_code_defs combo_country_qq_view = true /\
  validate_refs mp in_code_defs combo_country_qq_view = false /\
  ~ In "QQ" (df_tax_countries in_code_defs).
Proof.
  split; [vm_compute; reflexivity|]. split; [vm_compute; reflexivity|].
  intro H. apply memb_In in H. rewrite qq_not_a_tax_country in H. discriminate.
Qed.

(* ---- the matcher covers every pattern a registered or published extension declares ---- *)
Lemma all_patterns_supported_lemma :
  forallb (fun kd => is_empty (kd_pattern kd) || pattern_supported (kd_pattern kd))
          (ext_defs in_code_defs ++ ext_defs published_defs) = true.
Proof. vm_compute. reflexivity. Qed.

(* ---- satisfiable examples ---- *)

(* an ES invoice with the facturae addon: standard-rate VAT plus equivalence surcharge, a retained
   category, an extension with listed codes, a tag, two currencies, three country codes *)
Definition es_view : doc_refs :=
  mkDocRefs "ES" ["es-facturae-v3"] "bill/invoice" ["simplified"]
            [mkComboRef "lines/0/taxes/0" "VAT" "standard+eqs" "" [];
             mkComboRef "lines/0/taxes/1" "IRPF" "pro" "" [];
             mkComboRef "lines/1/taxes/0" "VAT" "standard" "PT" []]
            [mkExtRef "tax/ext" "es-facturae-doc-type" "FC"]
            [mkCurrencyRef "currency" "EUR"; mkCurrencyRef "lines/0/item/currency" "USD"]
            [mkCountryRef "supplier/tax_id/country" CkTax "ES"; mkCountryRef "supplier/addresses/0/country" CkISO "ES";
             mkCountryRef "lines/1/taxes/0/country" CkCombo "PT"].
Lemma es_view_validates : validate_refs simple_match in_code_defs es_view = true.
Proof. vm_compute. reflexivity. Qed.
Lemma es_view_refs : (12 <= Z.of_nat (List.length (refs es_view)))%Z.
Proof. vm_compute. discriminate. Qed.

(* a pattern-valued extension: accepted with a matching value, rejected otherwise *)
Definition pattern_view (v : str) : doc_refs :=
  mkDocRefs "CO" [] "bill/invoice" [] [] [mkExtRef "supplier/ext" "co-dian-municipality" v] [] [].
Lemma pattern_view_checks :
  validate_refs simple_match in_code_defs (pattern_view "11001") = true /\
  validate_refs simple_match in_code_defs (pattern_view "1100") = false /\
  validate_refs simple_match in_code_defs (pattern_view "1100A") = false.
Proof. vm_compute. repeat split. Qed.

(* each kind of undefined reference is rejected by the repaired rules *)
Definition with_regime (r : doc_refs) c := mkDocRefs c (r_addons r) (r_schema r) (r_tags r) (r_combos r) (r_exts r) (r_currencies r) (r_countries r).
Lemma undefined_references_rejected :
  map (validate_refs simple_match in_code_defs)
      [ mkDocRefs "ES" ["zz-unknown"] "bill/invoice" [] [] [] [] [];
        mkDocRefs "ES" [] "bill/invoice" ["zz-unknown"] [] [] [] [];
        mkDocRefs "ES" [] "bill/order" ["simplified"] [] [] [] [];
        mkDocRefs "ES" [] "bill/invoice" [] [mkComboRef "" "QQ" "" "" []] [] [] [];
        mkDocRefs "ES" [] "bill/invoice" [] [mkComboRef "" "VAT" "zz-unknown" "" []] [] [] [];
        mkDocRefs "ES" [] "bill/invoice" [] [mkComboRef "" "VAT" "bogus+standard" "" []] [] [] [];
        mkDocRefs "ES" [] "bill/invoice" [] [mkComboRef "" "VAT" "standard" "QQ" []] [] [] [];
        mkDocRefs "ES" [] "bill/invoice" [] [] [mkExtRef "" "zz-unknown" "1"] [] [];
        mkDocRefs "ES" [] "bill/invoice" [] [] [mkExtRef "" "es-facturae-doc-type" "QQ"] [] [];
        mkDocRefs "ES" [] "bill/invoice" [] [] [] [mkCurrencyRef "" "XXX"] [];
        mkDocRefs "ES" [] "bill/invoice" [] [] [] [] [mkCountryRef "" CkISO "QQ"];
        mkDocRefs "ES" [] "bill/invoice" [] [] [] [] [mkCountryRef "" CkRegime "QQ"] ]
  = repeat false 12.
Proof. vm_compute. reflexivity. Qed.

(* a rate key whose first component is not a rate of the category: refused by the rule after the repair
   (Key.HasPrefix), accepted by the rule as shipped before it (Key.Has: `standard` is SOME component);
   `bogus` alone was always refused, a defined first component with free suffixes is still accepted *)
Lemma rate_key_any_part_witness :
  let es := regime_for in_code_defs "ES" in
  in_category_rates_any_part es "VAT" "bogus+standard" = true /\
  in_category_rates es "VAT" "bogus+standard" = false /\
  in_category_rates es "VAT" "bogus" = false /\
  in_category_rates es "VAT" "bogus+standard+x" = false /\
  in_category_rates es "VAT" "eqs+standard" = false /\
  in_category_rates es "VAT" "standard+bogus" = true /\
  in_category_rates es "VAT" "standard+eqs" = true /\
  in_category_rates es "VAT" "exempt+reverse-charge" = true.
Proof. vm_compute. repeat split. Qed.

Lemma c18_table_sizes :
  (19 <= Z.of_nat (List.length (df_regimes in_code_defs)))%Z /\ (14 <= Z.of_nat (List.length (df_addons in_code_defs)))%Z /\
  (60 <= Z.of_nat (List.length (ext_defs in_code_defs)))%Z /\ (150 <= Z.of_nat (List.length (df_currencies in_code_defs)))%Z /\
  (240 <= Z.of_nat (List.length (df_iso_countries in_code_defs)))%Z /\ (240 <= Z.of_nat (List.length (df_tax_countries in_code_defs)))%Z.
Proof. vm_compute. repeat split; discriminate. Qed.
