(* C18: soundness of the reference-checking rules of Defs/RefCheck.v for ALL definition tables and
   all documents (a proof about the rules, not about particular data), the per-kind lemmas, and the
   fact that resolution only depends on WHICH definitions exist (used to move between the published
   and the in-code tables). *)
From Coq Require Import List ZArith Bool Strings.Byte String.
From Verif Require Import Base.Wire Defs.DefTypes Defs.DefEq Defs.DefEqProofs Defs.RefCheck.
Import ListNotations.
Open Scope Z_scope.

(* ---- look-ups ---- *)

Lemma is_empty_true (s : str) : is_empty s = true -> s = [].
Proof. destruct s; [reflexivity|discriminate]. Qed.

Lemma regime_has_code_iff r c :
  regime_has_code r c = true <-> (rg_country r = c \/ In c (rg_alt_countries r)).
Proof.
  unfold regime_has_code. rewrite orb_true_iff, str_eqb_iff, memb_In. reflexivity.
Qed.

Lemma regime_for_some d c r : regime_for d c = Some r -> RegimeOf d c r.
Proof.
  unfold regime_for, RegimeOf. intro H. apply find_some in H as [H1 H2].
  split; [assumption|]. apply regime_has_code_iff; assumption.
Qed.

Lemma regime_for_none d c : regime_for d c = None -> ~ exists r, RegimeOf d c r.
Proof.
  unfold regime_for, RegimeOf. intros H [r [Hin Hc]].
  pose proof (find_none _ _ H r Hin) as Hf. cbn in Hf.
  apply regime_has_code_iff in Hc. congruence.
Qed.

Lemma regime_for_complete d c r : RegimeOf d c r -> regime_for d c <> None.
Proof. intros H Hn. exact (regime_for_none d c Hn (ex_intro _ r H)). Qed.

Lemma addon_for_some d k a : addon_for d k = Some a -> In a (df_addons d) /\ ad_key a = k.
Proof.
  unfold addon_for. intro H. apply find_some in H as [H1 H2]. split; [assumption|].
  apply str_eqb_iff; assumption.
Qed.

Lemma in_ext_defs d kd : In kd (ext_defs d) <-> ExtDefined d kd.
Proof.
  unfold ext_defs, ExtDefined. rewrite !in_app_iff, !in_flat_map. reflexivity.
Qed.

Lemma ext_for_key_some d k kd : ext_for_key d k = Some kd -> ExtDefined d kd /\ kd_key kd = k.
Proof.
  unfold ext_for_key. intro H. apply find_some in H as [H1 H2]. split.
  - apply in_ext_defs; assumption.
  - apply str_eqb_iff; assumption.
Qed.

Lemma category_for_some r cat c : category_for r cat = Some c -> In c (rg_categories r) /\ cat_code c = cat.
Proof.
  unfold category_for. intro H. apply find_some in H as [H1 H2]. split; [assumption|].
  apply str_eqb_iff; assumption.
Qed.

(* Key.HasPrefix(ke) <=> the first component is ke; and it implies Key.Has(ke) *)
Lemma split_plus_2_aux_hd l : forall cur, hd [] (split_plus_2_aux l cur) = hd [] (split_plus_aux l cur).
Proof.
  induction l as [|b r IH]; intro cur; cbn [split_plus_2_aux split_plus_aux]; [reflexivity|].
  destruct (bZ b =? 43)%Z; [reflexivity|apply IH].
Qed.

Lemma split_plus_2_aux_nonempty l : forall cur, split_plus_2_aux l cur <> [].
Proof.
  induction l as [|b r IH]; intro cur; cbn [split_plus_2_aux]; [discriminate|].
  destruct (bZ b =? 43)%Z; [discriminate|apply IH].
Qed.

Lemma split_plus_aux_nonempty l : forall cur, split_plus_aux l cur <> [].
Proof.
  induction l as [|b r IH]; intro cur; cbn [split_plus_aux]; [discriminate|].
  destruct (bZ b =? 43)%Z; [discriminate|apply IH].
Qed.

Lemma key_has_prefix_iff k ke : key_has_prefix k ke = true <-> key_first k = ke.
Proof.
  unfold key_has_prefix, key_first, key_parts.
  rewrite <- (split_plus_2_aux_hd k []).
  pose proof (split_plus_2_aux_nonempty k []) as Hne.
  destruct (split_plus_2_aux k []) as [|p rest]; [congruence|]. cbn [hd]. apply str_eqb_iff.
Qed.

Lemma key_first_in_parts k : In (key_first k) (key_parts k).
Proof.
  unfold key_first, key_parts. pose proof (split_plus_aux_nonempty k []) as Hne.
  destruct (split_plus_aux k []); [congruence|left; reflexivity].
Qed.

Lemma key_has_prefix_has k ke : key_has_prefix k ke = true -> key_has k ke = true.
Proof.
  intro H. apply key_has_prefix_iff in H. unfold key_has. apply memb_In. rewrite <- H. apply key_first_in_parts.
Qed.

Lemma tagset_keys_sound tss schema t : In t (tagset_keys tss schema) -> Offers tss schema t.
Proof.
  unfold tagset_keys, Offers. destruct (find _ tss) as [ts|] eqn:E; [|intros []].
  apply find_some in E as [E1 E2]. intro H. exists ts. split; [assumption|]. split; [|assumption].
  apply str_eqb_iff; assumption.
Qed.

Section Sound.
Variable mp : bytes -> bytes -> bool.

(* ---- per-kind soundness ---- *)

Lemma regime_code_ok_sound d c : regime_code_ok d c = true -> c <> [] -> resolves mp d (RefRegime c).
Proof.
  unfold regime_code_ok. intros H Hne. apply orb_true_iff in H as [H | H].
  - apply is_empty_true in H. contradiction.
  - destruct (regime_for d c) as [r|] eqn:E; [|discriminate]. exists r. apply regime_for_some; assumption.
Qed.

Lemma addon_ok_sound d k : is_some (addon_for d k) = true -> resolves mp d (RefAddon k).
Proof.
  destruct (addon_for d k) as [a|] eqn:E; [|discriminate]. intros _.
  apply addon_for_some in E. exists a. exact E.
Qed.

Lemma in_categories_sound d c cat :
  in_categories (regime_for d c) cat = true -> resolves mp d (RefCategory c cat).
Proof.
  unfold in_categories. intro H. apply andb_true_iff in H as [_ H].
  destruct (regime_for d c) as [r|] eqn:E.
  - right. exists r. split; [apply regime_for_some; assumption|]. apply memb_In; assumption.
  - left. apply regime_for_none; assumption.
Qed.

Lemma in_category_rates_sound d c cat rate :
  in_category_rates (regime_for d c) cat rate = true -> rate <> [] -> resolves mp d (RefRate c cat rate).
Proof.
  unfold in_category_rates, in_category_rates_with. intros H Hne.
  destruct (regime_for d c) as [r|] eqn:E; [|apply is_empty_true in H; contradiction].
  destruct (category_for r cat) as [ca|] eqn:Ec; [|apply is_empty_true in H; contradiction].
  apply orb_true_iff in H as [H | H]; [apply is_empty_true in H; contradiction|].
  apply existsb_exists in H as [rt [Hrt Hk]].
  apply category_for_some in Ec as [Hca Hcode].
  exists r, ca, rt. split; [apply regime_for_some; assumption|].
  repeat split; try assumption. apply key_has_prefix_iff; assumption.
Qed.

(* conversely (the rule is exact for the regime the look-up finds): a key whose first component is a
   rate of the category is accepted - extended keys such as `exempt+reverse-charge` stay valid *)
Lemma in_category_rates_complete r ca cat rate rt :
  category_for r cat = Some ca -> In rt (cat_rates ca) -> key_first rate = rt_key rt ->
  in_category_rates (Some r) cat rate = true.
Proof.
  unfold in_category_rates, in_category_rates_with. intros -> Hin Hk.
  apply orb_true_iff; right. apply existsb_exists. exists rt. split; [assumption|].
  apply key_has_prefix_iff; assumption.
Qed.

(* the repaired rule accepts no more than the rule as shipped before it *)
Lemma in_category_rates_stricter r cat rate :
  in_category_rates r cat rate = true -> in_category_rates_any_part r cat rate = true.
Proof.
  unfold in_category_rates, in_category_rates_any_part, in_category_rates_with.
  destruct r as [r|]; [|trivial]. destruct (category_for r cat) as [ca|]; [|trivial].
  intro H. apply orb_true_iff in H as [H|H]; apply orb_true_iff; [left; assumption|right].
  apply existsb_exists in H as [rt [Hin Hk]]. apply existsb_exists. exists rt.
  split; [assumption|apply key_has_prefix_has; assumption].
Qed.

Lemma ext_ok_sound d k v : ext_ok mp d k v = true -> resolves mp d (RefExt k v).
Proof.
  unfold ext_ok. destruct (ext_for_key d k) as [kd|] eqn:E; [|discriminate].
  apply ext_for_key_some in E as [Hd Hk]. unfold ext_value_ok. intro H.
  apply andb_true_iff in H as [H1 H2]. exists kd. split; [assumption|]. split; [assumption|]. split.
  - destruct (kd_values kd) eqn:Ev; [left; reflexivity|right; apply memb_In; assumption].
  - apply orb_true_iff in H2 as [H2 | H2]; [left; apply is_empty_true; assumption|right; assumption].
Qed.

Lemma supported_tags_sound d c addons schema t :
  In t (supported_tags d c addons schema) -> resolves mp d (RefTag c addons schema t).
Proof.
  unfold supported_tags. rewrite in_app_iff, in_flat_map. intros [H | [k [Hk H]]].
  - destruct (regime_for d c) as [r|] eqn:E; [|destruct H]. left. exists r.
    split; [apply regime_for_some; assumption|apply tagset_keys_sound; assumption].
  - destruct (addon_for d k) as [a|] eqn:E; [|destruct H]. apply addon_for_some in E as [Ha Hkey].
    right. exists a. split; [rewrite Hkey; assumption|]. split; [assumption|apply tagset_keys_sound; assumption].
Qed.

Lemma combo_ok_sound d reg c : combo_ok mp d reg c = true -> Forall (resolves mp d) (combo_refs reg c).
Proof.
  unfold combo_ok, combo_refs. intro H. apply andb_true_iff in H as [H H3]. apply andb_true_iff in H as [H1 H2].
  constructor; [apply in_categories_sound; assumption|].
  apply Forall_app. split.
  - destruct (cr_rate c) as [|b rt] eqn:Er; constructor; [|constructor].
    apply in_category_rates_sound; [assumption|discriminate].
  - apply Forall_forall. intros rf Hrf. apply in_map_iff in Hrf as [kv [<- Hkv]].
    rewrite forallb_forall in H3. apply ext_ok_sound. exact (H3 kv Hkv).
Qed.

Lemma currency_ok_sound d c :
  currency_ok d c = true ->
  Forall (resolves mp d) (match ur_code c with [] => [] | x => [RefCurrency x] end).
Proof.
  unfold currency_ok. intro H. destruct (ur_code c) as [|b x] eqn:E; constructor; [|constructor].
  cbn in H. apply memb_In; assumption.
Qed.

Lemma country_ok_sound d k : country_ok repaired_rules d k = true -> Forall (resolves mp d) (country_refs k).
Proof.
  unfold country_ok, country_refs. intro H. destruct (kr_code k) as [|b x] eqn:E; [constructor|].
  cbn [is_empty orb] in H. destruct (kr_kind k); cbn in H; constructor; try constructor.
  - apply memb_In; assumption.
  - apply memb_In; assumption.
  - destruct (regime_for d (b :: x)) as [r|] eqn:Er; [|discriminate]. exists r. apply regime_for_some; assumption.
  - apply memb_In; assumption.
Qed.

(* ---- the theorem ---- *)

Lemma Forall_flat_map {A B} (P : B -> Prop) (f : A -> list B) l :
  (forall x, In x l -> Forall P (f x)) -> Forall P (flat_map f l).
Proof.
  intro H. apply Forall_forall. intros y Hy. apply in_flat_map in Hy as [x [Hx Hy]].
  specialize (H x Hx). rewrite Forall_forall in H. apply H; assumption.
Qed.

Lemma Forall_map_in {A B} (P : B -> Prop) (f : A -> B) l :
  (forall x, In x l -> P (f x)) -> Forall P (map f l).
Proof.
  intro H. apply Forall_forall. intros y Hy. apply in_map_iff in Hy as [x [<- Hx]]. apply H; assumption.
Qed.

Lemma refcheck_sound_lemma d r : validate_refs mp d r = true -> Forall (resolves mp d) (refs r).
Proof.
  unfold validate_refs, validate_refs_gen, refs. cbn [ru_regime repaired_rules negb orb]. intro H.
  repeat match type of H with (_ && _ = true) => let H2 := fresh "E" in apply andb_true_iff in H as [H H2] end.
  repeat (apply Forall_app; split).
  - destruct (r_regime r) as [|b x] eqn:Er; constructor; [|constructor].
    apply regime_code_ok_sound; [assumption|discriminate].
  - apply Forall_map_in. intros k Hk. unfold addons_ok in E4. rewrite forallb_forall in E4.
    apply addon_ok_sound. exact (E4 k Hk).
  - apply Forall_map_in. intros t Ht. unfold tags_ok in E3. rewrite forallb_forall in E3.
    apply supported_tags_sound. apply memb_In. exact (E3 t Ht).
  - apply Forall_flat_map. intros c Hc. rewrite forallb_forall in E2. apply combo_ok_sound. exact (E2 c Hc).
  - apply Forall_map_in. intros e He. rewrite forallb_forall in E1. apply ext_ok_sound. exact (E1 e He).
  - apply Forall_flat_map. intros c Hc. rewrite forallb_forall in E0. apply currency_ok_sound. exact (E0 c Hc).
  - apply Forall_flat_map. intros k Hk. rewrite forallb_forall in E. apply country_ok_sound. exact (E k Hk).
Qed.

(* ---- per-kind corollaries, in the vocabulary of the view ---- *)

Lemma regime_and_addons_exist_lemma d r :
  validate_refs mp d r = true ->
  (r_regime r <> [] -> exists rg, RegimeOf d (r_regime r) rg) /\
  (forall k, In k (r_addons r) -> exists a, In a (df_addons d) /\ ad_key a = k).
Proof.
  intro H. pose proof (refcheck_sound_lemma d r H) as F. rewrite Forall_forall in F. split.
  - intro Hne. apply (F (RefRegime (r_regime r))). unfold refs. apply in_or_app. left.
    destruct (r_regime r); [contradiction|left; reflexivity].
  - intros k Hk. apply (F (RefAddon k)). unfold refs. apply in_or_app. right. apply in_or_app. left.
    apply in_map; assumption.
Qed.

Lemma in_combo_refs r c rf : In c (r_combos r) -> In rf (combo_refs (r_regime r) c) -> In rf (refs r).
Proof.
  intros Hc Hrf. unfold refs. do 3 (apply in_or_app; right). apply in_or_app; left.
  apply in_flat_map. exists c. split; assumption.
Qed.

Lemma combo_category_resolves_lemma d r c :
  validate_refs mp d r = true -> In c (r_combos r) ->
  resolves mp d (RefCategory (applying_country (r_regime r) c) (cr_cat c)).
Proof.
  intros H Hc. pose proof (refcheck_sound_lemma d r H) as F. rewrite Forall_forall in F.
  apply F. apply (in_combo_refs r c _ Hc). left; reflexivity.
Qed.

Lemma combo_rate_key_resolves_lemma d r c :
  validate_refs mp d r = true -> In c (r_combos r) -> cr_rate c <> [] ->
  exists rg ca rt, RegimeOf d (applying_country (r_regime r) c) rg /\ In ca (rg_categories rg) /\
                   cat_code ca = cr_cat c /\ In rt (cat_rates ca) /\ key_first (cr_rate c) = rt_key rt.
Proof.
  intros H Hc Hne. pose proof (refcheck_sound_lemma d r H) as F. rewrite Forall_forall in F.
  apply (F (RefRate (applying_country (r_regime r) c) (cr_cat c) (cr_rate c))).
  apply (in_combo_refs r c _ Hc). unfold combo_refs. right. apply in_or_app. left.
  destruct (cr_rate c); [contradiction|left; reflexivity].
Qed.

Lemma extension_value_allowed_or_matches_pattern_lemma d r k v :
  validate_refs mp d r = true ->
  ((exists e, In e (r_exts r) /\ er_key e = k /\ er_value e = v) \/
   (exists c, In c (r_combos r) /\ In (k, v) (cr_ext c))) ->
  exists kd, ExtDefined d kd /\ kd_key kd = k /\
             (kd_values kd = [] \/ In v (map vd_code (kd_values kd))) /\
             (kd_pattern kd = [] \/ mp (kd_pattern kd) v = true).
Proof.
  intros H Hin. pose proof (refcheck_sound_lemma d r H) as F. rewrite Forall_forall in F.
  apply (F (RefExt k v)). destruct Hin as [[e [He [<- <-]]] | [c [Hc Hkv]]].
  - unfold refs. do 4 (apply in_or_app; right). apply in_or_app; left.
    apply in_map_iff. exists e. split; [reflexivity|assumption].
  - apply (in_combo_refs r c _ Hc). unfold combo_refs. right. apply in_or_app. right.
    apply in_map_iff. exists (k, v). split; [reflexivity|assumption].
Qed.

Lemma tag_offered_for_doc_type_lemma d r t :
  validate_refs mp d r = true -> In t (r_tags r) ->
  (exists rg, RegimeOf d (r_regime r) rg /\ Offers (rg_tags rg) (r_schema r) t) \/
  (exists a, In (ad_key a) (r_addons r) /\ In a (df_addons d) /\ Offers (ad_tags a) (r_schema r) t).
Proof.
  intros H Ht. pose proof (refcheck_sound_lemma d r H) as F. rewrite Forall_forall in F.
  apply (F (RefTag (r_regime r) (r_addons r) (r_schema r) t)).
  unfold refs. do 2 (apply in_or_app; right). apply in_or_app; left. apply in_map; assumption.
Qed.

Lemma currencies_and_countries_known_lemma d r :
  validate_refs mp d r = true ->
  (forall c, In c (r_currencies r) -> ur_code c <> [] -> In (ur_code c) (df_currencies d)) /\
  (forall k, In k (r_countries r) -> kr_code k <> [] ->
     match kr_kind k with
     | CkISO => In (kr_code k) (df_iso_countries d)
     | CkTax | CkCombo => In (kr_code k) (df_tax_countries d)
     | CkRegime => exists rg, RegimeOf d (kr_code k) rg
     end).
Proof.
  intro H. pose proof (refcheck_sound_lemma d r H) as F. rewrite Forall_forall in F. split.
  - intros c Hc Hne. apply (F (RefCurrency (ur_code c))). unfold refs. do 5 (apply in_or_app; right).
    apply in_or_app; left. apply in_flat_map. exists c. split; [assumption|].
    destruct (ur_code c); [contradiction|left; reflexivity].
  - intros k Hk Hne.
    assert (Hin : forall rf, In rf (country_refs k) -> In rf (refs r)).
    { intros rf Hrf. unfold refs. do 6 (apply in_or_app; right). apply in_flat_map. exists k. split; assumption. }
    unfold country_refs in Hin. destruct (kr_code k) as [|b x] eqn:E; [contradiction|].
    destruct (kr_kind k).
    + apply (F (RefISOCountry (b :: x))). apply Hin. left; reflexivity.
    + apply (F (RefTaxCountry (b :: x))). apply Hin. left; reflexivity.
    + apply (F (RefRegime (b :: x))). apply Hin. left; reflexivity.
    + apply (F (RefTaxCountry (b :: x))). apply Hin. left; reflexivity.
Qed.

(* ---- resolution depends only on which definitions exist ---- *)

Definition same_defs (d1 d2 : defs) : Prop :=
  (forall x, In x (df_regimes d1) <-> In x (df_regimes d2)) /\
  (forall x, In x (df_addons d1) <-> In x (df_addons d2)) /\
  (forall x, In x (df_catalogues d1) <-> In x (df_catalogues d2)) /\
  (forall x, In x (df_currencies d1) <-> In x (df_currencies d2)) /\
  (forall x, In x (df_iso_countries d1) <-> In x (df_iso_countries d2)) /\
  (forall x, In x (df_tax_countries d1) <-> In x (df_tax_countries d2)).

Lemma same_defs_sym d1 d2 : same_defs d1 d2 -> same_defs d2 d1.
Proof.
  intros (A & B & C & D & E & F). repeat split; intro H;
    first [apply A | apply B | apply C | apply D | apply E | apply F]; assumption.
Qed.

Lemma RegimeOf_same d1 d2 c r : same_defs d1 d2 -> RegimeOf d1 c r -> RegimeOf d2 c r.
Proof. intros (A & _) [H1 H2]. split; [apply A; assumption|assumption]. Qed.

Lemma ExtDefined_same d1 d2 kd : same_defs d1 d2 -> ExtDefined d1 kd -> ExtDefined d2 kd.
Proof.
  intros (A & B & C & _) [[r [H1 H2]] | [[a [H1 H2]] | [c [H1 H2]]]].
  - left. exists r. split; [apply A; assumption|assumption].
  - right; left. exists a. split; [apply B; assumption|assumption].
  - right; right. exists c. split; [apply C; assumption|assumption].
Qed.

Lemma resolves_same_imp d1 d2 rf : same_defs d1 d2 -> resolves mp d1 rf -> resolves mp d2 rf.
Proof.
  intros S. pose proof (same_defs_sym _ _ S) as S'. destruct rf; cbn.
  - intros [r H]. exists r. eapply RegimeOf_same; eassumption.
  - intros [a [H1 H2]]. exists a. split; [apply S; assumption|assumption].
  - intros [H | [r [H1 H2]]].
    + left. intros [r Hr]. apply H. exists r. eapply RegimeOf_same; eassumption.
    + right. exists r. split; [eapply RegimeOf_same; eassumption|assumption].
  - intros (r & ca & rt & H1 & H2). exists r, ca, rt. split; [eapply RegimeOf_same; eassumption|assumption].
  - intros (kd & H1 & H2). exists kd. split; [eapply ExtDefined_same; eassumption|assumption].
  - intros [[r [H1 H2]] | [a (H1 & H2 & H3)]].
    + left. exists r. split; [eapply RegimeOf_same; eassumption|assumption].
    + right. exists a. split; [assumption|]. split; [apply S; assumption|assumption].
  - intro H. apply S; assumption.
  - intro H. apply S; assumption.
  - intro H. apply S; assumption.
Qed.

Lemma resolves_same d1 d2 rf : same_defs d1 d2 -> (resolves mp d1 rf <-> resolves mp d2 rf).
Proof.
  intro S. split; apply resolves_same_imp; [assumption|apply same_defs_sym; assumption].
Qed.

End Sound.

(* ---- named files: when do two file lists hold the same definitions ---- *)

Lemma assoc_In {A} f (l : list (named A)) x : assoc f l = Some x -> In (f, x) l.
Proof.
  induction l as [|[k y] l IH]; cbn; [discriminate|].
  destruct (eqb_bytes k f) eqn:E.
  - intro H. injection H as ->. apply str_eqb_iff in E. subst. left; reflexivity.
  - intro H. right. apply IH; assumption.
Qed.

Lemma In_assoc_nodup {A} f (l : list (named A)) x : NoDup (map fst l) -> In (f, x) l -> assoc f l = Some x.
Proof.
  induction l as [|[k y] l IH]; cbn; [intros _ []|].
  intros Hnd [Heq | Hin].
  - injection Heq as -> ->. rewrite str_eqb_refl. reflexivity.
  - inversion Hnd as [|? ? Hnot Hnd']; subst.
    destruct (eqb_bytes k f) eqn:E.
    + apply str_eqb_iff in E. subst. exfalso. apply Hnot. apply in_map_iff. exists (f, x). split; [reflexivity|assumption].
    + apply IH; assumption.
Qed.

(* code: what is registered; pub: what is published.  Every registered definition is published
   verbatim under its name, nothing else is published, published names are unique: then the two
   hold the same definitions. *)
Lemma same_members {A} (code pub : list (named A)) :
  (forall f x, In (f, x) code -> assoc f pub = Some x) ->
  (forall f, In f (map fst pub) -> In f (map fst code)) ->
  NoDup (map fst pub) ->
  forall x, In x (map snd pub) <-> In x (map snd code).
Proof.
  intros Hcov Honly Hnd x. split; intro H; apply in_map_iff in H as [[f y] [Hy Hin]]; cbn in Hy; subst y.
  - assert (Hf : In f (map fst code)) by (apply Honly; apply in_map_iff; exists (f, x); split; [reflexivity|assumption]).
    apply in_map_iff in Hf as [[f' x'] [Hf' Hin']]. cbn in Hf'. subst f'.
    pose proof (Hcov _ _ Hin') as Ha. rewrite (In_assoc_nodup _ _ _ Hnd Hin) in Ha. injection Ha as ->.
    apply in_map_iff. exists (f, x'). split; [reflexivity|assumption].
  - apply in_map_iff. exists (f, x). split; [reflexivity|]. apply assoc_In. apply Hcov; assumption.
Qed.

Lemma same_defs_of_files (cr pr : list (named regime)) (ca pa : list (named addon)) (cc pc : list (named catalogue))
      (cur1 cur2 iso1 iso2 tax1 tax2 : list str) :
  (forall f x, In (f, x) cr -> assoc f pr = Some x) -> (forall f, In f (map fst pr) -> In f (map fst cr)) -> NoDup (map fst pr) ->
  (forall f x, In (f, x) ca -> assoc f pa = Some x) -> (forall f, In f (map fst pa) -> In f (map fst ca)) -> NoDup (map fst pa) ->
  (forall f x, In (f, x) cc -> assoc f pc = Some x) -> (forall f, In f (map fst pc) -> In f (map fst cc)) -> NoDup (map fst pc) ->
  (forall x, In x cur1 <-> In x cur2) -> (forall x, In x iso1 <-> In x iso2) -> (forall x, In x tax1 <-> In x tax2) ->
  same_defs (mkDefs (map snd pr) (map snd pa) (map snd pc) cur1 iso1 tax1)
            (mkDefs (map snd cr) (map snd ca) (map snd cc) cur2 iso2 tax2).
Proof.
  intros H1 H2 H3 H4 H5 H6 H7 H8 H9 Hc Hi Ht. unfold same_defs. cbn.
  split; [apply same_members; assumption|].
  split; [apply same_members; assumption|].
  split; [apply same_members; assumption|].
  split; [exact Hc|]. split; [exact Hi|exact Ht].
Qed.
