From Coq Require Import ZArith Lia List.
Import ListNotations.
Open Scope Z_scope.
Ltac Zify.zify_post_hook ::= Z.div_mod_to_equations.

(* round half away from zero of n/d, d > 0 *)
Definition rha (n d : Z) : Z :=
  if 0 <=? n then (2*n + d) / (2*d) else - ((2*(-n) + d) / (2*d)).

Lemma rha_neg n d : 0 < d -> rha (-n) d = - rha n d.
Proof.
  intros Hd. unfold rha.
  destruct (0 <=? n) eqn:E1; destruct (0 <=? -n) eqn:E2; try lia.
  - assert (n = 0) by lia. subst n. replace (2 * 0 + d) with d by lia. replace (2 * - 0 + d) with d by lia. rewrite Z.div_small by lia. lia.
  - replace (- - n) with n by lia. lia.
Qed.

Lemma rha_spec n d : 0 < d ->
  let r := rha n d in
  Z.abs (2 * (n - r * d)) <= d /\ (Z.abs (2 * (n - r * d)) = d -> Z.abs n < Z.abs (r * d)).
Proof.
  intros Hd r. subst r. unfold rha.
  destruct (0 <=? n) eqn:E.
  - split; nia.
  - split; nia.
Qed.

Lemma rha_exact n d k : 0 < d -> n = k * d -> rha n d = k.
Proof. intros Hd ->. unfold rha. destruct (0 <=? k * d) eqn:E; nia. Qed.

Record amount := { val : Z; exp : nat }.
Definition pow10 (e : nat) : Z := 10 ^ Z.of_nat e.
Definition rescale (a : amount) (e : nat) : amount :=
  if Nat.ltb e (exp a) then {| val := rha (val a) (pow10 (exp a - e)); exp := e |}
  else {| val := val a * pow10 (e - exp a); exp := e |}.
Definition add (a b : amount) : amount := {| val := val a + val (rescale b (exp a)); exp := exp a |}.
Definition match_precision (a b : amount) : amount := if Nat.ltb (exp a) (exp b) then rescale a (exp b) else a.
Definition acc (s x : amount) : amount := add (match_precision s x) x.

Lemma pow10_pos e : 0 < pow10 e. Proof. unfold pow10. apply Z.pow_pos_nonneg; lia. Qed.
Lemma pow10_add a b : pow10 (a + b) = pow10 a * pow10 b.
Proof. unfold pow10. rewrite Nat2Z.inj_add, Z.pow_add_r; lia. Qed.

(* accumulate: exp = max, value = exact sum at max exp *)
Lemma acc_exp s x : exp (acc s x) = Nat.max (exp s) (exp x).
Proof.
  unfold acc, add, match_precision, rescale; simpl.
  destruct (Nat.ltb (exp s) (exp x)) eqn:E; simpl.
  - destruct (Nat.ltb (exp x) (exp s)) eqn:E2; simpl; apply Nat.ltb_lt in E; try (apply Nat.ltb_lt in E2); lia.
  - apply Nat.ltb_ge in E. lia.
Qed.

Lemma pow10_0 : pow10 0 = 1. Proof. reflexivity. Qed.

Lemma acc_val s x : val (acc s x) =
  val s * pow10 (Nat.max (exp s) (exp x) - exp s) + val x * pow10 (Nat.max (exp s) (exp x) - exp x).
Proof.
  unfold acc, add, match_precision, rescale.
  destruct (Nat.ltb (exp s) (exp x)) eqn:E.
  - apply Nat.ltb_lt in E.
    destruct (Nat.ltb (exp x) (exp s)) eqn:E2; [apply Nat.ltb_lt in E2; lia|].
    cbn [val exp]. rewrite Nat.ltb_irrefl. cbn [val exp].
    replace (Nat.max (exp s) (exp x)) with (exp x) by lia.
    rewrite !Nat.sub_diag, pow10_0. lia.
  - apply Nat.ltb_ge in E. cbn [val exp].
    replace (Nat.max (exp s) (exp x)) with (exp s) by lia.
    destruct (Nat.ltb (exp s) (exp x)) eqn:E3; [apply Nat.ltb_lt in E3; lia|].
    cbn [val exp]. rewrite !Nat.sub_diag, pow10_0. lia.
Qed.

Lemma amount_eq (a b : amount) : val a = val b -> exp a = exp b -> a = b.
Proof. destruct a, b; simpl; intros -> ->; reflexivity. Qed.

Lemma acc_comm s x y : acc (acc s x) y = acc (acc s y) x.
Proof.
  apply amount_eq.
  - rewrite !acc_val, !acc_exp, ?acc_val.
    set (m := Nat.max (Nat.max (exp s) (exp x)) (exp y)).
    replace (Nat.max (Nat.max (exp s) (exp y)) (exp x)) with m by (unfold m; lia).
    rewrite !Z.mul_add_distr_r, <- !Z.mul_assoc, <- !pow10_add.
    replace (Nat.max (exp s) (exp x) - exp s + (m - Nat.max (exp s) (exp x)))%nat with (m - exp s)%nat by (unfold m; lia).
    replace (Nat.max (exp s) (exp x) - exp x + (m - Nat.max (exp s) (exp x)))%nat with (m - exp x)%nat by (unfold m; lia).
    replace (Nat.max (exp s) (exp y) - exp s + (m - Nat.max (exp s) (exp y)))%nat with (m - exp s)%nat by (unfold m; lia).
    replace (Nat.max (exp s) (exp y) - exp y + (m - Nat.max (exp s) (exp y)))%nat with (m - exp y)%nat by (unfold m; lia).
    lia.
  - rewrite !acc_exp. lia.
Qed.
Print Assumptions acc_comm.
