package main

import (
	"bufio"
	"encoding/json"
	"errors"
	"fmt"
	"os"
	"strconv"
	"strings"

	"github.com/invopop/gobl"
	"github.com/invopop/gobl/bill"
	"github.com/invopop/gobl/dsig"
	"github.com/invopop/gobl/head"
	"github.com/invopop/gobl/num"
)

const inv1 = `{
"$schema":"https://gobl.org/draft-0/bill/invoice",
"uuid":"3aea7b56-59d8-4beb-90bd-f8f280d852a0",
"currency":"EUR","issue_date":"2022-02-01","code":"SAMPLE-001",
"supplier":{"tax_id":{"country":"ES","code":"B98602642"},"name":"Provide One S.L."},
"customer":{"tax_id":{"country":"ES","code":"54387763P"},"name":"Sample Consumer"},
"lines":[{"quantity":"20","item":{"name":"Dev","price":"90.00"},"taxes":[{"cat":"VAT","rate":"standard"}]}]
}`

var k1 = dsig.NewES256Key()
var k2 = dsig.NewES256Key()

const NOPS = 16

func key(err error) string {
	if err == nil {
		return "ok"
	}
	var ge *gobl.Error
	if errors.As(err, &ge) {
		return string(ge.Key())
	}
	return "other"
}

func apply(env **gobl.Envelope, op int) (res string) {
	defer func() {
		if r := recover(); r != nil {
			res = "panic"
		}
	}()
	e := *env
	inv, _ := e.Extract().(*bill.Invoice)
	switch op {
	case 0:
		return key(e.Calculate())
	case 1:
		p := inv.Lines[0].Item.Price.Add(num.MakeAmount(100, 2))
		inv.Lines[0].Item.Price = &p
		return "ok"
	case 2:
		return key(e.Sign(k1))
	case 3:
		return key(e.Sign(k2))
	case 4:
		e.Unsign()
		return "ok"
	case 5:
		e.Head.AddStamp(&head.Stamp{Provider: "p1", Value: "v1"})
		return "ok"
	case 6:
		e.Head.AddStamp(&head.Stamp{Provider: "p1", Value: "v2"})
		return "ok"
	case 7:
		e.Head.AddLink(&head.Link{Key: "l1", URL: "https://example.com/a"})
		return "ok"
	case 8:
		e.Head.AddLink(&head.Link{Key: "l1", URL: "https://example.com/b"})
		return "ok"
	case 9:
		return key(e.Validate())
	case 10:
		return key(e.Verify(k1.Public()))
	case 11:
		return key(e.Verify(k2.Public()))
	case 12:
		d, err := json.Marshal(e)
		if err != nil {
			return key(err)
		}
		n := new(gobl.Envelope)
		if err := json.Unmarshal(d, n); err != nil {
			return "unmarshal"
		}
		*env = n
		return "ok"
	case 13:
		if inv.Code == "" {
			inv.Code = "SAMPLE-001"
		} else {
			inv.Code = ""
		}
		return "ok"
	case 14:
		return key(e.Verify())
	case 15:
		e.Head.Tags = append(e.Head.Tags, "t1")
		return "ok"
	}
	return "?"
}

func main() {
	depth, _ := strconv.Atoi(os.Args[1])
	w := bufio.NewWriter(os.Stdout)
	defer w.Flush()
	seq := make([]int, depth)
	var rec func(i int)
	run := func(n int) {
		obj, err := gobl.Parse([]byte(inv1))
		if err != nil {
			panic(err)
		}
		env, err := gobl.Envelop(obj)
		if err != nil {
			panic(err)
		}
		outs := make([]string, n)
		for j := 0; j < n; j++ {
			r := apply(&env, seq[j])
			outs[j] = fmt.Sprintf("%s/%d", r, len(env.Signatures))
		}
		ss := make([]string, n)
		for j := 0; j < n; j++ {
			ss[j] = strconv.Itoa(seq[j])
		}
		fmt.Fprintf(w, "%s: %s\n", strings.Join(ss, ","), strings.Join(outs, " "))
	}
	rec = func(i int) {
		if i == depth {
			run(depth)
			return
		}
		for op := 0; op < NOPS; op++ {
			seq[i] = op
			rec(i + 1)
		}
	}
	rec(0)
}
