#!/usr/bin/env python3
"""Round-0 probe: executable reading of envelope.go lifecycle vs Go enumeration."""
import sys, copy
from collections import Counter

class Env:
    def __init__(s):
        s.docv=0; s.code=True
        s.dig=("d",0,True)      # digest of calculated doc
        s.stamps=[]; s.links=[]; s.tags=[]
        s.sigs=[]               # list of (key, header snapshot)
    def header(s): return {"dig":s.dig,"stamps":list(s.stamps),"links":list(s.links),"tags":list(s.tags)}
    def curdig(s): return ("d",s.docv,s.code)

def contains(h,h2):
    if h2["dig"] is not None and h["dig"]!=h2["dig"]: return False
    for s2 in h2["stamps"]:
        if s2 not in h["stamps"]: return False
    for l2 in h2["links"]:
        if l2 not in h["links"]: return False
    for t in h2["tags"]:
        if t not in h["tags"]: return False
    return True

def validate(e):
    signed=len(e.sigs)>0
    # struct validation
    bad=False
    if e.stamps and not signed: bad=True
    if signed and not e.code: bad=True
    if bad: return "validation"
    if e.dig!=e.curdig(): return "digest"
    return "ok"

def verify(e,keys):
    if not e.sigs: return "other"
    for (k,h) in e.sigs:
        if not keys:
            if not contains(e.header(),h): return "validation"
            continue
        matched=False; err=True
        for kk in keys:
            if kk!=k: continue
            matched=True
            err=not contains(e.header(),h)
            break
        if not matched or err: return "validation"
    return "ok"

def add_kv(lst,k,v):
    for i,(kk,vv) in enumerate(lst):
        if kk==k: lst[i]=(k,v); return
    lst.append((k,v))

def apply(e,op):
    if op==0: e.dig=e.curdig(); return "ok"
    if op==1: e.docv+=1; return "ok"
    if op in (2,3):
        k="k1" if op==2 else "k2"
        e.sigs.append((k,e.header()))
        r=validate(e)
        if r!="ok": e.sigs=[]
        return r
    if op==4: e.sigs=[]; return "ok"
    if op==5: add_kv(e.stamps,"p1","v1"); return "ok"
    if op==6: add_kv(e.stamps,"p1","v2"); return "ok"
    if op==7: add_kv(e.links,"l1","a"); return "ok"
    if op==8: add_kv(e.links,"l1","b"); return "ok"
    if op==9: return validate(e)
    if op==10: return verify(e,["k1"])
    if op==11: return verify(e,["k2"])
    if op==12: return "ok"
    if op==13: e.code=not e.code; return "ok"
    if op==14: return verify(e,[])
    if op==15: e.tags.append("t1"); return "ok"

def main():
    f=sys.argv[1]
    st=Counter(); shown=0
    for line in open(f):
        seq,outs=line.strip().split(": ")
        ops=[int(x) for x in seq.split(",")]
        e=Env(); mine=[]
        for op in ops:
            r=apply(e,op); mine.append("%s/%d"%(r,len(e.sigs)))
        if " ".join(mine)==outs: st["agree"]+=1
        else:
            st["mismatch"]+=1
            if shown<12: shown+=1; print("MISMATCH",seq,"go:",outs,"model:"," ".join(mine))
    print(dict(st))
main()
