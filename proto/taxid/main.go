package main

import (
	"bufio"
	"fmt"
	"os"
	"strings"

	_ "github.com/invopop/gobl"
	"github.com/invopop/gobl/cbc"
	"github.com/invopop/gobl/l10n"
	"github.com/invopop/gobl/tax"
)

func main() {
	sc := bufio.NewScanner(os.Stdin)
	w := bufio.NewWriter(os.Stdout)
	defer w.Flush()
	for sc.Scan() {
		parts := strings.SplitN(sc.Text(), "\t", 2)
		func() {
			defer func() {
				if r := recover(); r != nil {
					fmt.Fprintf(w, "PANIC\t\t%v\n", r)
				}
			}()
			id := &tax.Identity{Country: l10n.TaxCountryCode(parts[0]), Code: cbc.Code(parts[1])}
			id.Normalize()
			err := id.Validate()
			v := "ok"
			if err != nil {
				v = "bad"
			}
			fmt.Fprintf(w, "%s\t%s\t%s\n", v, id.Country, id.Code)
		}()
	}
}
