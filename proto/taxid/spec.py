#!/usr/bin/env python3
"""Round-0 probe: published check-digit rules (as I know them; formats as in the repo) vs Go."""
import random, re, subprocess, sys
from collections import Counter

def luhn_check_digit(s):
    tot=0
    for pos,ch in enumerate(reversed(s)):
        d=int(ch)
        if pos%2==0:
            d*=2
            if d>9: d-=9
        tot+=d
    return str((10-tot%10)%10)

def es(code):
    L="TRWAGMYFPDXBNJZSQVHLCKE"
    def org(num,chk):
        se=sum(int(num[i]) for i in (1,3,5)); so=0
        for i in (0,2,4,6):
            v=int(num[i])*2; so+= v-9 if v>9 else v
        cd=(10-(se+so)%10)%10
        return chk==str(cd) or chk=="JABCDEFGHI"[cd]
    if re.fullmatch(r"[ABCDEFGHJNPQRSUVW][0-9]{7}[0-9JABCDEFGHI]",code): return org(code[1:8],code[8])
    if re.fullmatch(r"[0-9]{8}[TRWAGMYFPDXBNJZSQVHLCKE]",code):
        if code[:8]=="00000000": return False
        return L[int(code[:8])%23]==code[8]
    if re.fullmatch(r"[XYZ][0-9]{7}[TRWAGMYFPDXBNJZSQVHLCKE]",code):
        return L[int(str("XYZ".index(code[0]))+code[1:8])%23]==code[8]
    if re.fullmatch(r"[KLM][0-9]{7}[0-9JABCDEFGHI]",code): return org(code[1:8],code[8])
    return False

def pt(code):
    if not re.fullmatch(r"[0-9]{9}",code): return False
    P1=set("123568"); P2={"45","70","71","72","74","75","77","78","79","90","91","98","99"}
    if code[0] not in P1 and code[:2] not in P2: return False
    s=sum(int(code[i])*(9-i) for i in range(8)); r=s%11
    ck=0 if r in (0,1) else 11-r
    return int(code[8])==ck

def pl(code):
    if not re.fullmatch(r"[1-9](([0-9][1-9])|([1-9][0-9]))[0-9]{7}",code): return False
    w=[6,5,7,2,3,4,5,6,7]
    return sum(int(code[i])*w[i] for i in range(9))%11==int(code[9])

def de(code):
    if not re.fullmatch(r"[1-9][0-9]{8}",code): return False
    p=10
    for ch in code[:8]:
        s=(int(ch)+p)%10
        if s==0: s=10
        p=(2*s)%11
    cd=11-p
    if cd==10: cd=0
    return cd==int(code[8])

def fr(code):
    if not re.fullmatch(r"[0-9]{11}",code): return False
    return int(code[:2])==(12+3*(int(code[2:])%97))%97

def it(code):
    return bool(re.fullmatch(r"[0-9]{11}",code)) and luhn_check_digit(code[:10])==code[10]

def nl(code):
    if not re.fullmatch(r"[0-9]{9}B[0-9]{2}",code): return False
    d=[int(x) for x in code[:9]]
    r=sum(d[i]*(9-i) for i in range(8))%11
    ok11=(r!=10 and r==d[8])
    # mod 97 on "NL"+code with letters -> numbers (A=10..)
    s="".join(str(int(ch)) if ch.isdigit() else str(ord(ch)-55) for ch in "NL"+code)
    ok97=int(s)%97==1
    return ok11 or ok97

def be(code):
    if not re.fullmatch(r"0?[0-9]{9}",code): return False
    if len(code)==9: code="0"+code
    if code[1]=="0": return False
    return 97-int(code[:8])%97==int(code[8:])

def at(code):
    if not re.fullmatch(r"U[0-9]{8}",code): return False
    d=[int(x) for x in code[1:]]
    s=0
    for i in range(7):
        if i%2==0: s+=d[i]
        else:
            x=d[i]*2; s+= x//10 + x%10
    return (10-(s+4)%10)%10==d[7]

def ch(code):
    if not re.fullmatch(r"E[0-9]{9}",code): return False
    w=[5,4,3,2,7,6,5,4]; d=[int(x) for x in code[1:]]
    r=11-sum(a*b for a,b in zip(d,w))%11
    if r==10: return False
    if r==11: r=0
    return r==d[8]

def gr(code):
    if not re.fullmatch(r"[0-9]{9}",code): return False
    d=[int(x) for x in code]
    return sum(d[i]*2**(8-i) for i in range(8))%11%10==d[8]

def gb(code):
    if re.fullmatch(r"GD[0-9]{3}",code): return int(code[2:])<500
    if re.fullmatch(r"HA[0-9]{3}",code): return int(code[2:])>=500
    if not re.fullmatch(r"[0-9]{9}|[0-9]{12}",code): return False
    if int(code)==0: return False
    d=[int(x) for x in code[:9]]
    tot=sum(a*b for a,b in zip(d[:7],[8,7,6,5,4,3,2]))+d[7]*10+d[8]
    num=int(code[:7])
    old=(tot%97==0) and num<9990001 and (num<100000 or num>999999) and (num<9490001 or num>9700000)
    new=((tot+55)%97==0) and num>1000000
    return old or new

def co(code):
    if not re.fullmatch(r"[0-9]{9,10}",code): return False
    w=[3,7,13,17,19,23,29,37,41,43,47,53,59,67,71]
    body=code[:-1]; s=sum(int(ch)*w[i] for i,ch in enumerate(reversed(body)))%11
    if s>=2: s=11-s
    return s==int(code[-1])

def br(code):
    if not re.fullmatch(r"[0-9]{14}",code): return False
    def dv(s,w):
        r=sum(int(a)*b for a,b in zip(s,w))%11
        return 0 if r<2 else 11-r
    return dv(code[:12],[5,4,3,2,9,8,7,6,5,4,3,2])==int(code[12]) and dv(code[:13],[6,5,4,3,2,9,8,7,6,5,4,3,2])==int(code[13])

def in_(code):
    if not re.fullmatch(r"[0-9]{2}[A-Z]{5}[0-9]{4}[A-Z][1-9A-Z]Z[0-9A-Z]",code): return False
    A="0123456789ABCDEFGHIJKLMNOPQRSTUVWXYZ"
    s=0
    for i,chx in enumerate(code[:14]):
        p=A.index(chx)*(2 if i%2 else 1); s+=p//36+p%36
    return A[(36-s%36)%36]==code[14]

def ae(code): return bool(re.fullmatch(r"[0-9]{15}",code))

SPECS={"ES":es,"PT":pt,"PL":pl,"DE":de,"FR":fr,"IT":it,"NL":nl,"BE":be,"AT":at,"CH":ch,"EL":gr,"GB":gb,"CO":co,"BR":br,"IN":in_,"AE":ae}
SHAPES={"ES":["L7C","8C","L7C"],"PT":["9"],"PL":["10"],"DE":["9"],"FR":["11"],"IT":["11"],"NL":["9B2"],"BE":["10","9"],"AT":["U8"],
        "CH":["E9"],"EL":["9"],"GB":["9","12","GD3","HA3"],"CO":["9","10"],"BR":["14"],"IN":["IN"],"AE":["15"]}

def rand_code(rng,cc):
    sh=rng.choice(SHAPES[cc]); D="0123456789"
    if sh=="L7C": return rng.choice("ABCDEFGHJNPQRSUVWXYZKLM")+"".join(rng.choice(D) for _ in range(7))+rng.choice("0123456789JABCDEFGHITRWAGMYFPDXBNZSQVLCKE")
    if sh=="8C": return "".join(rng.choice(D) for _ in range(8))+rng.choice("TRWAGMYFPDXBNJZSQVHLCKE")
    if sh=="9B2": return "".join(rng.choice(D) for _ in range(9))+"B"+"".join(rng.choice(D) for _ in range(2))
    if sh=="U8": return "U"+"".join(rng.choice(D) for _ in range(8))
    if sh=="E9": return "E"+"".join(rng.choice(D) for _ in range(9))
    if sh in ("GD3","HA3"): return sh[:2]+"".join(rng.choice(D) for _ in range(3))
    if sh=="IN":
        L="ABCDEFGHIJKLMNOPQRSTUVWXYZ"
        return "".join(rng.choice(D) for _ in range(2))+"".join(rng.choice(L) for _ in range(5))+"".join(rng.choice(D) for _ in range(4))+rng.choice(L)+rng.choice("123456789"+L)+"Z"+rng.choice(D+L)
    return "".join(rng.choice(D) for _ in range(int(sh)))

def main():
    seed=int(sys.argv[1]) if len(sys.argv)>1 else 1
    n=int(sys.argv[2]) if len(sys.argv)>2 else 20000
    rng=random.Random(seed)
    cases=[]
    for cc in SPECS:
        valid=[]
        tries=0
        while len(cases)<10**9 and tries<n:
            tries+=1
            c=rand_code(rng,cc); cases.append((cc,c))
            if SPECS[cc](c) and len(valid)<300: valid.append(c)
        for v in valid:   # all single-char edits of valid codes
            for i in range(len(v)):
                for r in "0123456789":
                    if v[i].isdigit() and r!=v[i]: cases.append((cc,v[:i]+r+v[i+1:]))
    inp="".join("%s\t%s\n"%(("GR" if False else cc),c) for cc,c in cases)
    p=subprocess.run(["./runner"],input=inp.encode(),capture_output=True,cwd="/root/scratch/taxid")
    outs=p.stdout.decode().splitlines()
    assert len(outs)==len(cases),(len(outs),len(cases),p.stderr[:300])
    st=Counter(); shown=Counter()
    for (cc,c),o in zip(cases,outs):
        v,country,norm=o.split("\t")
        exp=SPECS[cc](c)
        st[(cc,"valid" if exp else "invalid")]+=1
        if norm!=c and v!="PANIC":
            st[(cc,"normalised-changed")]+=1
            exp=SPECS[cc](norm) if cc!="FR" else exp
        if (v=="ok")!=exp:
            st[(cc,"MISMATCH go=%s spec=%s"%(v,exp))]+=1
            if shown[cc]<3: shown[cc]+=1; print("MISMATCH",cc,c,"->",o)
    for k in sorted(st): print(k,st[k])
main()
