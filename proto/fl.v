From Coq Require Import ZArith Reals Lia Lra Psatz.
From Flocq Require Import Core Relative.
Open Scope R_scope.

Definition fexp64 := FLT_exp (-1074) 53.
Definition rnd64 (x:R) : R := round radix2 fexp64 ZnearestE x.
Definition ZnearestA := Znearest (fun t => Z.leb 0 t).

#[local] Instance p53 : Prec_gt_0 53. Proof. unfold Prec_gt_0; lia. Qed.

Lemma rel64 x : bpow radix2 (-1022) <= Rabs x ->
  Rabs (rnd64 x - x) <= bpow radix2 (-53) * Rabs x.
Proof.
  intros H. unfold rnd64, fexp64.
  pose proof (relative_error_N_FLT radix2 (-1074) 53 p53 (fun t => negb (Z.even t)) x H) as E.
  eapply Rle_trans; [exact E|].
  apply Rmult_le_compat_r; [apply Rabs_pos|].
  change (/2) with (bpow radix2 (-1)).
  rewrite <- bpow_plus. apply bpow_le. lia.
Qed.

(* The key lemma: rounding p/q to binary64 then to nearest integer (ties away)
   equals rounding p/q directly, when |p| < 2^52. *)
Lemma half_repr (f:Z) : (Z.abs f < 2^52)%Z -> generic_format radix2 fexp64 (IZR f + /2).
Proof.
  intros Hf.
  replace (IZR f + /2) with (F2R (Float radix2 (2*f+1) (-1))).
  2:{ unfold F2R; cbn [Fnum Fexp]. rewrite plus_IZR, mult_IZR. change (bpow radix2 (-1)) with (/2). lra. }
  apply generic_format_FLT. exists (Float radix2 (2*f+1) (-1)). all: cbn [Fnum Fexp]; try reflexivity; try (change (radix2 ^ 53)%Z with (2^53)%Z; lia).
Qed.

Lemma int_repr (f:Z) : (Z.abs f <= 2^53)%Z -> generic_format radix2 fexp64 (IZR f).
Proof.
  intros Hf.
  destruct (Z.eq_dec (Z.abs f) (2^53)) as [E|NE].
  - replace (IZR f) with (F2R (Float radix2 (f / 2) 1)).
    2:{ unfold F2R; cbn [Fnum Fexp]. change (bpow radix2 1) with 2. rewrite <- mult_IZR. f_equal.
        assert (f = 2^53 \/ f = - 2^53)%Z as [-> | ->] by lia; reflexivity. }
    apply generic_format_FLT. exists (Float radix2 (f/2) 1). all: cbn [Fnum Fexp]; try reflexivity; try lia.
    change (radix2 ^ 53)%Z with (2^53)%Z. assert (f = 2^53 \/ f = - 2^53)%Z as [-> | ->] by lia; compute; reflexivity.
  - replace (IZR f) with (F2R (Float radix2 f 0)).
    2:{ unfold F2R; cbn [Fnum Fexp]. change (bpow radix2 0) with 1. lra. }
    apply generic_format_FLT. exists (Float radix2 f 0). all: cbn [Fnum Fexp]; try reflexivity; try (change (radix2 ^ 53)%Z with (2^53)%Z; lia).
Qed.
Check half_repr. Check int_repr.

Lemma rnd64_id x : generic_format radix2 fexp64 x -> rnd64 x = x.
Proof. intros H. unfold rnd64. apply round_generic; auto with typeclass_instances. Qed.

Theorem round_div_nearest (p q : Z) :
  (Z.abs p < 2^52)%Z -> (0 < q)%Z -> (q < 2^64)%Z ->
  ZnearestA (rnd64 (IZR p / IZR q)) = ZnearestA (IZR p / IZR q).
Proof.
  intros Hp Hq Hq64.
  set (f := (p / q)%Z). set (m := (p mod q)%Z).
  assert (Hpm : p = (q * f + m)%Z) by (unfold f, m; apply Z.div_mod; lia).
  assert (Hm : (0 <= m < q)%Z) by (unfold m; apply Z.mod_pos_bound; lia).
  assert (Hqr : 0 < IZR q) by (apply IZR_lt; lia).
  assert (Hq1 : 1 <= IZR q) by (apply IZR_le; lia).
  set (x := IZR p / IZR q).
  assert (Hx : x = IZR f + IZR m / IZR q).
  { unfold x. rewrite Hpm, plus_IZR, mult_IZR. field. lra. }
  destruct (Z.eq_dec p 0) as [P0|PN0].
  { unfold x. rewrite P0. unfold Rdiv. rewrite Rmult_0_l.
    rewrite rnd64_id; [reflexivity|]. apply generic_format_0. }
  (* error bound *)
  assert (Hxabs : Rabs x = IZR (Z.abs p) / IZR q).
  { unfold x. unfold Rdiv. rewrite Rabs_mult, Rabs_inv, <- abs_IZR.
    rewrite (Rabs_pos_eq (IZR q)); lra. }
  assert (Hp1 : 1 <= IZR (Z.abs p)) by (apply IZR_le; lia).
  assert (Hp52 : IZR (Z.abs p) <= IZR (2^52 - 1)) by (apply IZR_le; lia).
  assert (Hq64r : IZR q <= IZR (2^64)) by (apply IZR_le; lia).
  assert (Hbig : bpow radix2 (-1022) <= Rabs x).
  { rewrite Hxabs. apply Rle_trans with (/ IZR (2^64)).
    - change (IZR (2^64)) with (bpow radix2 64). rewrite <- bpow_opp. apply bpow_le. lia.
    - apply Rle_trans with (1 / IZR q).
      + unfold Rdiv. rewrite Rmult_1_l. apply Rinv_le_contravar; lra.
      + unfold Rdiv. apply Rmult_le_compat_r; [apply Rlt_le, Rinv_0_lt_compat; lra | lra]. }
  pose proof (rel64 x Hbig) as Herr.
  assert (Herr2 : Rabs (rnd64 x - x) < / (2 * IZR q)).
  { eapply Rle_lt_trans; [exact Herr|]. rewrite Hxabs.
    change (bpow radix2 (-53)) with (/ IZR (2^53)).
    assert (0 < IZR (2^53)) by (apply IZR_lt; lia).
    apply Rle_lt_trans with (/ IZR (2^53) * (IZR (2^52 - 1) / IZR q)).
    - apply Rmult_le_compat_l; [apply Rlt_le, Rinv_0_lt_compat; lra|].
      unfold Rdiv. apply Rmult_le_compat_r; [apply Rlt_le, Rinv_0_lt_compat; lra | lra].
    - rewrite minus_IZR. change (IZR (2^53)) with (2 * IZR (2^52)).
      assert (0 < IZR (2^52)) by (apply IZR_lt; lia).
      apply Rmult_lt_reg_r with (2 * IZR (2^52) * IZR q); [nra|]. field_simplify; lra. }
  apply Rabs_def2 in Herr2. destruct Herr2 as [Hup Hlo].
  assert (Hinv : / (2 * IZR q) = /2 * / IZR q) by (field; lra).
  assert (Hmq : 0 <= IZR m / IZR q).
  { unfold Rdiv. apply Rmult_le_pos; [apply IZR_le; lia | apply Rlt_le, Rinv_0_lt_compat; lra]. }
  destruct (Z.compare_spec (2*m) q) as [Heq|Hlt|Hgt].
  - (* exact tie: representable *)
    assert (Hhalf : x = IZR f + /2).
    { rewrite Hx. f_equal. rewrite <- Heq, mult_IZR. field.
      assert (0 < IZR m) by (apply IZR_lt; lia). lra. }
    rewrite rnd64_id; [reflexivity|]. rewrite Hhalf. apply half_repr.
    assert (Z.abs f <= Z.abs p)%Z; [|lia].
    unfold f. destruct (Z_le_gt_dec 0 p).
    + rewrite !Z.abs_eq; try lia. apply Z.div_le_upper_bound; nia. apply Z.div_pos; lia.
    + assert (p <= p / q)%Z by (apply Z.div_le_lower_bound; nia).
      assert (p / q < 0)%Z by (apply Z.div_lt_upper_bound; lia). lia.
  - (* below half: both round to f *)
    assert (Hm2 : IZR m / IZR q <= /2 - / (2 * IZR q)).
    { assert (IZR (2*m) <= IZR (q - 1)) by (apply IZR_le; lia).
      rewrite mult_IZR, minus_IZR in H.
      apply Rmult_le_reg_r with (2 * IZR q); [lra|]. field_simplify; lra. }
    assert (0 < / (2 * IZR q) <= /2).
    { split. apply Rinv_0_lt_compat; lra. rewrite Hinv.
      assert (/ IZR q <= 1) by (rewrite <- Rinv_1; apply Rinv_le_contravar; lra).
      assert (0 < / IZR q) by (apply Rinv_0_lt_compat; lra). lra. }
    transitivity f; [|symmetry]; apply Znearest_imp; apply Rabs_def1; lra.
  - (* above half: both round to f+1 *)
    assert (Hm2 : /2 + / (2 * IZR q) <= IZR m / IZR q).
    { assert (IZR (q + 1) <= IZR (2*m)) by (apply IZR_le; lia).
      rewrite mult_IZR, plus_IZR in H.
      apply Rmult_le_reg_r with (2 * IZR q); [lra|]. field_simplify; lra. }
    assert (Hm3 : IZR m / IZR q < 1).
    { apply Rmult_lt_reg_r with (IZR q); [lra|]. unfold Rdiv. rewrite Rmult_assoc, Rinv_l, Rmult_1_r, Rmult_1_l by lra.
      apply IZR_lt; lia. }
    assert (0 < / (2 * IZR q) <= /2).
    { split. apply Rinv_0_lt_compat; lra. rewrite Hinv.
      assert (/ IZR q <= 1) by (rewrite <- Rinv_1; apply Rinv_le_contravar; lra).
      assert (0 < / IZR q) by (apply Rinv_0_lt_compat; lra). lra. }
    transitivity (f+1)%Z; [|symmetry]; apply Znearest_imp; rewrite plus_IZR; apply Rabs_def1; lra.
Qed.
Print Assumptions round_div_nearest.
