package main

import (
	"bufio"
	"encoding/json"
	"fmt"
	"os"

	"github.com/invopop/gobl"
)

func main() {
	sc := bufio.NewScanner(os.Stdin)
	sc.Buffer(make([]byte, 1<<20), 1<<24)
	w := bufio.NewWriter(os.Stdout)
	defer w.Flush()
	for sc.Scan() {
		line := sc.Bytes()
		func() {
			defer func() {
				if r := recover(); r != nil {
					fmt.Fprintf(w, "{\"panic\":%q}\n", fmt.Sprint(r))
				}
			}()
			obj, err := gobl.Parse(line)
			if err != nil {
				fmt.Fprintf(w, "{\"error\":%q}\n", err.Error())
				return
			}
			env, err := gobl.Envelop(obj)
			if err != nil {
				fmt.Fprintf(w, "{\"error\":%q}\n", err.Error())
				return
			}
			d, _ := json.Marshal(env.Document)
			w.Write(d)
			w.WriteByte('\n')
		}()
	}
}
