#!/usr/bin/env python3
"""Throw-away executable reading of bill/calculator.go (round 0 design probe).
Exact integer arithmetic; compares against the Go runner on random documents."""
import json, random, subprocess, sys
from collections import Counter

# ---------- amounts ----------
def rha(n, d):
    assert d != 0
    if d < 0: n, d = -n, -d
    if n >= 0: return (2*n + d) // (2*d)
    return -((2*(-n) + d) // (2*d))

class A:
    __slots__=("v","e")
    def __init__(s,v,e): s.v=v; s.e=e
    def rescale(s,e):
        if s.e>e: return A(rha(s.v,10**(s.e-e)),e)
        if s.e<e: return A(s.v*10**(e-s.e),e)
        return s
    def up(s,e): return s.rescale(e) if e>s.e else s
    def down(s,e): return s.rescale(e) if e<s.e else s
    def match(s,o): return s.up(o.e)
    def add(s,o): return A(s.v+o.rescale(s.e).v,s.e)
    def sub(s,o): return A(s.v-o.rescale(s.e).v,s.e)
    def mul(s,o): return A(rha(s.v*o.v,10**o.e),s.e)
    def div(s,o): return A(rha(s.v*10**o.e,o.v),s.e)
    def neg(s): return A(-s.v,s.e)
    def iszero(s): return s.v==0
    def __repr__(s): return fmt(s)
def parse(t):
    neg=t.startswith("-"); t=t.lstrip("-")
    if "." in t:
        a,b=t.split("."); v=int(a)*10**len(b)+int(b); e=len(b)
    else: v=int(t); e=0
    return A(-v if neg else v,e)
def fmt(a):
    if a.e==0: return str(a.v)
    s="-" if a.v<0 else ""; v=abs(a.v); p=10**a.e
    return "%s%d.%0*d"%(s,v//p,a.e,v%p)
def parse_pct(t):
    if t.endswith("%"):
        a=parse(t[:-1]); return a.rescale(a.e+2).div(A(100,0))
    return parse(t)
def pct_of(p,a): return a.mul(p)
def factor(p): return p.add(A(1,0))
def remove(a,p): return a.div(factor(p))


SUBUNITS={"EUR":2,"USD":2,"JPY":0,"KWD":3,"MXN":2}
def item_price(item,cur,c,rates):
    icur=item.get("currency") or cur
    price=parse(item["price"]).match(A(0,SUBUNITS[icur]))
    if not item.get("currency") or item["currency"]==cur: return price
    for ap in item.get("alt_prices",[]):
        if ap["currency"]==cur:
            return parse(ap["value"]).match(A(0,SUBUNITS[cur]))
    for r in rates:
        if r["from"]==item["currency"] and r["to"]==cur:
            return price.mul(parse(r["amount"])).rescale(SUBUNITS[cur])
    return None

PRECISE="precise"; CURRENCY="currency"
def apply_rr(rr,c,a): return a.rescale(c) if rr==CURRENCY else a.up(c)
def match_rr(rr,a,b): return a if rr==CURRENCY else a.match(b)

ES_RATES={("VAT","standard"):("21.0%",None),("VAT","reduced"):("10.0%",None),("VAT","super-reduced"):("4.0%",None),
          ("VAT","standard+eqs"):("21.0%","5.2%"),("VAT","reduced+eqs"):("10.0%","1.4%"),("VAT","exempt"):(None,None),
          ("IRPF","pro"):("15.0%",None)}
RETAINED={"IRPF"}

def line_dc(rows, sum_, total, c, rr, quantity, is_charge):
    out=[]
    for d in rows:
        d=dict(d)
        amount=parse(d["amount"]) if "amount" in d else A(0,0)
        if d.get("percent") is not None and not parse_pct(d["percent"]).iszero():
            base=sum_
            if d.get("base") is not None:
                b=parse(d["base"]).up(c); d["_base"]=b
                base=b.up(c+2); base=apply_rr(rr,c,base)
            amount=pct_of(parse_pct(d["percent"]),base)
        if is_charge and d.get("rate") is not None:
            q=quantity if d.get("quantity") is None else parse(d["quantity"])
            amount=parse(d["rate"]).mul(q)
        amount=amount.up(c)
        total=total.add(amount) if is_charge else total.sub(amount)
        d["_amount"]=amount; out.append(d)
    return out,total

def calc(doc):
    c=doc["_c"]; zero=A(0,c); cur=doc["currency"]
    rr=doc.get("tax",{}).get("rounding",PRECISE); pit=doc.get("tax",{}).get("prices_include")
    res={"lines":[]}
    taxable=[]
    for l in doc["lines"]:
        q=parse(l["quantity"])
        item=dict(l["item"])
        if l.get("breakdown"):
            np=zero; has=False; maxe=0; subs=[]
            for sl in l["breakdown"]:
                sp=item_price(sl["item"],cur,c,doc.get("exchange_rates",[]))
                if sp is None: return None
                maxe=max(maxe,sp.e)
                p2=sp.up(c+2) if rr==PRECISE else sp
                sq=parse(sl["quantity"])
                ssum=apply_rr(rr,c,p2.mul(sq)); stot=ssum
                sds,stot=line_dc(sl.get("discounts",[]),ssum,stot,c,rr,sq,False)
                scs,stot=line_dc(sl.get("charges",[]),ssum,stot,c,rr,sq,True)
                subs.append({"sum":ssum,"total":stot,"discounts":sds,"charges":scs})
                has=True; np=np.match(stot).add(stot)
            if has:
                np=np.rescale(maxe); item={"price":fmt(np)}
            sub_out=subs
        else: sub_out=[]
        price=item_price(item,cur,c,doc.get("exchange_rates",[]))
        if price is None: return None
        stored_price=price
        exp=c+(2 if rr==PRECISE else 0)
        pr=price.up(exp)
        s=apply_rr(rr,c,pr.mul(q)); total=s
        ds,total=line_dc(l.get("discounts",[]),s,total,c,rr,q,False)
        cs,total=line_dc(l.get("charges",[]),s,total,c,rr,q,True)
        res["lines"].append({"sum":s,"total":total,"price":stored_price,"discounts":ds,"charges":cs,"subs":sub_out})
        taxable.append((total,l.get("taxes",[])))
    tsum=zero
    for l in res["lines"]: tsum=tsum.match(l["total"]).add(l["total"])
    total=tsum
    def doc_dc(rows):
        out=[]
        for d in rows:
            d=dict(d)
            amount=parse(d["amount"]) if "amount" in d else A(0,0)
            if d.get("percent") is not None and not parse_pct(d["percent"]).iszero():
                base=tsum
                if d.get("base") is not None:
                    base=parse(d["base"]).up(c+2); base=apply_rr(rr,c,base)
                amount=pct_of(parse_pct(d["percent"]),base)
            amount=apply_rr(rr,c,amount)
            d["_amount"]=amount; out.append(d)
        return out
    dd=doc_dc(doc.get("discounts",[])); cc=doc_dc(doc.get("charges",[]))
    res["discount"]=None; res["charge"]=None
    if dd:
        t=zero
        for d in dd: t=t.match(d["_amount"]).add(d["_amount"])
        res["discount"]=t; total=total.sub(t)
    if cc:
        t=zero
        for d in cc: t=t.match(d["_amount"]).add(d["_amount"])
        res["charge"]=t; total=total.add(t)
    for d in dd: taxable.append((d["_amount"].neg(),d.get("taxes",[])))
    for d in cc: taxable.append((d["_amount"],d.get("taxes",[])))
    # taxes
    cats=[]  # list of dict(code,retained,rates=[dict(key,pct,sur,base,amount,suramount)],amount,surcharge)
    tls=[]
    for (tot,taxes) in taxable:
        combos=[]
        for t in taxes:
            pct=t.get("percent"); sur=t.get("surcharge")
            if t.get("rate"):
                p,s_=ES_RATES[(t["cat"],t["rate"])]
                pct,sur=p,s_
            combos.append({"cat":t["cat"],"rate":t.get("rate",""),"pct":None if pct is None else parse_pct(pct),
                           "sur":None if sur is None else parse_pct(sur),"retained":t["cat"] in RETAINED})
            tot=tot.up(c+2)
        tls.append([tot,combos])
    if pit:
        for tl in tls:
            cb=next((x for x in tl[1] if x["cat"]==pit),None)
            if cb is not None:
                if cb["retained"]: return None
                if cb["pct"] is None: continue
                tl[0]=remove(tl[0],cb["pct"])
    def eqv(a,b):
        m=max(a.e,b.e); return a.rescale(m).v==b.rescale(m).v
    for tot,combos in tls:
        for cb in combos:
            ct=next((x for x in cats if x["code"]==cb["cat"]),None)
            if ct is None:
                ct={"code":cb["cat"],"retained":cb["retained"],"rates":[],"amount":zero,"surcharge":None}; cats.append(ct)
            rt=None
            for r in ct["rates"]:
                if r["pct"] is None or cb["pct"] is None:
                    ok=(r["pct"] is None and cb["pct"] is None)
                else:
                    ok=True
                    if r["sur"] is not None or cb["sur"] is not None:
                        if r["sur"] is None or cb["sur"] is None or not eqv(r["sur"],cb["sur"]): ok=False
                    if ok: ok=eqv(r["pct"],cb["pct"])
                if ok: rt=r; break
            if rt is None:
                rt={"key":cb["rate"],"pct":cb["pct"],"sur":cb["sur"],"base":zero,"amount":zero,"suramount":zero}; ct["rates"].append(rt)
            rt["base"]=match_rr(rr,rt["base"],tot).add(tot)
    taxsum=zero
    for ct in cats:
        ct["amount"]=zero
        for rt in ct["rates"]:
            if rt["pct"] is None: rt["amount"]=zero; continue
            rt["amount"]=pct_of(rt["pct"],rt["base"])
            ct["amount"]=match_rr(rr,ct["amount"],rt["amount"]).add(rt["amount"])
            if rt["sur"] is not None:
                rt["suramount"]=pct_of(rt["sur"],rt["base"])
                x=ct["surcharge"] if ct["surcharge"] is not None else zero
                ct["surcharge"]=match_rr(rr,x,rt["suramount"]).add(rt["suramount"])
        taxsum=match_rr(rr,taxsum,ct["amount"])
        if ct["retained"]:
            taxsum=taxsum.sub(ct["amount"])
            if ct["surcharge"] is not None: taxsum=taxsum.sub(ct["surcharge"])
        else:
            taxsum=taxsum.add(ct["amount"])
            if ct["surcharge"] is not None: taxsum=taxsum.add(ct["surcharge"])
    for ct in cats:
        for rt in ct["rates"]:
            rt["amount"]=rt["amount"].rescale(c); rt["base"]=rt["base"].rescale(c); rt["suramount"]=rt["suramount"].rescale(c)
        ct["precise"]=ct["amount"]; ct["amount"]=ct["amount"].rescale(c)
        if ct["surcharge"] is not None: ct["surcharge"]=ct["surcharge"].rescale(c)
    precise_sum=taxsum; taxsum_r=taxsum.rescale(c)
    res["tax_included"]=None
    if pit:
        ct=next((x for x in cats if x["code"]==pit),None)
        if ct is not None:
            ti=ct["precise"] if not ct["precise"].iszero() else ct["amount"]
            res["tax_included"]=ti; total=total.sub(ti)
    tax=precise_sum if not precise_sum.iszero() else taxsum_r
    twt=total.add(tax); payable=twt
    res["advances"]=None; res["due"]=None; res["adv_rows"]=[]
    pay=doc.get("payment")
    if pay and pay.get("advances"):
        rows=[]
        for a in pay["advances"]:
            amount=parse(a["amount"]) if "amount" in a else A(0,0)
            if a.get("percent") is not None: amount=pct_of(parse_pct(a["percent"]),twt)
            rows.append(amount.match(zero))
        t=zero
        for a in rows: t=t.match(a).add(a)
        res["adv_rows"]=[a.rescale(c) for a in rows]
        res["advances"]=t; res["due"]=payable.sub(t)
    res["dues"]=[]
    if pay and pay.get("terms"):
        for dd_ in pay["terms"].get("due_dates",[]):
            amount=parse(dd_["amount"]) if "amount" in dd_ else A(0,0)
            if dd_.get("percent") is not None and not parse_pct(dd_["percent"]).iszero(): amount=pct_of(parse_pct(dd_["percent"]),payable)
            res["dues"].append(amount.rescale(c))
    # presentation
    for l in res["lines"]:
        e=l["price"].e
        l["sum"]=l["sum"].down(e); l["total"]=l["total"].down(e)
        for d in l["discounts"]+l["charges"]: d["_amount"]=d["_amount"].down(e)
        for sl in l["subs"]:
            sl["sum"]=sl["sum"].down(e); sl["total"]=sl["total"].down(e)
    for d,src in [(x,x) for x in dd+cc]:
        e=c if d.get("base") is None else parse(d["base"]).e
        d["_amount"]=d["_amount"].down(e)
    res["dd"]=dd; res["cc"]=cc
    R=lambda a: None if a is None else a.rescale(c)
    res.update(sum=R(tsum),discount=R(res["discount"]),charge=R(res["charge"]),tax_included=R(res["tax_included"]),
               total=R(total),tax=R(tax),total_with_tax=R(twt),payable=R(payable),advances=R(res["advances"]),due=R(res["due"]))
    res["cats"]=cats; res["taxsum"]=taxsum_r
    return res

# ---------- generator ----------
def gen(rng):
    c=2
    def amt(maxv,maxe,signed=False):
        e=rng.randint(0,maxe); v=rng.randrange(maxv)
        if signed and rng.random()<0.25: v=-v
        return fmt(A(v,e))
    PCT=["21%","10%","4%","5.2%","1.4%","0.5%","21.0%","7.75%","19%","0%","33.333%","100%","-10%"]
    def taxes():
        k=rng.randrange(7)
        if k==0: return [{"cat":"VAT","rate":"standard"}]
        if k==1: return [{"cat":"VAT","percent":rng.choice(PCT[:9])}]
        if k==2: return [{"cat":"VAT","rate":"standard+eqs"}]
        if k==3: return [{"cat":"VAT","rate":"exempt"}]
        if k==4: return [{"cat":"VAT","rate":"reduced"},{"cat":"IRPF","percent":"15%"}]
        if k==5: return [{"cat":"VAT","percent":rng.choice(PCT[:9])},{"cat":"IRPF","rate":"pro"}]
        return []
    def ldc(charge):
        rows=[]
        for _ in range(rng.randrange(3)):
            k=rng.randrange(4 if charge else 3)
            r={"reason":"r"}
            if k==0: r["percent"]=rng.choice(PCT)
            elif k==1: r["amount"]=amt(5000,2)
            elif k==2: r["percent"]=rng.choice(PCT); r["base"]=amt(90000,rng.choice([0,1,2,2,3,4]))
            else:
                r["rate"]=amt(900,rng.choice([2,2,3]));
                if rng.random()<0.5: r["quantity"]=amt(50,1)
            rows.append(r)
        return rows
    curc=rng.choice(["EUR","EUR","JPY","KWD"]); c=SUBUNITS[curc]
    doc={"$schema":"https://gobl.org/draft-0/bill/invoice","uuid":"3aea7b56-59d8-4beb-90bd-f8f280d852a0","currency":curc,
         "issue_date":"2022-02-01","code":"S-1","supplier":{"tax_id":{"country":"ES","code":"B98602642"},"name":"P"},
         "customer":{"tax_id":{"country":"ES","code":"54387763P"},"name":"C"}}
    doc["tax"]={"rounding":rng.choice([PRECISE,CURRENCY])}
    if rng.random()<0.3: doc["tax"]["prices_include"]="VAT"
    doc["lines"]=[]
    for _ in range(rng.randint(1,4)):
        l={"quantity":amt(3000,3,True),"item":{"name":"x","price":amt(200000,rng.choice([0,1,2,2,3,4,6]))},"taxes":taxes()}
        d=ldc(False); ch=ldc(True)
        if d: l["discounts"]=d
        if ch: l["charges"]=ch
        r=rng.random()
        if r<0.15:
            l["item"]["currency"]="USD"; doc["exchange_rates"]=[{"from":"USD","to":curc,"amount":rng.choice(["0.875967","149.31","0.31","1.1"])}]
        elif r<0.25:
            l["item"]["currency"]="USD"; l["item"]["alt_prices"]=[{"currency":curc,"value":amt(90000,rng.choice([0,1,2,3,4]))}]
        elif r<0.4:
            l["breakdown"]=[]
            for _ in range(rng.randint(1,3)):
                sl={"quantity":amt(300,2,True),"item":{"name":"s","price":amt(20000,rng.choice([0,2,3,4]))}}
                sd=ldc(False); sc=ldc(True)
                if sd: sl["discounts"]=sd
                if sc: sl["charges"]=sc
                l["breakdown"].append(sl)
        doc["lines"].append(l)
    def ddc():
        rows=[]
        for _ in range(rng.randrange(3)):
            k=rng.randrange(3); r={"reason":"d","taxes":taxes()}
            if k==0: r["percent"]=rng.choice(PCT)
            elif k==1: r["amount"]=amt(9000,2)
            else: r["percent"]=rng.choice(PCT); r["base"]=amt(90000,rng.choice([2,2,3,4]))
            rows.append(r)
        return rows
    d=ddc(); ch=ddc()
    if d: doc["discounts"]=d
    if ch: doc["charges"]=ch
    if rng.random()<0.2:
        doc.setdefault("payment",{})["terms"]={"key":"due-date","due_dates":[{"date":"2022-03-01","percent":rng.choice(PCT[:9])},{"date":"2022-04-01","amount":amt(3000,3)}]}
    if rng.random()<0.3:
        doc.setdefault("payment",{})["advances"]=[{"description":"a","percent":rng.choice(PCT[:9])},{"description":"b","amount":amt(3000,2)}]
    doc["_c"]=c
    return doc

def eq(a, s):
    if a is None: return s is None
    if s is None: return False
    b=parse(s); return a.v==b.v and a.e==b.e

def compare(res, out):
    diffs=[]
    t=out.get("totals") or {}
    for k,jk in [("sum","sum"),("discount","discount"),("charge","charge"),("tax_included","tax_included"),("total","total"),
                 ("tax","tax"),("total_with_tax","total_with_tax"),("payable","payable"),("advances","advance"),("due","due")]:
        if not eq(res[k], t.get(jk)): diffs.append((k,res[k],t.get(jk)))
    for i,(ml,gl) in enumerate(zip(res["lines"],out["lines"])):
        if not eq(ml["sum"],gl.get("sum")): diffs.append(("line%d.sum"%i,ml["sum"],gl.get("sum")))
        if not eq(ml["total"],gl.get("total")): diffs.append(("line%d.total"%i,ml["total"],gl.get("total")))
        if not eq(ml["price"],gl["item"].get("price")): diffs.append(("line%d.price"%i,ml["price"],gl["item"].get("price")))
        for j,(ms,gs) in enumerate(zip(ml["subs"],gl.get("breakdown",[]))):
            if not eq(ms["sum"],gs.get("sum")): diffs.append(("line%d.sub%d.sum"%(i,j),ms["sum"],gs.get("sum")))
            if not eq(ms["total"],gs.get("total")): diffs.append(("line%d.sub%d.total"%(i,j),ms["total"],gs.get("total")))
        for kind in ("discounts","charges"):
            for j,(md,gd) in enumerate(zip(ml[kind],gl.get(kind,[]))):
                if not eq(md["_amount"],gd.get("amount")): diffs.append(("line%d.%s%d"%(i,kind,j),md["_amount"],gd.get("amount")))
            if len(ml[kind])!=len(gl.get(kind,[])): diffs.append(("line%d.%s.len"%(i,kind),len(ml[kind]),len(gl.get(kind,[]))))
    for kind,mk in (("discounts","dd"),("charges","cc")):
        for j,(md,gd) in enumerate(zip(res[mk],out.get(kind,[]))):
            if not eq(md["_amount"],gd.get("amount")): diffs.append(("%s%d"%(kind,j),md["_amount"],gd.get("amount")))
    gd=((out.get("payment") or {}).get("terms") or {}).get("due_dates",[])
    for j,(md,g) in enumerate(zip(res["dues"],gd)):
        if not eq(md,g.get("amount")): diffs.append(("due%d"%j,md,g.get("amount")))
    ga=(out.get("payment") or {}).get("advances",[])
    for j,(md,g) in enumerate(zip(res["adv_rows"],ga)):
        if not eq(md,g.get("amount")): diffs.append(("adv%d"%j,md,g.get("amount")))
    gcats=(t.get("taxes") or {}).get("categories",[])
    if len(gcats)!=len(res["cats"]): diffs.append(("ncats",len(res["cats"]),len(gcats)))
    for mc,gc in zip(res["cats"],gcats):
        if mc["code"]!=gc["code"]: diffs.append(("catcode",mc["code"],gc["code"]))
        if not eq(mc["amount"],gc["amount"]): diffs.append(("cat.amount",mc["amount"],gc["amount"]))
        if not eq(mc["surcharge"],gc.get("surcharge")): diffs.append(("cat.sur",mc["surcharge"],gc.get("surcharge")))
        if len(mc["rates"])!=len(gc["rates"]): diffs.append(("nrates",len(mc["rates"]),len(gc["rates"]))); continue
        for mr,gr in zip(mc["rates"],gc["rates"]):
            if not eq(mr["base"],gr["base"]): diffs.append(("rate.base",mr["base"],gr["base"]))
            if not eq(mr["amount"],gr["amount"]): diffs.append(("rate.amount",mr["amount"],gr["amount"]))
            if mr["sur"] is not None and not eq(mr["suramount"],gr.get("surcharge",{}).get("amount")): diffs.append(("rate.sur",mr["suramount"],gr.get("surcharge")))
    if gcats and not eq(res["taxsum"],t["taxes"]["sum"]): diffs.append(("taxes.sum",res["taxsum"],t["taxes"]["sum"]))
    return diffs

def main():
    seed=int(sys.argv[1]) if len(sys.argv)>1 else 1
    n=int(sys.argv[2]) if len(sys.argv)>2 else 2000
    rng=random.Random(seed)
    docs=[gen(rng) for _ in range(n)]
    inp="\n".join(json.dumps({k:v for k,v in d.items() if not k.startswith("_")}) for d in docs)+"\n"
    p=subprocess.run(["./runner"],input=inp.encode(),capture_output=True,cwd="/root/scratch/calcproto")
    outs=[json.loads(l) for l in p.stdout.decode().splitlines()]
    assert len(outs)==len(docs),(len(outs),len(docs))
    stats=Counter(); shown=Counter()
    for d,o in zip(docs,outs):
        if "panic" in o: stats["panic"]+=1; continue
        try: r=calc(d)
        except ZeroDivisionError: r="zd"
        if "error" in o:
            stats["go-error"]+=1
            if r is not None and r!="zd": stats["go-error-model-ok"]+=1;
            continue
        if r is None or r=="zd": stats["model-error-go-ok"]+=1; continue
        diffs=compare(r,o)
        if diffs:
            stats["mismatch"]+=1
            k=diffs[0][0].rstrip("0123456789")
            stats["mm:"+k]+=1
            if shown[k]<1:
                shown[k]+=1
                print("MISMATCH",diffs[:4]); print("  doc:",json.dumps({k:v for k,v in d.items() if not k.startswith("_")})[330:]); print("  go lines:",json.dumps(o["lines"])[:600]); print("  go totals:",json.dumps(o.get("totals"))[:500])
        else: stats["agree"]+=1
    print(dict(stats))
main()
