package main

// C15 (a) - deep snapshot of the shared registry structures before and after every workload.
//
//   vharness c15snap <repo> <seed> [<extra-random-combos>]
//
// Roots: tax.Regimes() (the regime collection with every *RegimeDef), tax.AllAddonDefs(),
// tax.AllCatalogueDefs(), every extension definition reachable through tax.ExtensionForKey, the
// schema registry (schema.Types(), schema.List()) and currency.Definitions().  The walk goes by
// reflection through every pointer into packages of the module, every struct field (exported or
// not), every map entry and every slice UP TO ITS CAPACITY - the spare cells between len and cap
// are exactly where an `append` into a shared slice lands without any goroutine racing.
// The model (Conc/Slices.v, registry_never_written) predicts: no cell ever changes.
//
// Workloads: every example output document (parse, calculate, validate, correct, replicate), and
// a synthetic invoice for every regime x addon combination (and seeded random addon pairs).
// Output: JSON lines - {"type":"spare",...} one per registry slice with cap > len,
// {"type":"change",...} one per changed cell with the workload that changed it, {"type":"totals"}.

import (
	"encoding/json"
	"fmt"
	"math/rand"
	"os"
	"path/filepath"
	"reflect"
	"regexp"
	"sort"
	"strconv"
	"strings"
	"unsafe"

	"github.com/invopop/gobl"
	"github.com/invopop/gobl/bill"
	"github.com/invopop/gobl/cbc"
	"github.com/invopop/gobl/currency"
	"github.com/invopop/gobl/schema"
	"github.com/invopop/gobl/tax"
)

const modPrefix = "github.com/invopop/gobl"

type snapRoot struct {
	name string
	v    reflect.Value
}

type snapper struct {
	full    bool
	cells   map[string]string // only in full mode
	h       uint64
	visited map[uintptr]map[reflect.Type]bool
	spare   []map[string]interface{}
	objPath map[string]string // object key -> first path from a root (full mode)
	ncells  int
	nslices int
}

const fnvPrime = 1099511628211

func (s *snapper) put(path string, val string) {
	s.ncells++
	h := s.h
	for i := 0; i < len(val); i++ {
		h ^= uint64(val[i])
		h *= fnvPrime
	}
	h ^= 0xff
	h *= fnvPrime
	s.h = h
	if s.full {
		s.cells[path] = val
	}
}

// putU records a numeric cell (integers, pointers) without formatting it in hash-only mode.
func (s *snapper) putU(path string, tag string, u uint64, hex bool, extra string) {
	if s.full {
		if hex {
			s.put(path, tag+"0x"+strconv.FormatUint(u, 16)+extra)
		} else {
			s.put(path, tag+strconv.FormatUint(u, 10)+extra)
		}
		return
	}
	s.ncells++
	h := s.h
	for i := 0; i < len(tag); i++ {
		h ^= uint64(tag[i])
		h *= fnvPrime
	}
	for i := 0; i < 8; i++ {
		h ^= (u >> (8 * uint(i))) & 0xff
		h *= fnvPrime
	}
	for i := 0; i < len(extra); i++ {
		h ^= uint64(extra[i])
		h *= fnvPrime
	}
	h ^= 0xff
	h *= fnvPrime
	s.h = h
}

func (s *snapper) sub(path, suffix string) string {
	if !s.full {
		return ""
	}
	return path + suffix
}

func (s *snapper) idx(path string, i int, spare bool) string {
	if !s.full {
		return ""
	}
	if spare {
		return path + "[" + strconv.Itoa(i) + "+spare]"
	}
	return path + "[" + strconv.Itoa(i) + "]"
}

var ownCache = map[reflect.Type]bool{}

func ownType(t reflect.Type) bool {
	if v, ok := ownCache[t]; ok {
		return v
	}
	t0 := t
	for t.Kind() == reflect.Ptr || t.Kind() == reflect.Slice || t.Kind() == reflect.Array {
		t = t.Elem()
	}
	p := t.PkgPath()
	r := p == "" || strings.HasPrefix(p, modPrefix)
	ownCache[t0] = r
	return r
}

func keyString(k reflect.Value) string {
	switch k.Kind() {
	case reflect.String:
		return k.String()
	case reflect.Int, reflect.Int8, reflect.Int16, reflect.Int32, reflect.Int64:
		return strconv.FormatInt(k.Int(), 10)
	case reflect.Uint, reflect.Uint8, reflect.Uint16, reflect.Uint32, reflect.Uint64:
		return strconv.FormatUint(k.Uint(), 10)
	case reflect.Interface, reflect.Ptr:
		if k.CanInterface() {
			if t, ok := k.Interface().(reflect.Type); ok {
				return t.String()
			}
		}
		if k.Kind() == reflect.Interface {
			return keyString(k.Elem())
		}
		return fmt.Sprintf("%#x", k.Pointer())
	}
	return fmt.Sprintf("<%s>", k.Kind())
}

var defPtrType = reflect.TypeOf((*cbc.Definition)(nil))

func (s *snapper) walk(v reflect.Value, path string, depth int) {
	if depth > 200 {
		s.put(path, "<too deep>")
		return
	}
	switch v.Kind() {
	case reflect.Invalid:
		s.put(path, "<invalid>")
	case reflect.Bool:
		if v.Bool() {
			s.putU(path, "b", 1, false, "")
		} else {
			s.putU(path, "b", 0, false, "")
		}
	case reflect.Int, reflect.Int8, reflect.Int16, reflect.Int32, reflect.Int64:
		s.putU(path, "i", uint64(v.Int()), false, "")
	case reflect.Uint, reflect.Uint8, reflect.Uint16, reflect.Uint32, reflect.Uint64, reflect.Uintptr:
		s.putU(path, "u", v.Uint(), false, "")
	case reflect.Float32, reflect.Float64:
		s.put(path, strconv.FormatFloat(v.Float(), 'g', -1, 64))
	case reflect.String:
		s.put(path, "s:"+v.String())
	case reflect.Func, reflect.Chan, reflect.UnsafePointer:
		if v.IsNil() {
			s.put(path, "nil")
		} else {
			s.putU(path, "code@", uint64(v.Pointer()), true, "")
		}
	case reflect.Interface:
		if v.IsNil() {
			s.put(path, "nil")
			return
		}
		e := v.Elem()
		if e.CanInterface() {
			if t, ok := e.Interface().(reflect.Type); ok {
				s.put(path, "type:"+t.String())
				return
			}
		}
		if s.full {
			s.put(path+"#dyn", e.Type().String())
		} else {
			s.putU("", "dyn", uint64(reflect.ValueOf(e.Type()).Pointer()), true, "")
		}
		s.walk(e, path, depth+1)
	case reflect.Ptr:
		if v.IsNil() {
			s.put(path, "nil")
			return
		}
		p := v.Pointer()
		extra := ""
		if v.Type() == defPtrType {
			extra = " key=" + v.Elem().FieldByName("Key").String()
		}
		s.putU(path, "ptr:", uint64(p), true, extra)
		if !ownType(v.Type().Elem()) {
			return // foreign objects (regexp, sync, time ...) are opaque
		}
		m := s.visited[p]
		if m == nil {
			m = map[reflect.Type]bool{}
			s.visited[p] = m
		}
		if m[v.Type()] {
			return
		}
		m[v.Type()] = true
		// cells of an object are named by the object's identity, not by the route that reached it:
		// a pointer stored into a new place must not rename the (unchanged) object's cells
		op := ""
		if s.full {
			ok := "@0x" + strconv.FormatUint(uint64(p), 16) + ":" + v.Type().Elem().String()
			if _, seen := s.objPath[ok]; !seen {
				s.objPath[ok] = path
			}
			op = ok + "|"
		}
		s.walk(v.Elem(), op, depth+1)
	case reflect.Struct:
		t := v.Type()
		for i := 0; i < v.NumField(); i++ {
			fp := ""
			if s.full {
				fp = path + "." + t.Field(i).Name
			}
			s.walk(v.Field(i), fp, depth+1)
		}
	case reflect.Array:
		for i := 0; i < v.Len(); i++ {
			s.walk(v.Index(i), s.idx(path, i, false), depth+1)
		}
	case reflect.Slice:
		if v.IsNil() {
			s.put(path, "nil-slice")
			return
		}
		l, c := v.Len(), v.Cap()
		s.nslices++
		s.putU(s.sub(path, "#len"), "len", uint64(l), false, "")
		s.putU(s.sub(path, "#cap"), "cap", uint64(c), false, "")
		s.putU(s.sub(path, "#data"), "data", uint64(v.Pointer()), true, "")
		if s.full {
			rec := map[string]interface{}{"type": "slice", "path": path, "len": l, "cap": c,
				"elem": v.Type().Elem().String(), "_cell": path}
			if c > l {
				rec["type"] = "spare"
			}
			s.spare = append(s.spare, rec)
		}
		full := v
		if c > l {
			full = v.Slice(0, c) // s[:cap(s)]: the cells an append would write
		}
		if v.Type().Elem().Kind() == reflect.Uint8 {
			b := make([]byte, c)
			for i := 0; i < c; i++ {
				b[i] = byte(full.Index(i).Uint())
			}
			s.put(s.sub(path, "#bytes"), string(b))
			return
		}
		for i := 0; i < c; i++ {
			s.walk(full.Index(i), s.idx(path, i, i >= l), depth+1)
		}
	case reflect.Map:
		if v.IsNil() {
			s.put(path, "nil-map")
			return
		}
		s.putU(s.sub(path, "#len"), "len", uint64(v.Len()), false, "")
		type kv struct {
			k string
			v reflect.Value
		}
		kvs := make([]kv, 0, v.Len())
		it := v.MapRange()
		for it.Next() {
			kvs = append(kvs, kv{keyString(it.Key()), it.Value()})
		}
		sort.Slice(kvs, func(i, j int) bool { return kvs[i].k < kvs[j].k })
		for _, e := range kvs {
			s.put("", e.k) // hash mode: keys count too
			s.ncells--
			s.walk(e.v, s.sub(path, "{"+e.k+"}"), depth+1)
		}
	default:
		s.put(path, "<"+v.Kind().String()+">")
	}
}

// registryRoots collects the shared structures. Extension definitions are reached through the
// keys listed by regimes, addons and catalogues.
func registryRoots() []snapRoot {
	var roots []snapRoot
	roots = append(roots, snapRoot{"regimes", reflect.ValueOf(tax.Regimes())})
	extKeys := map[cbc.Key]bool{}
	for _, r := range tax.AllRegimeDefs() {
		for _, e := range r.Extensions {
			if e != nil {
				extKeys[e.Key] = true
			}
		}
	}
	for _, a := range tax.AllAddonDefs() {
		roots = append(roots, snapRoot{"addon:" + a.Key.String(), reflect.ValueOf(a)})
		for _, e := range a.Extensions {
			if e != nil {
				extKeys[e.Key] = true
			}
		}
	}
	for i, cdef := range tax.AllCatalogueDefs() {
		roots = append(roots, snapRoot{"catalogue:" + strconv.Itoa(i) + ":" + cdef.Key.String(), reflect.ValueOf(cdef)})
		for _, e := range cdef.Extensions {
			if e != nil {
				extKeys[e.Key] = true
			}
		}
	}
	var ks []string
	for k := range extKeys {
		ks = append(ks, k.String())
	}
	sort.Strings(ks)
	for _, k := range ks {
		roots = append(roots, snapRoot{"extension:" + k, reflect.ValueOf(tax.ExtensionForKey(cbc.Key(k)))})
	}
	roots = append(roots, snapRoot{"schema.Types", reflect.ValueOf(schema.Types())})
	ids := schema.List() // a fresh copy on every call: contents only
	idl := make([]string, len(ids))
	for i, id := range ids {
		idl[i] = id.String()
	}
	roots = append(roots, snapRoot{"schema.List", reflect.ValueOf(strings.Join(idl, " "))})
	defs := currency.Definitions()
	roots = append(roots, snapRoot{"currency.Definitions", reflect.ValueOf(&defs).Elem()})
	for _, d := range defs {
		if d != nil {
			roots = append(roots, snapRoot{"currency.Get:" + d.ISOCode.String(), reflect.ValueOf(currency.Get(d.ISOCode))})
		}
	}
	return roots
}

func takeSnapshot(full bool) *snapper {
	s := &snapper{visited: map[uintptr]map[reflect.Type]bool{}, h: 14695981039346656037, full: full}
	if full {
		s.cells = map[string]string{}
		s.objPath = map[string]string{}
	}
	for _, r := range registryRoots() {
		s.walk(r.v, r.name, 0)
	}
	return s
}

// readable translates a cell name "@0xPTR:Type|sub" into "<route to the object>->sub".
func readable(cell string, snaps ...*snapper) string {
	i := strings.Index(cell, "|")
	if !strings.HasPrefix(cell, "@") || i < 0 {
		return cell
	}
	for _, s := range snaps {
		if p, ok := s.objPath[cell[:i]]; ok {
			return readable(p, snaps...) + "->" + cell[i+1:]
		}
	}
	return cell
}

var _ = unsafe.Pointer(nil)

// ---------------------------------------------------------------------------------------------
// workloads
// ---------------------------------------------------------------------------------------------

type snapWorkload struct {
	Name   string   `json:"name"`
	Regime string   `json:"regime"`
	Addons []string `json:"addons"`
	Doc    string   `json:"doc"`
	data   []byte
}

func runWorkload(w *snapWorkload) (stages []string) {
	var outs []stageOut
	env := parseEnv(w.data, &outs, true)
	if env == nil {
		return []string{"parse-failed"}
	}
	step := func(name string, f func(e *gobl.Envelope) error) {
		e := env
		var tmp []stageOut
		if guard(name, &tmp, func() error { return f(e) }) {
			env = parseEnv(w.data, &outs, false)
		}
		for _, o := range tmp {
			stages = append(stages, o.Stage+":"+o.Result)
		}
	}
	step("calculate", func(e *gobl.Envelope) error { return e.Calculate() })
	step("validate", func(e *gobl.Envelope) error { return e.Validate() })
	step("correct", func(e *gobl.Envelope) error {
		_, err := e.Correct(bill.Corrective, bill.WithReason("test"))
		_, _ = e.Correct(bill.Credit)
		_, _ = e.CorrectionOptionsSchema()
		return err
	})
	step("replicate", func(e *gobl.Envelope) error { _, err := e.Replicate(); return err })
	step("sign", func(e *gobl.Envelope) error { return e.Sign(c14key) })
	// decode edited JSON INTO the calculated document object: encoding/json keeps the pointers that are
	// already there, so a calculated field that still points into a shared definition (a rate table value,
	// an extension map) is written through
	step("reuse", func(e *gobl.Envelope) error {
		doc := e.Extract()
		if doc == nil {
			return nil
		}
		b, err := json.Marshal(doc)
		if err != nil {
			return nil
		}
		b = c15PctRe.ReplaceAll(b, []byte(`"$1":"77.7%"`))
		b = c15ExtRe.ReplaceAll(b, []byte(`"ext":{"zz-reuse":"x",`))
		_ = json.Unmarshal(b, doc)
		return nil
	})
	return stages
}

var c15PctRe = regexp.MustCompile(`"(percent|surcharge)":"[^"]*"`)
var c15ExtRe = regexp.MustCompile(`"ext":\{`)

func syntheticInvoice(regime *tax.RegimeDef, addons []string) []byte {
	cc := regime.Country.String()
	cur := regime.Currency.String()
	ad, _ := json.Marshal(addons)
	taxes := "[]"
	if len(regime.Categories) > 0 {
		c0 := regime.Categories[0]
		taxes = `[{"cat":"` + c0.Code.String() + `"`
		if len(c0.Rates) > 0 && len(c0.Rates[0].Values) > 0 {
			taxes += `,"rate":"` + c0.Rates[0].Key.String() + `"`
		} else {
			taxes += `,"percent":"10%"`
		}
		taxes += "}]"
	}
	s := `{"$schema":"https://gobl.org/draft-0/bill/invoice","$regime":"` + cc + `","$addons":` + string(ad) +
		`,"currency":"` + cur + `","issue_date":"2024-06-13","series":"T","code":"1",` +
		`"supplier":{"name":"Supplier","tax_id":{"country":"` + cc + `","code":"B98602642"},"addresses":[{"locality":"X","code":"28002","country":"` + cc + `"}]},` +
		`"customer":{"name":"Customer","tax_id":{"country":"` + cc + `","code":"54387763P"}},` +
		`"lines":[{"quantity":"2","item":{"name":"Thing","price":"10.00"},"taxes":` + taxes + `}],` +
		`"notes":[{"key":"general","text":"n"}]}`
	return []byte(s)
}

func c15snap(args []string) int {
	if len(args) < 2 {
		fmt.Fprintln(os.Stderr, "usage: c15snap <repo> <seed> [<random-combos>]")
		return 2
	}
	repo := args[0]
	seed, _ := strconv.ParseInt(args[1], 10, 64)
	nrand := 40
	if len(args) > 2 {
		nrand, _ = strconv.Atoi(args[2])
	}
	var ws []*snapWorkload
	for _, rel := range exampleFiles(repo) {
		raw, err := os.ReadFile(filepath.Join(repo, rel))
		if err != nil {
			continue
		}
		w := &snapWorkload{Name: "example:" + rel, Doc: rel, data: raw}
		var probe struct {
			Doc struct {
				Regime string   `json:"$regime"`
				Addons []string `json:"$addons"`
			} `json:"doc"`
		}
		_ = json.Unmarshal(raw, &probe)
		w.Regime, w.Addons = probe.Doc.Regime, probe.Doc.Addons
		ws = append(ws, w)
	}
	regs := tax.AllRegimeDefs()
	var addonKeys []string
	for _, a := range tax.AllAddonDefs() {
		addonKeys = append(addonKeys, a.Key.String())
	}
	for _, r := range regs {
		ws = append(ws, &snapWorkload{Name: "synthetic:" + r.Country.String(), Regime: r.Country.String(), Addons: []string{},
			Doc: "synthetic", data: syntheticInvoice(r, []string{})})
		for _, a := range addonKeys {
			ws = append(ws, &snapWorkload{Name: "synthetic:" + r.Country.String() + "+" + a, Regime: r.Country.String(),
				Addons: []string{a}, Doc: "synthetic", data: syntheticInvoice(r, []string{a})})
		}
	}
	rng := rand.New(rand.NewSource(seed))
	for i := 0; i < nrand && len(addonKeys) > 1; i++ {
		r := regs[rng.Intn(len(regs))]
		a1, a2 := addonKeys[rng.Intn(len(addonKeys))], addonKeys[rng.Intn(len(addonKeys))]
		ws = append(ws, &snapWorkload{Name: "synthetic:" + r.Country.String() + "+" + a1 + "+" + a2, Regime: r.Country.String(),
			Addons: []string{a1, a2}, Doc: "synthetic", data: syntheticInvoice(r, []string{a1, a2})})
	}
	// seeded order: which workload first touches a shared cell must not depend on a fixed order
	rng.Shuffle(len(ws), func(i, j int) { ws[i], ws[j] = ws[j], ws[i] })

	// warm-up: lazily initialised caches (sync.Once etc.) must not count as writes by a document
	base := takeSnapshot(true)
	for _, sp := range base.spare {
		sp["path"] = readable(sp["_cell"].(string), base)
		delete(sp, "_cell")
		emitJSON(sp)
	}
	// the tag lists of every regime and addon for the invoice schema: the model's heap (Conc/Slices.v)
	tagRec := func(owner string, sets []*tax.TagSet) {
		ts := tax.TagSetForSchema(sets, bill.ShortSchemaInvoice)
		if ts == nil {
			return
		}
		keys := make([]string, len(ts.List))
		for i, d := range ts.List {
			if d != nil {
				keys[i] = d.Key.String()
			}
		}
		emitJSON(map[string]interface{}{"type": "tags", "owner": owner, "len": len(ts.List), "cap": cap(ts.List), "keys": keys})
	}
	for _, r := range regs {
		tagRec("regime:"+r.Country.String(), r.Tags)
	}
	for _, a := range tax.AllAddonDefs() {
		tagRec("addon:"+a.Key.String(), a.Tags)
	}
	nchanges := 0
	prev := base
	snaps := 1
	for _, w := range ws {
		stages := runWorkload(w)
		hs := takeSnapshot(false)
		snaps++
		emitJSON(map[string]interface{}{"type": "ran", "workload": w, "stages": stages})
		if hs.h == prev.h && hs.ncells == prev.ncells {
			continue
		}
		cur := takeSnapshot(true)
		snaps++
		var paths []string
		// cells of objects that only became (un)reachable are not changes of a pre-existing cell: the
		// pointer cell that now leads to them is the change
		newObj := func(cell string, other *snapper) bool {
			i := strings.Index(cell, "|")
			if !strings.HasPrefix(cell, "@") || i < 0 {
				return false
			}
			_, known := other.objPath[cell[:i]]
			return !known
		}
		for p, v := range cur.cells {
			if ov, ok := prev.cells[p]; (!ok && !newObj(p, prev)) || (ok && ov != v) {
				paths = append(paths, p)
			}
		}
		for p := range prev.cells {
			if _, ok := cur.cells[p]; !ok && !newObj(p, cur) {
				paths = append(paths, p)
			}
		}
		sort.Strings(paths)
		for i, p := range paths {
			if i >= 40 {
				break
			}
			before, ok1 := prev.cells[p]
			after, ok2 := cur.cells[p]
			if !ok1 {
				before = "<absent>"
			}
			if !ok2 {
				after = "<absent>"
			}
			nchanges++
			emitJSON(map[string]interface{}{"type": "change", "workload": w, "stages": stages, "path": readable(p, prev, cur),
				"before": before, "after": after, "spare": strings.Contains(p, "+spare]"), "cells_changed": len(paths)})
		}
		prev = cur
		prev.h, prev.ncells = hs.h, hs.ncells
		if cur.h != hs.h {
			prev.h, prev.ncells = cur.h, cur.ncells
		}
	}
	emitJSON(map[string]interface{}{"type": "totals", "cells": base.ncells, "slices": base.nslices, "spare_slices": countSpare(base.spare),
		"workloads": len(ws), "snapshots": snaps, "changes": nchanges, "regimes": len(regs), "addons": len(addonKeys)})
	return 0
}

func countSpare(l []map[string]interface{}) int {
	n := 0
	for _, r := range l {
		if r["type"] == "spare" {
			n++
		}
	}
	return n
}

func init() {
	commands["c15snap"] = c15snap
}
