package main

// C04, extension-only inputs and repetition.
//
//	vharness c04exts             prints, as one JSON object, every extension definition that a regime, an add-on or a
//	                             catalogue registers (owner kind / name, key, listed value codes, pattern) and the
//	                             keys of all add-ons and the countries of all regimes
//	c04 rep x<json> <n>          builds (parse -> calculate) the SAME input n times inside this process, each time from
//	                             the bytes, and compares the serialised documents and digests; then feeds the result
//	                             back once (serialise -> parse -> serialise identity -> calculate -> compare):
//	                             ( ok x<digest> ) | ( diff <round> x<where> ) | ( err kind )
//	                             round 0 = the repetitions disagree (where = "repeat:<first differing path>:<number of
//	                             distinct results>"), round >= 1 = as `c04 fix`

import (
	"bytes"
	"encoding/json"
	"os"
	"sort"

	"github.com/invopop/gobl"
	"github.com/invopop/gobl/cbc"
	"github.com/invopop/gobl/tax"
)

type c04ExtDef struct {
	Kind    string   `json:"kind"`
	Owner   string   `json:"owner"`
	Key     string   `json:"key"`
	Values  []string `json:"values"`
	Pattern string   `json:"pattern,omitempty"`
}

func c04exts(_ []string) int {
	var out []c04ExtDef
	add := func(kind, owner string, defs []*cbc.Definition) {
		for _, d := range defs {
			if d == nil {
				continue
			}
			e := c04ExtDef{Kind: kind, Owner: owner, Key: d.Key.String(), Pattern: d.Pattern, Values: []string{}}
			for _, v := range d.Values {
				if v != nil && v.Code != "" {
					e.Values = append(e.Values, v.Code.String())
				}
			}
			out = append(out, e)
		}
	}
	for _, r := range tax.AllRegimeDefs() {
		add("regime", r.Country.String(), r.Extensions)
	}
	for _, a := range tax.AllAddonDefs() {
		add("addon", a.Key.String(), a.Extensions)
	}
	for _, c := range tax.AllCatalogueDefs() {
		add("catalogue", c.Key.String(), c.Extensions)
	}
	sort.SliceStable(out, func(i, j int) bool {
		if out[i].Kind != out[j].Kind {
			return out[i].Kind < out[j].Kind
		}
		if out[i].Owner != out[j].Owner {
			return out[i].Owner < out[j].Owner
		}
		return out[i].Key < out[j].Key
	})
	res := struct {
		Defs    []c04ExtDef `json:"defs"`
		Addons  []string    `json:"addons"`
		Regimes []string    `json:"regimes"`
		// the currency of each regime, by country
		Currencies map[string]string `json:"currencies"`
		// the tax category codes of each regime, by country
		Categories map[string][]string `json:"categories"`
	}{Defs: out, Currencies: map[string]string{}, Categories: map[string][]string{}}
	for _, a := range tax.AllAddonDefs() {
		res.Addons = append(res.Addons, a.Key.String())
	}
	for _, r := range tax.AllRegimeDefs() {
		res.Regimes = append(res.Regimes, r.Country.String())
		res.Currencies[r.Country.String()] = r.Currency.String()
		for _, c := range r.Categories {
			res.Categories[r.Country.String()] = append(res.Categories[r.Country.String()], c.Code.String())
		}
	}
	sort.Strings(res.Addons)
	sort.Strings(res.Regimes)
	b, _ := json.Marshal(res)
	os.Stdout.Write(append(b, '\n'))
	return 0
}

func c04BuildOnce(data []byte) (env *gobl.Envelope, doc []byte, dig string, kind string) {
	obj, err := gobl.Parse(data)
	if err != nil {
		return nil, nil, "", "parse"
	}
	var ok bool
	if env, ok = obj.(*gobl.Envelope); ok {
		if err := env.Calculate(); err != nil {
			return nil, nil, "", "calc"
		}
	} else if env, err = gobl.Envelop(obj); err != nil {
		return nil, nil, "", "calc"
	}
	out, err := json.Marshal(env.Document)
	if err != nil {
		return nil, nil, "", "marshal"
	}
	return env, out, env.Head.Digest.Value, ""
}

func c04Repeat(data []byte, n int) []V {
	env, first, dig, kind := c04BuildOnce(data)
	if kind != "" {
		return []V{VErr(kind)}
	}
	distinct := map[string]bool{string(first): true}
	where := ""
	for i := 1; i < n; i++ {
		env2, again, dig2, kind := c04BuildOnce(data)
		if kind != "" {
			return []V{VL(VS("diff"), VI(0), VS("repeat:error-"+kind+"-after-success"))}
		}
		env = env2
		if !bytes.Equal(again, first) || dig2 != dig {
			distinct[string(again)] = true
			if where == "" {
				where = firstDiffPath(first, again)
				if where == "" {
					where = "digest"
				}
			}
		}
	}
	if where != "" {
		return []V{VL(VS("diff"), VI(0), VS("repeat:"+where+":"+itoa(len(distinct))))}
	}
	// the (single) result fed back: what `c04 fix` does, one round
	return fixpointEnv(env, 1)
}

func init() {
	commands["c04exts"] = c04exts
}
