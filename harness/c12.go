package main

// C12 - implementation side of the correspondence: rate lookups of the linked repository.
//
//   c12 lookup  <mode> <CC> <cat> <rate key> ( y m d ) ( tags ) ( ( k v ) ... )
//        tax.RegimeDefFor(CC).CategoryDef(cat).RateDef(key).Value(date, tags, ext)
//   c12 value   <mode> ( table ) ( y m d ) ( tags ) ( ext )
//        (&tax.RateDef{Values: table}).Value(...), table rows ( since pct sur ( tags ) ( ext ) )
//   c12 prepare <mode> <CC> <cat> <rate key> ( y m d ) ( tags ) ( ext )
//        tax.TotalCalculator{Country, Tags, Date, Lines: [one line with one combo]}.Calculate, then the combo
//   c12 invoice <mode> <kind> <CC> <cat> <rate key> ( y m d ) ( tags ) ( ext )
//        JSON text -> bill.Invoice -> Calculate -> JSON -> lines[0].taxes[0]; kind 0: issue_date = date,
//        kind 1: value_date = date and issue_date = 2000-02-02; kinds 2/3 bill.Order, 4/5 bill.Delivery;
//        optional further arguments: ( decoy rows ) and ( y m d ) = the date every OTHER date field of the
//        document is set to (result then ends with the top-level fields set and the number of dates set)
//   c12 foreign <mode> <kind> <CC> <cat> <rate key> ( y m d ) ( tags ) ( ext ) <HOST> <via> <where>
//        the same combo resolved in ANOTHER country's regime: a document of regime HOST (supplier in HOST) whose
//        combo belongs to CC, via 1: `country` = CC on the combo, via 2: the customer-rates tag and a customer
//        whose tax_id country is CC; where 0: the combo is on the line, 1: on a document discount (the line has
//        no taxes), 2: on a document charge. Result as for `invoice`, read from that place.
//   c12 prepare ... <HOST>  (optional ninth argument) the combo has Country = CC, the calculator Country = HOST
//   c12 date ( y m d ) ( y m d )      -> ( valid_a valid_b a.Before(b) )
//   c12 checkorder ( table )          -> RateDef.ValidateWithContext order verdict
// <mode> selects the model variant on the oracle side (1 = after the repair, 0 = as shipped); ignored here.
// `vharness c12dump` prints the registered regimes as the JSON the repository's generator would write.

import (
	"context"
	"encoding/json"
	"errors"
	"fmt"
	"os"
	"reflect"
	"sort"
	"strings"
	"time"

	"github.com/invopop/gobl/bill"
	"github.com/invopop/gobl/cal"
	"github.com/invopop/gobl/cbc"
	"github.com/invopop/gobl/currency"
	"github.com/invopop/gobl/i18n"
	"github.com/invopop/gobl/l10n"
	"github.com/invopop/gobl/num"
	"github.com/invopop/gobl/schema"
	"github.com/invopop/gobl/tax"
)

func c12Date(v V) cal.Date {
	return cal.MakeDate(int(v.L[0].Int()), time.Month(v.L[1].Int()), int(v.L[2].Int()))
}
func c12Tags(v V) []cbc.Key {
	var out []cbc.Key
	for _, t := range v.L {
		out = append(out, cbc.Key(t.Str()))
	}
	return out
}
func c12Ext(v V) tax.Extensions {
	if len(v.L) == 0 {
		return nil
	}
	out := tax.Extensions{}
	for _, p := range v.L {
		out[cbc.Key(p.L[0].Str())] = cbc.Code(p.L[1].Str())
	}
	return out
}
func c12PctV(p num.Percentage) V { return VL(VI(p.Value()), VI(int64(p.Exp()))) }
func c12OptPct(p *num.Percentage) V {
	if p == nil {
		return VL()
	}
	return c12PctV(*p)
}
func c12ExtV(e tax.Extensions) V {
	ks := make([]string, 0, len(e))
	for k := range e {
		ks = append(ks, string(k))
	}
	sort.Strings(ks)
	out := []V{}
	for _, k := range ks {
		out = append(out, VL(VS(k), VS(string(e[cbc.Key(k)]))))
	}
	return VL(out...)
}

func c12Found(rd *tax.RateDef, rv *tax.RateValueDef) []V {
	if rv == nil {
		return []V{VL(VI(0))}
	}
	idx := int64(-1)
	for i, x := range rd.Values {
		if x == rv {
			idx = int64(i)
		}
	}
	return []V{VL(VI(1), VI(idx), c12PctV(rv.Percent), c12OptPct(rv.Surcharge))}
}

func c12Table(v V) []*tax.RateValueDef {
	var out []*tax.RateValueDef
	for _, row := range v.L {
		rv := &tax.RateValueDef{}
		if len(row.L[0].L) == 3 {
			d := c12Date(row.L[0])
			rv.Since = &d
		}
		rv.Percent = num.MakePercentage(row.L[1].L[0].Int(), uint32(row.L[1].L[1].Int()))
		if len(row.L[2].L) == 2 {
			s := num.MakePercentage(row.L[2].L[0].Int(), uint32(row.L[2].L[1].Int()))
			rv.Surcharge = &s
		}
		rv.Tags = c12Tags(row.L[3])
		rv.Ext = c12Ext(row.L[4])
		out = append(out, rv)
	}
	return out
}

func c12ErrKind(err error) []V {
	switch {
	case errors.Is(err, tax.ErrInvalidDate):
		return []V{VErr("invalid-date")}
	case errors.Is(err, tax.ErrInvalidRate):
		return []V{VErr("invalid-rate")}
	case errors.Is(err, tax.ErrInvalidCategory):
		return []V{VErr("invalid-category")}
	}
	return []V{VErr("other")}
}

// c12Line is a tax.TaxableLine with one combo.
type c12Line struct {
	taxes tax.Set
	total num.Amount
}

func (l *c12Line) GetTaxes() tax.Set    { return l.taxes }
func (l *c12Line) GetTotal() num.Amount { return l.total }

var (
	c12SentinelPct = num.MakePercentage(12345, 4)
	c12SentinelSur = num.MakePercentage(678, 3)
)

func c12PctText(s string) (V, bool) {
	p, err := parsePct(s)
	if err != nil {
		return V{}, false
	}
	return VL(VI(p.V), VI(p.E)), true
}

func init() {
	register("c12", func(a []V) []V {
		switch a[0].Str() {
		case "lookup":
			r := tax.RegimeDefFor(l10n.Code(a[2].Str()))
			if r == nil {
				return []V{VErr("noregime")}
			}
			c := r.CategoryDef(cbc.Code(a[3].Str()))
			if c == nil {
				return []V{VErr("nocat")}
			}
			rd := c.RateDef(cbc.Key(a[4].Str()))
			if rd == nil {
				return []V{VErr("norate")}
			}
			return c12Found(rd, rd.Value(c12Date(a[5]), c12Tags(a[6]), c12Ext(a[7])))
		case "value":
			rd := &tax.RateDef{Key: "x", Values: c12Table(a[2])}
			return c12Found(rd, rd.Value(c12Date(a[3]), c12Tags(a[4]), c12Ext(a[5])))
		case "prepare":
			r := tax.RegimeDefFor(l10n.Code(a[2].Str()))
			if r == nil {
				return []V{VErr("noregime")}
			}
			p, s := c12SentinelPct, c12SentinelSur
			combo := &tax.Combo{Category: cbc.Code(a[3].Str()), Rate: cbc.Key(a[4].Str()), Percent: &p, Surcharge: &s, Ext: c12Ext(a[7])}
			if len(a) > 8 {
				// foreign: the combo names its own country, the calculation is the host country's
				combo.Country = r.Country
				if r = tax.RegimeDefFor(l10n.Code(a[8].Str())); r == nil {
					return []V{VErr("noregime")}
				}
			}
			tc := &tax.TotalCalculator{
				Currency: r.Currency,
				Rounding: r.GetRoundingRule(),
				Country:  r.Country,
				Tags:     c12Tags(a[6]),
				Date:     c12Date(a[5]),
				Lines:    []tax.TaxableLine{&c12Line{taxes: tax.Set{combo}, total: num.MakeAmount(10000, 2)}},
			}
			t := new(tax.Total)
			if err := tc.Calculate(t); err != nil {
				return c12ErrKind(err)
			}
			retained := false
			if len(t.Categories) == 1 {
				retained = t.Categories[0].Retained
			}
			out := []V{VL(VS("ok"), VB(retained), c12OptPct(combo.Percent), c12OptPct(combo.Surcharge), c12ExtV(combo.Ext))}
			// history: the caller goes on to edit ITS combo (as decoding JSON into an existing document does).
			// The values a combo received must be copies: if they still point into the regime's table, every
			// later lookup in this process (the following cases) sees the edit and differs from the model.
			if combo.Percent != nil {
				*combo.Percent = num.MakePercentage(777, 3)
			}
			if combo.Surcharge != nil {
				*combo.Surcharge = num.MakePercentage(77, 3)
			}
			if combo.Ext != nil {
				combo.Ext["zz-history"] = "x"
			}
			_ = json.Unmarshal([]byte(`{"percent":"66.6%","surcharge":"6.6%","ext":{"zz-history2":"y"}}`), combo)
			return out
		case "invoice", "foreign":
			return c12Invoice(a)
		case "date":
			x, y := c12Date(a[1]), c12Date(a[2])
			return []V{VL(VB(x.Date.IsValid()), VB(y.Date.IsValid()), VB(x.Date.Before(y.Date)))}
		case "checkorder":
			rd := &tax.RateDef{Key: "x", Name: i18n.String{"en": "x"}, Values: c12Table(a[1])}
			err := rd.ValidateWithContext(context.Background())
			if err == nil {
				return []V{VL(VS("ok"))}
			}
			if strings.Contains(err.Error(), "invalid date order") {
				return []V{VErr("order")}
			}
			return []V{VErr("other")}
		}
		return []V{VErr("unknown-c12-op")}
	})

	// c12dump: the registered regime definitions, marshalled exactly as regimes/generate.go does
	// (schema.NewObject + json.MarshalIndent), as one JSON object { "<file name>": <definition>, ... }.
	commands["c12dump"] = func(args []string) int {
		out := map[string]json.RawMessage{}
		for _, r := range tax.AllRegimeDefs() {
			doc, err := schema.NewObject(r)
			if err != nil {
				fmt.Fprintln(os.Stderr, err)
				return 1
			}
			data, err := json.MarshalIndent(doc, "", "  ")
			if err != nil {
				fmt.Fprintln(os.Stderr, err)
				return 1
			}
			n := string(r.Country)
			if r.Zone != "" {
				n = n + "_" + string(r.Zone)
			}
			out[strings.ToLower(n)] = data
		}
		b, err := json.Marshal(out)
		if err != nil {
			fmt.Fprintln(os.Stderr, err)
			return 1
		}
		os.Stdout.Write(b)
		return 0
	}
}

func c12Invoice(a []V) []V {
	kind := a[2].Int()
	cc := a[3].Str()
	r := tax.RegimeDefFor(l10n.Code(cc))
	if r == nil {
		return []V{VErr("noregime")}
	}
	// foreign: the document belongs to regime `host`, the observed combo to cc
	via, where := 0, 0
	if a[0].Str() == "foreign" {
		if len(a) < 12 {
			return []V{VErr("args")}
		}
		hr := tax.RegimeDefFor(l10n.Code(a[9].Str()))
		if hr == nil {
			return []V{VErr("noregime")}
		}
		r = hr
		via, where = int(a[10].Int()), int(a[11].Int())
		a = a[:9]
	}
	d := c12Date(a[6])
	comboJ := map[string]any{"cat": a[4].Str(), "rate": a[5].Str(), "percent": c12SentinelPct.String(), "surcharge": c12SentinelSur.String()}
	if via == 1 {
		comboJ["country"] = cc
	}
	if ext := c12Ext(a[8]); len(ext) > 0 {
		comboJ["ext"] = ext
	}
	mkLine := func(combo map[string]any) any {
		return map[string]any{
			"quantity": "1",
			"item":     map[string]any{"name": "Item", "price": "100.00"},
			"taxes":    []any{combo},
		}
	}
	// decoy rows (optional tenth argument: a list of extension lists): further lines, before and after the
	// observed one, and a discount and a charge, with the same category and rate key in other contexts. What
	// the observed line receives must not depend on them.
	lines := []any{}
	var discounts, charges []any
	observedAt := 0
	if len(a) > 9 {
		for i, dv := range a[9].L {
			dc := map[string]any{"cat": a[4].Str(), "rate": a[5].Str(), "percent": c12SentinelPct.String(), "surcharge": c12SentinelSur.String()}
			if ext := c12Ext(dv); len(ext) > 0 {
				dc["ext"] = ext
			}
			lines = append(lines, mkLine(dc))
			if i == 0 {
				discounts = append(discounts, map[string]any{"amount": "1.00", "reason": "decoy", "taxes": []any{dc}})
				charges = append(charges, map[string]any{"amount": "1.00", "reason": "decoy", "taxes": []any{dc}})
			}
		}
		observedAt = len(lines)
	}
	if where == 0 {
		lines = append(lines, mkLine(comboJ))
	} else {
		// the only combo of the document sits on a document-level discount / charge
		lines = append(lines, map[string]any{"quantity": "1", "item": map[string]any{"name": "Item", "price": "100.00"}})
		row := []any{map[string]any{"amount": "1.00", "reason": "observed", "taxes": []any{comboJ}}}
		if where == 1 {
			discounts = row
		} else {
			charges = row
		}
	}
	if len(a) > 9 && len(a[9].L) > 0 {
		dc := map[string]any{"cat": a[4].Str(), "rate": a[5].Str(), "percent": c12SentinelPct.String(), "surcharge": c12SentinelSur.String()}
		if ext := c12Ext(a[9].L[0]); len(ext) > 0 {
			dc["ext"] = ext
		}
		lines = append(lines, mkLine(dc))
	}
	doc := map[string]any{
		"$regime":  string(r.Country),
		"currency": string(r.Currency),
		"supplier": map[string]any{"name": "Supplier", "tax_id": map[string]any{"country": string(r.Country)}},
		"customer": map[string]any{"name": "Customer"},
		"lines":    lines,
	}
	if len(discounts) > 0 {
		doc["discounts"] = discounts
	}
	if len(charges) > 0 {
		doc["charges"] = charges
	}
	tags := c12Tags(a[7])
	if via == 2 {
		tags = append(tags, tax.TagCustomerRates)
		doc["customer"] = map[string]any{"name": "Customer", "tax_id": map[string]any{"country": cc}}
	}
	if len(tags) > 0 {
		doc["$tags"] = tags
	}
	// kind: 0/1 invoice, 2/3 order, 4/5 delivery; even = dated by issue_date, odd = by value_date with an
	// issue date and an operation date elsewhere (the operation date must not be taken for the tax date)
	if kind%2 == 0 {
		doc["issue_date"] = d.String()
	} else {
		doc["issue_date"] = "2000-02-02"
		doc["op_date"] = "2001-03-03"
		doc["value_date"] = d.String()
	}
	text, err := json.Marshal(doc)
	if err != nil {
		return []V{VErr("marshal")}
	}
	var calc interface {
		Calculate() error
	}
	switch kind / 2 {
	case 1:
		calc = new(bill.Order)
	case 2:
		calc = new(bill.Delivery)
	default:
		calc = new(bill.Invoice)
	}
	if err := json.Unmarshal(text, calc); err != nil {
		return []V{VErr("unmarshal")}
	}
	// other dates (optional eleventh argument ( y m d )): EVERY further date-typed field the document type has
	// (operation, despatch, receive, delivery, period, due, advance, preceding/ordering reference dates ...,
	// found by walking the Go type, absent parts allocated) is set to that date. The tax date is the value
	// date or the issue date: what the observed line receives must not depend on any other date.
	var otherSet []string
	if len(a) > 10 && len(a[10].L) == 3 {
		c12FillDates(reflect.ValueOf(calc).Elem(), c12Date(a[10]), "", &otherSet, 0)
		// through the JSON text again, as a document arrives
		t2, err := json.Marshal(calc)
		if err != nil {
			return []V{VErr("marshal")}
		}
		calc = reflect.New(reflect.TypeOf(calc).Elem()).Interface().(interface{ Calculate() error })
		if err := json.Unmarshal(t2, calc); err != nil {
			return []V{VErr("unmarshal")}
		}
	}
	if err := calc.Calculate(); err != nil {
		return c12ErrKind(err)
	}
	outText, err := json.Marshal(calc)
	if err != nil {
		return []V{VErr("marshal")}
	}
	type c12Row struct {
		Taxes []struct {
			Rate      string            `json:"rate"`
			Percent   *string           `json:"percent"`
			Surcharge *string           `json:"surcharge"`
			Ext       map[string]string `json:"ext"`
		} `json:"taxes"`
	}
	var back struct {
		Lines     []c12Row `json:"lines"`
		Discounts []c12Row `json:"discounts"`
		Charges   []c12Row `json:"charges"`
	}
	if err := json.Unmarshal(outText, &back); err != nil || len(back.Lines) != len(lines) {
		return []V{VErr("readback")}
	}
	at := back.Lines[observedAt]
	switch where {
	case 1:
		if len(back.Discounts) != 1 {
			return []V{VErr("readback")}
		}
		at = back.Discounts[0]
	case 2:
		if len(back.Charges) != 1 {
			return []V{VErr("readback")}
		}
		at = back.Charges[0]
	}
	if len(at.Taxes) != 1 {
		return []V{VErr("readback")}
	}
	tx := at.Taxes[0]
	pv, sv := VL(), VL()
	if tx.Percent != nil {
		x, ok := c12PctText(*tx.Percent)
		if !ok {
			return []V{VErr("readback")}
		}
		pv = x
	}
	if tx.Surcharge != nil {
		x, ok := c12PctText(*tx.Surcharge)
		if !ok {
			return []V{VErr("readback")}
		}
		sv = x
	}
	ext := tax.Extensions{}
	for k, v := range tx.Ext {
		ext[cbc.Key(k)] = cbc.Code(v)
	}
	res := []V{VS("ok"), pv, sv, c12ExtV(ext), VS(tx.Rate)}
	if otherSet != nil {
		// the distinct top-level fields under which a date was set, and how many dates in all
		ps, seen := []V{}, map[string]bool{}
		for _, p := range otherSet {
			if i := strings.IndexAny(p, ".["); i >= 0 {
				p = p[:i]
			}
			if !seen[p] {
				seen[p] = true
				ps = append(ps, VS(p))
			}
		}
		res = append(res, VL(ps...), VI(int64(len(otherSet))))
	}
	return []V{VL(res...)}
}

var (
	c12DateT     = reflect.TypeOf(cal.Date{})
	c12DateTimeT = reflect.TypeOf(cal.DateTime{})
)

// c12HasDates: does a value of type t (transitively, through pointers, slices and struct fields) hold a date?
func c12HasDates(t reflect.Type, seen map[reflect.Type]bool) bool {
	switch t.Kind() {
	case reflect.Ptr, reflect.Slice:
		return c12HasDates(t.Elem(), seen)
	case reflect.Struct:
		if t == c12DateT || t == c12DateTimeT {
			return true
		}
		if seen[t] {
			return false
		}
		seen[t] = true
		defer delete(seen, t)
		for i := 0; i < t.NumField(); i++ {
			if t.Field(i).IsExported() && c12HasDates(t.Field(i).Type, seen) {
				return true
			}
		}
	}
	return false
}

// c12FillDates sets every date below v to d, except the top-level issue_date and value_date; nil pointers to
// parts that hold dates are allocated, empty slices of such parts get one element. Paths set are appended to set.
func c12FillDates(v reflect.Value, d cal.Date, path string, set *[]string, depth int) {
	if depth > 6 {
		return
	}
	t := v.Type()
	switch t.Kind() {
	case reflect.Ptr:
		if !c12HasDates(t.Elem(), map[reflect.Type]bool{}) {
			return
		}
		if v.IsNil() {
			if !v.CanSet() {
				return
			}
			v.Set(reflect.New(t.Elem()))
		}
		c12FillDates(v.Elem(), d, path, set, depth)
	case reflect.Slice:
		if !c12HasDates(t.Elem(), map[reflect.Type]bool{}) {
			return
		}
		if v.Len() == 0 && v.CanSet() {
			v.Set(reflect.Append(v, reflect.Zero(t.Elem())))
		}
		for i := 0; i < v.Len(); i++ {
			c12FillDates(v.Index(i), d, fmt.Sprintf("%s[%d]", path, i), set, depth+1)
		}
	case reflect.Struct:
		if t == c12DateT {
			if v.CanSet() {
				v.Set(reflect.ValueOf(d))
				*set = append(*set, path)
			}
			return
		}
		if t == c12DateTimeT {
			if v.CanSet() {
				v.Set(reflect.ValueOf(cal.MakeDateTime(d.Year, d.Month, d.Day, 12, 0, 0)))
				*set = append(*set, path)
			}
			return
		}
		for i := 0; i < t.NumField(); i++ {
			f := t.Field(i)
			if !f.IsExported() {
				continue
			}
			name := strings.Split(f.Tag.Get("json"), ",")[0]
			if name == "-" {
				continue
			}
			if path == "" && (name == "issue_date" || name == "value_date") {
				continue
			}
			sub := name
			if path != "" && name != "" {
				sub = path + "." + name
			} else if name == "" {
				sub = path
			}
			c12FillDates(v.Field(i), d, sub, set, depth+1)
		}
	}
}

var _ = currency.CodeEmpty
