package main

// C11: runs a document (JSON text of an envelope or of a bare document) through the public entry
// points gobl.Parse -> Envelop / Calculate -> Validate -> json.Marshal and reports whether the
// library accepted it, with the serialised envelope it produced.
//   c11 run x<json>   -> ok x<envelope json>  |  ( err parse|calc|validate|marshal )
//   c11 runapi x<json> -> same results, for the document as a Go PROGRAM assembles it: members decoded one by one, without
//                        the side effect of the type's UnmarshalJSON hook (bill.Invoice derives $regime there), then
//                        gobl.Envelop -> Validate -> json.Marshal. Meant for documents written without $regime.
//   c11 types         -> ( x<schema id> ... )   every registered schema id
//   c11 regimes       -> ( ( x<code> x<alternative code> ... ) ... )   every registered regime with its alternative country codes
//   c11 rematch x<pattern> x<text> -> 1 / 0   Go regexp (RE2) on a pattern text
//   c11 leaf code|key x<text>      -> 1 / 0   the value type's own Validate()

import (
	"encoding/json"
	"reflect"
	"regexp"
	"sort"

	"github.com/invopop/gobl"
	"github.com/invopop/gobl/cbc"
	"github.com/invopop/gobl/schema"
	"github.com/invopop/gobl/tax"
)

func init() {
	register("c11", func(a []V) []V {
		switch a[0].Str() {
		case "run":
			obj, err := gobl.Parse(a[1].S)
			if err != nil {
				return []V{VErr("parse")}
			}
			var env *gobl.Envelope
			if e, ok := obj.(*gobl.Envelope); ok {
				env = e
				if err := env.Calculate(); err != nil {
					return []V{VErr("calc")}
				}
			} else {
				env, err = gobl.Envelop(obj)
				if err != nil {
					return []V{VErr("calc")}
				}
			}
			if err := env.Validate(); err != nil {
				return []V{VErr("validate")}
			}
			out, err := json.Marshal(env)
			if err != nil {
				return []V{VErr("marshal")}
			}
			return []V{VS("ok"), VBytes(out)}
		case "runapi":
			obj, err := gobl.Parse(a[1].S)
			if err != nil {
				return []V{VErr("parse")}
			}
			var inst interface{}
			switch o := obj.(type) {
			case *gobl.Envelope:
				if o.Document == nil {
					return []V{VErr("parse")}
				}
				inst = o.Document.Instance()
			case *schema.Object:
				inst = o.Instance()
			default:
				inst = obj
			}
			if rv := reflect.ValueOf(inst); rv.Kind() == reflect.Ptr && !rv.IsNil() && rv.Elem().Kind() == reflect.Struct {
				if f := rv.Elem().FieldByName("Regime"); f.IsValid() && f.CanSet() && f.Type() == reflect.TypeOf(tax.Regime{}) {
					f.Set(reflect.Zero(f.Type()))
				}
			}
			env, err := gobl.Envelop(inst)
			if err != nil {
				return []V{VErr("calc")}
			}
			if err := env.Validate(); err != nil {
				return []V{VErr("validate")}
			}
			out, err := json.Marshal(env)
			if err != nil {
				return []V{VErr("marshal")}
			}
			return []V{VS("ok"), VBytes(out)}
		case "regimes":
			out := []V{}
			for _, rd := range tax.AllRegimeDefs() {
				row := []V{VS(rd.Country.String())}
				for _, cc := range rd.AltCountryCodes {
					row = append(row, VS(cc.String()))
				}
				out = append(out, V{Kind: 'l', L: row})
			}
			return []V{V{Kind: 'l', L: out}}
		case "leaf":
			// the type's own rule: cbc.Code(v).Validate() / cbc.Key(v).Validate()
			switch a[1].Str() {
			case "code":
				return []V{VB(cbc.Code(a[2].Str()).Validate() == nil)}
			case "key":
				return []V{VB(cbc.Key(a[2].Str()).Validate() == nil)}
			}
			return []V{VErr("unknown-leaf")}
		case "rematch":
			// Go's regexp on the same pattern text (the engine the library's own validation uses)
			re, err := regexp.Compile(a[1].Str())
			if err != nil {
				return []V{VErr("bad-pattern")}
			}
			return []V{VB(re.Match(a[2].S))}
		case "types":
			ids := []string{}
			for _, id := range schema.Types() {
				ids = append(ids, id.String())
			}
			sort.Strings(ids)
			out := make([]V, len(ids))
			for i, s := range ids {
				out[i] = VS(s)
			}
			return []V{V{Kind: 'l', L: out}}
		}
		return []V{VErr("unknown-c11-op")}
	})
}
