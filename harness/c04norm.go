package main

// C04, non-numeric half: the implementation side of the correspondence streams for the code
// normalisers, strings.TrimSpace as org.Address.Normalize uses it, the scenario-note mechanism of
// bill.Invoice.Calculate, encoding/json's rendering of string-keyed maps (cbc.Meta) and the cal.Date
// text codec.  Sub-operations of the wire op "c04" (see c04.go); the model side is rocq/Run/RunC04.v.

import (
	"encoding/json"
	"sort"
	"sync"
	"time"

	"github.com/invopop/gobl/bill"
	"github.com/invopop/gobl/cal"
	"github.com/invopop/gobl/cbc"
	"github.com/invopop/gobl/i18n"
	"github.com/invopop/gobl/org"
	"github.com/invopop/gobl/tax"
)

const c04AddonKey cbc.Key = "c04-notes-v1"

var (
	c04AddonOnce sync.Once
	c04Addon     *tax.AddonDef
)

// the synthetic add-on whose scenario list each `notes` case replaces (registered on first use only, so
// that no other check ever sees it)
func c04EnsureAddon() {
	c04AddonOnce.Do(func() {
		c04Addon = &tax.AddonDef{
			Key:  c04AddonKey,
			Name: i18n.NewString("C04 scenario notes"),
			Scenarios: []*tax.ScenarioSet{
				{Schema: bill.ShortSchemaInvoice, List: []*tax.Scenario{}},
			},
		}
		tax.RegisterAddonDef(c04Addon)
	})
}

const c04NotesInvoice = `{"$schema":"https://gobl.org/draft-0/bill/invoice","$addons":["c04-notes-v1"],
"uuid":"3aea7b56-59d8-4beb-90bd-f8f280d852a0","type":"standard","currency":"EUR","issue_date":"2023-01-30","series":"A","code":"1",
"supplier":{"name":"S","tax_id":{"country":"PT","code":"545259045"}},"customer":{"name":"C"},
"lines":[{"quantity":"1","item":{"name":"x","price":"100.00"}}]}`

func c04TagMap(tag []byte) map[cbc.Key]string {
	if len(tag) == 0 {
		return nil
	}
	return map[cbc.Key]string{"t": string(tag)}
}

func c04Ext(tag []byte) tax.Extensions {
	if len(tag) == 0 {
		return nil
	}
	return tax.Extensions{"t": cbc.Code(tag)}
}

func c04EncodeNotes(ns []*org.Note) V {
	out := []V{}
	for _, n := range ns {
		if n == nil {
			out = append(out, VL(VI(0)))
			continue
		}
		meta, ext := "", ""
		if len(n.Meta) > 0 {
			meta = n.Meta["t"]
		}
		if len(n.Ext) > 0 {
			ext = string(n.Ext["t"])
		}
		out = append(out, VL(VI(1), VS(string(n.Key)), VS(string(n.Code)), VS(string(n.Src)), VS(n.Text), VS(meta), VS(ext)))
	}
	return VL(out...)
}

// notes ( ( match x<extcode> hasnote x<key> x<code> x<src> x<text> x<ext> ) ... ) ( ( 1 key code src text meta ext ) | ( 0 ) ... )
// -> ( ok <notes after the first Calculate> <notes after serialising, parsing and calculating again> )
func c04Notes(a []V) []V {
	c04EnsureAddon()
	list := []*tax.Scenario{}
	for _, s := range a[0].L {
		f := s.L
		match := f[0].Int() != 0
		sc := &tax.Scenario{
			ExtCode: cbc.Code(f[1].S),
			Filter:  func(any) bool { return match },
		}
		if f[2].Int() != 0 {
			sc.Note = &tax.ScenarioNote{Key: cbc.Key(f[3].S), Code: cbc.Code(f[4].S), Src: cbc.Key(f[5].S), Text: string(f[6].S), Ext: c04Ext(f[7].S)}
		}
		list = append(list, sc)
	}
	c04Addon.Scenarios[0].List = list
	inv := new(bill.Invoice)
	if err := json.Unmarshal([]byte(c04NotesInvoice), inv); err != nil {
		return []V{VErr("parse")}
	}
	for _, n := range a[1].L {
		f := n.L
		if f[0].Int() == 0 {
			inv.Notes = append(inv.Notes, nil)
			continue
		}
		inv.Notes = append(inv.Notes, &org.Note{Key: cbc.Key(f[1].S), Code: cbc.Code(f[2].S), Src: cbc.Key(f[3].S), Text: string(f[4].S),
			Meta: cbc.Meta(c04TagMap(f[5].S)), Ext: c04Ext(f[6].S)})
	}
	if err := inv.Calculate(); err != nil {
		return []V{VErr("calc")}
	}
	first := c04EncodeNotes(inv.Notes)
	if err := inv.Calculate(); err != nil {
		return []V{VErr("calc2")}
	}
	return []V{VL(VS("ok"), first, c04EncodeNotes(inv.Notes))}
}

// marshal_map ( ( x<k> x<v> ) ... ): a cbc.Meta filled in the given order (later duplicates overwrite) -> x<json>
func c04MarshalMap(a []V) []V {
	m := cbc.Meta{}
	for _, kv := range a[0].L {
		m[cbc.Key(kv.L[0].S)] = string(kv.L[1].S)
	}
	out, err := json.Marshal(m)
	if err != nil {
		return []V{VErr("marshal")}
	}
	return []V{VBytes(out)}
}

// parse_map x<json> -> ( ok ( x<k> x<v> ) ... ) sorted by key | ( err parse )
func c04ParseMap(a []V) []V {
	var m cbc.Meta
	if err := json.Unmarshal(a[0].S, &m); err != nil {
		return []V{VErr("parse")}
	}
	if m == nil {
		return []V{VErr("null")}
	}
	ks := []string{}
	for k := range m {
		ks = append(ks, string(k))
	}
	sort.Strings(ks)
	out := []V{VS("ok")}
	for _, k := range ks {
		out = append(out, VL(VS(k), VS(m[cbc.Key(k)])))
	}
	return []V{VL(out...)}
}

func c04normOp(a []V) []V {
	switch a[0].Str() {
	case "norm_code":
		return []V{VS(string(cbc.NormalizeCode(cbc.Code(a[1].S))))}
	case "norm_alnum":
		return []V{VS(string(cbc.NormalizeAlphanumericalCode(cbc.Code(a[1].S))))}
	case "norm_num":
		return []V{VS(string(cbc.NormalizeNumericalCode(cbc.Code(a[1].S))))}
	case "code_valid":
		c := cbc.Code(a[1].S)
		return []V{VB(c != "" && c.Validate() == nil)}
	case "key_valid":
		k := cbc.Key(a[1].S)
		return []V{VB(k != "" && k.Validate() == nil)}
	case "addr_trim":
		// org.Address.Normalize on the free-text fields (strings.TrimSpace), the state and the post code
		ad := &org.Address{Street: string(a[1].S), Locality: string(a[1].S), State: cbc.Code(a[1].S), Code: cbc.Code(a[1].S)}
		ad.Normalize(nil)
		if ad.Street != ad.Locality {
			return []V{VErr("fields-differ")}
		}
		return []V{VL(VS(ad.Street), VS(string(ad.State)), VS(string(ad.Code)))}
	case "notes":
		return c04Notes(a[1:])
	case "marshal_map":
		return c04MarshalMap(a[1:])
	case "parse_map":
		return c04ParseMap(a[1:])
	case "date_parse":
		// the JSON string x<text> (already quoted by the caller) into a cal.Date
		var d cal.Date
		q, _ := json.Marshal(string(a[1].S))
		if err := json.Unmarshal(q, &d); err != nil {
			return []V{VErr("parse")}
		}
		return []V{VL(VS("ok"), VI(int64(d.Year)), VI(int64(d.Month)), VI(int64(d.Day)))}
	case "date_print":
		d := cal.MakeDate(int(a[1].Int()), time.Month(a[2].Int()), int(a[3].Int()))
		out, err := json.Marshal(d)
		if err != nil {
			return []V{VErr("marshal")}
		}
		var s string
		if err := json.Unmarshal(out, &s); err != nil {
			return []V{VErr("not-a-string")}
		}
		return []V{VS(s)}
	}
	return []V{VErr("unknown-c04-op")}
}
