package main

// property C06: the text codec of num.Amount / num.Percentage, through every entry point.
//   c06 print ( v e )        Amount.String, MarshalText, json.Marshal of a struct field, MinimalString
//   c06 parse x<str>         AmountFromString, UnmarshalText
//   c06 parse_json x<raw>    UnmarshalJSON on the raw token
//   c06 parse_field x<raw>   json.Unmarshal of {"a":<raw>} into struct{A num.Amount `json:"a"`}
//   c06 pct_print ( v e )    Percentage.String, MarshalText, struct field
//   c06 pct_parse x<str>     PercentageFromString, UnmarshalText
//   c06 pct_parse_json / pct_parse_field
//   c06 all x<str> [x<json>] every text entry point at once (see the case below)
//   c06 all_a / all_p x<str> [x<json>]  the amount / percentage readers only
//   c06 matches x<str> / pct_matches x<str>   regexp match of the pattern JSONSchema() declares
// results: ( ok ( v e ) ), ( null ) when the receiver was left untouched, ( err ) (kind only),
// ( err entry-points-differ ... ) when two entry points that must agree do not.

import (
	"encoding/json"
	"fmt"
	"regexp"

	"github.com/invopop/gobl/num"
)

var (
	c06Sentinel    = num.MakeAmount(-7777777, 4000000007) // no text reads as this
	c06PctSentinel = num.MakePercentage(-7777777, 4000000007)
	c06AmountRe    = regexp.MustCompile(num.Amount{}.JSONSchema().Pattern)
	c06PctRe       = regexp.MustCompile(num.Percentage{}.JSONSchema().Pattern)
)

func c06Ok(v int64, e uint32) V { return VL(VS("ok"), VL(VI(v), VI(int64(e)))) }
func c06Err() V                  { return VL(VS("err")) }
func c06Null() V                 { return VL(VS("null")) }
func c06Differ(what string, vs ...V) []V {
	return []V{VL(append([]V{VS("err"), VS("entry-points-differ"), VS(what)}, vs...)...)}
}

func c06Read(a num.Amount, err error) V {
	if err != nil {
		return c06Err()
	}
	if a == c06Sentinel {
		return c06Null()
	}
	return c06Ok(a.Value(), a.Exp())
}
func c06ReadPct(p num.Percentage, err error) V {
	if err != nil {
		return c06Err()
	}
	if p == c06PctSentinel {
		return c06Null()
	}
	return c06Ok(p.Value(), p.Exp())
}

func c06Same(a, b V) bool { return printVs([]V{a}) == printVs([]V{b}) }

// c06Str runs f and maps a panic to ( err panic )
func c06Str(f func() string) (out V) {
	defer func() {
		if r := recover(); r != nil {
			out = VL(VS("err"), VS("panic"))
		}
	}()
	return VL(VS("ok"), VBytes([]byte(f())))
}

func init() {
	register("c06", func(a []V) []V {
		op := a[0].Str()
		switch op {
		case "print":
			x := amt(a[1])
			s := c06Str(x.String)
			m := c06Str(func() string { b, err := x.MarshalText(); _ = err; return string(b) })
			j := c06Str(func() string {
				b, err := json.Marshal(struct {
					A num.Amount `json:"a"`
				}{x})
				if err != nil {
					panic(err)
				}
				return string(b)
			})
			if !c06Same(s, m) {
				return c06Differ("String/MarshalText", s, m)
			}
			if s.L[0].Str() == "ok" {
				want := fmt.Sprintf(`{"a":"%s"}`, s.L[1].S)
				if j.L[0].Str() != "ok" || string(j.L[1].S) != want {
					return c06Differ("String/json.Marshal", s, j)
				}
			}
			return []V{s, c06Str(x.MinimalString)}
		case "pct_print":
			x := pct(a[1])
			s := c06Str(x.String)
			m := c06Str(func() string { b, err := x.MarshalText(); _ = err; return string(b) })
			j := c06Str(func() string {
				b, err := json.Marshal(struct {
					A num.Percentage `json:"a"`
				}{x})
				if err != nil {
					panic(err)
				}
				return string(b)
			})
			if !c06Same(s, m) {
				return c06Differ("String/MarshalText", s, m)
			}
			if s.L[0].Str() == "ok" {
				want := fmt.Sprintf(`{"a":"%s"}`, s.L[1].S)
				if j.L[0].Str() != "ok" || string(j.L[1].S) != want {
					return c06Differ("String/json.Marshal", s, j)
				}
			}
			return []V{s}
		case "parse":
			s := string(a[1].S)
			r1 := c06Read(num.AmountFromString(s))
			x := c06Sentinel
			err := x.UnmarshalText([]byte(s))
			r2 := c06Read(x, err)
			if !c06Same(r1, r2) && s != "null" {
				return c06Differ("AmountFromString/UnmarshalText", r1, r2)
			}
			return []V{r2}
		case "pct_parse":
			s := string(a[1].S)
			r1 := c06ReadPct(num.PercentageFromString(s))
			x := c06PctSentinel
			err := x.UnmarshalText([]byte(s))
			r2 := c06ReadPct(x, err)
			if !c06Same(r1, r2) && s != "null" {
				return c06Differ("PercentageFromString/UnmarshalText", r1, r2)
			}
			return []V{r2}
		case "parse_json":
			x := c06Sentinel
			err := x.UnmarshalJSON(a[1].S)
			return []V{c06Read(x, err)}
		case "pct_parse_json":
			x := c06PctSentinel
			err := x.UnmarshalJSON(a[1].S)
			return []V{c06ReadPct(x, err)}
		case "parse_field":
			st := struct {
				A num.Amount `json:"a"`
			}{c06Sentinel}
			err := json.Unmarshal([]byte(`{"a":`+string(a[1].S)+`}`), &st)
			return []V{c06Read(st.A, err)}
		case "pct_parse_field":
			st := struct {
				A num.Percentage `json:"a"`
			}{c06PctSentinel}
			err := json.Unmarshal([]byte(`{"a":`+string(a[1].S)+`}`), &st)
			return []V{c06ReadPct(st.A, err)}
		case "all":
			// every text entry point on one string: a[1] the string, a[2] (optional, non-empty) a
			// JSON encoding of it for the struct-field route
			s := a[1].S
			q := append(append([]byte{'"'}, s...), '"')
			x := c06Sentinel
			r1 := c06Read(x, x.UnmarshalText(s))
			if r0 := c06Read(num.AmountFromString(string(s))); !c06Same(r0, r1) && string(s) != "null" {
				return c06Differ("AmountFromString/UnmarshalText", r0, r1)
			}
			y := c06Sentinel
			r2 := c06Read(y, y.UnmarshalJSON(s))
			z := c06Sentinel
			r3 := c06Read(z, z.UnmarshalJSON(q))
			px := c06PctSentinel
			r4 := c06ReadPct(px, px.UnmarshalText(s))
			if r0 := c06ReadPct(num.PercentageFromString(string(s))); !c06Same(r0, r4) && string(s) != "null" {
				return c06Differ("PercentageFromString/UnmarshalText", r0, r4)
			}
			py := c06PctSentinel
			r5 := c06ReadPct(py, py.UnmarshalJSON(s))
			pz := c06PctSentinel
			r6 := c06ReadPct(pz, pz.UnmarshalJSON(q))
			f := []V{VS("f")}
			if len(a) > 2 && a[2].Kind == 's' && len(a[2].S) > 0 {
				st := struct {
					A num.Amount     `json:"a"`
					P num.Percentage `json:"p"`
				}{c06Sentinel, c06PctSentinel}
				err := json.Unmarshal([]byte(`{"a":`+string(a[2].S)+`}`), &st)
				f = append(f, c06Read(st.A, err))
				st.A, st.P = c06Sentinel, c06PctSentinel
				err = json.Unmarshal([]byte(`{"p":`+string(a[2].S)+`}`), &st)
				f = append(f, c06ReadPct(st.P, err))
			}
			return []V{r1, r2, r3, r4, r5, r6, VB(c06AmountRe.Match(s)), VB(c06PctRe.Match(s)), VL(f...)}
		case "all_a", "all_p":
			// the amount (all_a) or percentage (all_p) readers only: text, JSON bare, JSON quoted, ( f field )
			s := a[1].S
			q := append(append([]byte{'"'}, s...), '"')
			f := []V{VS("f")}
			if op == "all_a" {
				x, y, z := c06Sentinel, c06Sentinel, c06Sentinel
				r1 := c06Read(x, x.UnmarshalText(s))
				r2 := c06Read(y, y.UnmarshalJSON(s))
				r3 := c06Read(z, z.UnmarshalJSON(q))
				if len(a) > 2 && a[2].Kind == 's' && len(a[2].S) > 0 {
					st := struct {
						A num.Amount `json:"a"`
					}{c06Sentinel}
					err := json.Unmarshal([]byte(`{"a":`+string(a[2].S)+`}`), &st)
					f = append(f, c06Read(st.A, err))
				}
				return []V{r1, r2, r3, VL(f...)}
			}
			x, y, z := c06PctSentinel, c06PctSentinel, c06PctSentinel
			r1 := c06ReadPct(x, x.UnmarshalText(s))
			r2 := c06ReadPct(y, y.UnmarshalJSON(s))
			r3 := c06ReadPct(z, z.UnmarshalJSON(q))
			if len(a) > 2 && a[2].Kind == 's' && len(a[2].S) > 0 {
				st := struct {
					A num.Percentage `json:"a"`
				}{c06PctSentinel}
				err := json.Unmarshal([]byte(`{"a":`+string(a[2].S)+`}`), &st)
				f = append(f, c06ReadPct(st.A, err))
			}
			return []V{r1, r2, r3, VL(f...)}
		case "matches":
			return []V{VB(c06AmountRe.Match(a[1].S))}
		case "pct_matches":
			return []V{VB(c06PctRe.Match(a[1].S))}
		}
		return []V{VErr("unknown-c06-op")}
	})
}
