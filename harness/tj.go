package main

// typed-marshalling correspondence: json.Unmarshal into the Go type, json.Marshal back, both texts
// as trees (member order, duplicates and number texts preserved) for the model Marshal/Typed.v.
//   tj schema x<schema id> x<json text>  ->  <tree of the input> ( ok <tree of the output> ) <1 if the output reads back to itself> | <tree> ( bad )
//   tj type   x<type name> x<json text>  ->  same (named struct type as listed in Gen/GoTypes.v)
//   tj types                             ->  ( x<type name> ... )   ( x<schema id> ... )

import (
	"bytes"
	"encoding/json"
	"fmt"
	"reflect"
	"sort"
	"sync"

	"github.com/invopop/gobl/schema"
)

var (
	tjOnce  sync.Once
	tjTypes map[string]reflect.Type
)

func tjInit() {
	tjOnce.Do(func() {
		_, g := genGoTypesG()
		tjTypes = g.rtypes
	})
}

func tjTree(dec *json.Decoder) (V, error) {
	tok, err := dec.Token()
	if err != nil {
		return V{}, err
	}
	switch t := tok.(type) {
	case nil:
		return VL(), nil
	case bool:
		return VB(t), nil
	case json.Number:
		return VL(VS(string(t))), nil
	case string:
		return VS(t), nil
	case json.Delim:
		switch t {
		case '[':
			items := []V{}
			for dec.More() {
				x, err := tjTree(dec)
				if err != nil {
					return V{}, err
				}
				items = append(items, x)
			}
			if _, err := dec.Token(); err != nil {
				return V{}, err
			}
			return VL(VI(0), V{Kind: 'l', L: items}), nil
		case '{':
			members := []V{}
			for dec.More() {
				k, err := dec.Token()
				if err != nil {
					return V{}, err
				}
				ks, ok := k.(string)
				if !ok {
					return V{}, fmt.Errorf("key")
				}
				x, err := tjTree(dec)
				if err != nil {
					return V{}, err
				}
				members = append(members, VL(VS(ks), x))
			}
			if _, err := dec.Token(); err != nil {
				return V{}, err
			}
			return VL(VI(1), V{Kind: 'l', L: members}), nil
		}
	}
	return V{}, fmt.Errorf("token")
}

func tjParse(data []byte) (V, error) {
	dec := json.NewDecoder(bytes.NewReader(data))
	dec.UseNumber()
	v, err := tjTree(dec)
	if err != nil {
		return V{}, err
	}
	if dec.More() {
		return V{}, fmt.Errorf("trailing")
	}
	return v, nil
}

func init() {
	register("tj", func(args []V) []V {
		if len(args) == 1 && args[0].Str() == "types" {
			tjInit()
			var names, ids []string
			for n := range tjTypes {
				names = append(names, n)
			}
			for _, id := range schema.Types() {
				ids = append(ids, id.String())
			}
			sort.Strings(names)
			sort.Strings(ids)
			a, b := []V{}, []V{}
			for _, n := range names {
				a = append(a, VS(n))
			}
			for _, n := range ids {
				b = append(b, VS(n))
			}
			return []V{{Kind: 'l', L: a}, {Kind: 'l', L: b}}
		}
		if len(args) != 3 {
			return []V{VErr("badargs")}
		}
		data := args[2].S
		in, err := tjParse(data)
		if err != nil {
			return []V{VErr("notjson")}
		}
		var inst interface{}
		switch args[0].Str() {
		case "schema":
			inst = schema.ID(args[1].Str()).Interface()
		case "type":
			tjInit()
			if t, ok := tjTypes[args[1].Str()]; ok {
				inst = reflect.New(t).Interface()
			}
		}
		if inst == nil {
			return []V{in, VL(VS("bad"))}
		}
		if err := json.Unmarshal(data, inst); err != nil {
			return []V{in, VL(VS("bad"))}
		}
		out, err := json.Marshal(inst)
		if err != nil {
			return []V{in, VL(VS("bad"))}
		}
		ot, err := tjParse(out)
		if err != nil {
			return []V{in, VL(VS("bad"))}
		}
		// the property itself, on the implementation: what was written reads back and is written identically
		stable := false
		var inst2 interface{}
		if args[0].Str() == "schema" {
			inst2 = schema.ID(args[1].Str()).Interface()
		} else {
			inst2 = reflect.New(tjTypes[args[1].Str()]).Interface()
		}
		if err := json.Unmarshal(out, inst2); err == nil {
			if out2, err := json.Marshal(inst2); err == nil {
				stable = bytes.Equal(out, out2)
			}
		}
		return []V{in, VL(VS("ok"), ot), VB(stable)}
	})
}
