package main

// C10 (and the machine reused by C09): runs a history of envelope operations on the real library.
//
//   c10 <fx> <base> ( op op ... ) ->  ( ( x<outcome> nsigs nreal ) ... )   one entry per step
//
// <base> is the index of the base document inserted into gobl.NewEnvelope() before the history
// (-1 = nothing inserted: the history starts from the empty envelope).
// An op is an integer code or a list ( code arg... ); codes are listed in envOpNames below and
// in rocq/Env/Lifecycle.v / tools/props/envops.py.
// Outcomes: ok | <cbc key of the *gobl.Error> | other (error that is not a *gobl.Error) |
// unmarshal (JSON did not parse) | skip (harness-level operation not applicable) | panic.
// Never message text.

import (
	"bytes"
	"encoding/json"
	"errors"
	"fmt"
	"strings"

	"github.com/invopop/gobl"
	"github.com/invopop/gobl/bill"
	"github.com/invopop/gobl/cbc"
	"github.com/invopop/gobl/dsig"
	"github.com/invopop/gobl/head"
	"github.com/invopop/gobl/num"
	"github.com/invopop/gobl/uuid"
)

const envInv0 = `{
"$schema":"https://gobl.org/draft-0/bill/invoice",
"uuid":"3aea7b56-59d8-4beb-90bd-f8f280d852a0",
"currency":"EUR","issue_date":"2022-02-01","code":"SAMPLE-001",
"supplier":{"tax_id":{"country":"ES","code":"B98602642"},"name":"Provide One S.L."},
"customer":{"tax_id":{"country":"ES","code":"54387763P"},"name":"Sample Consumer"},
"lines":[{"quantity":"20","item":{"name":"Dev","price":"90.00"},"taxes":[{"cat":"VAT","rate":"standard"}]}]
}`

// base documents: 0 valid with code, 1 valid without code, 2 invalid (supplier name missing),
// 3 non-calculable (undefined tax rate; also invalid since it never gets totals)
var envBases = []string{
	envInv0,
	replaceOnce(envInv0, `"code":"SAMPLE-001",`, ``),
	replaceOnce(envInv0, `"name":"Provide One S.L."`, `"name":""`),
	replaceOnce(envInv0, `"rate":"standard"`, `"rate":"bogus"`),
	// 4 / 5: an order with and without its code; 6 / 7: a delivery with and without its code (the same life cycle rules)
	replaceOnce(envInv0, `bill/invoice`, `bill/order`),
	replaceOnce(replaceOnce(envInv0, `bill/invoice`, `bill/order`), `"code":"SAMPLE-001",`, ``),
	replaceOnce(envInv0, `bill/invoice`, `bill/delivery`),
	replaceOnce(replaceOnce(envInv0, `bill/invoice`, `bill/delivery`), `"code":"SAMPLE-001",`, ``),
}

func replaceOnce(s, old, new string) string {
	i := bytes.Index([]byte(s), []byte(old))
	if i < 0 {
		panic("harness: base document template changed")
	}
	return s[:i] + new + s[i+len(old):]
}

// three real ES256 keys, generated once per process
var envKeys = []*dsig.PrivateKey{dsig.NewES256Key(), dsig.NewES256Key(), dsig.NewES256Key()}

// symbolic uuid names used on the wire -> real timestamped uuids
var envUUIDs = map[string]uuid.UUID{
	"":   uuid.Empty,
	"u0": "0190a8c0-7e11-7000-8000-000000000001",
	"u1": "0190a8c0-7e11-7000-8000-000000000002",
}

func envKey(i int64) *dsig.PrivateKey {
	if i < 0 || int(i) >= len(envKeys) {
		return envKeys[len(envKeys)-1]
	}
	return envKeys[i]
}

func envErrKey(err error) string {
	if err == nil {
		return "ok"
	}
	var ge *gobl.Error
	if errors.As(err, &ge) {
		return string(ge.Key())
	}
	return "other"
}

type envMachine struct {
	env *gobl.Envelope
}

func newEnvMachine(base int64) *envMachine {
	m := &envMachine{env: gobl.NewEnvelope()}
	m.env.Head.UUID = envUUIDs["u0"] // fixed, so that histories can name it
	if base >= 0 {
		m.insert(base)
	}
	return m
}

func (m *envMachine) insert(base int64) string {
	if base < 0 || int(base) >= len(envBases) {
		return "skip"
	}
	obj, err := gobl.Parse([]byte(envBases[base]))
	if err != nil {
		return "unmarshal"
	}
	return envErrKey(m.env.Insert(obj))
}

func (m *envMachine) invoice() *bill.Invoice {
	inv, _ := m.env.Extract().(*bill.Invoice)
	return inv
}

// docLines / docCode: the lines and the code of whatever billing document the envelope holds.
func (m *envMachine) docLines() []*bill.Line {
	switch d := m.env.Extract().(type) {
	case *bill.Invoice:
		return d.Lines
	case *bill.Order:
		return d.Lines
	case *bill.Delivery:
		return d.Lines
	}
	return nil
}

func (m *envMachine) docCode() *cbc.Code {
	switch d := m.env.Extract().(type) {
	case *bill.Invoice:
		return &d.Code
	case *bill.Order:
		return &d.Code
	case *bill.Delivery:
		return &d.Code
	}
	return nil
}

// surgery re-reads the envelope from its own JSON after editing the generic JSON tree.
func (m *envMachine) surgery(edit func(top map[string]any) bool) string {
	d, err := json.Marshal(m.env)
	if err != nil {
		return envErrKeyOr(err, "marshal")
	}
	if edit != nil {
		var top map[string]any
		dec := json.NewDecoder(bytes.NewReader(d))
		dec.UseNumber()
		if err := dec.Decode(&top); err != nil {
			return "skip"
		}
		if !edit(top) {
			return "skip"
		}
		if d, err = json.Marshal(top); err != nil {
			return "skip"
		}
	}
	n := new(gobl.Envelope)
	if err := json.Unmarshal(d, n); err != nil {
		return "unmarshal"
	}
	m.env = n
	return "ok"
}

// envLink: the symbolic value of a link names its WHOLE value: "<url part>" followed by optional
// "~T<title>", "~D<description>", "~M<mime>" segments (the model treats the value as one opaque string,
// i.e. two links are the same entry only if every field agrees).
func envLink(key, value string) *head.Link {
	segs := strings.Split(value, "~")
	l := &head.Link{Key: cbc.Key(key), URL: "https://example.com/" + segs[0]}
	for _, s := range segs[1:] {
		if s == "" {
			continue
		}
		switch s[0] {
		case 'T':
			l.Title = s[1:]
		case 'D':
			l.Description = s[1:]
		case 'M':
			l.MIME = s[1:]
		}
	}
	return l
}

func envErrKeyOr(err error, dflt string) string {
	var ge *gobl.Error
	if errors.As(err, &ge) {
		return string(ge.Key())
	}
	return dflt
}

func headMap(top map[string]any) (map[string]any, bool) {
	h, ok := top["head"].(map[string]any)
	return h, ok
}

func appendJSON(m map[string]any, field string, v any) {
	l, _ := m[field].([]any)
	m[field] = append(l, v)
}

func (m *envMachine) apply(op V) (res string) {
	defer func() {
		if r := recover(); r != nil {
			res = "panic"
		}
	}()
	code := op.Int()
	var a []V
	if op.Kind == 'l' {
		if len(op.L) == 0 {
			return "skip"
		}
		code = op.L[0].Int()
		a = op.L[1:]
	}
	arg := func(i int) string {
		if i < len(a) {
			return a[i].Str()
		}
		return ""
	}
	e := m.env
	switch code {
	case 0: // calculate
		return envErrKey(e.Calculate())
	case 1: // edit the document (no recalculation)
		lines := m.docLines()
		if len(lines) == 0 || lines[0] == nil || lines[0].Item == nil || lines[0].Item.Price == nil {
			return "skip"
		}
		p := lines[0].Item.Price.Add(num.MakeAmount(100, 2))
		lines[0].Item.Price = &p
		return "ok"
	case 2: // sign k
		if len(a) < 1 {
			return "skip"
		}
		return envErrKey(e.Sign(envKey(a[0].Int())))
	case 3: // unsign
		e.Unsign()
		return "ok"
	case 4: // add (or alter) stamp
		e.Head.AddStamp(&head.Stamp{Provider: cbc.Key(arg(0)), Value: arg(1)})
		return "ok"
	case 5: // add (or alter) link
		e.Head.AddLink(envLink(arg(0), arg(1)))
		return "ok"
	case 6: // add tag
		e.Head.Tags = append(e.Head.Tags, arg(0))
		return "ok"
	case 7: // set meta entry
		if e.Head.Meta == nil {
			e.Head.Meta = make(cbc.Meta)
		}
		e.Head.Meta[cbc.Key(arg(0))] = arg(1)
		return "ok"
	case 8: // set notes
		e.Head.Notes = arg(0)
		return "ok"
	case 9: // validate
		return envErrKey(e.Validate())
	case 10: // verify with the listed keys (none = contents only)
		ks := []*dsig.PublicKey{}
		for _, k := range a {
			ks = append(ks, envKey(k.Int()).Public())
		}
		return envErrKey(e.Verify(ks...))
	case 11: // serialise and parse again
		return m.surgery(nil)
	case 12: // toggle the document's code
		code := m.docCode()
		if code == nil {
			return "skip"
		}
		if *code == "" {
			*code = "SAMPLE-001"
		} else {
			*code = ""
		}
		return "ok"
	case 13: // insert base document b
		if len(a) < 1 {
			return "skip"
		}
		return m.insert(a[0].Int())
	case 20: // parse again with an empty string appended to sigs
		return m.surgery(func(top map[string]any) bool { appendJSON(top, "sigs", ""); return true })
	case 21: // ... with null appended to sigs
		return m.surgery(func(top map[string]any) bool { appendJSON(top, "sigs", nil); return true })
	case 22: // ... with "head": null
		return m.surgery(func(top map[string]any) bool { top["head"] = nil; return true })
	case 23: // ... with "dig": null
		return m.surgery(func(top map[string]any) bool {
			h, ok := headMap(top)
			if ok {
				h["dig"] = nil
			}
			return ok
		})
	case 24: // ... with null appended to links
		return m.surgery(func(top map[string]any) bool {
			h, ok := headMap(top)
			if ok {
				appendJSON(h, "links", nil)
			}
			return ok
		})
	case 25: // ... with null appended to stamps
		return m.surgery(func(top map[string]any) bool {
			h, ok := headMap(top)
			if ok {
				appendJSON(h, "stamps", nil)
			}
			return ok
		})
	case 26: // set the header uuid (symbolic name)
		u, ok := envUUIDs[arg(0)]
		if !ok {
			return "skip"
		}
		e.Head.UUID = u
		return "ok"
	case 27: // set the header digest (algorithm, value) as given
		e.Head.Digest = &dsig.Digest{Algorithm: dsig.DigestAlgorithm(arg(0)), Value: arg(1)}
		return "ok"
	case 28: // remove the stamps of a provider
		out := e.Head.Stamps[:0:0]
		for _, s := range e.Head.Stamps {
			if s == nil || string(s.Provider) != arg(0) {
				out = append(out, s)
			}
		}
		e.Head.Stamps = out
		return "ok"
	case 29: // append a stamp without looking for the provider
		e.Head.Stamps = append(e.Head.Stamps, &head.Stamp{Provider: cbc.Key(arg(0)), Value: arg(1)})
		return "ok"
	case 30: // remove the links with a key
		out := e.Head.Links[:0:0]
		for _, l := range e.Head.Links {
			if l == nil || string(l.Key) != arg(0) {
				out = append(out, l)
			}
		}
		e.Head.Links = out
		return "ok"
	case 31: // append a link without looking for the key
		e.Head.Links = append(e.Head.Links, envLink(arg(0), arg(1)))
		return "ok"
	case 32: // remove a tag
		out := e.Head.Tags[:0:0]
		for _, t := range e.Head.Tags {
			if t != arg(0) {
				out = append(out, t)
			}
		}
		e.Head.Tags = out
		return "ok"
	case 33: // remove a meta entry
		delete(e.Head.Meta, cbc.Key(arg(0)))
		return "ok"
	case 34: // key holder k signs the current header; appended without validation
		if e.Head == nil || len(a) < 1 {
			return "skip"
		}
		s, err := envKey(a[0].Int()).Sign(e.Head)
		if err != nil {
			return "skip"
		}
		e.Signatures = append(e.Signatures, s)
		return "ok"
	case 35: // reverse the signature list
		for i, j := 0, len(e.Signatures)-1; i < j; i, j = i+1, j-1 {
			e.Signatures[i], e.Signatures[j] = e.Signatures[j], e.Signatures[i]
		}
		return "ok"
	case 36: // duplicate the first signature at the end
		if len(e.Signatures) == 0 {
			return "skip"
		}
		e.Signatures = append(e.Signatures, e.Signatures[0])
		return "ok"
	case 37: // drop the first signature
		if len(e.Signatures) == 0 {
			return "skip"
		}
		e.Signatures = e.Signatures[1:]
		return "ok"
	case 38: // a signature OBJECT without a signature appended through the Go API (no parsing involved)
		e.Signatures = append(e.Signatures, new(dsig.Signature))
		return "ok"
	}
	return "skip"
}

func (m *envMachine) nsigs() (int, int) {
	real := 0
	for _, s := range m.env.Signatures {
		if s != nil && s.JSONWebSignature() != nil {
			real++
		}
	}
	return len(m.env.Signatures), real
}

func init() {
	register("c10", func(args []V) []V {
		// args[0] selects the model variant (shipped / repaired); the implementation is what it is
		if len(args) < 3 || args[2].Kind != 'l' {
			return []V{VErr("badargs")}
		}
		m := newEnvMachine(args[1].Int())
		out := make([]V, 0, len(args[2].L))
		for _, op := range args[2].L {
			r := m.apply(op)
			n, real := m.nsigs()
			out = append(out, VL(VS(r), VI(int64(n)), VI(int64(real))))
		}
		return []V{VL(out...)}
	})
}

var _ = fmt.Sprint
