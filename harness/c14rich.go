package main

// Rich synthetic documents: for every registered schema type a value with EVERY member populated
// (reflection over the Go types, mostly plausible values), serialised with its $schema.  The example
// files of the repository are dominated by invoices and leave many members (attachments, inboxes,
// registration, images, ordering / delivery details, payment instructions ...) untouched; the C14
// mutation sweep and other streams run over these documents as well.
//
//	vharness c14rich <outdir>

import (
	"encoding/json"
	"fmt"
	"os"
	"path/filepath"
	"reflect"
	"sort"
	"strings"

	"github.com/invopop/gobl/cal"
	"github.com/invopop/gobl/cbc"
	"github.com/invopop/gobl/currency"
	"github.com/invopop/gobl/dsig"
	"github.com/invopop/gobl/i18n"
	"github.com/invopop/gobl/l10n"
	"github.com/invopop/gobl/num"
	"github.com/invopop/gobl/schema"
	"github.com/invopop/gobl/tax"
	"github.com/invopop/gobl/uuid"
)

var richUUID = uuid.MustParse("0190d8e2-3b4c-7a6f-8d2e-0123456789ab")

func richSpecial(v reflect.Value, field string, variant int) bool {
	switch v.Interface().(type) {
	case num.Amount:
		v.Set(reflect.ValueOf(num.MakeAmount(int64(1234+variant*17), 2)))
	case num.Percentage:
		v.Set(reflect.ValueOf(num.MakePercentage(int64(210-variant*110), 3)))
	case cal.Date:
		v.Set(reflect.ValueOf(cal.MakeDate(2024, 1, 15+variant)))
	case cal.DateTime:
		v.Set(reflect.ValueOf(cal.MakeDateTime(2024, 1, 15, 10, 30, variant)))
	case uuid.UUID:
		v.Set(reflect.ValueOf(richUUID))
	case cbc.Key:
		k := "key-a"
		switch strings.ToLower(field) {
		case "rate":
			k = "standard"
		case "type":
			k = "standard"
		case "rounding":
			k = "precise"
		}
		if variant > 0 && k == "key-a" {
			k = "key-b"
		}
		v.Set(reflect.ValueOf(cbc.Key(k)))
	case cbc.Code:
		c := fmt.Sprintf("CODE%d", variant+1)
		switch strings.ToLower(field) {
		case "category":
			c = "VAT"
		}
		v.Set(reflect.ValueOf(cbc.Code(c)))
	case l10n.Code:
		v.Set(reflect.ValueOf(l10n.Code("ES")))
	case l10n.ISOCountryCode:
		v.Set(reflect.ValueOf(l10n.ISOCountryCode("ES")))
	case l10n.TaxCountryCode:
		v.Set(reflect.ValueOf(l10n.TaxCountryCode("ES")))
	case currency.Code:
		v.Set(reflect.ValueOf(currency.Code("EUR")))
	case i18n.String:
		v.Set(reflect.ValueOf(i18n.String{"en": "text", "es": "texto"}))
	case cbc.Meta:
		v.Set(reflect.ValueOf(cbc.Meta{"meta-a": "x"}))
	case tax.Extensions:
		v.Set(reflect.ValueOf(tax.Extensions{"es-facturae-doc-type": "FC"}))
	case json.RawMessage:
		v.Set(reflect.ValueOf(json.RawMessage(`{"a":1}`)))
	case *dsig.Signature, *schema.Object, schema.Object, dsig.Signature:
		return true // left empty
	case *tax.Identity:
		v.Set(reflect.ValueOf(&tax.Identity{Country: "ES", Code: "B98602642"}))
	default:
		return false
	}
	return true
}

func richFill(v reflect.Value, field string, depth, variant int, seen map[reflect.Type]int) {
	if !v.CanSet() {
		return
	}
	if richSpecial(v, field, variant) {
		return
	}
	t := v.Type()
	switch v.Kind() {
	case reflect.String:
		s := "text"
		lf := strings.ToLower(field)
		switch {
		case strings.Contains(lf, "url") || lf == "website":
			s = "https://example.com/a"
		case strings.Contains(lf, "email") || lf == "addr":
			s = "a@example.com"
		case lf == "schema":
			s = ""
		}
		if t.PkgPath() != "" && s == "text" {
			s = "a" // named string types are mostly keys / codes of some kind
		}
		v.SetString(s)
	case reflect.Bool:
		v.SetBool(true)
	case reflect.Int, reflect.Int8, reflect.Int16, reflect.Int32, reflect.Int64:
		v.SetInt(int64(1 + variant))
	case reflect.Uint, reflect.Uint8, reflect.Uint16, reflect.Uint32, reflect.Uint64:
		v.SetUint(uint64(1 + variant))
	case reflect.Float32, reflect.Float64:
		v.SetFloat(1.5)
	case reflect.Ptr:
		if depth <= 0 || seen[t.Elem()] >= 2 {
			return
		}
		n := reflect.New(t.Elem())
		richFill(n.Elem(), field, depth, variant, seen)
		v.Set(n)
	case reflect.Slice:
		if depth <= 0 {
			return
		}
		if field == "Addons" {
			return // unknown addon keys would stop the calculation at once; per-addon variants are written separately
		}
		if t.Elem().Kind() == reflect.Uint8 {
			v.SetBytes([]byte("data"))
			return
		}
		if t.Elem() == reflect.TypeOf((*schema.Object)(nil)) || t.Elem() == reflect.TypeOf((*dsig.Signature)(nil)) {
			return // embedded documents / signatures: left out
		}
		n := 1
		if field == "Lines" || field == "Taxes" || field == "Stamps" {
			n = 2
		}
		s := reflect.MakeSlice(t, n, n)
		for i := 0; i < n; i++ {
			richFill(s.Index(i), field, depth-1, i, seen)
		}
		v.Set(s)
	case reflect.Map:
		if depth <= 0 || t.Key().Kind() != reflect.String {
			return
		}
		m := reflect.MakeMap(t)
		k := reflect.New(t.Key()).Elem()
		k.SetString("key-a")
		e := reflect.New(t.Elem()).Elem()
		richFill(e, field, depth-1, variant, seen)
		m.SetMapIndex(k, e)
		v.Set(m)
	case reflect.Struct:
		if depth <= 0 || seen[t] >= 1 {
			return
		}
		seen[t]++
		for i := 0; i < t.NumField(); i++ {
			f := t.Field(i)
			if f.PkgPath != "" && !f.Anonymous {
				continue
			}
			if tag := f.Tag.Get("json"); tag == "-" {
				continue
			}
			richFill(v.Field(i), f.Name, depth-1, variant, seen)
		}
		seen[t]--
	}
}

func c14rich(args []string) int {
	if len(args) < 1 {
		fmt.Fprintln(os.Stderr, "usage: c14rich <outdir>")
		return 2
	}
	out := args[0]
	_ = os.MkdirAll(out, 0o755)
	old, _ := filepath.Glob(filepath.Join(out, "rich-*.json"))
	for _, f := range old {
		_ = os.Remove(f)
	}
	types := schema.Types()
	var ids []string
	byID := map[string]reflect.Type{}
	for t, id := range types {
		ids = append(ids, id.String())
		byID[id.String()] = t
	}
	sort.Strings(ids)
	n := 0
	for _, id := range ids {
		t := byID[id]
		for t.Kind() == reflect.Ptr {
			t = t.Elem()
		}
		if t.Kind() != reflect.Struct {
			continue
		}
		func() {
			defer func() { _ = recover() }()
			v := reflect.New(t)
			richFill(v.Elem(), "", 9, 0, map[reflect.Type]int{})
			b, err := json.Marshal(v.Interface())
			if err != nil || len(b) < 2 || b[0] != '{' {
				return
			}
			var m map[string]json.RawMessage
			if json.Unmarshal(b, &m) != nil {
				return
			}
			sid, _ := json.Marshal(id)
			m["$schema"] = sid
			b, _ = json.Marshal(m)
			name := strings.NewReplacer("https://gobl.org/draft-0/", "", "/", "-").Replace(id)
			if os.WriteFile(filepath.Join(out, "rich-"+name+".json"), b, 0o644) == nil {
				n++
			}
			if name == "bill-invoice" || name == "bill-order" {
				// the same document under every addon (their normalisers and validators see every member)
				for _, a := range tax.AllAddonDefs() {
					cc := strings.ToUpper(strings.SplitN(a.Key.String(), "-", 2)[0])
					if cc == "GR" {
						cc = "EL"
					}
					if tax.RegimeDefFor(l10n.Code(cc)) == nil {
						cc = "DE"
					}
					m["$addons"], _ = json.Marshal([]string{a.Key.String()})
					m["$regime"], _ = json.Marshal(cc)
					b2, _ := json.Marshal(m)
					b2 = []byte(strings.ReplaceAll(string(b2), `"country":"ES"`, `"country":"`+cc+`"`))
					if os.WriteFile(filepath.Join(out, "rich-"+name+"+"+a.Key.String()+".json"), b2, 0o644) == nil {
						n++
					}
				}
			}
		}()
	}
	fmt.Println(n)
	return 0
}

func init() {
	commands["c14rich"] = c14rich
}
