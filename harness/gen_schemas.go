package main

// Translator for property C11: reads every file under <repo>/data/schemas (the files on disk, not
// the Go registry) and writes
//   Gen/SchemasJson.v  shipped_schema_json : list (bytes * json)     the raw JSON of every file
//   Gen/Schemas.v      shipped_schemas     : list (bytes * schema)   the same files as Schema.schema
//                      shipped_patterns    : list pattern            every distinct pattern, parsed
//                      go_*                                           the Go-side leaf rules (cbc.KeyPattern, cbc.CodePattern, length limits)
// Anything outside the modelled keyword / regular expression subset makes the translation FAIL.

import (
	"bytes"
	"encoding/json"
	"fmt"
	"io"
	"math/big"
	"os"
	"path/filepath"
	"sort"
	"strings"

	"github.com/invopop/gobl/cbc"
)

// ---- ordered JSON ----

type gsNode struct {
	kind byte // 'z' null, 'b' bool, 'n' number, 's' string, 'a' array, 'o' object
	b    bool
	num  string
	str  string
	arr  []*gsNode
	keys []string
	vals []*gsNode
}

func (n *gsNode) get(k string) *gsNode {
	for i, x := range n.keys {
		if x == k {
			return n.vals[i]
		}
	}
	return nil
}

func parseOrderedJSON(data []byte) (*gsNode, error) {
	dec := json.NewDecoder(bytes.NewReader(data))
	dec.UseNumber()
	n, err := gsParseNode(dec)
	if err != nil {
		return nil, err
	}
	if _, err := dec.Token(); err != io.EOF {
		return nil, fmt.Errorf("trailing data after JSON value")
	}
	return n, nil
}

func gsParseNode(dec *json.Decoder) (*gsNode, error) {
	t, err := dec.Token()
	if err != nil {
		return nil, err
	}
	switch v := t.(type) {
	case nil:
		return &gsNode{kind: 'z'}, nil
	case bool:
		return &gsNode{kind: 'b', b: v}, nil
	case json.Number:
		return &gsNode{kind: 'n', num: string(v)}, nil
	case string:
		return &gsNode{kind: 's', str: v}, nil
	case json.Delim:
		switch v {
		case '[':
			n := &gsNode{kind: 'a'}
			for dec.More() {
				c, err := gsParseNode(dec)
				if err != nil {
					return nil, err
				}
				n.arr = append(n.arr, c)
			}
			if _, err := dec.Token(); err != nil {
				return nil, err
			}
			return n, nil
		case '{':
			n := &gsNode{kind: 'o'}
			for dec.More() {
				kt, err := dec.Token()
				if err != nil {
					return nil, err
				}
				k, ok := kt.(string)
				if !ok {
					return nil, fmt.Errorf("object key is not a string")
				}
				for _, x := range n.keys {
					if x == k {
						return nil, fmt.Errorf("duplicate member %q", k)
					}
				}
				c, err := gsParseNode(dec)
				if err != nil {
					return nil, err
				}
				n.keys = append(n.keys, k)
				n.vals = append(n.vals, c)
			}
			if _, err := dec.Token(); err != nil {
				return nil, err
			}
			return n, nil
		}
	}
	return nil, fmt.Errorf("unexpected token %v", t)
}

// decimalOf turns a JSON number text into mantissa and exponent (m * 10^e).
func decimalOf(s string) (string, string, error) {
	mant, exp := s, "0"
	if i := strings.IndexAny(s, "eE"); i >= 0 {
		mant, exp = s[:i], strings.TrimPrefix(s[i+1:], "+")
	}
	e, ok := new(big.Int).SetString(exp, 10)
	if !ok {
		return "", "", fmt.Errorf("bad number %q", s)
	}
	if i := strings.IndexByte(mant, '.'); i >= 0 {
		frac := mant[i+1:]
		mant = mant[:i] + frac
		e.Sub(e, big.NewInt(int64(len(frac))))
	}
	m, ok := new(big.Int).SetString(mant, 10)
	if !ok {
		return "", "", fmt.Errorf("bad number %q", s)
	}
	if e.BitLen() > 16 {
		return "", "", fmt.Errorf("number exponent out of the modelled range: %q", s)
	}
	return m.String(), e.String(), nil
}

// ---- Coq term printing ----

// gsCoqBytes prints a byte string as a term of type bytes. Printable ASCII goes through bs "...";
// anything else as an explicit byte list.
func gsCoqBytes(s string) string {
	plain := true
	for i := 0; i < len(s); i++ {
		c := s[i]
		if c < 32 && c != '\n' || c == 127 {
			plain = false
			break
		}
	}
	if plain {
		return `(bs "` + strings.ReplaceAll(s, `"`, `""`) + `")`
	}
	var sb strings.Builder
	sb.WriteString("(map byte_of_Z [")
	for i := 0; i < len(s); i++ {
		if i > 0 {
			sb.WriteByte(';')
		}
		fmt.Fprintf(&sb, "%d", s[i])
	}
	sb.WriteString("]%Z)")
	return sb.String()
}

func coqZ(s string) string {
	if strings.HasPrefix(s, "-") {
		return "(" + s + ")"
	}
	return s
}

func coqJSON(sb *strings.Builder, n *gsNode) error {
	switch n.kind {
	case 'z':
		sb.WriteString("JNull")
	case 'b':
		if n.b {
			sb.WriteString("(JBool true)")
		} else {
			sb.WriteString("(JBool false)")
		}
	case 'n':
		m, e, err := decimalOf(n.num)
		if err != nil {
			return err
		}
		fmt.Fprintf(sb, "(JNum %s%%Z %s%%Z)", coqZ(m), coqZ(e))
	case 's':
		sb.WriteString("(JStr " + gsCoqBytes(n.str) + ")")
	case 'a':
		sb.WriteString("(JArr [")
		for i, c := range n.arr {
			if i > 0 {
				sb.WriteString("; ")
			}
			if err := coqJSON(sb, c); err != nil {
				return err
			}
		}
		sb.WriteString("])")
	case 'o':
		sb.WriteString("(JObj [")
		for i, k := range n.keys {
			if i > 0 {
				sb.WriteString(";\n ")
			}
			sb.WriteString("(" + gsCoqBytes(k) + ", ")
			if err := coqJSON(sb, n.vals[i]); err != nil {
				return err
			}
			sb.WriteString(")")
		}
		sb.WriteString("])")
	}
	return nil
}

// ---- regular expressions (ECMA-262 subset) -> Schema/Regex.v terms ----

type reParser struct {
	s   string
	pos int
}

func (p *reParser) fail(msg string) error {
	return fmt.Errorf("pattern %q: unsupported or malformed at offset %d: %s", p.s, p.pos, msg)
}
func (p *reParser) eof() bool  { return p.pos >= len(p.s) }
func (p *reParser) peek() byte { return p.s[p.pos] }

func isPunct(c byte) bool {
	return c >= 33 && c <= 126 && !(c >= '0' && c <= '9') && !(c >= 'a' && c <= 'z') && !(c >= 'A' && c <= 'Z') && c != '_'
}

// alternation; returns the term and whether a top-level '|' occurred
func (p *reParser) alt() (string, bool, error) {
	first, err := p.seq()
	if err != nil {
		return "", false, err
	}
	parts := []string{first}
	for !p.eof() && p.peek() == '|' {
		p.pos++
		s, err := p.seq()
		if err != nil {
			return "", false, err
		}
		parts = append(parts, s)
	}
	t := parts[len(parts)-1]
	for i := len(parts) - 2; i >= 0; i-- {
		t = "(RAlt " + parts[i] + " " + t + ")"
	}
	return t, len(parts) > 1, nil
}

func (p *reParser) seq() (string, error) {
	items := []string{}
	for !p.eof() && p.peek() != '|' && p.peek() != ')' {
		r, err := p.rep()
		if err != nil {
			return "", err
		}
		items = append(items, r)
	}
	if len(items) == 0 {
		return "REps", nil
	}
	t := items[len(items)-1]
	for i := len(items) - 2; i >= 0; i-- {
		t = "(RCat " + items[i] + " " + t + ")"
	}
	return t, nil
}

func (p *reParser) number() (int, bool) {
	st := p.pos
	n := 0
	for !p.eof() && p.peek() >= '0' && p.peek() <= '9' {
		n = n*10 + int(p.peek()-'0')
		if n > 1000 {
			return 0, false
		}
		p.pos++
	}
	return n, p.pos > st
}

func (p *reParser) rep() (string, error) {
	a, err := p.atom()
	if err != nil {
		return "", err
	}
	if p.eof() {
		return a, nil
	}
	var t string
	switch p.peek() {
	case '?':
		p.pos++
		t = "(ropt " + a + ")"
	case '*':
		p.pos++
		t = "(RStar " + a + ")"
	case '+':
		p.pos++
		t = "(rplus " + a + ")"
	case '{':
		p.pos++
		m, ok := p.number()
		if !ok {
			return "", p.fail("repetition count expected")
		}
		if !p.eof() && p.peek() == '}' {
			p.pos++
			t = fmt.Sprintf("(rrep %s %d%%nat (Some %d%%nat))", a, m, m)
		} else if !p.eof() && p.peek() == ',' {
			p.pos++
			if !p.eof() && p.peek() == '}' {
				p.pos++
				t = fmt.Sprintf("(rrep %s %d%%nat None)", a, m)
			} else {
				n, ok := p.number()
				if !ok || p.eof() || p.peek() != '}' || n < m {
					return "", p.fail("bad {m,n}")
				}
				p.pos++
				t = fmt.Sprintf("(rrep %s %d%%nat (Some %d%%nat))", a, m, n)
			}
		} else {
			return "", p.fail("bad repetition")
		}
	default:
		return a, nil
	}
	if !p.eof() && (p.peek() == '?' || p.peek() == '+' || p.peek() == '*' || p.peek() == '{') {
		return "", p.fail("lazy / possessive / stacked quantifier")
	}
	return t, nil
}

// escape returns the byte ranges an escape sequence denotes
func (p *reParser) escape() ([][2]int, error) {
	p.pos++ // backslash
	if p.eof() {
		return nil, p.fail("dangling backslash")
	}
	c := p.peek()
	p.pos++
	switch {
	case c == 'd':
		return [][2]int{{'0', '9'}}, nil
	case isPunct(c) || c == '_':
		return [][2]int{{int(c), int(c)}}, nil
	}
	p.pos--
	return nil, p.fail(fmt.Sprintf("escape \\%c", c))
}

func coqRanges(rs [][2]int) string {
	parts := make([]string, len(rs))
	for i, r := range rs {
		parts[i] = fmt.Sprintf("(%d,%d)", r[0], r[1])
	}
	return "[" + strings.Join(parts, ";") + "]%N"
}

func (p *reParser) class() (string, error) {
	p.pos++ // [
	neg := false
	if !p.eof() && p.peek() == '^' {
		neg = true
		p.pos++
	}
	rs := [][2]int{}
	multi := []string{}
	first := true
	for {
		if p.eof() {
			return "", p.fail("unterminated class")
		}
		c := p.peek()
		if c == ']' && !first {
			p.pos++
			break
		}
		if c == ']' && first {
			return "", p.fail("empty class / leading ]")
		}
		first = false
		var lo [][2]int
		single := true
		if c == '\\' {
			r, err := p.escape()
			if err != nil {
				return "", err
			}
			lo = r
			single = r[0][0] == r[0][1]
		} else if c >= 128 {
			// a single non-ASCII code point: allowed as a plain member of a positive class
			st := p.pos
			p.pos++
			for !p.eof() && p.peek()&0xC0 == 0x80 {
				p.pos++
			}
			if neg || (!p.eof() && p.peek() == '-' && p.pos+1 < len(p.s) && p.s[p.pos+1] != ']') {
				return "", p.fail("non-ASCII member in a negated class or as a range end")
			}
			multi = append(multi, p.s[st:p.pos])
			continue
		} else if c == '[' {
			return "", p.fail("[ inside class")
		} else {
			p.pos++
			lo = [][2]int{{int(c), int(c)}}
		}
		// range?
		if single && p.pos+1 < len(p.s) && p.peek() == '-' && p.s[p.pos+1] != ']' {
			p.pos++
			d := p.peek()
			var hi int
			if d == '\\' {
				r, err := p.escape()
				if err != nil {
					return "", err
				}
				if r[0][0] != r[0][1] {
					return "", p.fail("class escape as range end")
				}
				hi = r[0][0]
			} else if d >= 128 || d == '[' {
				return "", p.fail("bad range end")
			} else {
				p.pos++
				hi = int(d)
			}
			if hi < lo[0][0] {
				return "", p.fail("range out of order")
			}
			rs = append(rs, [2]int{lo[0][0], hi})
			continue
		}
		rs = append(rs, lo...)
	}
	if neg {
		return "(rnegclass " + coqRanges(rs) + ")", nil
	}
	t := "(RSet false " + coqRanges(rs) + ")"
	for _, m := range multi {
		t = "(RAlt " + t + " (rlit " + gsCoqBytes(m) + "))"
	}
	return t, nil
}

func (p *reParser) atom() (string, error) {
	c := p.peek()
	switch c {
	case '(':
		p.pos++
		if !p.eof() && p.peek() == '?' {
			if strings.HasPrefix(p.s[p.pos:], "?:") {
				p.pos += 2
			} else {
				return "", p.fail("group modifier (lookaround / named group)")
			}
		}
		t, _, err := p.alt()
		if err != nil {
			return "", err
		}
		if p.eof() || p.peek() != ')' {
			return "", p.fail("missing )")
		}
		p.pos++
		return t, nil
	case '[':
		return p.class()
	case '\\':
		r, err := p.escape()
		if err != nil {
			return "", err
		}
		return "(RSet false " + coqRanges(r) + ")", nil
	case '.', '^', '$', '*', '+', '?', '{', '}', ']', ')', '|':
		return "", p.fail(fmt.Sprintf("character %q here", c))
	}
	if c >= 128 {
		// one whole UTF-8 encoded code point is one atom
		st := p.pos
		p.pos++
		for !p.eof() && p.peek()&0xC0 == 0x80 {
			p.pos++
		}
		return "(rlit " + gsCoqBytes(p.s[st:p.pos]) + ")", nil
	}
	if c < 32 || c == 127 {
		return "", p.fail("control character")
	}
	p.pos++
	return fmt.Sprintf("(rbyte %d%%N)", c), nil
}

// parsePattern: pattern text -> "mkPattern src start end body"
func parsePattern(src string) (string, error) {
	body := src
	start, end := false, false
	if strings.HasPrefix(body, "^") {
		start = true
		body = body[1:]
	}
	if strings.HasSuffix(body, "$") {
		// unescaped: an even number of backslashes precedes it
		n := 0
		for i := len(body) - 2; i >= 0 && body[i] == '\\'; i-- {
			n++
		}
		if n%2 == 0 {
			end = true
			body = body[:len(body)-1]
		}
	}
	p := &reParser{s: body}
	t, topAlt, err := p.alt()
	if err != nil {
		return "", fmt.Errorf("%v (in %q)", err, src)
	}
	if !p.eof() {
		return "", fmt.Errorf("pattern %q: unbalanced )", src)
	}
	if topAlt && (start || end) {
		return "", fmt.Errorf("pattern %q: anchors combined with top-level alternation are not modelled", src)
	}
	return fmt.Sprintf("(mkPattern %s %v %v %s)", gsCoqBytes(src), start, end, t), nil
}

// ---- schema files -> Schema.schema ----

var annotationKeywords = map[string]bool{
	"$schema": true, "title": true, "description": true, "examples": true, "default": true, "$comment": true,
	"contentEncoding": true, "contentMediaType": true, "deprecated": true, "readOnly": true, "writeOnly": true,
	"calculated": true, "recommended": true,
}

var typeNames = map[string]string{"null": "TNull", "boolean": "TBoolean", "object": "TObject", "array": "TArray",
	"number": "TNumber", "integer": "TInteger", "string": "TString"}

type schemaGen struct {
	patNames map[string]string // pattern text -> Coq constant
	patOrder []string
	patDefs  map[string]string
	file     string
}

func (g *schemaGen) pattern(src string) (string, error) {
	if n, ok := g.patNames[src]; ok {
		return n, nil
	}
	t, err := parsePattern(src)
	if err != nil {
		return "", err
	}
	n := fmt.Sprintf("pat_%d", len(g.patOrder)+1)
	g.patNames[src] = n
	g.patOrder = append(g.patOrder, src)
	g.patDefs[src] = t
	return n, nil
}

// lenient: a keyword whose value has the wrong JSON type is translated as KMalformed (the
// well-formedness theorem over shipped_schema_json is what reports it); a keyword outside the
// modelled set is an error.
func (g *schemaGen) schema(n *gsNode, where string, root bool) (string, error) {
	if n.kind == 'b' {
		if n.b {
			return "(SBool true)", nil
		}
		return "(SBool false)", nil
	}
	if n.kind != 'o' {
		return "", fmt.Errorf("%s: %s: a schema must be an object or a boolean", g.file, where)
	}
	kws := []string{}
	for i, k := range n.keys {
		v := n.vals[i]
		at := where + "/" + k
		malformed := func() { kws = append(kws, "KMalformed "+gsCoqBytes(k)) }
		switch k {
		case "type":
			ts := []string{}
			ok := true
			switch v.kind {
			case 's':
				if t, known := typeNames[v.str]; known {
					ts = append(ts, t)
				} else {
					ok = false
				}
			case 'a':
				for _, x := range v.arr {
					if t, known := typeNames[x.str]; x.kind == 's' && known {
						ts = append(ts, t)
					} else {
						ok = false
					}
				}
			default:
				ok = false
			}
			if !ok {
				malformed()
				continue
			}
			kws = append(kws, "KType ["+strings.Join(ts, "; ")+"]")
		case "$ref":
			if v.kind != 's' {
				malformed()
				continue
			}
			kws = append(kws, "KRef "+gsCoqBytes(v.str))
		case "$id":
			if !root {
				return "", fmt.Errorf("%s: %s: $id below the document root is not modelled", g.file, at)
			}
			if v.kind != 's' {
				malformed()
				continue
			}
			kws = append(kws, "KId "+gsCoqBytes(v.str))
		case "$defs":
			if !root {
				return "", fmt.Errorf("%s: %s: $defs below the document root is not modelled", g.file, at)
			}
			fallthrough
		case "properties":
			if v.kind != 'o' {
				malformed()
				continue
			}
			ps := []string{}
			for j, pk := range v.keys {
				if k == "$defs" && strings.ContainsAny(pk, "~%/#") {
					return "", fmt.Errorf("%s: %s: definition name %q needs JSON-pointer escaping (not modelled)", g.file, at, pk)
				}
				s, err := g.schema(v.vals[j], at+"/"+pk, false)
				if err != nil {
					return "", err
				}
				ps = append(ps, "("+gsCoqBytes(pk)+", "+s+")")
			}
			name := "KProperties"
			if k == "$defs" {
				name = "KDefs"
			}
			kws = append(kws, name+" ["+strings.Join(ps, ";\n  ")+"]")
		case "patternProperties":
			if v.kind != 'o' {
				malformed()
				continue
			}
			ps := []string{}
			for j, pk := range v.keys {
				pn, err := g.pattern(pk)
				if err != nil {
					return "", fmt.Errorf("%s: %s: %v", g.file, at, err)
				}
				s, err := g.schema(v.vals[j], at+"/"+pk, false)
				if err != nil {
					return "", err
				}
				ps = append(ps, "("+pn+", "+s+")")
			}
			kws = append(kws, "KPatternProperties ["+strings.Join(ps, ";\n  ")+"]")
		case "additionalProperties", "items":
			if v.kind != 'o' && v.kind != 'b' {
				malformed()
				continue
			}
			s, err := g.schema(v, at, false)
			if err != nil {
				return "", err
			}
			if k == "items" {
				kws = append(kws, "KItems "+s)
			} else {
				kws = append(kws, "KAdditionalProperties "+s)
			}
		case "oneOf", "anyOf", "allOf":
			if v.kind != 'a' || len(v.arr) == 0 {
				malformed()
				continue
			}
			ss := []string{}
			for j, x := range v.arr {
				s, err := g.schema(x, fmt.Sprintf("%s/%d", at, j), false)
				if err != nil {
					return "", err
				}
				ss = append(ss, s)
			}
			name := map[string]string{"oneOf": "KOneOf", "anyOf": "KAnyOf", "allOf": "KAllOf"}[k]
			kws = append(kws, name+" ["+strings.Join(ss, ";\n  ")+"]")
		case "required":
			if v.kind != 'a' {
				malformed()
				continue
			}
			names := []string{}
			ok := true
			for _, x := range v.arr {
				if x.kind != 's' {
					ok = false
				}
				names = append(names, gsCoqBytes(x.str))
			}
			if !ok {
				malformed()
				continue
			}
			kws = append(kws, "KRequired ["+strings.Join(names, "; ")+"]")
		case "const":
			var sb strings.Builder
			if err := coqJSON(&sb, v); err != nil {
				return "", fmt.Errorf("%s: %s: %v", g.file, at, err)
			}
			kws = append(kws, "KConst "+sb.String())
		case "enum":
			if v.kind != 'a' {
				malformed()
				continue
			}
			xs := []string{}
			for _, x := range v.arr {
				var sb strings.Builder
				if err := coqJSON(&sb, x); err != nil {
					return "", fmt.Errorf("%s: %s: %v", g.file, at, err)
				}
				xs = append(xs, sb.String())
			}
			kws = append(kws, "KEnum ["+strings.Join(xs, "; ")+"]")
		case "pattern":
			if v.kind != 's' {
				malformed()
				continue
			}
			pn, err := g.pattern(v.str)
			if err != nil {
				return "", fmt.Errorf("%s: %s: %v", g.file, at, err)
			}
			kws = append(kws, "KPattern "+pn)
		case "format":
			if v.kind != 's' {
				malformed()
				continue
			}
			switch v.str {
			case "date":
				kws = append(kws, "KFormat FDate")
			case "uuid":
				kws = append(kws, "KFormat FUuid")
			case "uri":
				kws = append(kws, "KFormat (FAnnot "+gsCoqBytes(v.str)+")")
			default:
				return "", fmt.Errorf("%s: %s: format %q is not modelled", g.file, at, v.str)
			}
		case "minLength", "maxLength":
			m, e, err := "", "", error(nil)
			if v.kind == 'n' {
				m, e, err = decimalOf(v.num)
			}
			if v.kind != 'n' || err != nil || e != "0" || strings.HasPrefix(m, "-") {
				malformed()
				continue
			}
			if k == "minLength" {
				kws = append(kws, "KMinLength "+m+"%Z")
			} else {
				kws = append(kws, "KMaxLength "+m+"%Z")
			}
		default:
			if !annotationKeywords[k] {
				return "", fmt.Errorf("%s: %s: keyword %q is outside the modelled subset of JSON Schema", g.file, at, k)
			}
			kws = append(kws, "KAnnot "+gsCoqBytes(k))
		}
	}
	return "(SKw [" + strings.Join(kws, ";\n ") + "])", nil
}

func schemaFiles(repo string) ([]string, error) {
	root := filepath.Join(repo, "data", "schemas")
	files := []string{}
	err := filepath.Walk(root, func(p string, info os.FileInfo, err error) error {
		if err != nil {
			return err
		}
		if !info.IsDir() {
			rel, _ := filepath.Rel(root, p)
			if !strings.HasSuffix(rel, ".json") {
				return fmt.Errorf("unexpected file under data/schemas: %s", rel)
			}
			files = append(files, filepath.ToSlash(rel))
		}
		return nil
	})
	sort.Strings(files)
	if err == nil && len(files) == 0 {
		err = fmt.Errorf("no schema files under %s", root)
	}
	return files, err
}

func coqIdent(path string) string {
	var sb strings.Builder
	for _, c := range strings.TrimSuffix(path, ".json") {
		if c >= 'a' && c <= 'z' || c >= 'A' && c <= 'Z' || c >= '0' && c <= '9' {
			sb.WriteRune(c)
		} else {
			sb.WriteByte('_')
		}
	}
	return sb.String()
}

const gsGenHeader = `(* GENERATED by harness/gen_schemas.go from data/schemas of the repository; do not edit. *)
From Coq Require Import List ZArith NArith Strings.Byte String.
From Verif Require Import Base.Wire Schema.Regex Schema.Schema.
Import ListNotations.
Local Open Scope string_scope.
`

func genSchemasJSON(repo string) (string, error) {
	files, err := schemaFiles(repo)
	if err != nil {
		return "", err
	}
	var sb strings.Builder
	sb.WriteString(gsGenHeader)
	for _, f := range files {
		data, err := os.ReadFile(filepath.Join(repo, "data", "schemas", f))
		if err != nil {
			return "", err
		}
		n, err := parseOrderedJSON(data)
		if err != nil {
			return "", fmt.Errorf("%s: %v", f, err)
		}
		sb.WriteString("Definition json_" + coqIdent(f) + " : json :=\n ")
		if err := coqJSON(&sb, n); err != nil {
			return "", fmt.Errorf("%s: %v", f, err)
		}
		sb.WriteString(".\n")
	}
	sb.WriteString("Definition shipped_schema_json : list (bytes * json) := [\n")
	for i, f := range files {
		if i > 0 {
			sb.WriteString(";\n")
		}
		sb.WriteString(" (" + gsCoqBytes(f) + ", json_" + coqIdent(f) + ")")
	}
	sb.WriteString("].\n")
	return sb.String(), nil
}

func genSchemas(repo string) (string, error) {
	files, err := schemaFiles(repo)
	if err != nil {
		return "", err
	}
	g := &schemaGen{patNames: map[string]string{}, patDefs: map[string]string{}}
	var body strings.Builder
	for _, f := range files {
		data, err := os.ReadFile(filepath.Join(repo, "data", "schemas", f))
		if err != nil {
			return "", err
		}
		n, err := parseOrderedJSON(data)
		if err != nil {
			return "", fmt.Errorf("%s: %v", f, err)
		}
		g.file = f
		s, err := g.schema(n, "", true)
		if err != nil {
			return "", err
		}
		body.WriteString("Definition path_" + coqIdent(f) + " : bytes := Eval vm_compute in " + gsCoqBytes(f) + ".\n")
		body.WriteString("Definition schema_" + coqIdent(f) + " : schema := Eval vm_compute in\n " + s + ".\n")
	}
	var sb strings.Builder
	sb.WriteString(gsGenHeader)
	for i, src := range g.patOrder {
		fmt.Fprintf(&sb, "Definition pat_%d : pattern := Eval vm_compute in %s.\n", i+1, g.patDefs[src])
	}
	sb.WriteString("Definition shipped_patterns : list pattern := [")
	for i := range g.patOrder {
		if i > 0 {
			sb.WriteString("; ")
		}
		fmt.Fprintf(&sb, "pat_%d", i+1)
	}
	sb.WriteString("].\n")
	sb.WriteString(body.String())
	sb.WriteString("Definition shipped_schemas : list (bytes * schema) := [\n")
	for i, f := range files {
		if i > 0 {
			sb.WriteString(";\n")
		}
		sb.WriteString(" (path_" + coqIdent(f) + ", schema_" + coqIdent(f) + ")")
	}
	sb.WriteString("].\n")
	// the Go-side leaf rules, as the linked packages define them now
	sb.WriteString("(* leaf rules of the implementation (cbc.KeyPattern, cbc.CodePattern and the length limits) *)\n")
	fmt.Fprintf(&sb, "Definition go_key_pattern : bytes := Eval vm_compute in %s.\n", gsCoqBytes(cbc.KeyPattern))
	fmt.Fprintf(&sb, "Definition go_key_min_length : Z := %d%%Z.\nDefinition go_key_max_length : Z := %d%%Z.\n", cbc.KeyMinLength, cbc.KeyMaxLength)
	fmt.Fprintf(&sb, "Definition go_code_pattern : bytes := Eval vm_compute in %s.\n", gsCoqBytes(cbc.CodePattern))
	fmt.Fprintf(&sb, "Definition go_code_min_length : Z := %d%%Z.\nDefinition go_code_max_length : Z := %d%%Z.\n", cbc.CodeMinLength, cbc.CodeMaxLength)
	return sb.String(), nil
}

func init() {
	genFiles = append(genFiles,
		genFile{name: "SchemasJson", gen: genSchemasJSON},
		genFile{name: "Schemas", gen: genSchemas},
	)
}
