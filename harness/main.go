package main

// vharness: runs the implementation (/repo, linked through the replace directive) on cases
// read from stdin, one case per line in the wire format, first token = operation name.
// One output line per input line. A panic inside an operation is reported as ( err panic ... ).

import (
	"bufio"
	"fmt"
	"os"
	"runtime/debug"
	"strings"
)

type handler func(args []V) []V

var handlers = map[string]handler{}

func register(name string, h handler) { handlers[name] = h }

func runOne(line string) (out string) {
	defer func() {
		if r := recover(); r != nil {
			st := string(debug.Stack())
			out = printVs([]V{VL(VS("err"), VS("panic"), VS(fmt.Sprint(r)), VS(topRepoFrame(st)))})
		}
	}()
	vs, err := parseLine(line)
	if err != nil || len(vs) == 0 {
		return printVs([]V{VErr("badline")})
	}
	h, ok := handlers[vs[0].Str()]
	if !ok {
		return printVs([]V{VErr("unknown-op")})
	}
	return printVs(h(vs[1:]))
}

// topRepoFrame finds the first function of github.com/invopop/gobl in a stack trace.
func topRepoFrame(st string) string {
	for _, l := range strings.Split(st, "\n") {
		if strings.HasPrefix(l, "github.com/invopop/gobl") {
			if i := strings.LastIndex(l, "("); i > 0 {
				return l[:i]
			}
			return l
		}
	}
	return ""
}

func main() {
	if len(os.Args) > 1 {
		if f, ok := commands[os.Args[1]]; ok {
			os.Exit(f(os.Args[2:]))
		}
		fmt.Fprintln(os.Stderr, "unknown command", os.Args[1])
		os.Exit(2)
	}
	sc := bufio.NewScanner(os.Stdin)
	sc.Buffer(make([]byte, 1<<20), 1<<28)
	w := bufio.NewWriterSize(os.Stdout, 1<<20)
	defer w.Flush()
	for sc.Scan() {
		w.WriteString(runOne(sc.Text()))
		w.WriteByte('\n')
	}
}

// commands are whole-program modes (translator, sweeps) selected by argv[1].
var commands = map[string]func(args []string) int{}
