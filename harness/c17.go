package main

import (
	"encoding/json"

	"github.com/invopop/gobl"
	"github.com/invopop/gobl/bill"
)

// calcInvoice: JSON -> calculated *bill.Invoice through the public entry points.
func calcInvoice(data []byte) (*bill.Invoice, string) {
	obj, err := gobl.Parse(data)
	if err != nil {
		return nil, "parse"
	}
	env, err := gobl.Envelop(obj)
	if err != nil {
		return nil, "calc"
	}
	inv, ok := env.Extract().(*bill.Invoice)
	if !ok {
		return nil, "not-invoice"
	}
	return inv, ""
}

func projectValue(v interface{}) []V {
	out, err := json.Marshal(v)
	if err != nil {
		return []V{VErr("marshal")}
	}
	var m jmap
	if err := json.Unmarshal(out, &m); err != nil {
		return []V{VErr("remarshal")}
	}
	return projectDoc(m)
}

func init() {
	register("c17", func(a []V) []V {
		switch a[0].Str() {
		case "invert":
			inv, kind := calcInvoice(a[1].S)
			if kind != "" {
				return []V{VErr("invert")}
			}
			if err := inv.Invert(); err != nil {
				return []V{VErr("invert")}
			}
			return projectValue(inv)
		case "invert2":
			inv, kind := calcInvoice(a[1].S)
			if kind != "" {
				return []V{VErr("invert")}
			}
			if err := inv.Invert(); err != nil {
				return []V{VErr("invert")}
			}
			if err := inv.Invert(); err != nil {
				return []V{VErr("invert")}
			}
			return projectValue(inv)
		case "rit":
			inv, kind := calcInvoice(a[1].S)
			if kind != "" {
				return []V{VErr("rit")}
			}
			if err := inv.RemoveIncludedTaxes(); err != nil {
				return []V{VErr("rit")}
			}
			return projectValue(inv)
		case "rit2":
			// RemoveIncludedTaxes, serialise, parse, calculate again: must change nothing
			inv, kind := calcInvoice(a[1].S)
			if kind != "" {
				return []V{VErr("rit")}
			}
			if err := inv.RemoveIncludedTaxes(); err != nil {
				return []V{VErr("rit")}
			}
			out, err := json.Marshal(inv)
			if err != nil {
				return []V{VErr("rit")}
			}
			inv2 := new(bill.Invoice)
			if err := json.Unmarshal(out, inv2); err != nil {
				return []V{VErr("rit")}
			}
			if err := inv2.Calculate(); err != nil {
				return []V{VErr("rit")}
			}
			return projectValue(inv2)
		case "recalc":
			// calculate, serialise, parse back, calculate again
			_, out, kind := calcJSON(a[1].S)
			if kind != "" {
				return []V{VErr(kind)}
			}
			m, _, kind := calcJSON(out)
			if kind != "" {
				return []V{VErr(kind)}
			}
			return projectDoc(m)
		}
		return []V{VErr("unknown-c17-op")}
	})
}
