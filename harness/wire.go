package main

// Wire format shared with rocq/Base/Wire.v: whitespace-separated tokens,
// "(" ")" list delimiters, -?[0-9]+ integers, x<hex> byte strings, bare words.

import (
	"encoding/hex"
	"fmt"
	"math/big"
	"strings"
)

type V struct {
	Kind byte // 'i', 's', 'l'
	I    *big.Int
	S    []byte
	L    []V
}

func VI(i int64) V        { return V{Kind: 'i', I: big.NewInt(i)} }
func VBig(i *big.Int) V   { return V{Kind: 'i', I: i} }
func VS(s string) V       { return V{Kind: 's', S: []byte(s)} }
func VBytes(s []byte) V   { return V{Kind: 's', S: s} }
func VL(l ...V) V         { return V{Kind: 'l', L: l} }
func VB(b bool) V {
	if b {
		return VI(1)
	}
	return VI(0)
}
func VErr(s string) V { return VL(VS("err"), VS(s)) }

func (v V) Int() int64 {
	if v.Kind != 'i' {
		return 0
	}
	return v.I.Int64()
}
func (v V) Str() string { return string(v.S) }

func isInt(t string) bool {
	if t == "" {
		return false
	}
	s := t
	if s[0] == '-' {
		s = s[1:]
		if s == "" {
			return false
		}
	}
	for _, c := range s {
		if c < '0' || c > '9' {
			return false
		}
	}
	return true
}

func atom(t string) V {
	if isInt(t) {
		b, _ := new(big.Int).SetString(t, 10)
		return VBig(b)
	}
	if t[0] == 'x' {
		if b, err := hex.DecodeString(t[1:]); err == nil {
			return VBytes(b)
		}
	}
	return VS(t)
}

func parseLine(line string) ([]V, error) {
	toks := strings.Fields(line)
	stack := [][]V{}
	cur := []V{}
	for _, t := range toks {
		switch t {
		case "(":
			stack = append(stack, cur)
			cur = []V{}
		case ")":
			if len(stack) == 0 {
				return nil, fmt.Errorf("unbalanced")
			}
			p := stack[len(stack)-1]
			stack = stack[:len(stack)-1]
			p = append(p, V{Kind: 'l', L: cur})
			cur = p
		default:
			cur = append(cur, atom(t))
		}
	}
	if len(stack) != 0 {
		return nil, fmt.Errorf("unbalanced")
	}
	return cur, nil
}

func printV(sb *strings.Builder, v V) {
	switch v.Kind {
	case 'i':
		sb.WriteString(v.I.String())
	case 's':
		sb.WriteByte('x')
		sb.WriteString(hex.EncodeToString(v.S))
	case 'l':
		sb.WriteString("(")
		for _, x := range v.L {
			sb.WriteByte(' ')
			printV(sb, x)
		}
		sb.WriteString(" )")
	}
}

func printVs(vs []V) string {
	var sb strings.Builder
	for i, v := range vs {
		if i > 0 {
			sb.WriteByte(' ')
		}
		printV(&sb, v)
	}
	return sb.String()
}
