// c15race: stress run under the race detector (support for C15, not a proof).
//
//   c15race <repo> <seed> <budget-seconds>
//
// For GOMAXPROCS in {1,2,4,16}: many goroutines parse, calculate, validate, correct and replicate
// documents of regime x addon combinations at the same time, with runtime.Gosched() injected
// between and (through a seeded coin) inside the stages; every goroutine's observable bytes are
// compared with the result of the same operations run sequentially beforehand.  Built with -race:
// data race reports go to stderr (GORACE=halt_on_error=0), byte differences to stdout as JSON.
package main

import (
	"encoding/json"
	"fmt"
	"math/rand"
	"os"
	"path/filepath"
	"runtime"
	"sort"
	"strconv"
	"strings"
	"sync"
	"time"

	"github.com/invopop/gobl"
	"github.com/invopop/gobl/bill"
	"github.com/invopop/gobl/dsig"
	"github.com/invopop/gobl/tax"

	"verifharness/c15docs"
)

type work struct {
	Name string
	data []byte
}

var key = dsig.NewES256Key()

func project(env *gobl.Envelope) string {
	if env == nil {
		return "nil"
	}
	b, err := json.Marshal(env.Document)
	if err != nil {
		return "marshal-error"
	}
	var m map[string]interface{}
	if json.Unmarshal(b, &m) != nil {
		return string(b)
	}
	for _, k := range []string{"uuid", "issue_date", "issue_time", "value_date", "op_date", "code", "series", "preceding"} {
		delete(m, k)
	}
	o, _ := json.Marshal(m)
	return string(o)
}

// projectEnv drops what is freshly generated per run (header uuid and the digest over it).
func projectEnv(env *gobl.Envelope) string {
	b, err := json.Marshal(env)
	if err != nil {
		return "marshal-error"
	}
	var m map[string]interface{}
	if json.Unmarshal(b, &m) != nil {
		return string(b)
	}
	if h, ok := m["head"].(map[string]interface{}); ok {
		delete(h, "uuid")
	}
	o, _ := json.Marshal(m)
	return string(o)
}

func errStr(err error) string {
	if err == nil {
		return "ok"
	}
	return err.Error()
}

// observe runs the whole pipeline on one document and returns its observable result.
func observe(w *work, yield func()) (res string) {
	defer func() {
		if r := recover(); r != nil {
			res = "panic:" + fmt.Sprint(r) // known C14 sites; compared like any other result
		}
	}()
	var sb strings.Builder
	obj, err := gobl.Parse(w.data)
	if err != nil {
		return "parse:" + errStr(err)
	}
	yield()
	env, ok := obj.(*gobl.Envelope)
	if !ok {
		env, err = gobl.Envelop(obj)
		if err != nil {
			return "envelop:" + errStr(err)
		}
	}
	yield()
	sb.WriteString("calc:" + errStr(env.Calculate()))
	yield()
	sb.WriteString(projectEnv(env))
	sb.WriteString("|validate:" + errStr(env.Validate()))
	yield()
	c, err := env.Correct(bill.Corrective, bill.WithReason("test"))
	sb.WriteString("|correct:" + errStr(err) + project(c))
	yield()
	c2, err := env.Correct(bill.Credit)
	sb.WriteString("|credit:" + errStr(err) + project(c2))
	yield()
	r, err := env.Replicate()
	sb.WriteString("|replicate:" + errStr(err) + project(r))
	yield()
	err = env.Sign(key)
	sb.WriteString("|sign:" + errStr(err))
	if err == nil {
		sb.WriteString("|verify:" + errStr(env.Verify(key.Public())))
	}
	return sb.String()
}

func syntheticInvoice(regime *tax.RegimeDef, addons []string) []byte {
	cc := regime.Country.String()
	cur := regime.Currency.String()
	ad, _ := json.Marshal(addons)
	taxes := "[]"
	if len(regime.Categories) > 0 {
		c0 := regime.Categories[0]
		taxes = `[{"cat":"` + c0.Code.String() + `"`
		if len(c0.Rates) > 0 && len(c0.Rates[0].Values) > 0 {
			taxes += `,"rate":"` + c0.Rates[0].Key.String() + `"`
		} else {
			taxes += `,"percent":"10%"`
		}
		taxes += "}]"
	}
	s := `{"$schema":"https://gobl.org/draft-0/bill/invoice","uuid":"0190a4c5-b8f0-7000-8000-000000000001","$regime":"` + cc + `","$addons":` + string(ad) +
		`,"currency":"` + cur + `","issue_date":"2024-06-13","series":"T","code":"1",` +
		`"supplier":{"name":"Supplier","tax_id":{"country":"` + cc + `","code":"B98602642"},"addresses":[{"locality":"X","code":"28002","country":"` + cc + `"}]},` +
		`"customer":{"name":"Customer","tax_id":{"country":"` + cc + `","code":"54387763P"}},` +
		`"lines":[{"quantity":"2","item":{"name":"Thing","price":"10.00"},"taxes":` + taxes + `}],` +
		`"notes":[{"key":"general","text":"n"}]}`
	return []byte(s)
}

func exampleFiles(repo string) []string {
	var res []string
	_ = filepath.Walk(repo, func(p string, info os.FileInfo, err error) error {
		if err != nil {
			return nil
		}
		if info.IsDir() {
			b := filepath.Base(p)
			if b == ".git" || b == "node_modules" || b == "data" {
				return filepath.SkipDir
			}
			return nil
		}
		if strings.HasSuffix(p, ".json") && filepath.Base(filepath.Dir(p)) == "out" && strings.Contains(p, "/examples/") {
			rel, _ := filepath.Rel(repo, p)
			res = append(res, rel)
		}
		return nil
	})
	sort.Strings(res)
	return res
}

func emit(v interface{}) {
	b, _ := json.Marshal(v)
	os.Stdout.Write(append(b, '\n'))
}

func main() {
	if len(os.Args) < 4 {
		fmt.Fprintln(os.Stderr, "usage: c15race <repo> <seed> <budget-seconds>")
		os.Exit(2)
	}
	repo := os.Args[1]
	seed, _ := strconv.ParseInt(os.Args[2], 10, 64)
	budget, _ := strconv.ParseFloat(os.Args[3], 64)
	rng := rand.New(rand.NewSource(seed))

	var all []*work
	for _, rel := range exampleFiles(repo) {
		raw, err := os.ReadFile(filepath.Join(repo, rel))
		if err == nil {
			all = append(all, &work{Name: "example:" + rel, data: raw})
		}
	}
	var addonKeys []string
	for _, a := range tax.AllAddonDefs() {
		addonKeys = append(addonKeys, a.Key.String())
	}
	var syn []*work
	for _, r := range tax.AllRegimeDefs() {
		for _, a := range addonKeys {
			syn = append(syn, &work{Name: "synthetic:" + r.Country.String() + "+" + a, data: syntheticInvoice(r, []string{a})})
		}
	}
	all = append(all, syn...)

	var examples []*work
	for _, w := range all {
		if strings.HasPrefix(w.Name, "example:") {
			examples = append(examples, w)
		}
	}
	regs := tax.AllRegimeDefs()
	synBy := map[string][]*work{}
	for _, w := range syn {
		r := strings.SplitN(strings.TrimPrefix(w.Name, "synthetic:"), "+", 2)[0]
		synBy[r] = append(synBy[r], w)
	}
	noYield := func() {}
	// cold start: the FIRST use in this process of every definition, pattern and cache happens from many
	// goroutines at once (lazily initialised shared state races only before it is warm); the results are
	// compared with the sequential reference computed afterwards.
	cold := map[string][]string{}
	{
		var cwg sync.WaitGroup
		var cmu sync.Mutex
		cstart := make(chan struct{})
		runtime.GOMAXPROCS(16)
		coldSet := append([]*work{}, examples...)
		rng.Shuffle(len(coldSet), func(i, j int) { coldSet[i], coldSet[j] = coldSet[j], coldSet[i] })
		for _, w := range coldSet {
			for rep := 0; rep < 2; rep++ {
				cwg.Add(1)
				go func(w *work) {
					defer cwg.Done()
					<-cstart
					got := observe(w, runtime.Gosched)
					cmu.Lock()
					cold[w.Name] = append(cold[w.Name], got)
					cmu.Unlock()
				}(w)
			}
		}
		close(cstart)
		cwg.Wait()
	}
	// sequential reference, computed twice (the operations must be deterministic to be comparable)
	ref := map[string]string{}
	bad := map[string]bool{}
	nondet := 0
	reference := func(w *work) bool {
		if _, ok := ref[w.Name]; ok {
			return true
		}
		if bad[w.Name] {
			return false
		}
		a := observe(w, noYield)
		b := observe(w, noYield)
		if a != b {
			bad[w.Name] = true
			nondet++
			return false
		}
		ref[w.Name] = a
		return true
	}
	deadline := time.Now().Add(time.Duration(budget * float64(time.Second)))
	procs := []int{1, 2, 4, 16}
	ops, diffs, rounds := 0, 0, 0
	coldOps := 0
	for _, w := range examples {
		if !reference(w) {
			continue
		}
		for _, got := range cold[w.Name] {
			coldOps++
			if got != ref[w.Name] {
				diffs++
				if diffs <= 5 {
					emit(map[string]interface{}{"type": "diff", "workload": w.Name, "gomaxprocs": 16, "phase": "cold-start",
						"sequential": ref[w.Name], "concurrent": got, "data": string(w.data)})
				}
			}
		}
	}
	ops += coldOps
	perProcs := map[string]int{}
	regimesUsed := map[string]bool{}
	fullBy := map[string]*work{}
	fullOps := 0
	regByCC := map[string]*tax.RegimeDef{}
	for _, r := range regs {
		regByCC[r.Country.String()] = r
	}
	for time.Now().Before(deadline) {
		for _, gm := range procs {
			if !time.Now().Before(deadline) {
				break
			}
			// one round: every addon combination of ONE regime at the same time (they share the regime's
			// definitions), twice, plus a few examples
			reg := regs[rng.Intn(len(regs))].Country.String()
			regimesUsed[reg] = true
			var batch []*work
			runtime.GOMAXPROCS(16)
			for _, w := range synBy[reg] {
				if reference(w) {
					batch = append(batch, w, w)
				}
			}
			// ... and FULL documents (payment instructions / advances with one payment means key, terms, delivery,
			// ordering; see c15docs) of that regime for a few seeded ORDERED add-on pairs, each next to the two
			// single-add-on documents that share the pair's tables
			means := c15docs.MeansKeys()
			for i := 0; i < 3 && len(addonKeys) > 1; i++ {
				a1, a2 := addonKeys[rng.Intn(len(addonKeys))], addonKeys[rng.Intn(len(addonKeys))]
				mk := means[rng.Intn(len(means))]
				kind := c15docs.Kinds[rng.Intn(3)]
				for _, as := range [][]string{{a1, a2}, {a1}, {a2}} {
					if len(as) == 2 && a1 == a2 {
						continue
					}
					name := c15docs.Name(kind, reg, as, mk)
					w := fullBy[name]
					if w == nil {
						w = &work{Name: name, data: c15docs.Full(kind, regByCC[reg], as, mk)}
						fullBy[name] = w
					}
					if reference(w) {
						batch = append(batch, w, w)
						fullOps += 2
					}
				}
			}
			for i := 0; i < 12 && len(examples) > 0; i++ {
				w := examples[rng.Intn(len(examples))]
				if reference(w) {
					batch = append(batch, w)
				}
			}
			rng.Shuffle(len(batch), func(i, j int) { batch[i], batch[j] = batch[j], batch[i] })
			runtime.GOMAXPROCS(gm)
			rounds++
			n := len(batch)
			seeds := make([]int64, n)
			for i := range seeds {
				seeds[i] = rng.Int63()
			}
			var wg sync.WaitGroup
			var mu sync.Mutex
			start := make(chan struct{})
			for i := 0; i < n; i++ {
				wg.Add(1)
				go func(w *work, sd int64) {
					defer wg.Done()
					lr := rand.New(rand.NewSource(sd))
					yield := func() {
						for k := lr.Intn(4); k > 0; k-- {
							runtime.Gosched()
						}
					}
					<-start
					got := observe(w, yield)
					mu.Lock()
					ops++
					perProcs[strconv.Itoa(gm)]++
					if got != ref[w.Name] {
						diffs++
						if diffs <= 5 {
							emit(map[string]interface{}{"type": "diff", "workload": w.Name, "gomaxprocs": gm,
								"sequential": ref[w.Name], "concurrent": got, "data": string(w.data)})
						}
					}
					mu.Unlock()
				}(batch[i], seeds[i])
			}
			close(start)
			wg.Wait()
		}
	}
	var ru []string
	for r := range regimesUsed {
		ru = append(ru, r)
	}
	sort.Strings(ru)
	emit(map[string]interface{}{"type": "totals", "operations": ops, "rounds": rounds, "differences": diffs, "workloads": len(ref), "full_document_operations": fullOps,
		"nondeterministic_excluded": nondet, "cold_start_operations": coldOps, "per_gomaxprocs": perProcs, "regimes": ru})
}
