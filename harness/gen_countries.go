package main

// Translator part for C18: Gen/Countries.v
//
//   countries : list (str * bool * bool)
//        l10n.Countries() of the linked repository: (code, usable as ISO country, usable as tax country)
//   published_iso_countries, published_tax_countries, published_currencies : list str
//        the code lists PUBLISHED under <repo>/data/schemas (l10n/iso-country-code.json,
//        l10n/tax-country-code.json, currency/code.json: the `const` members of the `oneOf` list),
//        parsed as generic JSON.

import (
	"encoding/json"
	"fmt"
	"os"
	"path/filepath"

	"github.com/invopop/gobl/l10n"
)

// c18SchemaConsts reads the `const` values of $defs/<def>/oneOf of a published schema file.
func c18SchemaConsts(file, def string) ([]string, error) {
	b, err := os.ReadFile(file)
	if err != nil {
		return nil, err
	}
	var o map[string]any
	if err := json.Unmarshal(b, &o); err != nil {
		return nil, fmt.Errorf("%s: %v", file, err)
	}
	defs, _ := o["$defs"].(map[string]any)
	d, _ := defs[def].(map[string]any)
	list, ok := d["oneOf"].([]any)
	if !ok {
		return nil, fmt.Errorf("%s: no $defs/%s/oneOf list", file, def)
	}
	var out []string
	for _, x := range list {
		m, _ := x.(map[string]any)
		s, ok := m["const"].(string)
		if !ok {
			return nil, fmt.Errorf("%s: oneOf member without a string const", file)
		}
		out = append(out, s)
	}
	return out, nil
}

func init() {
	genFiles = append(genFiles, genFile{"Countries", func(repo string) (string, error) {
		w := &gw{}
		w.s(genHeader)
		w.s("(* l10n.Countries() of the linked repository: (code, ISO country, tax country) *)\n")
		w.s("Definition countries : list (str * bool * bool) :=\n [")
		for i, d := range l10n.Countries() {
			if d == nil {
				return "", fmt.Errorf("nil country definition")
			}
			if i > 0 {
				w.s(";\n  ")
			}
			w.s("(")
			w.str(string(d.Code))
			w.s(", ")
			w.b(d.ISO)
			w.s(", ")
			w.b(d.Tax)
			w.s(")")
		}
		w.s("].\n\n")
		for _, x := range []struct{ name, file, def string }{
			{"published_iso_countries", "l10n/iso-country-code.json", "ISOCountryCode"},
			{"published_tax_countries", "l10n/tax-country-code.json", "TaxCountryCode"},
			{"published_currencies", "currency/code.json", "Code"},
		} {
			l, err := c18SchemaConsts(filepath.Join(repo, "data", "schemas", filepath.FromSlash(x.file)), x.def)
			if err != nil {
				return "", err
			}
			w.s("(* data/schemas/" + x.file + " *)\nDefinition " + x.name + " : list str :=\n ")
			w.strs(l)
			w.s(".\n\n")
		}
		return w.sb.String(), nil
	}})
}
