package main

// C07: canonical JSON. `c07 canon x<json bytes>` runs c14n.CanonicalJSON on the text and
// answers ( ok x<out> ) or ( err <kind> ); a panic is caught by main.go as ( err panic ... ).
// Error kinds (projected observables, never message text):
//   syntax     encoding/json tokenizer error (incl. unexpected EOF inside a literal)
//   key        "item key must be a string"
//   utf8       encodeString refused a string containing U+FFFD / invalid UTF-8
//   nil        CanonicalJSON returned (nil, nil) bytes for a non-null value (cannot happen today)
//   other      anything else

import (
	"bytes"
	"encoding/json"
	"errors"
	"strings"

	"github.com/invopop/gobl/c14n"
)

func c07kind(err error) string {
	var se *json.SyntaxError
	var uv *json.UnsupportedValueError
	switch {
	case errors.As(err, &uv):
		return "utf8"
	case errors.As(err, &se):
		return "syntax"
	case strings.Contains(err.Error(), "item key must be a string"):
		return "key"
	case strings.Contains(err.Error(), "unexpected EOF"):
		return "syntax"
	case strings.Contains(err.Error(), "EOF"):
		return "incomplete"
	case strings.Contains(err.Error(), "after top-level value"), strings.Contains(err.Error(), "trailing"):
		return "trailing"
	case strings.Contains(err.Error(), "range"):
		return "range"
	}
	return "other"
}

func init() {
	register("c07", func(a []V) []V {
		switch a[0].Str() {
		case "canon":
			// a[1] = model configuration flags (ignored here), a[2] = the JSON text
			out, err := c14n.CanonicalJSON(bytes.NewReader(a[2].S))
			if err != nil {
				return []V{VL(VS("err"), VS(c07kind(err)), VS(err.Error()))}
			}
			return []V{VL(VS("ok"), VBytes(out))}
		}
		return []V{VErr("unknown-c07-op")}
	})
}
