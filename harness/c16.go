package main

// C16: correct / replicate yield a linked new document and leave the source intact.
// Implementation side, through the library entry points gobl.Envelope.Correct / Replicate.
//
//   c16 prepare   x<envelope json> x<prep json>                -> ok x<prepared envelope json>
//   c16 correct   x<envelope json> x<prep json> x<call json>   -> observation
//   c16 replicate x<envelope json> x<prep json>                -> observation
//
// prep = {"head_stamps":[{"prv":..,"val":..}], "sign":true}   stamps put into the source header, envelope signed
// call = {"via":"opts"|"data"|"struct", "opts":{"type","reason","ext","stamps","series","issue_date","copy_tax"}}
//        via opts: one functional option per member present; data: bill.WithData(json of opts);
//        struct: bill.WithOptions(&bill.CorrectionOptions{...})
//
// observation = ( xverdict <source same after call> <source same after scribbling over the result>
//                 x<result envelope json> xtoday-before xtoday-after ( ( xresult-path xsource-path ) ... )
//                 <objects shared with global definitions> xvalidate-of-result
//                 x<source json before (only when changed)> x<source json after the call> x<source json after scribbling> )

import (
	"encoding/json"
	"fmt"
	"reflect"
	"strings"
	"sync"

	"github.com/invopop/gobl"
	"github.com/invopop/gobl/bill"
	"github.com/invopop/gobl/cal"
	"github.com/invopop/gobl/cbc"
	"github.com/invopop/gobl/dsig"
	"github.com/invopop/gobl/head"
	"github.com/invopop/gobl/num"
	"github.com/invopop/gobl/schema"
	"github.com/invopop/gobl/tax"
)

type c16Prep struct {
	HeadStamps []*head.Stamp `json:"head_stamps"`
	Sign       bool          `json:"sign"`
}

type c16Call struct {
	Via  string          `json:"via"`
	Opts json.RawMessage `json:"opts"`
}

type c16OptVals struct {
	Type      *string           `json:"type"`
	Reason    *string           `json:"reason"`
	Ext       map[string]string `json:"ext"`
	Stamps    []*head.Stamp     `json:"stamps"`
	Series    *string           `json:"series"`
	IssueDate *string           `json:"issue_date"`
	CopyTax   *bool             `json:"copy_tax"`
}

var c16Key = sync.OnceValue(func() *dsig.PrivateKey { return dsig.NewES256Key() })

func c16Source(text []byte, prepJSON []byte) (*gobl.Envelope, error) {
	obj, err := gobl.Parse(text)
	if err != nil {
		return nil, err
	}
	env, ok := obj.(*gobl.Envelope)
	if !ok {
		return nil, fmt.Errorf("not an envelope")
	}
	var prep c16Prep
	if len(prepJSON) > 0 {
		if err := json.Unmarshal(prepJSON, &prep); err != nil {
			return nil, err
		}
	}
	for _, s := range prep.HeadStamps {
		env.Head.AddStamp(s)
	}
	if prep.Sign || len(prep.HeadStamps) > 0 {
		if err := env.Sign(c16Key()); err != nil {
			return nil, err
		}
	}
	return env, nil
}

func c16Options(c *c16Call) ([]schema.Option, error) {
	var v c16OptVals
	if len(c.Opts) > 0 {
		if err := json.Unmarshal(c.Opts, &v); err != nil {
			return nil, err
		}
	}
	switch c.Via {
	case "data":
		return []schema.Option{bill.WithData(json.RawMessage(c.Opts))}, nil
	case "struct":
		o := &bill.CorrectionOptions{}
		if v.Type != nil {
			o.Type = cbc.Key(*v.Type)
		}
		if v.Reason != nil {
			o.Reason = *v.Reason
		}
		if v.Ext != nil {
			o.Ext = make(tax.Extensions)
			for k, x := range v.Ext {
				o.Ext[cbc.Key(k)] = cbc.Code(x)
			}
		}
		o.Stamps = v.Stamps
		if v.Series != nil {
			o.Series = cbc.Code(*v.Series)
		}
		if v.IssueDate != nil {
			d, err := c16ParseDate(*v.IssueDate)
			if err != nil {
				return nil, err
			}
			o.IssueDate = &d
		}
		if v.CopyTax != nil {
			o.CopyTax = *v.CopyTax
		}
		return []schema.Option{bill.WithOptions(o)}, nil
	}
	opts := []schema.Option{}
	if v.Type != nil {
		switch cbc.Key(*v.Type) {
		case bill.InvoiceTypeCorrective:
			opts = append(opts, bill.Corrective)
		case bill.InvoiceTypeCreditNote:
			opts = append(opts, bill.Credit)
		case bill.InvoiceTypeDebitNote:
			opts = append(opts, bill.Debit)
		default:
			k := cbc.Key(*v.Type)
			opts = append(opts, func(o interface{}) { o.(*bill.CorrectionOptions).Type = k })
		}
	}
	if v.Reason != nil {
		opts = append(opts, bill.WithReason(*v.Reason))
	}
	keys := make([]string, 0, len(v.Ext))
	for k := range v.Ext {
		keys = append(keys, k)
	}
	sortStrings(keys)
	for _, k := range keys {
		opts = append(opts, bill.WithExtension(cbc.Key(k), cbc.Code(v.Ext[k])))
	}
	if v.Stamps != nil {
		opts = append(opts, bill.WithStamps(v.Stamps))
	}
	if v.Series != nil {
		opts = append(opts, bill.WithSeries(cbc.Code(*v.Series)))
	}
	if v.IssueDate != nil {
		d, err := c16ParseDate(*v.IssueDate)
		if err != nil {
			return nil, err
		}
		opts = append(opts, bill.WithIssueDate(d))
	}
	if v.CopyTax != nil && *v.CopyTax {
		opts = append(opts, bill.WithCopyTax())
	}
	return opts, nil
}

func c16ParseDate(s string) (cal.Date, error) {
	var d cal.Date
	err := json.Unmarshal([]byte(`"`+s+`"`), &d)
	return d, err
}

// c16ErrKind maps the refusals of Correct onto the kinds of Correct/Correct.v.
func c16ErrKind(err error) string {
	if err == nil {
		return "ok"
	}
	m := err.Error()
	switch {
	case strings.Contains(m, "missing correction type"):
		return "missing-type"
	case strings.Contains(m, "failed to unmarshal correction options"):
		return "bad-data"
	case strings.Contains(m, "cannot correct an invoice without a code"):
		return "no-code"
	case strings.Contains(m, "missing stamp"):
		return "missing-stamp"
	case strings.Contains(m, "invalid correction type"):
		return "invalid-type"
	case strings.Contains(m, "missing corrective reason"):
		return "missing-reason"
	}
	return "other:" + c08ErrKind(err)
}

// ---- reflection: addresses reachable from a value, scribbling over every settable leaf ----

type addrSet map[uintptr]string

func walkAddrs(v reflect.Value, path string, seen addrSet) {
	switch v.Kind() {
	case reflect.Ptr:
		if v.IsNil() {
			return
		}
		p := v.Pointer()
		if _, ok := seen[p]; ok {
			return
		}
		seen[p] = path
		walkAddrs(v.Elem(), path, seen)
	case reflect.Interface:
		if !v.IsNil() {
			walkAddrs(v.Elem(), path, seen)
		}
	case reflect.Struct:
		for i := 0; i < v.NumField(); i++ {
			f := v.Type().Field(i)
			name := f.Name
			if tag := strings.Split(f.Tag.Get("json"), ",")[0]; tag != "" && tag != "-" {
				name = tag
			}
			walkAddrs(v.Field(i), path+"."+name, seen)
		}
	case reflect.Slice:
		if v.IsNil() || v.Len() == 0 {
			return
		}
		p := v.Pointer()
		if _, ok := seen[p]; !ok {
			seen[p] = path + "[]"
		}
		for i := 0; i < v.Len(); i++ {
			walkAddrs(v.Index(i), fmt.Sprintf("%s[%d]", path, i), seen)
		}
	case reflect.Array:
		for i := 0; i < v.Len(); i++ {
			walkAddrs(v.Index(i), fmt.Sprintf("%s[%d]", path, i), seen)
		}
	case reflect.Map:
		if v.IsNil() {
			return
		}
		p := v.Pointer()
		if _, ok := seen[p]; ok {
			return
		}
		seen[p] = path + "{}"
		it := v.MapRange()
		for it.Next() {
			walkAddrs(it.Value(), fmt.Sprintf("%s{%v}", path, it.Key()), seen)
		}
	}
}

func envAddrs(e *gobl.Envelope) addrSet {
	s := addrSet{}
	walkAddrs(reflect.ValueOf(e), "env", s)
	if e.Document != nil {
		walkAddrs(reflect.ValueOf(e.Document.Instance()), "env.doc", s)
	}
	return s
}

var globalAddrs = sync.OnceValue(func() addrSet {
	s := addrSet{}
	walkAddrs(reflect.ValueOf(tax.AllRegimeDefs()), "regimes", s)
	walkAddrs(reflect.ValueOf(tax.AllAddonDefs()), "addons", s)
	walkAddrs(reflect.ValueOf(bill.InvoiceTypes), "bill.InvoiceTypes", s)
	return s
})

var (
	amountT  = reflect.TypeOf(num.Amount{})
	percentT = reflect.TypeOf(num.Percentage{})
)

// scribble overwrites every settable leaf reachable from v, skipping objects that belong to the
// global definitions (counted in *global).
func scribble(v reflect.Value, seen map[uintptr]bool, global *int) {
	switch v.Kind() {
	case reflect.Ptr:
		if v.IsNil() {
			return
		}
		p := v.Pointer()
		if seen[p] {
			return
		}
		seen[p] = true
		if _, g := globalAddrs()[p]; g {
			*global++
			return
		}
		scribble(v.Elem(), seen, global)
	case reflect.Interface:
		if !v.IsNil() {
			scribble(v.Elem(), seen, global)
		}
	case reflect.Struct:
		if v.CanSet() && v.Type() == amountT {
			v.Set(reflect.ValueOf(num.MakeAmount(7, 0)))
			return
		}
		if v.CanSet() && v.Type() == percentT {
			v.Set(reflect.ValueOf(num.MakePercentage(7, 2)))
			return
		}
		for i := 0; i < v.NumField(); i++ {
			scribble(v.Field(i), seen, global)
		}
	case reflect.Slice:
		if v.IsNil() || v.Len() == 0 {
			return
		}
		if _, g := globalAddrs()[v.Pointer()]; g {
			*global++
			return
		}
		for i := 0; i < v.Len(); i++ {
			scribble(v.Index(i), seen, global)
		}
	case reflect.Array:
		for i := 0; i < v.Len(); i++ {
			scribble(v.Index(i), seen, global)
		}
	case reflect.Map:
		if v.IsNil() {
			return
		}
		p := v.Pointer()
		if seen[p] {
			return
		}
		seen[p] = true
		if _, g := globalAddrs()[p]; g {
			*global++
			return
		}
		for _, k := range v.MapKeys() {
			el := v.MapIndex(k)
			switch el.Kind() {
			case reflect.String:
				if v.CanInterface() { // not reached through an unexported field
					v.SetMapIndex(k, reflect.ValueOf("X").Convert(el.Type()))
				}
			case reflect.Ptr, reflect.Map, reflect.Slice, reflect.Interface:
				scribble(el, seen, global)
			}
		}
	case reflect.String:
		if v.CanSet() {
			v.SetString("X")
		}
	case reflect.Bool:
		if v.CanSet() {
			v.SetBool(!v.Bool())
		}
	case reflect.Int, reflect.Int8, reflect.Int16, reflect.Int32, reflect.Int64:
		if v.CanSet() {
			v.SetInt(7)
		}
	case reflect.Uint, reflect.Uint8, reflect.Uint16, reflect.Uint32, reflect.Uint64:
		if v.CanSet() {
			v.SetUint(7)
		}
	}
}

func c16Observe(src *gobl.Envelope, call func() (*gobl.Envelope, error)) []V {
	b0, _ := json.Marshal(src)
	t0 := cal.Today().String()
	res, err := call()
	t1 := cal.Today().String()
	b1, _ := json.Marshal(src)
	verdict := c16ErrKind(err)
	same01 := string(b0) == string(b1)
	var resJSON []byte
	same02 := same01
	aliases := []V{}
	global := 0
	validates := "-"
	b2 := b1
	if err == nil && res != nil {
		resJSON, _ = json.Marshal(res)
		c08guard(&validates, func() { validates = c08ErrKind(res.Validate()) })
		sa, ra := envAddrs(src), envAddrs(res)
		for p, rp := range ra {
			if sp, ok := sa[p]; ok {
				if _, g := globalAddrs()[p]; !g {
					aliases = append(aliases, VL(VS(rp), VS(sp)))
				}
			}
		}
		seen := map[uintptr]bool{}
		if res.Document != nil { // the payload first: through the envelope it is behind an unexported field
			scribble(reflect.ValueOf(res.Document.Instance()), seen, &global)
		}
		scribble(reflect.ValueOf(res), seen, &global)
		b2, _ = json.Marshal(src)
		same02 = string(b0) == string(b2)
	}
	out := []V{VS(verdict), VB(same01), VB(same02), VBytes(resJSON), VS(t0), VS(t1),
		V{Kind: 'l', L: aliases}, VI(int64(global)), VS(validates)}
	if !same01 || !same02 {
		out = append(out, VBytes(b0), VBytes(b1), VBytes(b2))
	}
	return out
}

func init() {
	register("c16", func(a []V) []V {
		switch a[0].Str() {
		case "prepare":
			src, err := c16Source(a[1].S, a[2].S)
			if err != nil {
				return []V{VErr("source")}
			}
			out, _ := json.Marshal(src)
			return []V{VS("ok"), VBytes(out)}
		case "correct":
			src, err := c16Source(a[1].S, a[2].S)
			if err != nil {
				return []V{VErr("source")}
			}
			var c c16Call
			if err := json.Unmarshal(a[3].S, &c); err != nil {
				return []V{VErr("call")}
			}
			opts, err := c16Options(&c)
			if err != nil {
				return []V{VErr("call")}
			}
			return c16Observe(src, func() (*gobl.Envelope, error) { return src.Correct(opts...) })
		case "replicate":
			src, err := c16Source(a[1].S, a[2].S)
			if err != nil {
				return []V{VErr("source")}
			}
			return c16Observe(src, func() (*gobl.Envelope, error) { return src.Replicate() })
		}
		return []V{VErr("unknown-c16-op")}
	})
}
