module verifharness

go 1.23.0

require github.com/invopop/gobl v0.0.0

require (
	cloud.google.com/go v0.110.2 // indirect
	github.com/Masterminds/semver/v3 v3.2.1 // indirect
	github.com/asaskevich/govalidator v0.0.0-20230301143203-a9d515a09cc2 // indirect
	github.com/bahlo/generic-list-go v0.2.0 // indirect
	github.com/buger/jsonparser v1.1.1 // indirect
	github.com/go-jose/go-jose/v4 v4.0.5 // indirect
	github.com/google/uuid v1.6.0 // indirect
	github.com/invopop/jsonschema v0.12.0 // indirect
	github.com/invopop/validation v0.7.0 // indirect
	github.com/invopop/yaml v0.3.1 // indirect
	github.com/mailru/easyjson v0.7.7 // indirect
	github.com/wk8/go-ordered-map/v2 v2.1.8 // indirect
	golang.org/x/crypto v0.36.0 // indirect
	gopkg.in/yaml.v3 v3.0.1 // indirect
)

replace github.com/invopop/gobl => /repo
