package main

// C19 - implementation side.
//
// `vharness c19gen <repo>`:
//   (a) copies <repo> (without .git) to a scratch directory under the system temp dir (outside the
//       repository and the framework), dates every file under data/ to 2000-01-01, runs the
//       repository's own generators there (the go:generate lines of gobl.go), byte-compares every
//       file under data/ and currency/codes.go with <repo>, lists the files that differ, the files the
//       generators wrote that <repo> does not ship, and the shipped files NO generator produced;
//       the scratch copy is removed on every path (defer + signal handler).
//   (b) runs RegimeDef.Validate() / AddonDef.Validate() and time.LoadLocation on every registered
//       definition of the LINKED repository (the one vharness was built against).
//   Prints one JSON report on stdout. Exit status 0 when the machinery worked (whatever it found).
//
// `vharness c19dump`: every registered regime/addon/catalogue as the JSON the generators would write:
//   {"regimes": {"<file>": {...}}, "addons": {...}, "catalogues": {...}}.

import (
	"bytes"
	"encoding/json"
	"fmt"
	"io"
	"io/fs"
	"os"
	"os/exec"
	"os/signal"
	"path/filepath"
	"sort"
	"strings"
	"syscall"
	"time"

	gobl "github.com/invopop/gobl"
	"github.com/invopop/gobl/bill"
	"github.com/invopop/gobl/schema"
	"github.com/invopop/gobl/tax"
)

type c19Report struct {
	Generators    map[string]string `json:"generators"`      // generator -> "ok" or error text
	Differing     []string          `json:"differing"`       // shipped file != regenerated file
	NotShipped    []string          `json:"not_shipped"`     // regenerated file that <repo> lacks
	NotGenerated  []string          `json:"not_generated"`   // shipped file under data/ no generator wrote
	SourceInputs  []string          `json:"source_inputs"`   // of those: hand-maintained generator INPUTS (data/currency/*)
	Compared      int               `json:"compared"`        // files byte-compared
	Validate      []c19Invalid      `json:"validate"`        // failing Validate()/LoadLocation
	Validated     int               `json:"validated"`       // definitions validated
	ScratchGone   bool              `json:"scratch_removed"` // the scratch copy was deleted
	ScratchParent string            `json:"scratch_parent"`
}

type c19Invalid struct {
	Kind  string `json:"kind"`
	Name  string `json:"name"`
	What  string `json:"what"`
	Error string `json:"error"`
}

var c19Generators = []string{"./schema/generate.go", "./regimes/generate.go", "./addons/generate.go", "./catalogues/generate.go", "./currency/generate.go"}

func c19CopyTree(src, dst string) error {
	return filepath.WalkDir(src, func(p string, d fs.DirEntry, err error) error {
		if err != nil {
			return err
		}
		rel, _ := filepath.Rel(src, p)
		if rel == ".git" || strings.HasPrefix(rel, ".git"+string(filepath.Separator)) {
			if d.IsDir() {
				return filepath.SkipDir
			}
			return nil
		}
		to := filepath.Join(dst, rel)
		if d.IsDir() {
			return os.MkdirAll(to, 0o755)
		}
		if !d.Type().IsRegular() {
			return nil
		}
		in, err := os.Open(p)
		if err != nil {
			return err
		}
		defer in.Close()
		out, err := os.Create(to)
		if err != nil {
			return err
		}
		if _, err := io.Copy(out, in); err != nil {
			out.Close()
			return err
		}
		return out.Close()
	})
}

func c19Files(root, sub string) (map[string]bool, error) {
	out := map[string]bool{}
	err := filepath.WalkDir(filepath.Join(root, sub), func(p string, d fs.DirEntry, err error) error {
		if err != nil {
			return err
		}
		if d.Type().IsRegular() {
			rel, _ := filepath.Rel(root, p)
			out[filepath.ToSlash(rel)] = true
		}
		return nil
	})
	return out, err
}

func c19Gen(repo string) (rep c19Report, err error) {
	rep.Generators = map[string]string{}
	repo, err = filepath.Abs(repo)
	if err != nil {
		return rep, err
	}
	parent := os.TempDir()
	rep.ScratchParent = parent
	scratch, err := os.MkdirTemp(parent, "c19gen-")
	if err != nil {
		return rep, err
	}
	cleanup := func() { os.RemoveAll(scratch) }
	sig := make(chan os.Signal, 1)
	signal.Notify(sig, syscall.SIGINT, syscall.SIGTERM, syscall.SIGHUP)
	go func() {
		<-sig
		cleanup()
		os.Exit(130)
	}()
	defer func() {
		cleanup()
		_, e := os.Stat(scratch)
		rep.ScratchGone = os.IsNotExist(e)
	}()
	for _, bad := range []string{repo} {
		if strings.HasPrefix(scratch+"/", bad+"/") {
			return rep, fmt.Errorf("scratch directory %s is inside %s", scratch, bad)
		}
	}
	if err = c19CopyTree(repo, scratch); err != nil {
		return rep, fmt.Errorf("copy: %w", err)
	}
	old := time.Date(2000, 1, 1, 0, 0, 0, 0, time.UTC)
	before, err := c19Files(scratch, "data")
	if err != nil {
		return rep, err
	}
	for f := range before {
		if err = os.Chtimes(filepath.Join(scratch, f), old, old); err != nil {
			return rep, err
		}
	}
	os.Chtimes(filepath.Join(scratch, "currency", "codes.go"), old, old)
	for _, g := range c19Generators {
		cmd := exec.Command("go", "run", "-trimpath", g)
		cmd.Dir = scratch
		cmd.Env = append(os.Environ(), "GOFLAGS=-mod=mod", "GOPROXY=off", "GOSUMDB=off", "GOTOOLCHAIN=local")
		var buf bytes.Buffer
		cmd.Stdout = io.Discard
		cmd.Stderr = &buf
		if e := cmd.Run(); e != nil {
			msg := buf.String()
			if len(msg) > 600 {
				msg = msg[len(msg)-600:]
			}
			rep.Generators[g] = "failed: " + e.Error() + ": " + msg
		} else {
			rep.Generators[g] = "ok"
		}
	}
	after, err := c19Files(scratch, "data")
	if err != nil {
		return rep, err
	}
	shipped, err := c19Files(repo, "data")
	if err != nil {
		return rep, err
	}
	limit := time.Date(2001, 1, 1, 0, 0, 0, 0, time.UTC)
	names := map[string]bool{"currency/codes.go": true}
	for f := range after {
		names[f] = true
	}
	for f := range shipped {
		names[f] = true
	}
	var all []string
	for f := range names {
		all = append(all, f)
	}
	sort.Strings(all)
	for _, f := range all {
		a, ea := os.ReadFile(filepath.Join(scratch, f))
		b, eb := os.ReadFile(filepath.Join(repo, f))
		st, es := os.Stat(filepath.Join(scratch, f))
		generated := es == nil && st.ModTime().After(limit)
		switch {
		case ea == nil && eb != nil:
			rep.NotShipped = append(rep.NotShipped, f)
		case ea != nil && eb == nil:
			// removed by a generator (schema/generate.go deletes its directory first) and not written again
			rep.NotGenerated = append(rep.NotGenerated, f)
		case ea == nil && eb == nil:
			rep.Compared++
			if !bytes.Equal(a, b) {
				rep.Differing = append(rep.Differing, f)
			}
			if !generated {
				if strings.HasPrefix(f, "data/currency/") || f == "data/data.go" {
					rep.SourceInputs = append(rep.SourceInputs, f)
				} else {
					rep.NotGenerated = append(rep.NotGenerated, f)
				}
			}
		}
	}
	return rep, nil
}

func c19ValidateAll(rep *c19Report) {
	bad := func(kind, name, what string, err error) {
		rep.Validate = append(rep.Validate, c19Invalid{kind, name, what, err.Error()})
	}
	guard := func(kind, name, what string, f func() error) {
		defer func() {
			if r := recover(); r != nil {
				bad(kind, name, what, fmt.Errorf("panic: %v", r))
			}
		}()
		if err := f(); err != nil {
			bad(kind, name, what, err)
		}
	}
	for _, r := range tax.AllRegimeDefs() {
		r := r
		n := strings.ToLower(string(r.Country))
		rep.Validated++
		guard("regimes", n, "RegimeDef.Validate", func() error { return r.Validate() })
		guard("regimes", n, "time.LoadLocation", func() error { _, err := time.LoadLocation(r.TimeZone); return err })
		guard("regimes", n, "currency", func() error {
			if r.CurrencyDef() == nil {
				return fmt.Errorf("currency %q has no definition", r.Currency)
			}
			return nil
		})
	}
	for _, a := range tax.AllAddonDefs() {
		a := a
		rep.Validated++
		guard("addons", string(a.Key), "AddonDef.Validate", func() error { return a.Validate() })
	}
}

func c19Use(repo string) {
	files, _ := filepath.Glob(filepath.Join(repo, "examples", "*", "out", "*.json"))
	for _, f := range files {
		func() {
			defer func() { _ = recover() }()
			data, err := os.ReadFile(f)
			if err != nil {
				return
			}
			env := new(gobl.Envelope)
			if json.Unmarshal(data, env) != nil {
				return
			}
			_ = env.Calculate()
			_ = env.Validate()
			if inv, ok := env.Extract().(*bill.Invoice); ok {
				_, _ = inv.CorrectionOptionsSchema()
				for _, o := range []schema.Option{bill.Credit, bill.Corrective, bill.Debit} {
					_, _ = env.Correct(o, bill.WithReason("r"), bill.WithCopyTax())
				}
			}
			_, _ = env.Replicate()
		}()
	}
}

func c19Marshal(v any) (json.RawMessage, error) {
	doc, err := schema.NewObject(v)
	if err != nil {
		return nil, err
	}
	return json.MarshalIndent(doc, "", "  ")
}

func init() {
	commands["c19gen"] = func(args []string) int {
		if len(args) < 1 {
			fmt.Fprintln(os.Stderr, "usage: c19gen <repo>")
			return 2
		}
		rep, err := c19Gen(args[0])
		if err != nil {
			fmt.Fprintln(os.Stderr, "c19gen:", err)
			return 1
		}
		c19ValidateAll(&rep)
		b, _ := json.MarshalIndent(rep, "", " ")
		os.Stdout.Write(b)
		return 0
	}
	commands["c19dump"] = func(args []string) int {
		// `c19dump afteruse <repo>`: first put every example envelope of the repository through the library in THIS process
		// (parse, calculate, validate, correction options, correct, replicate), then dump: the definitions a generator run would
		// write after the process has handled documents.
		if len(args) >= 2 && args[0] == "afteruse" {
			c19Use(args[1])
		}
		out := map[string]map[string]json.RawMessage{"regimes": {}, "addons": {}, "catalogues": {}}
		for _, r := range tax.AllRegimeDefs() {
			d, err := c19Marshal(r)
			if err != nil {
				fmt.Fprintln(os.Stderr, err)
				return 1
			}
			n := string(r.Country)
			if r.Zone != "" {
				n = n + "_" + string(r.Zone)
			}
			out["regimes"][strings.ToLower(n)] = d
		}
		for _, a := range tax.AllAddonDefs() {
			d, err := c19Marshal(a)
			if err != nil {
				fmt.Fprintln(os.Stderr, err)
				return 1
			}
			out["addons"][string(a.Key)] = d
		}
		for _, c := range tax.AllCatalogueDefs() {
			d, err := c19Marshal(c)
			if err != nil {
				fmt.Fprintln(os.Stderr, err)
				return 1
			}
			out["catalogues"][string(c.Key)] = d
		}
		b, err := json.Marshal(out)
		if err != nil {
			fmt.Fprintln(os.Stderr, err)
			return 1
		}
		os.Stdout.Write(b)
		return 0
	}
}
