package main

// C14 - structure-aware mutation sweep ("no input crashes the library; failures are structured
// errors").  Whole-program modes:
//
//   vharness c14work <repo> <shard> <nshards> <stride> <offset> <seed> <nrandom> <curfile> [<skip>]
//       enumerates, deterministically, every single-member mutation of every example output
//       document below <repo> (examples/*/out, regimes/*/examples/out, addons/**/examples/out, ...),
//       then <nrandom> random inputs derived from <seed>; processes the inputs whose running
//       number n satisfies n % nshards == shard and (n / nshards) % stride == offset, skipping
//       n <= skip.  Every input runs parse -> calculate -> validate -> digest -> sign -> verify ->
//       correct -> replicate (and c14n on the raw bytes) under recover(), with a wall-clock
//       watchdog.  One JSON line per crash (first few per (stage,function,kind) carry the whole
//       input), per non-structured error, and a final totals line.  Before each input its number
//       is written to <curfile> so that an abort of the process (out of memory, fatal error) is
//       attributed by the caller.
//   vharness c14one <file>     runs the pipeline on one input file, prints the stage results.
//   vharness c14count <repo>   prints the number of mutations per kind.

import (
	"bytes"
	"encoding/json"
	"errors"
	"fmt"
	"math/rand"
	"os"
	"path/filepath"
	"runtime/debug"
	"sort"
	"strconv"
	"strings"
	"sync/atomic"
	"time"

	"github.com/invopop/gobl"
	"github.com/invopop/gobl/bill"
	"github.com/invopop/gobl/c14n"
	"github.com/invopop/gobl/cbc"
	"github.com/invopop/gobl/dsig"
	"github.com/invopop/gobl/head"
	"github.com/invopop/gobl/note"
	"github.com/invopop/gobl/uuid"
)

// ---------------------------------------------------------------------------------------------
// ordered JSON tree
// ---------------------------------------------------------------------------------------------

type jnode struct {
	kind byte // 'o' object, 'a' array, 's' string, 'n' number, 'b' bool, 'z' null
	keys []string
	kids []*jnode
	raw  string // scalars: raw JSON text
}

func parseTree(data []byte) (*jnode, error) {
	dec := json.NewDecoder(bytes.NewReader(data))
	dec.UseNumber()
	n, err := parseNode(dec)
	if err != nil {
		return nil, err
	}
	return n, nil
}

func parseNode(dec *json.Decoder) (*jnode, error) {
	tok, err := dec.Token()
	if err != nil {
		return nil, err
	}
	switch t := tok.(type) {
	case json.Delim:
		switch t {
		case '{':
			n := &jnode{kind: 'o'}
			for dec.More() {
				kt, err := dec.Token()
				if err != nil {
					return nil, err
				}
				k, _ := kt.(string)
				c, err := parseNode(dec)
				if err != nil {
					return nil, err
				}
				n.keys = append(n.keys, k)
				n.kids = append(n.kids, c)
			}
			_, err := dec.Token()
			return n, err
		case '[':
			n := &jnode{kind: 'a'}
			for dec.More() {
				c, err := parseNode(dec)
				if err != nil {
					return nil, err
				}
				n.kids = append(n.kids, c)
			}
			_, err := dec.Token()
			return n, err
		}
		return nil, fmt.Errorf("unexpected delimiter")
	case string:
		b, _ := json.Marshal(t)
		return &jnode{kind: 's', raw: string(b)}, nil
	case json.Number:
		return &jnode{kind: 'n', raw: t.String()}, nil
	case bool:
		if t {
			return &jnode{kind: 'b', raw: "true"}, nil
		}
		return &jnode{kind: 'b', raw: "false"}, nil
	case nil:
		return &jnode{kind: 'z', raw: "null"}, nil
	}
	return nil, fmt.Errorf("unexpected token")
}

type edit struct {
	target *jnode
	op     byte   // 'd' delete, 'r' replace with raw, 'u' duplicate (array element), 'm' set member
	raw    string // replacement text / member value
	key    string // member name for 'm'
}

func render(sb *bytes.Buffer, n *jnode, e *edit) {
	if e != nil && n == e.target && e.op == 'r' {
		sb.WriteString(e.raw)
		return
	}
	switch n.kind {
	case 'o':
		sb.WriteByte('{')
		first := true
		for i, c := range n.kids {
			if e != nil && c == e.target && e.op == 'd' {
				continue
			}
			if e != nil && n == e.target && e.op == 'm' && n.keys[i] == e.key {
				continue
			}
			if !first {
				sb.WriteByte(',')
			}
			first = false
			kb, _ := json.Marshal(n.keys[i])
			sb.Write(kb)
			sb.WriteByte(':')
			render(sb, c, e)
		}
		if e != nil && n == e.target && e.op == 'm' {
			if !first {
				sb.WriteByte(',')
			}
			kb, _ := json.Marshal(e.key)
			sb.Write(kb)
			sb.WriteByte(':')
			sb.WriteString(e.raw)
		}
		sb.WriteByte('}')
	case 'a':
		sb.WriteByte('[')
		first := true
		for _, c := range n.kids {
			if e != nil && c == e.target && e.op == 'd' {
				continue
			}
			if !first {
				sb.WriteByte(',')
			}
			first = false
			render(sb, c, e)
			if e != nil && c == e.target && e.op == 'u' {
				sb.WriteByte(',')
				render(sb, c, nil)
			}
		}
		sb.WriteByte(']')
	default:
		sb.WriteString(n.raw)
	}
}

// ---------------------------------------------------------------------------------------------
// mutation enumeration
// ---------------------------------------------------------------------------------------------

type c14input struct {
	n    int    // running number
	doc  string // example file (relative to the repository) or "random"
	path string // JSON path of the mutated member
	kind string // mutation kind
	data []byte
	light bool  // only the first stages (see runPipelineLight)
}

var deepArr = strings.Repeat("[", 10050) + strings.Repeat("]", 10050)
var deepObj = strings.Repeat(`{"a":`, 300) + "1" + strings.Repeat("}", 300)

const hugeNum = "123456789012345678901234567890.12345678901234567890"

// exampleFiles lists every example output document below the repository, sorted.
func exampleFiles(repo string) []string {
	var res []string
	_ = filepath.Walk(repo, func(p string, info os.FileInfo, err error) error {
		if err != nil {
			return nil
		}
		if info.IsDir() {
			b := filepath.Base(p)
			if b == ".git" || b == "node_modules" || b == "data" {
				return filepath.SkipDir
			}
			return nil
		}
		if strings.HasSuffix(p, ".json") && filepath.Base(filepath.Dir(p)) == "out" &&
			strings.Contains(p, "/examples/") {
			rel, _ := filepath.Rel(repo, p)
			res = append(res, rel)
		}
		return nil
	})
	sort.Strings(res)
	// rich synthetic documents (c14rich.go), when the driver prepared them
	if dir := os.Getenv("C14_EXTRA_DIR"); dir != "" {
		extra, _ := filepath.Glob(filepath.Join(dir, "rich-*.json"))
		sort.Strings(extra)
		for _, f := range extra {
			res = append(res, "rich:"+filepath.Base(f))
		}
	}
	return res
}

// c14ReadExample reads an entry of exampleFiles.
func c14ReadExample(repo, rel string) ([]byte, error) {
	if strings.HasPrefix(rel, "rich:") {
		return os.ReadFile(filepath.Join(os.Getenv("C14_EXTRA_DIR"), rel[5:]))
	}
	return os.ReadFile(filepath.Join(repo, rel))
}

// enumerate calls emit for the unmutated document and then every single-member mutation.
// emit receives a function producing the bytes so that skipped inputs cost nothing.
func enumerate(doc string, root *jnode, emit func(path, kind string, mk func() []byte)) {
	mk := func(e *edit) func() []byte {
		return func() []byte {
			var sb bytes.Buffer
			render(&sb, root, e)
			return sb.Bytes()
		}
	}
	emit("", "original", mk(nil))
	if root.kind == 'o' {
		emit("sigs", "emptysig", mk(&edit{target: root, op: 'm', key: "sigs", raw: `[""]`}))
		emit("sigs", "nullsig", mk(&edit{target: root, op: 'm', key: "sigs", raw: `[null]`}))
		for i, k := range root.keys {
			if k == "head" && root.kids[i].kind == 'o' {
				h := root.kids[i]
				emit("/head/links", "headlinksnull", mk(&edit{target: h, op: 'm', key: "links", raw: `[null]`}))
				emit("/head/links", "headlinksnull2", mk(&edit{target: h, op: 'm', key: "links", raw: `[{"key":"a","url":"https://example.com/a"},null]`}))
				emit("/head/stamps", "headstampsnull", mk(&edit{target: h, op: 'm', key: "stamps", raw: `[null]`}))
				emit("/head/stamps", "headstampsnull2", mk(&edit{target: h, op: 'm', key: "stamps", raw: `[{"prv":"a","val":"b"},null]`}))
			}
		}
	}
	// forged signed payloads: the header a signature carries is attacker-controlled input that is
	// only seen after base64 decoding; sign every single-member mutation of a rich header and
	// attach it to an envelope whose own header is that rich header
	if root.kind == 'o' && !strings.HasPrefix(doc, "forged:") {
		for i, k := range root.keys {
			if k != "head" || root.kids[i].kind != 'o' {
				continue
			}
			rich := c14RichHead(root.kids[i])
			if rich == nil {
				break
			}
			var rb bytes.Buffer
			render(&rb, rich, nil)
			richRaw := rb.String()
			enumerate("forged:"+doc, rich, func(path, kind string, mkh func() []byte) {
				emit("/sigs/0/payload"+path, "forged-"+kind, func() []byte {
					sig, err := dsig.NewSignature(c14key, json.RawMessage(mkh()))
					if err != nil {
						sig, err = dsig.NewSignature(c14key, string(mkh()))
						if err != nil {
							return nil
						}
					}
					var sb bytes.Buffer
					render(&sb, root, &edit{target: root.kids[i], op: 'r', raw: richRaw})
					out := sb.Bytes()
					// replace or add the signature list
					var m map[string]json.RawMessage
					if json.Unmarshal(out, &m) != nil {
						return nil
					}
					m["sigs"] = json.RawMessage(`["` + sig.String() + `"]`)
					out, _ = json.Marshal(m)
					return out
				})
			})
		}
	}
	var walk func(n *jnode, path string, key string, depth int, inAddons bool)
	walk = func(n *jnode, path string, key string, depth int, inAddons bool) {
		if n != root {
			emit(path, "delete", mk(&edit{target: n, op: 'd'}))
			if n.kind != 'z' {
				emit(path, "null", mk(&edit{target: n, op: 'r', raw: "null"}))
			}
			if n.kind != 'n' {
				emit(path, "num", mk(&edit{target: n, op: 'r', raw: "12345"}))
			}
			if n.kind != 's' {
				emit(path, "str", mk(&edit{target: n, op: 'r', raw: `"zz"`}))
			}
			if n.kind != 'a' {
				emit(path, "arr", mk(&edit{target: n, op: 'r', raw: "[]"}))
			}
			if n.kind != 'o' {
				emit(path, "obj", mk(&edit{target: n, op: 'r', raw: "{}"}))
			}
			if depth <= 2 {
				emit(path, "deep", mk(&edit{target: n, op: 'r', raw: deepArr}))
				emit(path, "deepobj", mk(&edit{target: n, op: 'r', raw: deepObj}))
			}
		}
		switch n.kind {
		case 's':
			emit(path, "empty", mk(&edit{target: n, op: 'r', raw: `""`}))
			emit(path, "huge", mk(&edit{target: n, op: 'r', raw: `"` + hugeNum + `"`}))
			switch {
			case key == "currency" || key == "from" || key == "to":
				emit(path, "badcode", mk(&edit{target: n, op: 'r', raw: `"XXQ"`}))
			case key == "country" || key == "$regime":
				emit(path, "badcode", mk(&edit{target: n, op: 'r', raw: `"QQ"`}))
			case inAddons:
				emit(path, "badcode", mk(&edit{target: n, op: 'r', raw: `"zz-unknown-v1"`}))
			}
		case 'n':
			emit(path, "huge", mk(&edit{target: n, op: 'r', raw: "1e400"}))
			emit(path, "empty", mk(&edit{target: n, op: 'r', raw: `""`}))
		case 'a':
			emit(path, "listnull", mk(&edit{target: n, op: 'r', raw: "[null]"}))
			for i, c := range n.kids {
				p := path + "/" + strconv.Itoa(i)
				emit(p, "dup", mk(&edit{target: c, op: 'u'}))
				walk(c, p, key, depth+1, key == "$addons")
			}
		case 'o':
			for i, c := range n.kids {
				walk(c, path+"/"+n.keys[i], n.keys[i], depth+1, false)
			}
		}
	}
	walk(root, "", "", 0, false)
}

// c14RichHead returns a copy of a header object with stamps, links, tags, meta and notes present.
func c14RichHead(h *jnode) *jnode {
	var sb bytes.Buffer
	render(&sb, h, nil)
	var m map[string]json.RawMessage
	if json.Unmarshal(sb.Bytes(), &m) != nil {
		return nil
	}
	add := map[string]string{
		"stamps": `[{"prv":"prv-a","val":"b"},{"prv":"prv-c","val":"d"}]`,
		"links":  `[{"key":"a","url":"https://example.com/a"},{"key":"b","url":"https://example.com/b"}]`,
		"tags":   `["x","y"]`,
		"meta":   `{"a":"b"}`,
		"notes":  `"n"`,
	}
	for k, v := range add {
		if _, ok := m[k]; !ok {
			m[k] = json.RawMessage(v)
		}
	}
	b, _ := json.Marshal(m)
	n, err := parseTree(b)
	if err != nil {
		return nil
	}
	return n
}

// ---------------------------------------------------------------------------------------------
// random inputs
// ---------------------------------------------------------------------------------------------

func randomJSON(r *rand.Rand, depth int) string {
	words := []string{"$schema", "doc", "head", "sigs", "dig", "alg", "val", "uuid", "lines", "i", "quantity",
		"item", "name", "price", "taxes", "cat", "rate", "percent", "supplier", "customer", "tax_id", "country",
		"code", "currency", "type", "series", "issue_date", "$regime", "$addons", "$tags", "totals", "payment",
		"terms", "notes", "key", "text", "discounts", "charges", "amount", "ext", "stamps", "prv", "links", "url"}
	vals := []string{`"https://gobl.org/draft-0/envelope"`, `"https://gobl.org/draft-0/bill/invoice"`,
		`"https://gobl.org/draft-0/note/message"`, `"https://gobl.org/draft-0/org/party"`, `"ES"`, `"EUR"`, `"10.00"`,
		`"21%"`, `"VAT"`, `"standard"`, `"2024-01-01"`, `""`, `"0"`, `"-1"`, `"1e9"`, "0", "1", "-1", "1.5", "1e30",
		"true", "false", "null", `"sha256"`, `"018f6a3c-9f4e-7000-8000-000000000000"`, `"\u0000"`, `"\ud800"`}
	if depth <= 0 || r.Intn(4) == 0 {
		return vals[r.Intn(len(vals))]
	}
	switch r.Intn(3) {
	case 0:
		n := r.Intn(4)
		parts := make([]string, n)
		for i := range parts {
			parts[i] = randomJSON(r, depth-1)
		}
		return "[" + strings.Join(parts, ",") + "]"
	default:
		n := r.Intn(6)
		parts := make([]string, n)
		for i := range parts {
			k, _ := json.Marshal(words[r.Intn(len(words))])
			parts[i] = string(k) + ":" + randomJSON(r, depth-1)
		}
		return "{" + strings.Join(parts, ",") + "}"
	}
}

// randomInput produces the n-th random input of the seed: arbitrary bytes, random JSON with
// gobl-looking keys, YAML-looking text, or a byte-level corruption of an example.
func randomInput(seed int64, n int, samples [][]byte) (string, []byte) {
	r := rand.New(rand.NewSource(seed*1000003 + int64(n)))
	switch r.Intn(5) {
	case 0:
		b := make([]byte, r.Intn(200))
		r.Read(b)
		return "bytes", b
	case 1:
		return "json", []byte(randomJSON(r, 5))
	case 2:
		s := `{"$schema":"https://gobl.org/draft-0/envelope","head":` + randomJSON(r, 3) + `,"doc":` + randomJSON(r, 5)
		if r.Intn(2) == 0 {
			s += `,"sigs":` + randomJSON(r, 2)
		}
		return "envelope", []byte(s + "}")
	case 3:
		lines := []string{"$schema: https://gobl.org/draft-0/bill/invoice", "lines:", "  - i: 1", "    quantity: \"1\"",
			"supplier:", "  name: x", "  tax_id: {country: ES}", "currency: EUR", "- a", "? b", "&x *x", "!!binary AA==", "  : :"}
		var sb strings.Builder
		for i := r.Intn(8); i >= 0; i-- {
			sb.WriteString(lines[r.Intn(len(lines))])
			sb.WriteByte('\n')
		}
		return "yaml", []byte(sb.String())
	default:
		if len(samples) == 0 {
			return "bytes", []byte("{")
		}
		src := samples[r.Intn(len(samples))]
		b := append([]byte(nil), src...)
		for k := 1 + r.Intn(4); k > 0 && len(b) > 0; k-- {
			p := r.Intn(len(b))
			switch r.Intn(4) {
			case 0:
				b[p] = byte(r.Intn(256))
			case 1:
				b = append(b[:p], b[p+1:]...)
			case 2:
				b = b[:p]
			default:
				q := r.Intn(len(b))
				b[p], b[q] = b[q], b[p]
			}
		}
		return "corrupt", b
	}
}

// ---------------------------------------------------------------------------------------------
// the pipeline
// ---------------------------------------------------------------------------------------------

var documentedKeys = map[string]bool{"no-document": true, "validation": true, "calculation": true, "marshal": true,
	"unmarshal": true, "signature": true, "digest": true, "internal": true, "unknown-schema": true}

type stageOut struct {
	Stage  string `json:"stage"`
	Result string `json:"result"` // ok, error, panic, baderr
	Func   string `json:"func,omitempty"`
	Msg    string `json:"msg,omitempty"`
	Key    string `json:"key,omitempty"`
}

var c14key = dsig.NewES256Key()

// checkErr classifies a returned error: "" when it is a *gobl.Error with a documented key that
// serialises, otherwise a description.
func checkErr(err error) (key string, bad string) {
	ge, ok := err.(*gobl.Error)
	if !ok || ge == nil {
		return "", fmt.Sprintf("error of type %T is not a *gobl.Error", err)
	}
	key = ge.Key().String()
	if !documentedKeys[key] {
		return key, "undocumented error key " + key
	}
	b, merr := json.Marshal(ge)
	if merr != nil {
		return key, "error does not serialise: " + merr.Error()
	}
	var back map[string]interface{}
	if json.Unmarshal(b, &back) != nil || back["key"] != key {
		return key, "serialised error is not a JSON object carrying its key"
	}
	_ = ge.Error()
	return key, ""
}

func guard(stage string, outs *[]stageOut, f func() error) (panicked bool) {
	defer func() {
		if r := recover(); r != nil {
			st := string(debug.Stack())
			msg := fmt.Sprint(r)
			if len(msg) > 120 {
				msg = msg[:120]
			}
			*outs = append(*outs, stageOut{Stage: stage, Result: "panic", Func: topRepoFrame(st), Msg: msg})
			panicked = true
		}
	}()
	err := f()
	if err == nil {
		*outs = append(*outs, stageOut{Stage: stage, Result: "ok"})
		return false
	}
	key, bad := checkErr(err)
	if bad != "" {
		*outs = append(*outs, stageOut{Stage: stage, Result: "baderr", Key: key, Msg: bad})
	} else {
		*outs = append(*outs, stageOut{Stage: stage, Result: "error", Key: key})
	}
	return false
}

func parseEnv(data []byte, outs *[]stageOut, record bool) *gobl.Envelope {
	var env *gobl.Envelope
	var tmp []stageOut
	guard("parse", &tmp, func() error {
		obj, err := gobl.Parse(data)
		if err != nil {
			return err
		}
		if e, ok := obj.(*gobl.Envelope); ok {
			env = e
			return nil
		}
		e, err := gobl.Envelop(obj)
		if err != nil {
			return err
		}
		env = e
		return nil
	})
	if record {
		*outs = append(*outs, tmp...)
	}
	return env
}

// runPipelineLight: parse, validation as parsed, calculation and validation only (the large synthetic documents: the
// later stages cost most of the time and see the same members).
func runPipelineLight(data []byte) []stageOut {
	var outs []stageOut
	guard("validate-raw", &outs, func() error {
		obj, err := gobl.Parse(data)
		if err != nil {
			return nil
		}
		if v, ok := obj.(interface{ Validate() error }); ok {
			_ = v.Validate()
		}
		return nil
	})
	env := parseEnv(data, &outs, true)
	if env == nil {
		return outs
	}
	guard("validate", &outs, func() error { return env.Validate() })
	guard("marshal", &outs, func() error {
		_, err := json.Marshal(env)
		if err != nil {
			return gobl.ErrMarshal.WithCause(err)
		}
		return nil
	})
	return outs
}

func runPipeline(data []byte) []stageOut {
	var outs []stageOut
	// canonical JSON of the raw bytes (c14n/c14n.go is part of the parser surface)
	guard("c14n", &outs, func() error {
		_, err := c14n.CanonicalJSON(bytes.NewReader(data))
		if err != nil {
			return nil // c14n errors are plain errors by design; only a panic matters here
		}
		return nil
	})
	// validation of the document AS PARSED, before any calculation has filled in what is missing
	guard("validate-raw", &outs, func() error {
		obj, err := gobl.Parse(data)
		if err != nil {
			return nil
		}
		if v, ok := obj.(interface{ Validate() error }); ok {
			_ = v.Validate()
		}
		if e, ok := obj.(*gobl.Envelope); ok {
			_ = e.Verify()
			_, _ = e.Digest()
		}
		return nil
	})
	env := parseEnv(data, &outs, true)
	if env == nil {
		return outs
	}
	fresh := func() *gobl.Envelope { return parseEnv(data, &outs, false) }
	step := func(stage string, f func(e *gobl.Envelope) error) {
		if env == nil {
			return
		}
		e := env
		if guard(stage, &outs, func() error { return f(e) }) {
			env = fresh() // a panic may leave the envelope half-updated: continue on a fresh parse
		}
	}
	step("calculate", func(e *gobl.Envelope) error { return e.Calculate() })
	step("validate", func(e *gobl.Envelope) error { return e.Validate() })
	step("marshal", func(e *gobl.Envelope) error {
		_, err := json.Marshal(e)
		if err != nil {
			return gobl.ErrMarshal.WithCause(err)
		}
		return nil
	})
	step("digest", func(e *gobl.Envelope) error { _, err := e.Digest(); return err })
	step("correct", func(e *gobl.Envelope) error {
		_, err := e.Correct(bill.Corrective, bill.WithReason("test"))
		_, err2 := e.Correct(bill.Credit)
		_, err3 := e.CorrectionOptionsSchema()
		if err == nil {
			err = err2
		}
		if err == nil {
			err = err3
		}
		return err
	})
	step("replicate", func(e *gobl.Envelope) error { _, err := e.Replicate(); return err })
	step("verify-unsigned", func(e *gobl.Envelope) error { return e.Verify(c14key.Public()) })
	step("verify-nokeys", func(e *gobl.Envelope) error {
		err := e.Verify()
		for _, s := range e.Signatures {
			_ = e.VerifySignature(s)
			_ = e.VerifySignature(s, c14key.Public())
		}
		return err
	})
	step("sign-nil-key", func(e *gobl.Envelope) error {
		err := e.Sign(nil)
		e.Signatures = nil
		return err
	})
	step("sign", func(e *gobl.Envelope) error { return e.Sign(c14key) })
	step("verify", func(e *gobl.Envelope) error { return e.Verify(c14key.Public()) })
	return outs
}

// ---------------------------------------------------------------------------------------------
// worker
// ---------------------------------------------------------------------------------------------

var c14cur atomic.Value // *c14input being processed
var c14started atomic.Int64

func emitJSON(v interface{}) {
	b, _ := json.Marshal(v)
	os.Stdout.Write(append(b, '\n'))
}

func c14work(args []string) int {
	if len(args) < 8 {
		fmt.Fprintln(os.Stderr, "usage: c14work <repo> <shard> <nshards> <stride> <offset> <seed> <nrandom> <curfile> [<skip>]")
		return 2
	}
	repo := args[0]
	shard, _ := strconv.Atoi(args[1])
	nshards, _ := strconv.Atoi(args[2])
	stride, _ := strconv.Atoi(args[3])
	offset, _ := strconv.Atoi(args[4])
	seed, _ := strconv.ParseInt(args[5], 10, 64)
	nrandom, _ := strconv.Atoi(args[6])
	curfile := args[7]
	skip := -1
	if len(args) > 8 {
		skip, _ = strconv.Atoi(args[8])
	}
	richStride := 1
	if v := os.Getenv("C14_RICH_STRIDE"); v != "" {
		if k, err := strconv.Atoi(v); err == nil && k > 0 {
			richStride = k
		}
	}
	richBaseStride := 1
	if v := os.Getenv("C14_RICH_BASE_STRIDE"); v != "" {
		if k, err := strconv.Atoi(v); err == nil && k > 0 {
			richBaseStride = k
		}
	}
	limit := 20 * time.Second
	if v := os.Getenv("C14_INPUT_TIMEOUT_MS"); v != "" {
		ms, _ := strconv.Atoi(v)
		limit = time.Duration(ms) * time.Millisecond
	}
	// watchdog: an input running longer than the limit is reported and the worker stops
	go func() {
		for {
			time.Sleep(200 * time.Millisecond)
			st := c14started.Load()
			if st != 0 && time.Since(time.Unix(0, st)) > limit {
				in := c14cur.Load().(*c14input)
				emitJSON(map[string]interface{}{"type": "hang", "n": in.n, "doc": in.doc, "path": in.path, "kind": in.kind,
					"data": string(in.data), "hex": fmt.Sprintf("%x", in.data), "limit_ms": limit.Milliseconds()})
				os.Exit(3)
			}
		}
	}()
	type group struct {
		Count int `json:"count"`
	}
	groups := map[string]*group{}
	stageTotals := map[string]map[string]int{}
	kinds := map[string]int{}
	processed := 0
	cf, _ := os.OpenFile(curfile, os.O_CREATE|os.O_WRONLY, 0o644)
	process := func(in *c14input) {
		if cf != nil {
			_, _ = cf.WriteAt([]byte(fmt.Sprintf("%-12d", in.n)), 0)
		}
		c14cur.Store(in)
		c14started.Store(time.Now().UnixNano())
		var outs []stageOut
		if in.light {
			outs = runPipelineLight(in.data)
		} else {
			outs = runPipeline(in.data)
		}
		c14started.Store(0)
		processed++
		kinds[in.kind]++
		for _, o := range outs {
			m := stageTotals[o.Stage]
			if m == nil {
				m = map[string]int{}
				stageTotals[o.Stage] = m
			}
			m[o.Result]++
			if o.Result == "panic" || o.Result == "baderr" {
				gk := o.Result + "|" + o.Stage + "|" + o.Func + "|" + in.kind + "|" + o.Key + "|" + genPath(in)
				g := groups[gk]
				if g == nil {
					g = &group{}
					groups[gk] = g
				}
				g.Count++
				rec := map[string]interface{}{"type": o.Result, "n": in.n, "doc": in.doc, "path": in.path, "kind": in.kind,
					"stage": o.Stage, "func": o.Func, "msg": o.Msg, "key": o.Key}
				if g.Count <= 2 {
					rec["data"] = string(in.data)
					if in.doc == "random" {
						rec["hex"] = fmt.Sprintf("%x", in.data)
					}
				}
				if g.Count <= 3 {
					emitJSON(rec)
				}
			}
		}
	}
	n := 0
	want := func() bool {
		n++
		if n <= skip {
			return false
		}
		if n%nshards != shard {
			return false
		}
		return (n/nshards)%stride == offset%stride
	}
	var samples [][]byte
	for _, rel := range exampleFiles(repo) {
		raw, err := c14ReadExample(repo, rel)
		if err != nil {
			continue
		}
		root, err := parseTree(raw)
		if err != nil {
			continue
		}
		if len(samples) < 40 {
			samples = append(samples, raw)
		}
		enumerate(rel, root, func(path, kind string, mk func() []byte) {
			if kind == "original" {
				n++
				if n > skip && n%nshards == shard { // originals are never strided away
					process(&c14input{n: n, doc: rel, path: path, kind: kind, data: mk()})
				}
				return
			}
			if strings.HasPrefix(rel, "rich:") {
				// large synthetic documents: their mutations are sampled by their own stride
				n++
				rs := richBaseStride
				if strings.Contains(rel, "+") {
					rs = richStride // the per-addon variants of the invoice and the order
				}
				// a whole top-level member missing or null is always tried (a validator that assumes its presence)
				top := strings.Count(path, "/") == 1 && (kind == "delete" || kind == "null") && nrandom > 0
				// every member of the four main documents absent or null, at any depth, through the light pipeline
				main4 := !strings.Contains(rel, "+") && (strings.Contains(rel, "bill-invoice") || strings.Contains(rel, "bill-order") ||
					strings.Contains(rel, "bill-delivery.") || strings.Contains(rel, "bill-payment."))
				deep := main4 && (kind == "delete" || kind == "null" || kind == "listnull") && nrandom > 0
				if n > skip && n%nshards == shard {
					if top || (n/nshards)%rs == (offset+int(seed))%rs {
						process(&c14input{n: n, doc: rel, path: path, kind: kind, data: mk()})
					} else if deep {
						process(&c14input{n: n, doc: rel, path: path, kind: kind, data: mk(), light: true})
					}
				}
				return
			}
			if want() {
				process(&c14input{n: n, doc: rel, path: path, kind: kind, data: mk()})
			}
		})
	}
	total := n
	for i := 0; i < nrandom; i++ {
		n++
		if n <= skip || n%nshards != shard {
			continue
		}
		kind, data := randomInput(seed, i, samples)
		process(&c14input{n: n, doc: "random", path: strconv.Itoa(i), kind: "random-" + kind, data: data})
	}
	emitJSON(map[string]interface{}{"type": "totals", "shard": shard, "processed": processed, "enumerated": total,
		"random": nrandom, "stages": stageTotals, "kinds": kinds, "groups": groups})
	return 0
}

// genPath replaces array indices by N (and is empty for random inputs) so that crash groups are
// per (stage, function, kind, member class).
func genPath(in *c14input) string {
	if in.doc == "random" {
		return ""
	}
	parts := strings.Split(in.path, "/")
	for i, p := range parts {
		if _, err := strconv.Atoi(p); err == nil && p != "" {
			parts[i] = "N"
		}
	}
	return strings.Join(parts, "/")
}

// c14get <repo> <seed> <nrandom> <n,n,...>: prints the inputs with the given running numbers.
func c14get(args []string) int {
	repo := args[0]
	seed, _ := strconv.ParseInt(args[1], 10, 64)
	nrandom, _ := strconv.Atoi(args[2])
	wantSet := map[int]bool{}
	for _, t := range strings.Split(args[3], ",") {
		v, err := strconv.Atoi(t)
		if err == nil {
			wantSet[v] = true
		}
	}
	n := 0
	var samples [][]byte
	for _, rel := range exampleFiles(repo) {
		raw, err := c14ReadExample(repo, rel)
		if err != nil {
			continue
		}
		root, err := parseTree(raw)
		if err != nil {
			continue
		}
		if len(samples) < 40 {
			samples = append(samples, raw)
		}
		enumerate(rel, root, func(path, kind string, mk func() []byte) {
			n++
			if wantSet[n] {
				emitJSON(map[string]interface{}{"n": n, "doc": rel, "path": path, "kind": kind, "data": string(mk())})
			}
		})
	}
	for i := 0; i < nrandom; i++ {
		n++
		if wantSet[n] {
			kind, data := randomInput(seed, i, samples)
			emitJSON(map[string]interface{}{"n": n, "doc": "random", "path": strconv.Itoa(i), "kind": "random-" + kind,
				"data": string(data), "hex": fmt.Sprintf("%x", data)})
		}
	}
	emitJSON(map[string]interface{}{"total": n})
	return 0
}

// c14files <file>...: each file is a corpus/replay JSON object with a "data" member (or "hex");
// runs the pipeline on it and prints {"file":..., "outs":[...]}.
func c14files(args []string) int {
	for _, f := range args {
		raw, err := os.ReadFile(f)
		if err != nil {
			fmt.Fprintln(os.Stderr, err)
			return 2
		}
		var obj struct {
			Data   string `json:"data"`
			Hex    string `json:"hex"`
			Replay *struct {
				Data string `json:"data"`
				Hex  string `json:"hex"`
			} `json:"replay"`
		}
		if err := json.Unmarshal(raw, &obj); err != nil {
			fmt.Fprintln(os.Stderr, f, err)
			return 2
		}
		if obj.Replay != nil {
			obj.Data, obj.Hex = obj.Replay.Data, obj.Replay.Hex
		}
		data := []byte(obj.Data)
		if obj.Hex != "" {
			data = nil
			fmt.Sscanf(obj.Hex, "%x", &data)
		}
		emitJSON(map[string]interface{}{"file": f, "outs": runPipeline(data)})
	}
	return 0
}

func c14one(args []string) int {
	data, err := os.ReadFile(args[0])
	if err != nil {
		fmt.Fprintln(os.Stderr, err)
		return 2
	}
	for _, o := range runPipeline(data) {
		emitJSON(o)
	}
	return 0
}

func c14count(args []string) int {
	kinds := map[string]int{}
	docs := 0
	for _, rel := range exampleFiles(args[0]) {
		raw, err := c14ReadExample(args[0], rel)
		if err != nil {
			continue
		}
		root, err := parseTree(raw)
		if err != nil {
			continue
		}
		docs++
		enumerate(rel, root, func(path, kind string, mk func() []byte) { kinds[kind]++ })
	}
	emitJSON(map[string]interface{}{"docs": docs, "kinds": kinds})
	return 0
}

var _ = errors.New

func init() {
	commands["c14work"] = c14work
	commands["c14one"] = c14one
	commands["c14count"] = c14count
	commands["c14get"] = c14get
	commands["c14files"] = c14files
}

// ---------------------------------------------------------------------------------------------
// wire handler: the header-validation core on the same cases as the model (Run/RunC14.v)
// ---------------------------------------------------------------------------------------------

func c14Header(args []V) []V {
	if len(args) < 5 {
		return []V{VErr("bad-args")}
	}
	signed := args[0].Int() != 0
	h := &head.Header{}
	if args[1].Int() != 0 {
		h.UUID = uuid.V7()
	}
	if args[2].Int() != 0 {
		h.Digest = &dsig.Digest{Algorithm: "sha256", Value: "0000000000000000000000000000000000000000000000000000000000000000"}
	}
	for _, s := range args[3].L {
		if len(s.L) != 2 {
			h.Stamps = append(h.Stamps, nil)
			continue
		}
		st := &head.Stamp{}
		if s.L[0].Int() != 0 {
			st.Provider = cbc.Key(fmt.Sprintf("p%d", s.L[0].Int()))
		}
		if s.L[1].Int() != 0 {
			st.Value = fmt.Sprintf("v%d", s.L[1].Int())
		}
		h.Stamps = append(h.Stamps, st)
	}
	for _, l := range args[4].L {
		if len(l.L) != 3 {
			h.Links = append(h.Links, nil)
			continue
		}
		ln := &head.Link{}
		if l.L[0].Int() != 0 {
			ln.Key = cbc.Key(fmt.Sprintf("k%d", l.L[0].Int()))
		}
		if l.L[2].Int() != 0 {
			if l.L[1].Int() != 0 {
				ln.URL = fmt.Sprintf("https://example.com/%d", l.L[2].Int())
			} else {
				ln.URL = "::not a url"
			}
		}
		h.Links = append(h.Links, ln)
	}
	if !signed {
		if err := h.Validate(); err != nil {
			return []V{VI(1)}
		}
		return []V{VI(0)}
	}
	// the signed validation context is internal: go through an envelope carrying a signature
	env, err := gobl.Envelop(&note.Message{Title: "t", Content: "c"})
	if err != nil {
		return []V{VErr("envelop")}
	}
	sig, err := c14key.Sign(env.Head)
	if err != nil {
		return []V{VErr("sign")}
	}
	env.Head = h
	env.Signatures = []*dsig.Signature{sig}
	_ = env.Validate()
	return []V{VI(2)}
}

func init() {
	register("c14", func(args []V) []V {
		if len(args) == 0 {
			return []V{VErr("unknown-c14-op")}
		}
		switch args[0].Str() {
		case "header":
			return c14Header(args[1:])
		}
		return []V{VErr("unknown-c14-op")}
	})
}
