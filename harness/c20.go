package main

import (
	"encoding/json"

	"github.com/invopop/gobl"
	"github.com/invopop/gobl/bill"
	"github.com/invopop/gobl/cbc"
	"github.com/invopop/gobl/currency"
	"github.com/invopop/gobl/num"
	"github.com/invopop/gobl/tax"
)

func vnum(a num.Amount) V { return VL(VI(a.Value()), VI(int64(a.Exp()))) }
func vpctBase(p *num.Percentage) V {
	if p == nil {
		return VL()
	}
	return VL(VI(p.Value()), VI(int64(p.Exp())))
}

func extV(e tax.Extensions) V {
	keys := []string{}
	for k := range e {
		keys = append(keys, string(k))
	}
	sortStrings(keys)
	out := []V{}
	for _, k := range keys {
		out = append(out, VL(VS(k), VS(string(e[cbc.Key(k)]))))
	}
	return V{Kind: 'l', L: out}
}

// totalOut projects a *tax.Total onto RunC20.e_tt's layout.
func totalOut(t *tax.Total) []V {
	cats := []V{}
	precise := []V{}
	for _, ct := range t.Categories {
		rates := []V{}
		for _, rt := range ct.Rates {
			sp, sa := VL(), VL()
			if rt.Surcharge != nil {
				sp, sa = vpctBase(&rt.Surcharge.Percent), vnum(rt.Surcharge.Amount)
			}
			rates = append(rates, VL(VS(string(rt.Country)), extV(rt.Ext), vpctBase(rt.Percent), sp, vnum(rt.Base), vnum(rt.Amount), sa))
		}
		sur := VL()
		if ct.Surcharge != nil {
			sur = vnum(*ct.Surcharge)
		}
		cats = append(cats, VL(VS(string(ct.Code)), VB(ct.Retained), V{Kind: 'l', L: rates}, vnum(ct.Amount), sur))
		precise = append(precise, vnum(ct.PreciseAmount()))
	}
	return []V{VS("ok"), V{Kind: 'l', L: cats}, vnum(t.Sum), vnum(t.PreciseSum()), V{Kind: 'l', L: precise}}
}

func operandOf(v V) *tax.Total {
	if v.Kind != 'l' || len(v.L) < 2 {
		return nil
	}
	switch v.L[0].Str() {
	case "doc":
		inv, kind := calcInvoice(v.L[1].S)
		if kind != "" || inv.Totals == nil {
			return nil
		}
		return inv.Totals.Taxes
	case "tt":
		t := new(tax.Total)
		if err := json.Unmarshal(v.L[1].S, t); err != nil {
			return nil
		}
		return t
	case "ctt":
		// ( ctt rule c <json> ): a loaded summary recalculated, as DocumentRef.Calculate does for
		// payment lines; the result carries the unexported precise figures
		if len(v.L) < 4 {
			return nil
		}
		t := new(tax.Total)
		if err := json.Unmarshal(v.L[3].S, t); err != nil {
			return nil
		}
		t.Calculate(curOf(v.L[2].Int()), ruleOf(v.L[1].Int()))
		return t
	}
	return nil
}

func ruleOf(r int64) cbc.Key {
	if r != 0 {
		return tax.RoundingRuleCurrency
	}
	return tax.RoundingRulePrecise
}

func curOf(c int64) currency.Code {
	switch c {
	case 0:
		return currency.JPY
	case 3:
		return currency.KWD
	}
	return currency.EUR
}

func fingerprint(t *tax.Total) string {
	return printVs(totalOut(t))
}

func init() {
	register("c20", func(a []V) []V {
		op := a[0].Str()
		switch op {
		case "negate", "merge", "merge_negate":
			ops := []*tax.Total{}
			before := []string{}
			for _, v := range a[1:] {
				t := operandOf(v)
				if t == nil {
					return []V{VErr("operand")}
				}
				ops = append(ops, t)
				before = append(before, fingerprint(t))
			}
			if len(ops) == 0 {
				return []V{VErr("operand")}
			}
			var res *tax.Total
			switch op {
			case "negate":
				res = ops[0].Negate()
			case "merge_negate":
				res = ops[0].Merge(ops[0].Negate())
			default:
				res = ops[0]
				for _, t := range ops[1:] {
					res = res.Merge(t)
				}
			}
			out := totalOut(res)
			// neither operation may alter its operands ...
			for i, t := range ops {
				if fingerprint(t) != before[i] {
					return []V{VErr("mutated")}
				}
			}
			// ... nor may the result share a row with an operand: recalculating a copy of the result and
			// then the result itself, in place, (Calculate writes through every pointer the summary holds)
			// must leave the operands as they were
			probe := res.Clone()
			probe.Calculate(currency.EUR, tax.RoundingRulePrecise)
			for i, t := range ops {
				if fingerprint(t) != before[i] {
					return []V{VErr("mutated")}
				}
			}
			if op != "merge" || len(ops) > 1 {
				res.Calculate(currency.EUR, tax.RoundingRulePrecise)
				for i, t := range ops {
					if fingerprint(t) != before[i] {
						return []V{VErr("shared")}
					}
				}
			}
			return out
		case "calc":
			t := operandOf(a[3])
			if t == nil {
				return []V{VErr("operand")}
			}
			t.Calculate(curOf(a[2].Int()), ruleOf(a[1].Int()))
			return totalOut(t)
		case "pay":
			obj, err := gobl.Parse(a[1].S)
			if err != nil {
				return []V{VErr("parse")}
			}
			env, err := gobl.Envelop(obj)
			if err != nil {
				return []V{VErr("calc")}
			}
			pmt, ok := env.Extract().(*bill.Payment)
			if !ok {
				return []V{VErr("not-payment")}
			}
			lines := []V{}
			for _, l := range pmt.Lines {
				lines = append(lines, vnum(l.Total))
			}
			tx := VL()
			if pmt.Tax != nil {
				tx = V{Kind: 'l', L: totalOut(pmt.Tax)}
			}
			return []V{VS("ok"), V{Kind: 'l', L: lines}, vnum(pmt.Total), tx}
		}
		return []V{VErr("unknown-c20-op")}
	})
}
