package main

// Shared by the calculation properties (C01, C02, C03, C04, C17): runs a document given as JSON
// text through the public entry points (gobl.Parse -> gobl.Envelop -> json.Marshal) and projects
// the serialised result onto the figures the model computes, in the wire layout of
// rocq/Run/RunCalc.v (e_result).

import (
	"encoding/json"
	"strings"

	"github.com/invopop/gobl"
)

type jmap = map[string]interface{}

// textAmount parses "-12.340" into ( -12340 3 ) without using the num package.
func textAmount(s string) V {
	neg := strings.HasPrefix(s, "-")
	s = strings.TrimPrefix(s, "-")
	e := 0
	if i := strings.IndexByte(s, '.'); i >= 0 {
		e = len(s) - i - 1
		s = s[:i] + s[i+1:]
	}
	s = strings.TrimLeft(s, "0")
	if s == "" {
		s = "0"
	}
	v := atom(s)
	if v.Kind != 'i' {
		return VL(VS("bad-amount-text"))
	}
	if neg {
		v.I.Neg(v.I)
	}
	return VL(v, VI(int64(e)))
}

// textPercent parses "21.0%" into the underlying amount ( 210 3 ).
func textPercent(s string) V {
	if strings.HasSuffix(s, "%") {
		a := textAmount(strings.TrimSuffix(s, "%"))
		return VL(a.L[0], VI(a.L[1].Int()+2))
	}
	return textAmount(s)
}

func jAmt(m jmap, k string) V {
	if s, ok := m[k].(string); ok {
		return textAmount(s)
	}
	return VL()
}
func jPct(m jmap, k string) V {
	if s, ok := m[k].(string); ok {
		return textPercent(s)
	}
	return VL()
}
func jList(m jmap, k string) []interface{} {
	l, _ := m[k].([]interface{})
	return l
}
func jMap(m jmap, k string) jmap {
	x, _ := m[k].(jmap)
	return x
}
func amountsOf(l []interface{}, k string) V {
	out := []V{}
	for _, x := range l {
		out = append(out, jAmt(x.(jmap), k))
	}
	return V{Kind: 'l', L: out}
}

func lineOut(l jmap) V {
	item := jMap(l, "item")
	subs := []V{}
	for _, s := range jList(l, "breakdown") {
		subs = append(subs, VL(jAmt(s.(jmap), "sum"), jAmt(s.(jmap), "total")))
	}
	return VL(jAmt(item, "price"), jAmt(l, "sum"), jAmt(l, "total"),
		amountsOf(jList(l, "discounts"), "amount"), amountsOf(jList(l, "charges"), "amount"),
		V{Kind: 'l', L: subs})
}

func extOut(m jmap) V {
	ext := jMap(m, "ext")
	keys := make([]string, 0, len(ext))
	for k := range ext {
		keys = append(keys, k)
	}
	sortStrings(keys)
	out := []V{}
	for _, k := range keys {
		s, _ := ext[k].(string)
		out = append(out, VL(VS(k), VS(s)))
	}
	return V{Kind: 'l', L: out}
}

func sortStrings(a []string) {
	for i := 1; i < len(a); i++ {
		for j := i; j > 0 && a[j] < a[j-1]; j-- {
			a[j], a[j-1] = a[j-1], a[j]
		}
	}
}

func taxesOut(t jmap) (V, V) {
	if t == nil {
		return VL(), VL()
	}
	cats := []V{}
	for _, c := range jList(t, "categories") {
		cm := c.(jmap)
		rates := []V{}
		for _, r := range jList(cm, "rates") {
			rm := r.(jmap)
			country, _ := rm["country"].(string)
			sur := jMap(rm, "surcharge")
			surPct, surAmt := VL(), VL()
			if sur != nil {
				surPct, surAmt = jPct(sur, "percent"), jAmt(sur, "amount")
			}
			rates = append(rates, VL(VS(country), extOut(rm), jPct(rm, "percent"), surPct, jAmt(rm, "base"), jAmt(rm, "amount"), surAmt))
		}
		code, _ := cm["code"].(string)
		ret, _ := cm["retained"].(bool)
		cats = append(cats, VL(VS(code), VB(ret), V{Kind: 'l', L: rates}, jAmt(cm, "amount"), jAmt(cm, "surcharge")))
	}
	return V{Kind: 'l', L: cats}, jAmt(t, "sum")
}

// projectDoc maps a serialised calculated document onto e_result's layout.
// resolvedCombos lists, for every line, document discount and document charge (in that order), the
// percentage and surcharge the library put on each tax combo (the rate-key resolution is C12's subject;
// the calculation properties take it as given).
func resolvedCombos(doc jmap) V {
	rows := []V{}
	for _, k := range []string{"lines", "discounts", "charges"} {
		for _, r := range jList(doc, k) {
			combos := []V{}
			for _, c := range jList(r.(jmap), "taxes") {
				cm := c.(jmap)
				combos = append(combos, VL(jPct(cm, "percent"), jPct(cm, "surcharge")))
			}
			rows = append(rows, V{Kind: 'l', L: combos})
		}
	}
	return V{Kind: 'l', L: rows}
}

func projectDoc(doc jmap) []V {
	out := projectDocCore(doc)
	return append(out, resolvedCombos(doc))
}

func projectDocCore(doc jmap) []V {
	lines := []V{}
	for _, l := range jList(doc, "lines") {
		lines = append(lines, lineOut(l.(jmap)))
	}
	t := jMap(doc, "totals")
	if t == nil {
		return []V{VS("nototals"), V{Kind: 'l', L: lines}}
	}
	pay := jMap(doc, "payment")
	advRows, dues := VL(), VL()
	if pay != nil {
		advRows = amountsOf(jList(pay, "advances"), "amount")
		if terms := jMap(pay, "terms"); terms != nil {
			dues = amountsOf(jList(terms, "due_dates"), "amount")
		}
	}
	cats, taxsum := taxesOut(jMap(t, "taxes"))
	return []V{VS("ok"), VL(V{Kind: 'l', L: lines}, jAmt(t, "sum"), jAmt(t, "discount"), jAmt(t, "charge"),
		jAmt(t, "tax_included"), jAmt(t, "total"), jAmt(t, "tax"), jAmt(t, "total_with_tax"), jAmt(t, "payable"),
		jAmt(t, "advance"), jAmt(t, "due"), amountsOf(jList(doc, "discounts"), "amount"),
		amountsOf(jList(doc, "charges"), "amount"), advRows, dues, cats, taxsum, jAmt(t, "rounding"))}
}

// calcJSON: JSON text of a document -> (serialised calculated document, error kind)
func calcJSON(data []byte) (jmap, []byte, string) {
	obj, err := gobl.Parse(data)
	if err != nil {
		return nil, nil, "parse"
	}
	env, err := gobl.Envelop(obj)
	if err != nil {
		return nil, nil, "calc"
	}
	out, err := json.Marshal(env.Document)
	if err != nil {
		return nil, nil, "marshal"
	}
	var m jmap
	if err := json.Unmarshal(out, &m); err != nil {
		return nil, nil, "remarshal"
	}
	return m, out, ""
}

func init() {
	register("c01", func(a []V) []V {
		switch a[0].Str() {
		case "calc":
			m, _, kind := calcJSON(a[1].S)
			if kind != "" {
				return []V{VErr(kind)}
			}
			return projectDoc(m)
		case "calcjson":
			// the whole serialised calculated document: what `gobl build` writes and what a later build,
			// correction or edit-and-rebuild receives as its input
			_, out, kind := calcJSON(a[1].S)
			if kind != "" {
				return []V{VErr(kind)}
			}
			return []V{VS("ok"), V{Kind: 's', S: out}}
		case "calc2":
			// Parse, Envelop (first calculation), Envelope.Calculate again on the same in-memory document
			// (no JSON round trip in between), projected like "calc"
			obj, err := gobl.Parse(a[1].S)
			if err != nil {
				return []V{VErr("parse")}
			}
			env, err := gobl.Envelop(obj)
			if err != nil {
				return []V{VErr("calc")}
			}
			if err := env.Calculate(); err != nil {
				return []V{VErr("recalc")}
			}
			out, err := json.Marshal(env.Document)
			if err != nil {
				return []V{VErr("marshal")}
			}
			var m jmap
			if err := json.Unmarshal(out, &m); err != nil {
				return []V{VErr("remarshal")}
			}
			return projectDoc(m)
		}
		return []V{VErr("unknown-c01-op")}
	})
}
