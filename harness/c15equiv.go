package main

// C15 - result equivalence under history: the calculated document must not depend on which documents
// the process handled before it, nor on documents being handled at the same time.
//
//	vharness c15equiv <repo> <seed> <nrand> fwd|rev|par|doc:<workload name>|dump:<fwd|rev|par>:<workload name>
//
// builds one fixed list of workloads (every example, a synthetic invoice per regime and per
// regime+addon, EVERY ordered pair of addons on the pair's home regimes, seeded random pairs), runs
// parse -> calculate -> marshal on each in the given order (fwd / rev = the seeded shuffle and its
// reverse; par = 16 goroutines) and prints `<name>\t<sha256 of the calculated document | error class>`.
// The driver compares the three listings: for any polluter P and victim V one of fwd / rev runs V
// before P, so a persistent change of hidden shared state (package-level maps, definitions) made by
// P and visible in V's result shows as a difference.

import (
	"crypto/sha256"
	"encoding/hex"
	"encoding/json"
	"fmt"
	"math/rand"
	"os"
	"path/filepath"
	"regexp"
	"sort"
	"strconv"
	"strings"
	"sync"

	"github.com/invopop/gobl"
	"github.com/invopop/gobl/tax"

	"verifharness/c15docs"
)

func c15EquivWorkloads(repo string, seed int64, nrand int) []*snapWorkload {
	var ws []*snapWorkload
	for _, rel := range exampleFiles(repo) {
		raw, err := os.ReadFile(filepath.Join(repo, rel))
		if err != nil {
			continue
		}
		ws = append(ws, &snapWorkload{Name: "example:" + rel, Doc: rel, data: raw})
	}
	regs := tax.AllRegimeDefs()
	byCountry := map[string]*tax.RegimeDef{}
	for _, r := range regs {
		byCountry[r.Country.String()] = r
	}
	var addonKeys []string
	for _, a := range tax.AllAddonDefs() {
		addonKeys = append(addonKeys, a.Key.String())
	}
	sort.Strings(addonKeys)
	home := func(a string) []string {
		p := strings.ToUpper(strings.SplitN(a, "-", 2)[0])
		if p == "GR" {
			p = "EL"
		}
		if _, ok := byCountry[p]; ok {
			return []string{p}
		}
		return []string{"DE", "ES"} // supranational addons (eu-...): two ordinary regimes
	}
	add := func(cc string, addons []string) {
		r := byCountry[cc]
		if r == nil {
			return
		}
		ws = append(ws, &snapWorkload{Name: "synthetic:" + cc + "+" + strings.Join(addons, "+"), Regime: cc, Addons: addons,
			Doc: "synthetic", data: syntheticInvoice(r, addons)})
	}
	for _, r := range regs {
		add(r.Country.String(), []string{})
		for _, a := range addonKeys {
			add(r.Country.String(), []string{a})
		}
	}
	for _, a1 := range addonKeys {
		for _, a2 := range addonKeys {
			if a1 == a2 {
				continue
			}
			seen := map[string]bool{}
			for _, cc := range append(home(a1), home(a2)...) {
				if !seen[cc] {
					seen[cc] = true
					add(cc, []string{a1, a2})
				}
			}
		}
	}
	// FULL documents (c15docs): the synthetic invoice above has no payment, delivery or ordering part, so the add-ons'
	// normalizers of those parts never ran.  (1) every add-on alone on its home regimes x EVERY payment means key (the bill
	// kinds that carry payment instructions in rotation) plus one delivery; (2) EVERY ordered pair of add-ons on the pair's
	// home regimes, two payment means keys and kinds in rotation (so that over the pairs every key and kind occurs), plus
	// one delivery per pair; (3) every regime x every add-on, kind and means key in rotation.
	means := c15docs.MeansKeys()
	fullSeen := map[string]bool{}
	addFull := func(kind, cc string, addons []string, mk string) {
		r := byCountry[cc]
		if r == nil || fullSeen[c15docs.Name(kind, cc, addons, mk)] {
			return
		}
		fullSeen[c15docs.Name(kind, cc, addons, mk)] = true
		ws = append(ws, &snapWorkload{Name: c15docs.Name(kind, cc, addons, mk), Regime: cc, Addons: addons,
			Doc: "full", data: c15docs.Full(kind, r, addons, mk)})
	}
	rot := int(seed % 1000)
	if rot < 0 {
		rot = -rot
	}
	for _, a := range addonKeys {
		for _, cc := range home(a) {
			for _, mk := range means {
				addFull(c15docs.Kinds[rot%3], cc, []string{a}, mk)
				rot++
			}
			addFull("delivery", cc, []string{a}, means[0])
		}
	}
	for _, a1 := range addonKeys {
		for _, a2 := range addonKeys {
			if a1 == a2 {
				continue
			}
			seen := map[string]bool{}
			for i, cc := range append(home(a1), home(a2)...) {
				if seen[cc] {
					continue
				}
				seen[cc] = true
				for k := 0; k < 2; k++ {
					addFull(c15docs.Kinds[rot%3], cc, []string{a1, a2}, means[rot%len(means)])
					rot++
				}
				if i == 0 {
					addFull("delivery", cc, []string{a1, a2}, means[0])
				}
			}
		}
	}
	for _, r := range regs {
		for _, a := range addonKeys {
			addFull(c15docs.Kinds[rot%4], r.Country.String(), []string{a}, means[rot%len(means)])
			rot++
		}
	}
	// rate keys a regime may still understand although it no longer lists them (legacy spellings that a migration
	// rewrites): every `a+b` of the rate keys any regime defines, on every regime
	allKeys := map[string]bool{}
	for _, r := range regs {
		for _, c := range r.Categories {
			for _, rt := range c.Rates {
				for _, part := range strings.Split(rt.Key.String(), "+") {
					allKeys[part] = true
				}
			}
		}
	}
	var keyList []string
	for k := range allKeys {
		keyList = append(keyList, k)
	}
	sort.Strings(keyList)
	litRe := regexp.MustCompile(`"([a-z][a-z0-9]*(?:-[a-z0-9]+)*)"`)
	for _, r := range regs {
		if len(r.Categories) == 0 {
			continue
		}
		cat := r.Categories[0].Code.String()
		// ... and the key-like literals of the regime's own Go files (keys only its migrations still know)
		own := map[string]bool{}
		files, _ := filepath.Glob(filepath.Join(repo, "regimes", strings.ToLower(r.Country.String()), "*.go"))
		if r.Country.String() == "EL" {
			files, _ = filepath.Glob(filepath.Join(repo, "regimes", "gr", "*.go"))
		}
		for _, f := range files {
			if strings.HasSuffix(f, "_test.go") {
				continue
			}
			b, err := os.ReadFile(f)
			if err != nil {
				continue
			}
			for _, m := range litRe.FindAllStringSubmatch(string(b), -1) {
				if len(m[1]) >= 3 && len(m[1]) <= 30 {
					own[m[1]] = true
				}
			}
		}
		parts := append([]string{}, keyList...)
		for k := range own {
			if !allKeys[k] {
				parts = append(parts, k)
			}
		}
		sort.Strings(parts)
		for _, a := range []string{"exempt", "standard", "reduced", "zero"} {
			for _, b := range parts {
				if a == b {
					continue
				}
				key := a + "+" + b
				raw := syntheticInvoice(r, []string{})
				first := ""
				if len(r.Categories[0].Rates) > 0 {
					first = r.Categories[0].Rates[0].Key.String()
				}
				if first == "" {
					continue
				}
				raw2 := []byte(strings.Replace(string(raw), `"cat":"`+cat+`","rate":"`+first+`"`, `"cat":"`+cat+`","rate":"`+key+`"`, 1))
				ws = append(ws, &snapWorkload{Name: "synthetic:" + r.Country.String() + ":rate=" + key, Regime: r.Country.String(), Addons: []string{},
					Doc: "synthetic", data: raw2})
				// the same under each addon of the regime's own country, and with the combo marked for another country
				for _, ad := range addonKeys {
					hm := home(ad)
					if len(hm) != 1 || hm[0] != r.Country.String() {
						continue
					}
					rawA := syntheticInvoice(r, []string{ad})
					for ci, cc := range []string{"", "ES", "FR"} {
						repl := `"cat":"` + cat + `","rate":"` + key + `"`
						if cc != "" {
							repl = `"cat":"` + cat + `","country":"` + cc + `","rate":"` + key + `"`
						}
						raw3 := []byte(strings.Replace(string(rawA), `"cat":"`+cat+`","rate":"`+first+`"`, repl, 1))
						ws = append(ws, &snapWorkload{Name: fmt.Sprintf("synthetic:%s+%s:rate=%s:c%d", r.Country.String(), ad, key, ci), Regime: r.Country.String(),
							Addons: []string{ad}, Doc: "synthetic", data: raw3})
					}
				}
			}
		}
	}
	rng := rand.New(rand.NewSource(seed))
	for i := 0; i < nrand && len(addonKeys) > 2; i++ {
		r := regs[rng.Intn(len(regs))]
		n := 2 + rng.Intn(2)
		var as []string
		for j := 0; j < n; j++ {
			as = append(as, addonKeys[rng.Intn(len(addonKeys))])
		}
		add(r.Country.String(), as)
	}
	// names must be unique: they are the comparison key
	seenN := map[string]int{}
	for _, w := range ws {
		seenN[w.Name]++
		if seenN[w.Name] > 1 {
			w.Name += "#" + strconv.Itoa(seenN[w.Name])
		}
	}
	rng.Shuffle(len(ws), func(i, j int) { ws[i], ws[j] = ws[j], ws[i] })
	return ws
}

func c15StripIDs(v interface{}) {
	switch x := v.(type) {
	case map[string]interface{}:
		delete(x, "uuid")
		for _, y := range x {
			c15StripIDs(y)
		}
	case []interface{}:
		for _, y := range x {
			c15StripIDs(y)
		}
	}
}

func c15EquivOne(w *snapWorkload) (res string) {
	defer func() {
		if r := recover(); r != nil {
			res = "panic"
		}
	}()
	obj, err := gobl.Parse(w.data)
	if err != nil {
		return "parse-error"
	}
	env, ok := obj.(*gobl.Envelope)
	if !ok {
		env, err = gobl.Envelop(obj)
		if err != nil {
			return "calc-error:" + c15ErrKey(err)
		}
	} else if err := env.Calculate(); err != nil {
		return "calc-error:" + c15ErrKey(err)
	}
	verr := env.Validate()
	b, err := json.Marshal(env.Document)
	if err != nil {
		return "marshal-error"
	}
	var g interface{}
	if json.Unmarshal(b, &g) != nil {
		return "marshal-error"
	}
	c15StripIDs(g)
	b, _ = json.Marshal(g)
	if c15DumpName != "" && w.Name == c15DumpName {
		c15DumpOut = string(b)
	}
	h := sha256.Sum256(b)
	out := hex.EncodeToString(h[:8])
	if verr != nil {
		// the validation verdict is part of the result; its text may list fields in map order: keep the class
		out += " invalid"
	}
	return out
}

// set by the `dump:<name>:<mode>` form: the calculated document of one workload as it comes out in that order
var c15DumpName, c15DumpOut string

func c15ErrKey(err error) string {
	if e, ok := err.(*gobl.Error); ok {
		return string(e.Key())
	}
	return "other"
}

func c15equiv(args []string) int {
	if len(args) < 4 {
		fmt.Fprintln(os.Stderr, "usage: c15equiv <repo> <seed> <nrand> fwd|rev|par")
		return 2
	}
	seed, _ := strconv.ParseInt(args[1], 10, 64)
	nrand, _ := strconv.Atoi(args[2])
	ws := c15EquivWorkloads(args[0], seed, nrand)
	res := make([]string, len(ws))
	if strings.HasPrefix(args[3], "doc:") { // the document of one workload (for the replay record)
		for _, w := range ws {
			if w.Name == args[3][4:] {
				os.Stdout.Write(append(w.data, '\n'))
				return 0
			}
		}
		return 1
	}
	mode := args[3]
	if strings.HasPrefix(mode, "dump:") { // dump:<fwd|rev|par>:<workload name>
		parts := strings.SplitN(mode, ":", 3)
		if len(parts) == 3 {
			mode, c15DumpName = parts[1], parts[2]
		}
	}
	switch mode {
	case "fwd":
		for i, w := range ws {
			res[i] = c15EquivOne(w)
		}
	case "rev":
		for i := len(ws) - 1; i >= 0; i-- {
			res[i] = c15EquivOne(ws[i])
		}
	default:
		var wg sync.WaitGroup
		ch := make(chan int)
		for g := 0; g < 16; g++ {
			wg.Add(1)
			go func() {
				defer wg.Done()
				for i := range ch {
					res[i] = c15EquivOne(ws[i])
				}
			}()
		}
		for i := range ws {
			ch <- i
		}
		close(ch)
		wg.Wait()
	}
	if c15DumpName != "" {
		fmt.Println(c15DumpOut)
		return 0
	}
	for i, w := range ws {
		fmt.Printf("%s\t%s\n", w.Name, res[i])
	}
	return 0
}

func init() {
	commands["c15equiv"] = c15equiv
}
