package main

import (
	"github.com/invopop/gobl/num"
)

func amt(v V) num.Amount { return num.MakeAmount(v.L[0].Int(), uint32(v.L[1].Int())) }
func vamt(a num.Amount) V { return VL(VI(a.Value()), VI(int64(a.Exp()))) }
func pct(v V) num.Percentage { return num.MakePercentage(v.L[0].Int(), uint32(v.L[1].Int())) }
func vpct(p num.Percentage) V { return VL(VI(p.Value()), VI(int64(p.Exp()))) }

func init() {
	// num <op> a b  (a, b as ( value exp ); b may be an integer for rescale-like ops)
	register("num", func(a []V) []V {
		op := a[0].Str()
		var x num.Amount
		if len(a) > 1 && a[1].Kind == 'l' {
			x = amt(a[1])
		}
		switch op {
		case "add":
			return []V{vamt(x.Add(amt(a[2])))}
		case "sub":
			return []V{vamt(x.Subtract(amt(a[2])))}
		case "mul":
			return []V{vamt(x.Multiply(amt(a[2])))}
		case "div":
			return []V{vamt(x.Divide(amt(a[2])))}
		case "rescale":
			return []V{vamt(x.Rescale(uint32(a[2].Int())))}
		case "rescale_up":
			return []V{vamt(x.RescaleUp(uint32(a[2].Int())))}
		case "rescale_down":
			return []V{vamt(x.RescaleDown(uint32(a[2].Int())))}
		case "rescale_range":
			return []V{vamt(x.RescaleRange(uint32(a[2].Int()), uint32(a[3].Int())))}
		case "match_precision":
			return []V{vamt(x.MatchPrecision(amt(a[2])))}
		case "upscale":
			return []V{vamt(x.Upscale(uint32(a[2].Int())))}
		case "downscale":
			return []V{vamt(x.Downscale(uint32(a[2].Int())))}
		case "compare":
			return []V{VI(int64(x.Compare(amt(a[2]))))}
		case "equals":
			return []V{VB(x.Equals(amt(a[2])))}
		case "split":
			p, q := x.Split(int(a[2].Int()))
			return []V{vamt(p), vamt(q)}
		case "negate":
			return []V{vamt(x.Negate())}
		case "abs":
			return []V{vamt(x.Abs())}
		case "remove":
			return []V{vamt(x.Remove(pct(a[2])))}
		case "pct_of":
			return []V{vamt(pct(a[2]).Of(x))}
		case "pct_from":
			return []V{vamt(pct(a[2]).From(x))}
		case "factor":
			return []V{vamt(pct(a[1]).Factor())}
		case "pct_from_amount":
			return []V{vpct(num.PercentageFromAmount(x))}
		case "pct_amount":
			return []V{vamt(pct(a[1]).Amount())}
		case "pct_compare":
			return []V{VI(int64(pct(a[1]).Compare(pct(a[2]))))}
		case "pct_equals":
			return []V{VB(pct(a[1]).Equals(pct(a[2])))}
		case "pct_negate":
			return []V{vpct(pct(a[1]).Negate())}
		case "pct_rescale":
			return []V{vpct(pct(a[1]).Rescale(uint32(a[2].Int())))}
		case "threshold":
			// threshold <opcode> thr v: 0 >, 1 >=, 2 <, 3 <=, 4 not zero
			thr := amt(a[2])
			v := amt(a[3])
			var r num.ThresholdRule
			switch a[1].Int() {
			case 0:
				r = num.Min(thr).Exclusive()
			case 1:
				r = num.Min(thr)
			case 2:
				r = num.Max(thr).Exclusive()
			case 3:
				r = num.Max(thr)
			default:
				r = num.NotZero
			}
			// validation treats an empty (zero-valued struct) amount as "not set"; observe that too
			return []V{VB(r.Validate(v) == nil)}
		}
		return []V{VErr("unknown-num-op")}
	})
}
