package main

// translator: regenerates rocq/Gen/*.v from the repository (registries through the linked
// packages, unexported tables through go/ast). usage: vharness translate <repo> <outdir> [which]

import (
	"fmt"
	"os"
	"path/filepath"
)

type genFile struct {
	name string
	gen  func(repo string) (string, error)
}

var genFiles []genFile

func init() {
	commands["translate"] = func(args []string) int {
		if len(args) < 2 {
			fmt.Fprintln(os.Stderr, "usage: translate <repo> <outdir> [which]")
			return 2
		}
		for _, g := range genFiles {
			if len(args) > 2 && args[2] != g.name {
				continue
			}
			s, err := g.gen(args[0])
			if err != nil {
				fmt.Fprintln(os.Stderr, "translate", g.name, ":", err)
				return 1
			}
			if err := os.WriteFile(filepath.Join(args[1], g.name+".v"), []byte(s), 0o644); err != nil {
				fmt.Fprintln(os.Stderr, err)
				return 1
			}
		}
		return 0
	}
}
