package main

// C15 (b) - who signed a bulk `sign` reply: the payload comparison of the bulk stream drops the signature bytes
// (they are fresh on every call), so a reply signed with ANOTHER request's key looked the same as the standalone
// output.  This command verifies envelopes against the public half of the key the request was to be signed with.
//
//	vharness c15verify        (stdin: one JSON object per line {"env": <envelope>, "key": <private JWK>};
//	                           stdout: one line each: "ok" | "fail" | "no-signature" | "bad-input")

import (
	"bufio"
	"encoding/json"
	"fmt"
	"os"

	"github.com/invopop/gobl"
	"github.com/invopop/gobl/dsig"
)

func c15verifyOne(line []byte) (res string) {
	defer func() {
		if r := recover(); r != nil {
			res = "bad-input"
		}
	}()
	var in struct {
		Env json.RawMessage  `json:"env"`
		Key *dsig.PrivateKey `json:"key"`
	}
	if err := json.Unmarshal(line, &in); err != nil || in.Key == nil {
		return "bad-input"
	}
	env := new(gobl.Envelope)
	if err := json.Unmarshal(in.Env, env); err != nil {
		return "bad-input"
	}
	if len(env.Signatures) == 0 {
		return "no-signature"
	}
	if err := env.Verify(in.Key.Public()); err != nil {
		return "fail"
	}
	return "ok"
}

func c15verify(args []string) int {
	sc := bufio.NewScanner(os.Stdin)
	sc.Buffer(make([]byte, 1<<20), 1<<28)
	w := bufio.NewWriter(os.Stdout)
	defer w.Flush()
	for sc.Scan() {
		fmt.Fprintln(w, c15verifyOne(sc.Bytes()))
	}
	return 0
}

func init() {
	commands["c15verify"] = c15verify
}
