package main

import (
	"github.com/invopop/gobl/cbc"
	"github.com/invopop/gobl/head"
	"bytes"
	"encoding/json"
	"os"
	"path/filepath"
	"reflect"
	"sort"
	"strings"

	"github.com/invopop/gobl"
	"github.com/invopop/yaml"
)

// fixpoint: data (document or envelope, JSON) -> build -> marshal -> parse -> calculate -> marshal, n times.
// Returns ( ok x<digest1> ) when every round gives byte-identical envelope JSON, otherwise
// ( diff round x<first differing json path> ).
func fixpoint(data []byte, rounds int) []V {
	obj, err := gobl.Parse(data)
	if err != nil {
		return []V{VErr("parse")}
	}
	var env *gobl.Envelope
	if e, ok := obj.(*gobl.Envelope); ok {
		env = e
		if err := env.Calculate(); err != nil {
			return []V{VErr("calc")}
		}
	} else {
		env, err = gobl.Envelop(obj)
		if err != nil {
			return []V{VErr("calc")}
		}
	}
	return fixpointEnv(env, rounds)
}

// fixpointEnv: the feed-back rounds of fixpoint for an envelope that has just been calculated
func fixpointEnv(env *gobl.Envelope, rounds int) []V {
	prev, err := json.Marshal(env)
	if err != nil {
		return []V{VErr("marshal")}
	}
	for i := 1; i <= rounds; i++ {
		e2 := new(gobl.Envelope)
		if err := json.Unmarshal(prev, e2); err != nil {
			return []V{VL(VS("diff"), VI(int64(i)), VS("unmarshal: " + errKind(err)))}
		}
		// parse -> marshal must be the identity
		again, err := json.Marshal(e2)
		if err != nil {
			return []V{VErr("marshal")}
		}
		if !bytes.Equal(again, prev) {
			return []V{VL(VS("diff"), VI(int64(i)), VS("reserialise:" + firstDiffPath(prev, again)))}
		}
		if err := e2.Calculate(); err != nil {
			return []V{VL(VS("diff"), VI(int64(i)), VS("recalculate-error"))}
		}
		next, err := json.Marshal(e2)
		if err != nil {
			return []V{VErr("marshal")}
		}
		if !bytes.Equal(next, prev) {
			return []V{VL(VS("diff"), VI(int64(i)), VS("recalculate:" + firstDiffPath(prev, next)))}
		}
		prev = next
	}
	return []V{VL(VS("ok"), VS(env.Head.Digest.Value))}
}

func errKind(err error) string {
	s := err.Error()
	if len(s) > 60 {
		s = s[:60]
	}
	return s
}

func firstDiffPath(a, b []byte) string {
	var x, y interface{}
	if json.Unmarshal(a, &x) != nil || json.Unmarshal(b, &y) != nil {
		return "?"
	}
	return diffPath("", x, y)
}

func diffPath(p string, x, y interface{}) string {
	if reflect.DeepEqual(x, y) {
		return ""
	}
	switch xv := x.(type) {
	case map[string]interface{}:
		yv, ok := y.(map[string]interface{})
		if !ok {
			return p
		}
		keys := map[string]bool{}
		for k := range xv {
			keys[k] = true
		}
		for k := range yv {
			keys[k] = true
		}
		ks := []string{}
		for k := range keys {
			ks = append(ks, k)
		}
		sort.Strings(ks)
		for _, k := range ks {
			if d := diffPath(p+"/"+k, xv[k], yv[k]); d != "" {
				return d
			}
		}
	case []interface{}:
		yv, ok := y.([]interface{})
		if !ok || len(xv) != len(yv) {
			return p + "[len]"
		}
		for i := range xv {
			if d := diffPath(p+"/"+itoa(i), xv[i], yv[i]); d != "" {
				return d
			}
		}
	}
	if p == "" {
		return "/"
	}
	return p
}

func itoa(i int) string { return strings.TrimSpace(string(VI(int64(i)).I.String())) }

// readonly: validate, digest, verify, extract never change an envelope (bytes before = bytes after)
func readonly(data []byte) []V {
	env := new(gobl.Envelope)
	if err := json.Unmarshal(data, env); err != nil {
		return []V{VErr("parse")}
	}
	check := func(tag string, env *gobl.Envelope) []V {
		before, _ := json.Marshal(env)
		_ = env.Validate()
		_, _ = env.Digest()
		_ = env.Verify()
		_ = env.Verify(c14key.Public())
		for _, sg := range env.Signatures {
			_ = env.VerifySignature(sg)
		}
		_ = env.Extract()
		_ = env.Signed()
		_, _ = env.CorrectionOptionsSchema()
		after, _ := json.Marshal(env)
		if !bytes.Equal(before, after) {
			return []V{VL(VS("changed"), VS(tag+":"+firstDiffPath(before, after)))}
		}
		return nil
	}
	if r := check("plain", env); r != nil {
		return r
	}
	// the same envelope with a header that has something in every list, NOT in sorted order
	if env.Head != nil {
		rich := new(gobl.Envelope)
		_ = json.Unmarshal(data, rich)
		rich.Signatures = nil
		rich.Head.Links = []*head.Link{{Key: "zz-last", URL: "https://example.com/z"}, {Key: "aa-first", URL: "https://example.com/a"},
			{Key: "mm-mid", URL: "https://example.com/m"}}
		rich.Head.Tags = []string{"zulu", "alpha", "mike"}
		rich.Head.Meta = cbc.Meta{"zz": "1", "aa": "2"}
		rich.Head.Notes = "notes"
		if r := check("rich-head", rich); r != nil {
			return r
		}
		rich.Head.Stamps = []*head.Stamp{{Provider: "zz-prov", Value: "1"}, {Provider: "aa-prov", Value: "2"}}
		if err := rich.Sign(c14key); err == nil {
			if r := check("rich-head-signed", rich); r != nil {
				return r
			}
		}
	}
	return []V{VL(VS("ok"))}
}

func init() {
	register("c04", func(a []V) []V {
		switch a[0].Str() {
		case "fix":
			return fixpoint(a[1].S, 3)
		case "readonly":
			return readonly(a[1].S)
		case "rep":
			n := 6
			if len(a) > 2 && a[2].I != nil && a[2].I.IsInt64() && a[2].I.Int64() > 1 {
				n = int(a[2].I.Int64())
			}
			return c04Repeat(a[1].S, n)
		case "build":
			// document/envelope JSON -> calculated envelope JSON bytes (for cross-process comparison)
			obj, err := gobl.Parse(a[1].S)
			if err != nil {
				return []V{VErr("parse")}
			}
			env, ok := obj.(*gobl.Envelope)
			if ok {
				if err := env.Calculate(); err != nil {
					return []V{VErr("calc")}
				}
			} else if env, err = gobl.Envelop(obj); err != nil {
				return []V{VErr("calc")}
			}
			out, err := json.Marshal(env.Document)
			if err != nil {
				return []V{VErr("marshal")}
			}
			return []V{VL(VS("ok"), VS(env.Head.Digest.Value), VBytes(out))}
		}
		return c04normOp(a)
	})
	// examples <repo>: prints every example input (json/yaml) as a wire line "x<path> x<json>"
	commands["examples"] = func(args []string) int {
		repo := args[0]
		var files []string
		for _, pat := range []string{"examples/*.json", "examples/*.yaml", "examples/*/*.json", "examples/*/*.yaml", "examples/*/out/*.json", "examples/out/*.json",
			"regimes/*/examples/*.json", "regimes/*/examples/*.yaml", "regimes/*/examples/out/*.json",
			"addons/*/*/examples/*.json", "addons/*/*/examples/*.yaml", "addons/*/*/examples/out/*.json"} {
			m, _ := filepath.Glob(filepath.Join(repo, pat))
			files = append(files, m...)
		}
		sort.Strings(files)
		for _, f := range files {
			data, err := os.ReadFile(f)
			if err != nil {
				continue
			}
			if strings.HasSuffix(f, ".yaml") {
				data, err = yaml.YAMLToJSON(data)
				if err != nil {
					continue
				}
			}
			rel, _ := filepath.Rel(repo, f)
			os.Stdout.WriteString(printVs([]V{VS(rel), VBytes(data)}) + "\n")
		}
		return 0
	}
}
