package main

// C13: tax identity codes through the public API of /repo.
//
//	c13 check    x<CC> x<raw code>  ->  x<country'> x<code'> <accepted 0/1> x<code''>
//	    tax.Identity{Country, Code}: Normalize, Validate, Normalize again
//	c13 validate x<CC> x<code>      ->  <accepted 0/1>      (Validate only, no normalisation)
//	c13 party    x<CC> x<raw code>  ->  x<country'> x<code'> <tax_id accepted 0/1>
//	    the same identity inside an org.Party: Calculate (normalisation), then Validate; the
//	    verdict is whether the validation errors mention the tax_id field
//
// Only verdict classes are reported, never message text.

import (
	_ "github.com/invopop/gobl" // registers the regimes
	"github.com/invopop/gobl/cbc"
	"github.com/invopop/gobl/l10n"
	"github.com/invopop/gobl/org"
	"github.com/invopop/gobl/tax"
	"github.com/invopop/validation"
)

func init() {
	register("c13", func(a []V) []V {
		if len(a) < 3 {
			return []V{VErr("unknown-c13-op")}
		}
		cc, code := string(a[1].S), string(a[2].S)
		switch a[0].Str() {
		case "check":
			id := &tax.Identity{Country: l10n.TaxCountryCode(cc), Code: cbc.Code(code)}
			id.Normalize()
			c1, k1 := id.Country, id.Code
			ok := id.Validate() == nil
			id2 := &tax.Identity{Country: c1, Code: k1}
			id2.Normalize()
			return []V{VS(string(c1)), VS(string(k1)), VB(ok), VS(string(id2.Code))}
		case "validate":
			id := &tax.Identity{Country: l10n.TaxCountryCode(cc), Code: cbc.Code(code)}
			return []V{VB(id.Validate() == nil)}
		case "party":
			p := &org.Party{Name: "X", TaxID: &tax.Identity{Country: l10n.TaxCountryCode(cc), Code: cbc.Code(code)}}
			if err := p.Calculate(); err != nil {
				return []V{VErr("calculate")}
			}
			ok := true
			if err := p.Validate(); err != nil {
				if es, isMap := err.(validation.Errors); isMap {
					_, bad := es["tax_id"]
					ok = !bad
				} else {
					ok = false
				}
			}
			return []V{VS(string(p.TaxID.Country)), VS(string(p.TaxID.Code)), VB(ok)}
		}
		return []V{VErr("unknown-c13-op")}
	})
}
