package main

// translator for the typed-marshalling model (rocq/Marshal): the Go types of every registered schema
// type and of the envelope, as encoding/json sees them (reflection: json tags, omitempty, embedded
// structs, custom (un)marshalers), rendered as Gallina type descriptors into rocq/Gen/GoTypes.v.
// A type with a custom (un)marshaler the model has no leaf for is rendered LOpaque "<name>" and
// listed by the check (the model is then silent about documents containing it).

import (
	"encoding"
	"encoding/json"
	"fmt"
	"reflect"
	"sort"
	"strings"

	gobl "github.com/invopop/gobl"
	"github.com/invopop/gobl/schema"
)

var (
	tyJSONM = reflect.TypeOf((*json.Marshaler)(nil)).Elem()
	tyJSONU = reflect.TypeOf((*json.Unmarshaler)(nil)).Elem()
	tyTextM = reflect.TypeOf((*encoding.TextMarshaler)(nil)).Elem()
	tyTextU = reflect.TypeOf((*encoding.TextUnmarshaler)(nil)).Elem()
)

func typeName(t reflect.Type) string {
	p := strings.TrimPrefix(t.PkgPath(), "github.com/invopop/gobl/")
	if p == "github.com/invopop/gobl" {
		p = "gobl"
	}
	return p + "." + t.Name()
}

// customKinds: which of the four interfaces t or *t implements
func customKinds(t reflect.Type) (jm, ju, tm, tu bool) {
	pt := reflect.PointerTo(t)
	jm = t.Implements(tyJSONM) || pt.Implements(tyJSONM)
	ju = t.Implements(tyJSONU) || pt.Implements(tyJSONU)
	tm = t.Implements(tyTextM) || pt.Implements(tyTextM)
	tu = t.Implements(tyTextU) || pt.Implements(tyTextU)
	return
}

var knownLeaves = map[string]string{
	"num.Amount":            "LAmount",
	"num.Percentage":        "LPercentage",
	"cal.Date":              "LDate",
	"cal.DateTime":          "LDateTime",
	"uuid.UUID":             "LUUID",
	"dsig.Signature":        "LSig",
	"encoding/json.RawMessage": "LRaw",
}

var knownHooks = map[string]string{
	"bill.Invoice": "HInvoice",
	"bill.Tax":     "HTax",
	"pay.Advance":  "HAdvance",
	"pay.Online":   "HOnline",
	"tax.Combo":    "HCombo",
}

type typeGen struct {
	defs   map[string]string // name -> rendered struct type
	order  []string
	opaque map[string]bool
	rtypes map[string]reflect.Type
}

func (g *typeGen) render(t reflect.Type) string {
	name := ""
	if t.Name() != "" && t.PkgPath() != "" {
		name = typeName(t)
	}
	if t.Kind() != reflect.Ptr && t.Kind() != reflect.Interface {
		jm, ju, tm, tu := customKinds(t)
		if jm || ju || tm || tu {
			if name == "schema.Object" {
				return "TyObject"
			}
			if l, ok := knownLeaves[name]; ok {
				return "(TyLeaf " + l + ")"
			}
			if _, ok := knownHooks[name]; ok && t.Kind() == reflect.Struct && ju && !jm && !tm && !tu {
				// struct with a migration hook: rendered as a struct below
			} else {
				g.opaque[name+fmt.Sprintf(" jm=%v ju=%v tm=%v tu=%v kind=%s", jm, ju, tm, tu, t.Kind())] = true
				return "(TyLeaf (LOpaque " + coqBytes(name) + "))"
			}
		}
	}
	switch t.Kind() {
	case reflect.String:
		return "(TyLeaf LStr)"
	case reflect.Bool:
		return "(TyLeaf LBool)"
	case reflect.Int, reflect.Int8, reflect.Int16, reflect.Int32, reflect.Int64:
		return fmt.Sprintf("(TyLeaf (LInt true %d))", t.Bits())
	case reflect.Uint, reflect.Uint8, reflect.Uint16, reflect.Uint32, reflect.Uint64:
		return fmt.Sprintf("(TyLeaf (LInt false %d))", t.Bits())
	case reflect.Float32, reflect.Float64:
		return "(TyLeaf LFloat)"
	case reflect.Ptr:
		return "(TyPtr " + g.render(t.Elem()) + ")"
	case reflect.Interface:
		return "TyAny"
	case reflect.Slice:
		if t.Elem().Kind() == reflect.Uint8 {
			return "(TyLeaf LBytes)"
		}
		return "(TySlice " + g.render(t.Elem()) + ")"
	case reflect.Map:
		if t.Key().Kind() != reflect.String {
			g.opaque["map key "+t.Key().String()] = true
			return "(TyLeaf (LOpaque " + coqBytes("map:"+t.String()) + "))"
		}
		if _, _, tm, tu := customKinds(t.Key()); tm || tu {
			g.opaque["map key text "+t.Key().String()] = true
			return "(TyLeaf (LOpaque " + coqBytes("map:"+t.String()) + "))"
		}
		return "(TyMap " + g.render(t.Elem()) + ")"
	case reflect.Struct:
		if name == "" {
			return g.renderStruct(t, "HNone")
		}
		if _, ok := g.defs[name]; !ok {
			g.defs[name] = "" // in progress (recursive types)
			if g.rtypes != nil {
				g.rtypes[name] = t
			}
			hook := "HNone"
			if h, ok := knownHooks[name]; ok {
				hook = h
			}
			g.defs[name] = g.renderStruct(t, hook)
			g.order = append(g.order, name)
		}
		return "(TyRef " + coqBytes(name) + ")"
	}
	g.opaque["kind "+t.Kind().String()+" "+t.String()] = true
	return "(TyLeaf (LOpaque " + coqBytes(t.String()) + "))"
}

type jfield struct {
	name      string
	omitempty bool
	typ       reflect.Type
	depth     int
	tagged    bool
	index     []int
}

// collectFields follows encoding/json's typeFields: exported fields, json tags, anonymous struct
// fields without a name tag are flattened, shallower / tagged names win, ambiguous names vanish.
func collectFields(t reflect.Type, depth int, index []int, out *[]jfield, seen map[reflect.Type]bool) {
	if seen[t] {
		return
	}
	seen[t] = true
	defer delete(seen, t)
	for i := 0; i < t.NumField(); i++ {
		sf := t.Field(i)
		if sf.Anonymous {
			ft := sf.Type
			if ft.Kind() == reflect.Ptr {
				ft = ft.Elem()
			}
			if !sf.IsExported() && ft.Kind() != reflect.Struct {
				continue
			}
		} else if !sf.IsExported() {
			continue
		}
		tag := sf.Tag.Get("json")
		if tag == "-" {
			continue
		}
		parts := strings.Split(tag, ",")
		name := parts[0]
		omit := false
		for _, o := range parts[1:] {
			if o == "omitempty" {
				omit = true
			}
			if o == "string" || o == "omitzero" {
				name = "?unsupported-option-" + o + "-" + name
			}
		}
		idx := append(append([]int{}, index...), i)
		ft := sf.Type
		if sf.Anonymous && name == "" {
			et := ft
			if et.Kind() == reflect.Ptr {
				et = et.Elem()
			}
			if et.Kind() == reflect.Struct {
				jm, ju, tm, tu := customKinds(et)
				if !(jm || ju || tm || tu) {
					collectFields(et, depth+1, idx, out, seen)
					continue
				}
			}
		}
		tagged := name != ""
		if name == "" {
			name = sf.Name
		}
		*out = append(*out, jfield{name, omit, ft, depth, tagged, idx})
	}
}

func (g *typeGen) renderStruct(t reflect.Type, hook string) string {
	var all []jfield
	collectFields(t, 0, nil, &all, map[reflect.Type]bool{})
	// dominance per name
	byName := map[string][]jfield{}
	var names []string
	for _, f := range all {
		if _, ok := byName[f.name]; !ok {
			names = append(names, f.name)
		}
		byName[f.name] = append(byName[f.name], f)
	}
	var kept []jfield
	for _, n := range names {
		fs := byName[n]
		sort.SliceStable(fs, func(i, j int) bool {
			if fs[i].depth != fs[j].depth {
				return fs[i].depth < fs[j].depth
			}
			return fs[i].tagged && !fs[j].tagged
		})
		if len(fs) > 1 && fs[0].depth == fs[1].depth && fs[0].tagged == fs[1].tagged {
			continue // ambiguous: dropped by encoding/json
		}
		kept = append(kept, fs[0])
	}
	// encoding/json orders fields by index sequence
	sort.SliceStable(kept, func(i, j int) bool {
		a, b := kept[i].index, kept[j].index
		for k := 0; k < len(a) && k < len(b); k++ {
			if a[k] != b[k] {
				return a[k] < b[k]
			}
		}
		return len(a) < len(b)
	})
	var sb strings.Builder
	sb.WriteString("(TyStruct " + hook + " [")
	for i, f := range kept {
		if i > 0 {
			sb.WriteString("; ")
		}
		fmt.Fprintf(&sb, "mkF %s %v %s", coqBytes(f.name), f.omitempty, g.render(f.typ))
	}
	sb.WriteString("])")
	return sb.String()
}

func genGoTypes() (string, map[string]bool) {
	s, g := genGoTypesG()
	return s, g.opaque
}

func genGoTypesG() (string, *typeGen) {
	g := &typeGen{defs: map[string]string{}, opaque: map[string]bool{}, rtypes: map[string]reflect.Type{}}
	var ids []string
	byID := map[string]reflect.Type{}
	for t, id := range schema.Types() {
		ids = append(ids, id.String())
		byID[id.String()] = t
	}
	sort.Strings(ids)
	var sb strings.Builder
	sb.WriteString("(* GENERATED by `vharness translate` from the Go types linked into the harness - do not edit *)\n")
	sb.WriteString("From Coq Require Import List ZArith Strings.Byte Bool.\nFrom Verif Require Import Base.Wire Marshal.Typed.\nImport ListNotations.\nOpen Scope Z_scope.\n\n")
	var schemas []string
	for _, id := range ids {
		t := byID[id]
		for t.Kind() == reflect.Ptr {
			t = t.Elem()
		}
		r := g.render(t)
		schemas = append(schemas, fmt.Sprintf("  (%s, %s)", coqBytes(id), r))
	}
	env := g.render(reflect.TypeOf(gobl.Envelope{}))
	sb.WriteString("Definition go_types : list (bytes * ty) := [\n")
	for i, n := range g.order {
		if i > 0 {
			sb.WriteString(";\n")
		}
		fmt.Fprintf(&sb, "  (* %s *) (%s,\n    %s)", n, coqBytes(n), g.defs[n])
	}
	sb.WriteString("\n].\n\n")
	sb.WriteString("(* schema id -> type, as registered with schema.Register *)\nDefinition go_schemas : list (bytes * ty) := [\n")
	sb.WriteString(strings.Join(schemas, ";\n"))
	sb.WriteString("\n].\n\n")
	fmt.Fprintf(&sb, "Definition go_envelope : ty := %s.\n", env)
	return sb.String(), g
}

func init() {
	genFiles = append(genFiles, genFile{"GoTypes", func(repo string) (string, error) {
		s, _ := genGoTypes()
		return s, nil
	}})
	commands["gotypes-opaque"] = func(args []string) int {
		_, op := genGoTypes()
		var l []string
		for k := range op {
			l = append(l, k)
		}
		sort.Strings(l)
		for _, k := range l {
			fmt.Println(k)
		}
		return 0
	}
}
