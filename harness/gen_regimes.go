package main

// Translator part for definition data (C12, C18, C19): regimes, addons, catalogues, currencies.
//
//   Gen/Regimes.v, Gen/Addons.v, Gen/Catalogues.v, Gen/Currencies.v
//        what the linked repository registers NOW, read directly from the Go structures
//        (tax.AllRegimeDefs() ..., no JSON involved);
//   Gen/Published.v
//        the files shipped under <repo>/data/{regimes,addons,catalogues}/*.json, parsed as
//        generic JSON.
//
// Both sources are first brought into the SAME intermediate structures (g* types below, mirroring
// rocq/Defs/DefTypes.v) and printed by the SAME rendering routine, so that "published = in code"
// is an equality of closed Gallina terms.  Only structural content is kept (see DefTypes.v).

import (
	"encoding/json"
	"fmt"
	"os"
	"path/filepath"
	"sort"
	"strconv"
	"strings"

	_ "github.com/invopop/gobl" // registers regimes, addons, catalogues
	"github.com/invopop/gobl/bill"
	"github.com/invopop/gobl/cal"
	"github.com/invopop/gobl/cbc"
	"github.com/invopop/gobl/currency"
	"github.com/invopop/gobl/num"
	"github.com/invopop/gobl/tax"
)

// ---------------------------------------------------------------------------------------------
// intermediate structures (field order = constructor argument order in DefTypes.v)
// ---------------------------------------------------------------------------------------------

type gDate struct{ Y, M, D int64 }
type gPct struct{ V, E int64 }
type gKV struct{ K, V string }
type gValDef struct{ Key, Code string }
type gKeyDef struct {
	Key, Code string
	Values    []gValDef
	Pattern   string
	Map       []gKV
}
type gTagSet struct {
	Schema string
	Keys   []string
}
type gNote struct {
	Key, Code, Src string
	Ext            []gKV
}
type gScenario struct {
	Types, Tags     []string
	ExtKey, ExtCode string
	Note            *gNote
	Codes, Ext      []gKV
}
type gScenarioSet struct {
	Schema string
	List   []gScenario
}
type gCorrection struct {
	Schema            string
	Types, Extensions []string
	ReasonRequired    bool
	Stamps            []string
	CopyTax           bool
}
type gValue struct {
	Since     *gDate
	Percent   gPct
	Surcharge *gPct
	Tags      []string
	Ext       []gKV
	Disabled  bool
}
type gRate struct {
	Key    string
	Exempt bool
	Values []gValue
	Ext    []gKV
}
type gCategory struct {
	Code       string
	Retained   bool
	Rates      []gRate
	Extensions []string
	Map, Ext   []gKV
}
type gRegime struct {
	File                                                string
	Country                                             string
	AltCountries                                        []string
	Zone, Currency, TimeZone, TaxScheme, Rounding       string
	Tags                                                []gTagSet
	Extensions, Identities, PaymentMeansKeys, InboxKeys []gKeyDef
	Scenarios                                           []gScenarioSet
	Corrections                                         []gCorrection
	Categories                                          []gCategory
}
type gAddon struct {
	File        string
	Key         string
	Requires    []string
	Extensions  []gKeyDef
	Tags        []gTagSet
	Scenarios   []gScenarioSet
	Identities  []gKeyDef
	Inboxes     []gKeyDef
	Corrections []gCorrection
}
type gCatalogue struct {
	File       string
	Key        string
	Extensions []gKeyDef
}

// ---------------------------------------------------------------------------------------------
// source 1: the Go structures registered by the linked repository
// ---------------------------------------------------------------------------------------------

func keysToStrings(ks []cbc.Key) []string {
	out := make([]string, len(ks))
	for i, k := range ks {
		out[i] = string(k)
	}
	return out
}

func sortedKVs[K ~string, W ~string](m map[K]W) []gKV {
	out := make([]gKV, 0, len(m))
	for k, v := range m {
		out = append(out, gKV{string(k), string(v)})
	}
	sort.Slice(out, func(i, j int) bool { return out[i].K < out[j].K })
	return out
}

func goKeyDefs(defs []*cbc.Definition) ([]gKeyDef, error) {
	out := make([]gKeyDef, 0, len(defs))
	for _, d := range defs {
		if d == nil {
			return nil, fmt.Errorf("nil definition in a definition list")
		}
		kd := gKeyDef{Key: string(d.Key), Code: string(d.Code), Pattern: d.Pattern, Map: sortedKVs(d.Map)}
		for _, v := range d.Values {
			if v == nil {
				return nil, fmt.Errorf("nil value in definition %s", d.Key)
			}
			if len(v.Values) > 0 {
				return nil, fmt.Errorf("definition %s: nested values deeper than one level are not supported by DefTypes.v", d.Key)
			}
			kd.Values = append(kd.Values, gValDef{string(v.Key), string(v.Code)})
		}
		out = append(out, kd)
	}
	return out, nil
}

func goTagSets(ts []*tax.TagSet) []gTagSet {
	out := make([]gTagSet, 0, len(ts))
	for _, t := range ts {
		g := gTagSet{Schema: t.Schema}
		for _, d := range t.List {
			g.Keys = append(g.Keys, string(d.Key))
		}
		out = append(out, g)
	}
	return out
}

func goScenarios(ss []*tax.ScenarioSet) []gScenarioSet {
	out := make([]gScenarioSet, 0, len(ss))
	for _, s := range ss {
		g := gScenarioSet{Schema: s.Schema}
		for _, sc := range s.List {
			x := gScenario{Types: keysToStrings(sc.Types), Tags: keysToStrings(sc.Tags),
				ExtKey: string(sc.ExtKey), ExtCode: string(sc.ExtCode),
				Codes: sortedKVs(sc.Codes), Ext: sortedKVs(sc.Ext)}
			if sc.Note != nil {
				x.Note = &gNote{string(sc.Note.Key), string(sc.Note.Code), string(sc.Note.Src), sortedKVs(sc.Note.Ext)}
			}
			g.List = append(g.List, x)
		}
		out = append(out, g)
	}
	return out
}

func goCorrections(cs tax.CorrectionSet) []gCorrection {
	out := make([]gCorrection, 0, len(cs))
	for _, c := range cs {
		out = append(out, gCorrection{c.Schema, keysToStrings(c.Types), keysToStrings(c.Extensions),
			c.ReasonRequired, keysToStrings(c.Stamps), c.CopyTax})
	}
	return out
}

func goDate(d *cal.Date) *gDate {
	if d == nil {
		return nil
	}
	return &gDate{int64(d.Year), int64(d.Month), int64(d.Day)}
}

func goPct(p num.Percentage) gPct { return gPct{p.Value(), int64(p.Exp())} }

func goRegime(r *tax.RegimeDef) (gRegime, error) {
	n := string(r.Country)
	if r.Zone != "" {
		n = n + "_" + string(r.Zone)
	}
	g := gRegime{File: strings.ToLower(n), Country: string(r.Country), Zone: string(r.Zone),
		Currency: string(r.Currency), TimeZone: r.TimeZone, TaxScheme: string(r.TaxScheme),
		Rounding: string(r.CalculatorRoundingRule), Tags: goTagSets(r.Tags),
		Scenarios: goScenarios(r.Scenarios), Corrections: goCorrections(r.Corrections)}
	for _, c := range r.AltCountryCodes {
		g.AltCountries = append(g.AltCountries, string(c))
	}
	var err error
	if g.Extensions, err = goKeyDefs(r.Extensions); err != nil {
		return g, err
	}
	if g.Identities, err = goKeyDefs(r.Identities); err != nil {
		return g, err
	}
	if g.PaymentMeansKeys, err = goKeyDefs(r.PaymentMeansKeys); err != nil {
		return g, err
	}
	if g.InboxKeys, err = goKeyDefs(r.InboxKeys); err != nil {
		return g, err
	}
	for _, c := range r.Categories {
		gc := gCategory{Code: string(c.Code), Retained: c.Retained, Extensions: keysToStrings(c.Extensions),
			Map: sortedKVs(c.Map), Ext: sortedKVs(c.Ext)}
		for _, rt := range c.Rates {
			gr := gRate{Key: string(rt.Key), Exempt: rt.Exempt, Ext: sortedKVs(rt.Ext)}
			for _, v := range rt.Values {
				gv := gValue{Since: goDate(v.Since), Percent: goPct(v.Percent), Tags: keysToStrings(v.Tags),
					Ext: sortedKVs(v.Ext), Disabled: v.Disabled}
				if v.Surcharge != nil {
					s := goPct(*v.Surcharge)
					gv.Surcharge = &s
				}
				gr.Values = append(gr.Values, gv)
			}
			gc.Rates = append(gc.Rates, gr)
		}
		g.Categories = append(g.Categories, gc)
	}
	return g, nil
}

func goAddon(a *tax.AddonDef) (gAddon, error) {
	g := gAddon{File: string(a.Key), Key: string(a.Key), Requires: keysToStrings(a.Requires),
		Tags: goTagSets(a.Tags), Scenarios: goScenarios(a.Scenarios), Corrections: goCorrections(a.Corrections)}
	var err error
	if g.Extensions, err = goKeyDefs(a.Extensions); err != nil {
		return g, err
	}
	if g.Identities, err = goKeyDefs(a.Identities); err != nil {
		return g, err
	}
	if g.Inboxes, err = goKeyDefs(a.Inboxes); err != nil {
		return g, err
	}
	return g, nil
}

func goCatalogue(c *tax.CatalogueDef) (gCatalogue, error) {
	g := gCatalogue{File: string(c.Key), Key: string(c.Key)}
	var err error
	g.Extensions, err = goKeyDefs(c.Extensions)
	return g, err
}

// ---------------------------------------------------------------------------------------------
// source 2: generic JSON (the published files)
// ---------------------------------------------------------------------------------------------

type jobj = map[string]any

func jStr(o jobj, k string) string {
	if v, ok := o[k].(string); ok {
		return v
	}
	return ""
}
func jBool(o jobj, k string) bool {
	v, _ := o[k].(bool)
	return v
}
func grList(o jobj, k string) []any {
	v, _ := o[k].([]any)
	return v
}
func jStrs(o jobj, k string) []string {
	var out []string
	for _, x := range grList(o, k) {
		s, _ := x.(string)
		out = append(out, s)
	}
	return out
}
func jKVs(o jobj, k string) []gKV {
	m, _ := o[k].(map[string]any)
	out := make([]gKV, 0, len(m))
	for kk, v := range m {
		s, _ := v.(string)
		out = append(out, gKV{kk, s})
	}
	sort.Slice(out, func(i, j int) bool { return out[i].K < out[j].K })
	return out
}

// parsePct reads the text form of num.Percentage ("21.0%", "0.215", "-5%") into (value, exp)
// without going through the repository's parser: digits without the point, decimals (+2 when a
// percent sign is present).
func parsePct(s string) (gPct, error) {
	t := s
	add := int64(0)
	if strings.HasSuffix(t, "%") {
		t = strings.TrimSuffix(t, "%")
		add = 2
	}
	neg := false
	if strings.HasPrefix(t, "-") {
		neg = true
		t = t[1:]
	}
	ip, fp := t, ""
	if i := strings.IndexByte(t, '.'); i >= 0 {
		ip, fp = t[:i], t[i+1:]
	}
	if ip == "" && fp == "" {
		return gPct{}, fmt.Errorf("bad percentage %q", s)
	}
	for _, c := range ip + fp {
		if c < '0' || c > '9' {
			return gPct{}, fmt.Errorf("bad percentage %q", s)
		}
	}
	v, err := strconv.ParseInt(ip+fp, 10, 64)
	if err != nil {
		return gPct{}, fmt.Errorf("bad percentage %q", s)
	}
	if neg {
		v = -v
	}
	return gPct{v, int64(len(fp)) + add}, nil
}

func parseDate(s string) (*gDate, error) {
	p := strings.Split(s, "-")
	if len(p) != 3 {
		return nil, fmt.Errorf("bad date %q", s)
	}
	var n [3]int64
	for i := range p {
		v, err := strconv.ParseInt(p[i], 10, 64)
		if err != nil {
			return nil, fmt.Errorf("bad date %q", s)
		}
		n[i] = v
	}
	return &gDate{n[0], n[1], n[2]}, nil
}

func jKeyDefs(o jobj, k string) ([]gKeyDef, error) {
	out := []gKeyDef{}
	for _, x := range grList(o, k) {
		d, ok := x.(map[string]any)
		if !ok {
			return nil, fmt.Errorf("%s: definition is not an object", k)
		}
		kd := gKeyDef{Key: jStr(d, "key"), Code: jStr(d, "code"), Pattern: jStr(d, "pattern"), Map: jKVs(d, "map")}
		for _, y := range grList(d, "values") {
			v, ok := y.(map[string]any)
			if !ok {
				return nil, fmt.Errorf("%s: value is not an object", k)
			}
			if len(grList(v, "values")) > 0 {
				return nil, fmt.Errorf("definition %s: nested values deeper than one level are not supported by DefTypes.v", kd.Key)
			}
			kd.Values = append(kd.Values, gValDef{jStr(v, "key"), jStr(v, "code")})
		}
		out = append(out, kd)
	}
	return out, nil
}

func jTagSets(o jobj, k string) []gTagSet {
	out := []gTagSet{}
	for _, x := range grList(o, k) {
		t, _ := x.(map[string]any)
		g := gTagSet{Schema: jStr(t, "schema")}
		for _, y := range grList(t, "list") {
			d, _ := y.(map[string]any)
			g.Keys = append(g.Keys, jStr(d, "key"))
		}
		out = append(out, g)
	}
	return out
}

func jScenarios(o jobj, k string) []gScenarioSet {
	out := []gScenarioSet{}
	for _, x := range grList(o, k) {
		s, _ := x.(map[string]any)
		g := gScenarioSet{Schema: jStr(s, "schema")}
		for _, y := range grList(s, "list") {
			sc, _ := y.(map[string]any)
			z := gScenario{Types: jStrs(sc, "type"), Tags: jStrs(sc, "tags"), ExtKey: jStr(sc, "ext_key"),
				ExtCode: jStr(sc, "ext_code"), Codes: jKVs(sc, "codes"), Ext: jKVs(sc, "ext")}
			if n, ok := sc["note"].(map[string]any); ok {
				z.Note = &gNote{jStr(n, "key"), jStr(n, "code"), jStr(n, "src"), jKVs(n, "ext")}
			}
			g.List = append(g.List, z)
		}
		out = append(out, g)
	}
	return out
}

func jCorrections(o jobj, k string) []gCorrection {
	out := []gCorrection{}
	for _, x := range grList(o, k) {
		c, _ := x.(map[string]any)
		out = append(out, gCorrection{jStr(c, "schema"), jStrs(c, "types"), jStrs(c, "extensions"),
			jBool(c, "reason_required"), jStrs(c, "stamps"), jBool(c, "copy_tax")})
	}
	return out
}

func jsonRegime(file string, o jobj) (gRegime, error) {
	g := gRegime{File: file, Country: jStr(o, "country"), AltCountries: jStrs(o, "alt_country_codes"),
		Zone: jStr(o, "zone"), Currency: jStr(o, "currency"), TimeZone: jStr(o, "time_zone"),
		TaxScheme: jStr(o, "tax_scheme"), Rounding: jStr(o, "calculator_rounding_rule"),
		Tags: jTagSets(o, "tags"), Scenarios: jScenarios(o, "scenarios"), Corrections: jCorrections(o, "corrections")}
	var err error
	if g.Extensions, err = jKeyDefs(o, "extensions"); err != nil {
		return g, err
	}
	if g.Identities, err = jKeyDefs(o, "identities"); err != nil {
		return g, err
	}
	if g.PaymentMeansKeys, err = jKeyDefs(o, "payment_means_keys"); err != nil {
		return g, err
	}
	if g.InboxKeys, err = jKeyDefs(o, "inbox_keys"); err != nil {
		return g, err
	}
	for _, x := range grList(o, "categories") {
		c, _ := x.(map[string]any)
		gc := gCategory{Code: jStr(c, "code"), Retained: jBool(c, "retained"), Extensions: jStrs(c, "extensions"),
			Map: jKVs(c, "map"), Ext: jKVs(c, "ext")}
		for _, y := range grList(c, "rates") {
			rt, _ := y.(map[string]any)
			gr := gRate{Key: jStr(rt, "key"), Exempt: jBool(rt, "exempt"), Ext: jKVs(rt, "ext")}
			for _, z := range grList(rt, "values") {
				v, _ := z.(map[string]any)
				gv := gValue{Tags: jStrs(v, "tags"), Ext: jKVs(v, "ext"), Disabled: jBool(v, "disabled")}
				if s, ok := v["since"].(string); ok {
					if gv.Since, err = parseDate(s); err != nil {
						return g, fmt.Errorf("%s %s %s: %v", file, gc.Code, gr.Key, err)
					}
				}
				if gv.Percent, err = parsePct(jStr(v, "percent")); err != nil {
					return g, fmt.Errorf("%s %s %s: %v", file, gc.Code, gr.Key, err)
				}
				if s, ok := v["surcharge"].(string); ok {
					p, err := parsePct(s)
					if err != nil {
						return g, fmt.Errorf("%s %s %s: %v", file, gc.Code, gr.Key, err)
					}
					gv.Surcharge = &p
				}
				gr.Values = append(gr.Values, gv)
			}
			gc.Rates = append(gc.Rates, gr)
		}
		g.Categories = append(g.Categories, gc)
	}
	return g, nil
}

func jsonAddon(file string, o jobj) (gAddon, error) {
	g := gAddon{File: file, Key: jStr(o, "key"), Requires: jStrs(o, "requires"), Tags: jTagSets(o, "tags"),
		Scenarios: jScenarios(o, "scenarios"), Corrections: jCorrections(o, "corrections")}
	var err error
	if g.Extensions, err = jKeyDefs(o, "extensions"); err != nil {
		return g, err
	}
	if g.Identities, err = jKeyDefs(o, "identities"); err != nil {
		return g, err
	}
	if g.Inboxes, err = jKeyDefs(o, "inboxes"); err != nil {
		return g, err
	}
	return g, nil
}

func jsonCatalogue(file string, o jobj) (gCatalogue, error) {
	g := gCatalogue{File: file, Key: jStr(o, "key")}
	var err error
	g.Extensions, err = jKeyDefs(o, "extensions")
	return g, err
}

// readJSONDir parses every *.json of a directory (sorted by name) and returns (base name, object).
func readJSONDir(dir string) ([]string, []jobj, error) {
	ents, err := os.ReadDir(dir)
	if err != nil {
		return nil, nil, err
	}
	var names []string
	var objs []jobj
	for _, e := range ents {
		if e.IsDir() || !strings.HasSuffix(e.Name(), ".json") {
			continue
		}
		b, err := os.ReadFile(filepath.Join(dir, e.Name()))
		if err != nil {
			return nil, nil, err
		}
		var o jobj
		if err := json.Unmarshal(b, &o); err != nil {
			return nil, nil, fmt.Errorf("%s: %v", e.Name(), err)
		}
		names = append(names, strings.TrimSuffix(e.Name(), ".json"))
		objs = append(objs, o)
	}
	return names, objs, nil
}

// ---------------------------------------------------------------------------------------------
// the one rendering routine
// ---------------------------------------------------------------------------------------------

type gw struct{ sb strings.Builder }

func (w *gw) s(x string) { w.sb.WriteString(x) }

// str prints a byte-string literal "..."%bs; anything outside printable ASCII is spelled byte by byte.
func (w *gw) str(x string) {
	plain := true
	for i := 0; i < len(x); i++ {
		if x[i] < 32 || x[i] > 126 {
			plain = false
			break
		}
	}
	if plain {
		w.s("\"")
		w.s(strings.ReplaceAll(x, "\"", "\"\""))
		w.s("\"")
		return
	}
	w.s("[")
	for i := 0; i < len(x); i++ {
		if i > 0 {
			w.s(";")
		}
		fmt.Fprintf(&w.sb, "x%02x", x[i])
	}
	w.s("]")
}
func (w *gw) z(n int64) {
	if n < 0 {
		fmt.Fprintf(&w.sb, "(%d)", n)
	} else {
		fmt.Fprintf(&w.sb, "%d", n)
	}
}
func (w *gw) b(x bool) {
	if x {
		w.s("true")
	} else {
		w.s("false")
	}
}
func gwList[T any](w *gw, l []T, f func(T)) {
	if len(l) == 0 {
		w.s("[]")
		return
	}
	w.s("[")
	for i, x := range l {
		if i > 0 {
			w.s("; ")
		}
		f(x)
	}
	w.s("]")
}
func (w *gw) strs(l []string) { gwList(w, l, w.str) }
func (w *gw) kvs(l []gKV) {
	gwList(w, l, func(p gKV) { w.s("("); w.str(p.K); w.s(", "); w.str(p.V); w.s(")") })
}
func (w *gw) pct(p gPct) { w.s("(mkPct "); w.z(p.V); w.s(" "); w.z(p.E); w.s(")") }
func (w *gw) keydefs(l []gKeyDef) {
	gwList(w, l, func(d gKeyDef) {
		w.s("\n   (mkKeyDef ")
		w.str(d.Key)
		w.s(" ")
		w.str(d.Code)
		w.s(" ")
		gwList(w, d.Values, func(v gValDef) { w.s("mkValDef "); w.str(v.Key); w.s(" "); w.str(v.Code) })
		w.s(" ")
		w.str(d.Pattern)
		w.s(" ")
		w.kvs(d.Map)
		w.s(")")
	})
}
func (w *gw) tagsets(l []gTagSet) {
	gwList(w, l, func(t gTagSet) { w.s("\n   (mkTagSet "); w.str(t.Schema); w.s(" "); w.strs(t.Keys); w.s(")") })
}
func (w *gw) scenarios(l []gScenarioSet) {
	gwList(w, l, func(s gScenarioSet) {
		w.s("\n   (mkScenarioSet ")
		w.str(s.Schema)
		w.s(" ")
		gwList(w, s.List, func(c gScenario) {
			w.s("\n    (mkScenario ")
			w.strs(c.Types)
			w.s(" ")
			w.strs(c.Tags)
			w.s(" ")
			w.str(c.ExtKey)
			w.s(" ")
			w.str(c.ExtCode)
			if c.Note == nil {
				w.s(" None ")
			} else {
				w.s(" (Some (mkScNote ")
				w.str(c.Note.Key)
				w.s(" ")
				w.str(c.Note.Code)
				w.s(" ")
				w.str(c.Note.Src)
				w.s(" ")
				w.kvs(c.Note.Ext)
				w.s(")) ")
			}
			w.kvs(c.Codes)
			w.s(" ")
			w.kvs(c.Ext)
			w.s(")")
		})
		w.s(")")
	})
}
func (w *gw) corrections(l []gCorrection) {
	gwList(w, l, func(c gCorrection) {
		w.s("\n   (mkCorrection ")
		w.str(c.Schema)
		w.s(" ")
		w.strs(c.Types)
		w.s(" ")
		w.strs(c.Extensions)
		w.s(" ")
		w.b(c.ReasonRequired)
		w.s(" ")
		w.strs(c.Stamps)
		w.s(" ")
		w.b(c.CopyTax)
		w.s(")")
	})
}
func (w *gw) categories(l []gCategory) {
	gwList(w, l, func(c gCategory) {
		w.s("\n   (mkCategory ")
		w.str(c.Code)
		w.s(" ")
		w.b(c.Retained)
		w.s(" ")
		gwList(w, c.Rates, func(r gRate) {
			w.s("\n    (mkRate ")
			w.str(r.Key)
			w.s(" ")
			w.b(r.Exempt)
			w.s(" ")
			gwList(w, r.Values, func(v gValue) {
				w.s("\n     (mkValue ")
				if v.Since == nil {
					w.s("None ")
				} else {
					w.s("(Some (mkDate ")
					w.z(v.Since.Y)
					w.s(" ")
					w.z(v.Since.M)
					w.s(" ")
					w.z(v.Since.D)
					w.s(")) ")
				}
				w.pct(v.Percent)
				if v.Surcharge == nil {
					w.s(" None ")
				} else {
					w.s(" (Some ")
					w.pct(*v.Surcharge)
					w.s(") ")
				}
				w.strs(v.Tags)
				w.s(" ")
				w.kvs(v.Ext)
				w.s(" ")
				w.b(v.Disabled)
				w.s(")")
			})
			w.s(" ")
			w.kvs(r.Ext)
			w.s(")")
		})
		w.s(" ")
		w.strs(c.Extensions)
		w.s(" ")
		w.kvs(c.Map)
		w.s(" ")
		w.kvs(c.Ext)
		w.s(")")
	})
}

func (w *gw) regime(r gRegime) {
	w.s("(mkRegime ")
	w.str(r.Country)
	w.s(" ")
	w.strs(r.AltCountries)
	for _, x := range []string{r.Zone, r.Currency, r.TimeZone, r.TaxScheme, r.Rounding} {
		w.s(" ")
		w.str(x)
	}
	w.s("\n  ")
	w.tagsets(r.Tags)
	w.s("\n  ")
	w.keydefs(r.Extensions)
	w.s("\n  ")
	w.keydefs(r.Identities)
	w.s("\n  ")
	w.keydefs(r.PaymentMeansKeys)
	w.s("\n  ")
	w.keydefs(r.InboxKeys)
	w.s("\n  ")
	w.scenarios(r.Scenarios)
	w.s("\n  ")
	w.corrections(r.Corrections)
	w.s("\n  ")
	w.categories(r.Categories)
	w.s(")")
}

func (w *gw) addon(a gAddon) {
	w.s("(mkAddon ")
	w.str(a.Key)
	w.s(" ")
	w.strs(a.Requires)
	w.s("\n  ")
	w.keydefs(a.Extensions)
	w.s("\n  ")
	w.tagsets(a.Tags)
	w.s("\n  ")
	w.scenarios(a.Scenarios)
	w.s("\n  ")
	w.keydefs(a.Identities)
	w.s("\n  ")
	w.keydefs(a.Inboxes)
	w.s("\n  ")
	w.corrections(a.Corrections)
	w.s(")")
}

func (w *gw) catalogue(c gCatalogue) {
	w.s("(mkCatalogue ")
	w.str(c.Key)
	w.s("\n  ")
	w.keydefs(c.Extensions)
	w.s(")")
}

const genHeader = "(* GENERATED by `vharness translate` (harness/gen_regimes.go) - do not edit, not committed. *)\n" +
	"From Coq Require Import List ZArith Strings.Byte.\n" +
	"From Verif Require Import Base.Wire Defs.DefTypes.\n" +
	"Import ListNotations.\n#[local] Open Scope Z_scope.\n#[local] Open Scope bs_scope.\n\n"

// ident turns a file name into a Gallina identifier suffix.
func ident(s string) string {
	var sb strings.Builder
	for _, c := range s {
		if c >= 'a' && c <= 'z' || c >= 'A' && c <= 'Z' || c >= '0' && c <= '9' {
			sb.WriteRune(c)
		} else {
			sb.WriteByte('_')
		}
	}
	return sb.String()
}

// renderNamed prints one Definition per entry plus the list `<listName> : list (named <typ>)`.
func renderNamed[T any](w *gw, prefix, typ, listName string, items []T, file func(T) string, render func(T)) {
	names := []string{}
	for _, it := range items {
		id := prefix + ident(file(it))
		names = append(names, id)
		w.s("Definition " + id + " : " + typ + " :=\n ")
		render(it)
		w.s(".\n\n")
	}
	w.s("Definition " + listName + " : list (named " + typ + ") :=\n [")
	for i, it := range items {
		if i > 0 {
			w.s(";\n  ")
		}
		w.s("(")
		w.str(file(it))
		w.s(", " + names[i] + ")")
	}
	w.s("].\n\n")
}

func inCodeRegimes() ([]gRegime, error) {
	var out []gRegime
	for _, r := range tax.AllRegimeDefs() {
		g, err := goRegime(r)
		if err != nil {
			return nil, err
		}
		out = append(out, g)
	}
	return out, nil
}
func inCodeAddons() ([]gAddon, error) {
	var out []gAddon
	for _, a := range tax.AllAddonDefs() {
		g, err := goAddon(a)
		if err != nil {
			return nil, err
		}
		out = append(out, g)
	}
	return out, nil
}
func inCodeCatalogues() ([]gCatalogue, error) {
	var out []gCatalogue
	for _, c := range tax.AllCatalogueDefs() {
		g, err := goCatalogue(c)
		if err != nil {
			return nil, err
		}
		out = append(out, g)
	}
	return out, nil
}

func init() {
	genFiles = append(genFiles,
		genFile{"Regimes", func(repo string) (string, error) {
			rs, err := inCodeRegimes()
			if err != nil {
				return "", err
			}
			w := &gw{}
			w.s(genHeader)
			w.s("(* tax.AllRegimeDefs() of the linked repository; file name = what regimes/generate.go would write *)\n")
			renderNamed(w, "regime_", "regime", "in_code_regimes", rs, func(r gRegime) string { return r.File }, w.regime)
			return w.sb.String(), nil
		}},
		genFile{"Addons", func(repo string) (string, error) {
			as, err := inCodeAddons()
			if err != nil {
				return "", err
			}
			w := &gw{}
			w.s(genHeader)
			w.s("(* tax.AllAddonDefs() of the linked repository *)\n")
			renderNamed(w, "addon_", "addon", "in_code_addons", as, func(a gAddon) string { return a.File }, w.addon)
			return w.sb.String(), nil
		}},
		genFile{"Catalogues", func(repo string) (string, error) {
			cs, err := inCodeCatalogues()
			if err != nil {
				return "", err
			}
			w := &gw{}
			w.s(genHeader)
			w.s("(* tax.AllCatalogueDefs() of the linked repository (the library loads these from its embedded data/catalogues) *)\n")
			renderNamed(w, "catalogue_", "catalogue", "in_code_catalogues", cs, func(c gCatalogue) string { return c.File }, w.catalogue)
			return w.sb.String(), nil
		}},
		genFile{"Currencies", func(repo string) (string, error) {
			w := &gw{}
			w.s(genHeader)
			w.s("(* currency.Definitions() of the linked repository, sorted by code; bill.InvoiceTypes keys *)\n")
			defs := append([]*currency.Def{}, currency.Definitions()...)
			sort.Slice(defs, func(i, j int) bool { return defs[i].ISOCode < defs[j].ISOCode })
			w.s("Definition currencies : list currency :=\n [")
			for i, d := range defs {
				if i > 0 {
					w.s(";\n  ")
				}
				w.s("mkCurrency ")
				w.str(string(d.ISOCode))
				w.s(" ")
				w.str(d.ISONumeric)
				w.s(" ")
				w.z(int64(d.Subunits))
			}
			w.s("].\n\n")
			w.s("Definition gen_invoice_types : list str := ")
			var ts []string
			for _, d := range bill.InvoiceTypes {
				ts = append(ts, string(d.Key))
			}
			w.strs(ts)
			w.s(".\n")
			return w.sb.String(), nil
		}},
		genFile{"Published", func(repo string) (string, error) {
			w := &gw{}
			w.s(genHeader)
			w.s("(* data/regimes/*.json, data/addons/*.json, data/catalogues/*.json of " + "the repository under test, sorted by file name *)\n")
			names, objs, err := readJSONDir(filepath.Join(repo, "data", "regimes"))
			if err != nil {
				return "", err
			}
			var rs []gRegime
			for i := range names {
				g, err := jsonRegime(names[i], objs[i])
				if err != nil {
					return "", err
				}
				rs = append(rs, g)
			}
			renderNamed(w, "pub_regime_", "regime", "published_regimes", rs, func(r gRegime) string { return r.File }, w.regime)
			names, objs, err = readJSONDir(filepath.Join(repo, "data", "addons"))
			if err != nil {
				return "", err
			}
			var as []gAddon
			for i := range names {
				g, err := jsonAddon(names[i], objs[i])
				if err != nil {
					return "", err
				}
				as = append(as, g)
			}
			renderNamed(w, "pub_addon_", "addon", "published_addons", as, func(a gAddon) string { return a.File }, w.addon)
			names, objs, err = readJSONDir(filepath.Join(repo, "data", "catalogues"))
			if err != nil {
				return "", err
			}
			var cs []gCatalogue
			for i := range names {
				g, err := jsonCatalogue(names[i], objs[i])
				if err != nil {
					return "", err
				}
				cs = append(cs, g)
			}
			renderNamed(w, "pub_catalogue_", "catalogue", "published_catalogues", cs, func(c gCatalogue) string { return c.File }, w.catalogue)
			return w.sb.String(), nil
		}},
	)
}
