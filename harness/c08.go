package main

// C08: the header digest makes every change to the document evident.
// The implementation side of the sweep: serialised envelope text -> gobl.Parse -> Validate,
// the parsed document serialised again (json.Marshal + c14n), Calculate, new digest.
//
//   c08 envelop x<document json>            -> ok x<envelope json>            (gobl.Parse, gobl.Envelop, json.Marshal)
//   c08 orig x<envelope text>               -> one observation (always with detail)
//   c08 sweep x<original text> ( x<edited text> ... ) <detail 0|1>
//                                           -> ( <observation of the original> ) ( <observation> ... )
//   c08 extvalues ( x<extension key> ... ) -> ( ( x<code> ... ) ... )  the codes the registered definition of each extension key
//                                              (tax.ExtensionForKey: regimes and add-ons) lists; empty for unknown keys and
//                                              for keys validated by a pattern only
//   c08 hashed x<envelope text>             -> ok x<json.Marshal(parsed doc)> x<canonical JSON of it> x<Envelope.Digest().Value> xalg
//                                              the bytes the implementation's own Envelope.Digest hashes (json.Marshal of the
//                                              document, then c14n.CanonicalJSON) next to the digest it answers for them;
//                                              compared with Digest/Link.real_canon (wire op `c08 realcanon`) by the check
//
// observation = ( xparse xvalidate <structural> <same-as-original> xcalc ( xalg xval ) <same-after-calc>
//                 ( xheadalg xheadval ) xsha(canon parsed doc) xsha(canon calculated doc) <Validate rewrote the document>
//                 [ x<canon parsed doc> x<canon calculated doc> x<json.Marshal(parsed doc)> ] )

import (
	"bytes"
	"crypto/sha256"
	"encoding/hex"
	"encoding/json"
	"errors"
	"fmt"

	"github.com/invopop/gobl"
	"github.com/invopop/gobl/c14n"
	"github.com/invopop/gobl/cbc"
	"github.com/invopop/gobl/tax"
)

func c08ErrKind(err error) string {
	if err == nil {
		return "ok"
	}
	var ge *gobl.Error
	if errors.As(err, &ge) {
		return ge.Key().String()
	}
	return "other"
}

func c08Parse(text []byte) (*gobl.Envelope, string) {
	obj, err := gobl.Parse(text)
	if err != nil {
		return nil, c08ErrKind(err)
	}
	env, ok := obj.(*gobl.Envelope)
	if !ok {
		return nil, "not-envelope"
	}
	return env, "ok"
}

// canonDoc: the bytes Envelope.Digest hashes, produced here step by step.
func canonDoc(env *gobl.Envelope) (raw []byte, canon []byte, err error) {
	if env.Document == nil {
		return nil, nil, errors.New("no document")
	}
	raw, err = json.Marshal(env.Document)
	if err != nil {
		return nil, nil, err
	}
	canon, err = c14n.CanonicalJSON(bytes.NewReader(raw))
	return raw, canon, err
}

func shaHex(b []byte) string {
	if b == nil {
		return ""
	}
	s := sha256.Sum256(b)
	return hex.EncodeToString(s[:])
}

type c08obs struct {
	parse, validate, calc            string
	structural, same, sameCalc       bool
	rewrote                          bool
	headAlg, headVal, newAlg, newVal string
	canon, canonCalc, raw            []byte
}

func (o *c08obs) v(detail bool) V {
	l := []V{VS(o.parse), VS(o.validate), VB(o.structural), VB(o.same), VS(o.calc),
		VL(VS(o.newAlg), VS(o.newVal)), VB(o.sameCalc), VL(VS(o.headAlg), VS(o.headVal)),
		VS(shaHex(o.canon)), VS(shaHex(o.canonCalc)), VB(o.rewrote)}
	if detail {
		l = append(l, VBytes(o.canon), VBytes(o.canonCalc), VBytes(o.raw))
	}
	return V{Kind: 'l', L: l}
}

func c08guard(kind *string, f func()) {
	defer func() {
		if r := recover(); r != nil {
			*kind = "panic"
		}
	}()
	f()
}

// observe runs one serialised envelope through parse / validate / re-serialise / calculate.
func c08observe(text []byte, origCanon []byte) *c08obs {
	o := &c08obs{parse: "ok", validate: "-", calc: "-"}
	var env *gobl.Envelope
	c08guard(&o.parse, func() { env, o.parse = c08Parse(text) })
	if o.parse != "ok" || env == nil {
		return o
	}
	if env.Head != nil && env.Head.Digest != nil {
		o.headAlg, o.headVal = string(env.Head.Digest.Algorithm), env.Head.Digest.Value
	}
	// the parsed document is serialised BEFORE Validate is called: it is what the text says.  Serialised once more
	// afterwards: a Validate that rewrites the document it is asked about (rewrote) has checked the digest of
	// something else than the content it was given.
	c08guard(&o.validate, func() {
		var err error
		o.raw, o.canon, err = canonDoc(env)
		if err != nil {
			o.canon = nil
		}
	})
	if o.validate == "panic" {
		return o
	}
	c08guard(&o.validate, func() { o.validate = c08ErrKind(env.Validate()) })
	c08guard(&o.validate, func() {
		_, after, err := canonDoc(env)
		o.rewrote = err == nil && o.canon != nil && !bytes.Equal(after, o.canon)
	})
	o.same = origCanon != nil && o.canon != nil && bytes.Equal(o.canon, origCanon)
	// structural: would the envelope validate if its digest were the right one?  A validation error
	// already says no; otherwise the digest is replaced by the recomputed one and Validate asked again.
	st := o.validate
	if st != "validation" {
		c08guard(&st, func() {
			d, err := env.Digest()
			if err != nil || env.Head == nil {
				st = "nodigest"
				return
			}
			env.Head.Digest = d
			st = c08ErrKind(env.Validate())
		})
	}
	o.structural = st == "ok"
	// recalculate (the same value: nothing above is needed any more)
	c08guard(&o.calc, func() {
		if err := env.Calculate(); err != nil {
			o.calc = c08ErrKind(err)
			return
		}
		o.calc = "ok"
		if env.Head != nil && env.Head.Digest != nil {
			o.newAlg, o.newVal = string(env.Head.Digest.Algorithm), env.Head.Digest.Value
		}
		_, cc, err := canonDoc(env)
		if err == nil {
			o.canonCalc = cc
		}
	})
	o.sameCalc = origCanon != nil && o.canonCalc != nil && bytes.Equal(o.canonCalc, origCanon)
	return o
}

// c08Hashed: the parsed envelope's own Digest() and, step by step, the bytes it is computed over.
func c08Hashed(text []byte) []V {
	env, kind := c08Parse(text)
	if kind != "ok" || env == nil {
		return []V{VErr("parse")}
	}
	d, err := env.Digest()
	if err != nil || d == nil {
		return []V{VErr("digest")}
	}
	raw, canon, err := canonDoc(env)
	if err != nil {
		return []V{VErr("canon")}
	}
	return []V{VS("ok"), VBytes(raw), VBytes(canon), VS(d.Value), VS(string(d.Algorithm))}
}

func init() {
	register("c08", func(a []V) []V {
		switch a[0].Str() {
		case "extvalues":
			res := []V{}
			for _, k := range a[1].L {
				vals := []V{}
				if def := tax.ExtensionForKey(cbc.Key(k.S)); def != nil {
					for _, d := range def.Values {
						if d != nil && d.Code != "" {
							vals = append(vals, VS(string(d.Code)))
						}
					}
				}
				res = append(res, V{Kind: 'l', L: vals})
			}
			return []V{V{Kind: 'l', L: res}}
		case "hashed":
			return c08Hashed(a[1].S)
		case "envelop":
			obj, err := gobl.Parse(a[1].S)
			if err != nil {
				return []V{VErr("parse")}
			}
			env, err := gobl.Envelop(obj)
			if err != nil {
				return []V{VErr("calc")}
			}
			out, err := json.Marshal(env)
			if err != nil {
				return []V{VErr("marshal")}
			}
			return []V{VS("ok"), VBytes(out)}
		case "orig":
			o := c08observe(a[1].S, nil)
			o.same = true
			return []V{o.v(true)}
		case "sweep":
			orig := c08observe(a[1].S, nil)
			orig.same = true
			orig.sameCalc = orig.canon != nil && bytes.Equal(orig.canon, orig.canonCalc)
			detail := a[3].Int() != 0
			res := []V{}
			for _, e := range a[2].L {
				res = append(res, c08observe(e.S, orig.canon).v(detail))
			}
			return []V{orig.v(false), V{Kind: 'l', L: res}}
		}
		return []V{VErr(fmt.Sprintf("unknown-c08-op"))}
	})
}
