package main

// C09: runs a history on the envelope machine of c10.go, then presents the resulting envelope,
// once per listed key (-1 = no key), to every verification entry point:
//
//   c09 <fx> <base> ( op ... ) ( key ... ) -> ( ( x<validate> x<lib> x<cli> x<bulk> x<http> ) ... ) ( x<op outcome> ... )
//
//   validate  Envelope.Validate()                                      (library)
//   lib       Envelope.Verify(key)                                     (library)
//   cli       `gobl verify -k <public key file>` reading the JSON on stdin (the binary)
//   bulk      POST /bulk  {"action":"verify", ...} of a loopback `gobl serve`
//   http      POST /verify of the same server
//
// Verdicts: ok | <cbc key of the structured error> | other | reject (HTTP status only) |
// panic (nil dereference: recovered in-process, exit status 2 of the binary, connection dropped or
// server process gone) | marshal (the envelope does not serialise) | skip (entry point not
// available: no key for the binary, or the server could not be started).
// The binary is $VERIF_GOBL_BIN or the file "gobl" next to this executable.

import (
	"bytes"
	"encoding/json"
	"fmt"
	"io"
	"net"
	"net/http"
	"os"
	"os/exec"
	"path/filepath"
	"runtime"
	"strings"
	"sync"
	"syscall"
	"time"
)

type c09Env struct {
	once    sync.Once
	dir     string
	gobl    string
	pubFile []string
	pubJSON []json.RawMessage
	privKey string

	mu       sync.Mutex
	port     int
	alive    bool
	dead     chan struct{}
	startErr string
	starts   int
}

var c09 c09Env

func (c *c09Env) setup() {
	c.once.Do(func() {
		c.gobl = os.Getenv("VERIF_GOBL_BIN")
		if c.gobl == "" {
			exe, _ := os.Executable()
			c.gobl = filepath.Join(filepath.Dir(exe), "gobl")
		}
		dir, err := os.MkdirTemp("", "vharness-c09-")
		if err != nil {
			panic(err)
		}
		c.dir = dir
		for i, k := range envKeys {
			d, _ := json.Marshal(k.Public())
			f := filepath.Join(dir, fmt.Sprintf("k%d.pub.jwk", i))
			_ = os.WriteFile(f, d, 0o600)
			c.pubFile = append(c.pubFile, f)
			c.pubJSON = append(c.pubJSON, d)
		}
		d, _ := json.Marshal(envKeys[0])
		c.privKey = filepath.Join(dir, "serve.jwk")
		_ = os.WriteFile(c.privKey, d, 0o600)
	})
}

func freePort() int {
	l, err := net.Listen("tcp", "127.0.0.1:0")
	if err != nil {
		return 0
	}
	defer l.Close() //nolint:errcheck
	return l.Addr().(*net.TCPAddr).Port
}

// ensureServer starts `gobl serve` when none is running. The child is killed with this process.
func (c *c09Env) ensureServer() bool {
	c.mu.Lock()
	defer c.mu.Unlock()
	if c.alive {
		select {
		case <-c.dead:
			c.alive = false
		default:
			return true
		}
	}
	if os.Getenv("VERIF_NO_SERVE") != "" || c.starts > 200 {
		return false
	}
	for attempt := 0; attempt < 3; attempt++ {
		port := freePort()
		if port == 0 {
			c.startErr = "no loopback port"
			return false
		}
		dead := make(chan struct{})
		started := make(chan error, 1)
		go func() {
			runtime.LockOSThread() // Pdeathsig is tied to the creating thread: keep it
			cmd := exec.Command(c.gobl, "serve", "-p", fmt.Sprint(port), "-k", c.privKey)
			cmd.SysProcAttr = &syscall.SysProcAttr{Pdeathsig: syscall.SIGKILL}
			cmd.Stdout, cmd.Stderr = io.Discard, io.Discard
			if err := cmd.Start(); err != nil {
				started <- err
				close(dead)
				return
			}
			started <- nil
			_ = cmd.Wait()
			close(dead)
		}()
		if err := <-started; err != nil {
			c.startErr = err.Error()
			return false
		}
		c.starts++
		ok := false
		for i := 0; i < 100; i++ {
			select {
			case <-dead:
				i = 1000
				continue
			default:
			}
			resp, err := http.Get(fmt.Sprintf("http://127.0.0.1:%d/", port))
			if err == nil {
				_ = resp.Body.Close()
				ok = true
				break
			}
			time.Sleep(30 * time.Millisecond)
		}
		if ok {
			c.port, c.dead, c.alive = port, dead, true
			return true
		}
		c.startErr = "server did not answer"
	}
	return false
}

func (c *c09Env) serverDied() bool {
	// give a crashing process a moment to go away
	select {
	case <-c.dead:
		return true
	case <-time.After(150 * time.Millisecond):
		return false
	}
}

func (c *c09Env) cli(data []byte, key int64) string {
	if key < 0 || int(key) >= len(c.pubFile) {
		return "skip"
	}
	cmd := exec.Command(c.gobl, "verify", "-k", c.pubFile[key])
	cmd.Stdin = bytes.NewReader(data)
	var stderr bytes.Buffer
	cmd.Stderr = &stderr
	cmd.Stdout = io.Discard
	err := cmd.Run()
	if err == nil {
		return "ok"
	}
	if _, ok := err.(*exec.ExitError); !ok {
		return "skip"
	}
	se := stderr.String()
	if strings.Contains(se, "panic:") || strings.Contains(se, "goroutine ") {
		return "panic"
	}
	var e struct {
		Key string `json:"key"`
	}
	if json.Unmarshal(stderr.Bytes(), &e) == nil && e.Key != "" {
		return e.Key
	}
	return "other"
}

func (c *c09Env) verifyRequest(data []byte, key int64) []byte {
	req := map[string]any{"data": data}
	if key >= 0 && int(key) < len(c.pubJSON) {
		req["publickey"] = c.pubJSON[key]
	}
	d, _ := json.Marshal(req)
	return d
}

var c09Client = &http.Client{Timeout: 20 * time.Second}

func (c *c09Env) http(data []byte, key int64) string {
	if !c.ensureServer() {
		return "skip"
	}
	resp, err := c09Client.Post(fmt.Sprintf("http://127.0.0.1:%d/verify", c.port), "application/json",
		bytes.NewReader(c.verifyRequest(data, key)))
	if err != nil {
		c.serverDied()
		return "panic" // the handler panicked: net/http drops the connection
	}
	defer resp.Body.Close() //nolint:errcheck
	body, _ := io.ReadAll(resp.Body)
	if resp.StatusCode == http.StatusOK {
		var r struct {
			OK bool `json:"ok"`
		}
		if json.Unmarshal(body, &r) == nil && r.OK {
			return "ok"
		}
	}
	return "reject"
}

func (c *c09Env) bulk(data []byte, key int64) string {
	if !c.ensureServer() {
		return "skip"
	}
	req, _ := json.Marshal(map[string]any{"action": "verify", "req_id": "r1",
		"payload": json.RawMessage(c.verifyRequest(data, key))})
	resp, err := c09Client.Post(fmt.Sprintf("http://127.0.0.1:%d/bulk", c.port), "application/json", bytes.NewReader(req))
	if err != nil {
		c.serverDied()
		return "panic"
	}
	defer resp.Body.Close() //nolint:errcheck
	dec := json.NewDecoder(resp.Body)
	for {
		var r struct {
			ReqID   string          `json:"req_id"`
			SeqID   int64           `json:"seq_id"`
			Payload json.RawMessage `json:"payload"`
			Error   *struct {
				Code int    `json:"code"`
				Key  string `json:"key"`
			} `json:"error"`
			IsFinal bool `json:"is_final"`
		}
		if err := dec.Decode(&r); err != nil {
			// the stream broke before our response: the worker goroutine panicked and took the server down
			c.serverDied()
			return "panic"
		}
		if r.ReqID == "r1" && !r.IsFinal {
			if r.Error == nil {
				var p struct {
					OK bool `json:"ok"`
				}
				if json.Unmarshal(r.Payload, &p) == nil && p.OK {
					return "ok"
				}
				return "other"
			}
			if r.Error.Key != "" {
				return r.Error.Key
			}
			return "other"
		}
		if r.IsFinal {
			return "other"
		}
	}
}

// batch sends all the verify requests in ONE POST /bulk body (one bulk stream; the server answers them
// concurrently) and returns the verdict per request.
func (c *c09Env) batch(payloads [][]byte) []string {
	res := make([]string, len(payloads))
	fill := func(v string) []string {
		for i := range res {
			if res[i] == "" {
				res[i] = v
			}
		}
		return res
	}
	if !c.ensureServer() {
		return fill("skip")
	}
	var body bytes.Buffer
	for i, p := range payloads {
		if p == nil {
			res[i] = "marshal"
			continue
		}
		req, _ := json.Marshal(map[string]any{"action": "verify", "req_id": fmt.Sprintf("q%d", i), "payload": json.RawMessage(p)})
		body.Write(req)
		body.WriteByte('\n')
	}
	resp, err := c09Client.Post(fmt.Sprintf("http://127.0.0.1:%d/bulk", c.port), "application/json", &body)
	if err != nil {
		c.serverDied()
		return fill("panic")
	}
	defer resp.Body.Close() //nolint:errcheck
	dec := json.NewDecoder(resp.Body)
	for {
		var r struct {
			ReqID   string          `json:"req_id"`
			Payload json.RawMessage `json:"payload"`
			Error   *struct {
				Key string `json:"key"`
			} `json:"error"`
			IsFinal bool `json:"is_final"`
		}
		if err := dec.Decode(&r); err != nil {
			c.serverDied()
			return fill("panic")
		}
		if r.IsFinal {
			return fill("other")
		}
		var i int
		if _, err := fmt.Sscanf(r.ReqID, "q%d", &i); err != nil || i < 0 || i >= len(res) || res[i] != "" {
			continue
		}
		switch {
		case r.Error == nil:
			var q struct {
				OK bool `json:"ok"`
			}
			if json.Unmarshal(r.Payload, &q) == nil && q.OK {
				res[i] = "ok"
			} else {
				res[i] = "other"
			}
		case r.Error.Key != "":
			res[i] = r.Error.Key
		default:
			res[i] = "other"
		}
	}
}

// c09seq: the life of ONE envelope presented as a sequence of requests to long-lived processes.
//
//   c09seq <fx> <base> ( ( op ... ) ( op ... ) ... ) ( ( stage key ) ... )
//     -> ( ( x<validate> x<lib> x<cli> x<bulk> x<http> x<batch> ) ... ) ( ( x<op outcome> ... ) ... )
//
// The op lists are applied one after the other to the same machine; the envelope after list i is
// "stage i" (all stages carry the signatures made in earlier stages). Then the requests ( stage key )
// are presented IN ORDER, one request each, to POST /bulk and POST /verify of the one loopback
// `gobl serve` of this harness process, and afterwards all together in the body of one POST /bulk
// (batch: one bulk stream with many requests); validate, lib (evaluated when the stage was reached)
// and cli (a fresh `gobl verify` process) do not depend on the order and are the reference.
func c09seq(args []V) []V {
	if len(args) < 4 || args[2].Kind != 'l' || args[3].Kind != 'l' {
		return []V{VErr("badargs")}
	}
	c09.setup()
	m := newEnvMachine(args[1].Int())
	type stage struct {
		data     []byte
		merr     error
		val, lib map[int64]string
		cli      map[int64]string
	}
	keys := map[int64]bool{}
	for _, r := range args[3].L {
		if r.Kind == 'l' && len(r.L) == 2 {
			keys[r.L[1].Int()] = true
		}
	}
	stages := []*stage{}
	outs := []V{}
	for _, ops := range args[2].L {
		o := []V{}
		for _, op := range ops.L {
			o = append(o, VS(m.apply(op)))
		}
		outs = append(outs, VL(o...))
		st := &stage{val: map[int64]string{}, lib: map[int64]string{}, cli: map[int64]string{}}
		st.data, st.merr = json.Marshal(m.env)
		for k := range keys {
			st.val[k] = m.apply(VI(9))
			if k < 0 {
				st.lib[k] = m.apply(VL(VI(10)))
			} else {
				st.lib[k] = m.apply(VL(VI(10), VI(k)))
			}
		}
		stages = append(stages, st)
	}
	out := []V{}
	rows := [][]string{}
	payloads := [][]byte{}
	for _, r := range args[3].L {
		if r.Kind != 'l' || len(r.L) != 2 || r.L[0].Int() < 0 || int(r.L[0].Int()) >= len(stages) {
			rows = append(rows, []string{"skip", "skip", "skip", "skip", "skip"})
			payloads = append(payloads, nil)
			continue
		}
		st, k := stages[r.L[0].Int()], r.L[1].Int()
		cli, bulk, web := "marshal", "marshal", "marshal"
		var payload []byte
		if st.merr == nil {
			if v, ok := st.cli[k]; ok {
				cli = v
			} else {
				cli = c09.cli(st.data, k)
				st.cli[k] = cli
			}
			bulk, web = c09.bulk(st.data, k), c09.http(st.data, k)
			payload = c09.verifyRequest(st.data, k)
		}
		rows = append(rows, []string{st.val[k], st.lib[k], cli, bulk, web})
		payloads = append(payloads, payload)
	}
	for i, b := range c09.batch(payloads) {
		r := rows[i]
		if r[0] == "skip" && r[1] == "skip" {
			b = "skip"
		}
		out = append(out, VL(VS(r[0]), VS(r[1]), VS(r[2]), VS(r[3]), VS(r[4]), VS(b)))
	}
	return []V{VL(out...), VL(outs...)}
}

func init() {
	register("c09seq", c09seq)
	register("c09", func(args []V) []V {
		if len(args) < 4 || args[2].Kind != 'l' || args[3].Kind != 'l' {
			return []V{VErr("badargs")}
		}
		c09.setup()
		m := newEnvMachine(args[1].Int())
		outs := []V{}
		for _, op := range args[2].L {
			outs = append(outs, VS(m.apply(op)))
		}
		data, merr := json.Marshal(m.env)
		out := []V{}
		for _, kv := range args[3].L {
			k := kv.Int()
			val := m.apply(VI(9))
			var lib string
			if k < 0 {
				lib = m.apply(VL(VI(10)))
			} else {
				lib = m.apply(VL(VI(10), VI(k)))
			}
			cli, bulk, web := "marshal", "marshal", "marshal"
			if merr == nil {
				cli, bulk, web = c09.cli(data, k), c09.bulk(data, k), c09.http(data, k)
			}
			out = append(out, VL(VS(val), VS(lib), VS(cli), VS(bulk), VS(web)))
		}
		return []V{VL(out...), VL(outs...)}
	})
	// c09info: how the entry points are reached in this process (for the evidence file)
	register("c09info", func(args []V) []V {
		c09.setup()
		ok := c09.ensureServer()
		_, err := os.Stat(c09.gobl)
		return []V{VL(VB(err == nil), VB(ok), VS(c09.startErr))}
	})
}
