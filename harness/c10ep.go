package main

// C10, entry points: runs a history on the envelope machine of c10.go, serialises the resulting
// envelope and hands it to every envelope-processing entry point of the program
// (internal/cli.Build / Sign / Validate), over every way they can be reached:
//
//   c10ep <fx> <base> ( op ... ) <key> <paths>
//      -> ( ( x<outcome> nsigs nreal ) ... ) x<marshal outcome> x<parse outcome> ( ( x<entry> x<path> x<outcome> nsigs nreal nstamps x<revalidate> ) ... )
//
//   entry  build | sign (with private key <key>) | validate
//   path   cli   the binary: `gobl build`, `gobl sign -k <private key file>`, `gobl validate`, JSON on stdin   (paths bit 0)
//          bulk  POST /bulk {"action": <entry>, ...} of a loopback `gobl serve`                             (paths bit 1)
//          http  POST /build of the same server (build only)                                                  (paths bit 2)
//
// Outcome: ok | <key of the structured error> | other | reject (HTTP status only) | panic | skip.
// For build and sign the envelope that came back is parsed with the library: nsigs / nreal =
// len(sigs) and the number of real signatures in it, nstamps = len(head.stamps), revalidate = the
// outcome class of Envelope.Validate() on it ("unmarshal" when it does not parse).  For validate
// (no envelope comes back) and for failures these are -1 / x2d ("-").
// parse outcome = outcome class of gobl.Parse (the reading step of every entry point, stricter than
// json.Unmarshal into an Envelope: it refuses null array elements) on the serialised envelope.
// The server, the key files and the binary are those of c09.go.

import (
	"bytes"
	"encoding/json"
	"fmt"
	"io"
	"net/http"
	"os"
	"os/exec"
	"path/filepath"
	"strings"
	"sync"

	"github.com/invopop/gobl"
)

type c10epEnv struct {
	once     sync.Once
	privFile []string
	privJSON []json.RawMessage
}

var c10ep c10epEnv

func (c *c10epEnv) setup() {
	c09.setup()
	c.once.Do(func() {
		for i, k := range envKeys {
			d, _ := json.Marshal(k)
			f := filepath.Join(c09.dir, fmt.Sprintf("k%d.priv.jwk", i))
			_ = os.WriteFile(f, d, 0o600)
			c.privFile = append(c.privFile, f)
			c.privJSON = append(c.privJSON, d)
		}
	})
}

type epResult struct {
	entry, path, outcome string
	n, real, stamps      int64
	revalidate           string
}

func epFail(entry, path, outcome string) epResult {
	return epResult{entry, path, outcome, -1, -1, -1, "-"}
}

// epEnvelope looks at the envelope an entry point handed back.
func epEnvelope(entry, path string, data []byte) epResult {
	r := epResult{entry: entry, path: path, outcome: "ok", n: -1, real: -1, stamps: -1, revalidate: "unmarshal"}
	env := new(gobl.Envelope)
	if err := json.Unmarshal(data, env); err != nil {
		return r
	}
	m := &envMachine{env: env}
	n, real := m.nsigs()
	r.n, r.real = int64(n), int64(real)
	r.stamps = 0
	if env.Head != nil {
		r.stamps = int64(len(env.Head.Stamps))
	}
	func() {
		defer func() {
			if recover() != nil {
				r.revalidate = "panic"
			}
		}()
		r.revalidate = envErrKey(env.Validate())
	}()
	return r
}

func (c *c10epEnv) cli(entry string, data []byte, key int64) epResult {
	args := []string{entry}
	if entry == "sign" {
		args = append(args, "-k", c.privFile[key])
	}
	cmd := exec.Command(c09.gobl, args...)
	cmd.Stdin = bytes.NewReader(data)
	var stdout, stderr bytes.Buffer
	cmd.Stderr = &stderr
	cmd.Stdout = &stdout
	err := cmd.Run()
	if err == nil {
		if entry == "validate" {
			r := epFail(entry, "cli", "ok")
			return r
		}
		return epEnvelope(entry, "cli", stdout.Bytes())
	}
	if _, ok := err.(*exec.ExitError); !ok {
		return epFail(entry, "cli", "skip")
	}
	se := stderr.String()
	if strings.Contains(se, "panic:") || strings.Contains(se, "goroutine ") {
		return epFail(entry, "cli", "panic")
	}
	var e struct {
		Key string `json:"key"`
	}
	if json.Unmarshal(stderr.Bytes(), &e) == nil && e.Key != "" {
		return epFail(entry, "cli", e.Key)
	}
	return epFail(entry, "cli", "other")
}

func (c *c10epEnv) request(entry string, data []byte, key int64) []byte {
	req := map[string]any{"data": data}
	if entry == "sign" {
		req["privatekey"] = c.privJSON[key]
	}
	d, _ := json.Marshal(req)
	return d
}

func (c *c10epEnv) bulk(entry string, data []byte, key int64) epResult {
	if !c09.ensureServer() {
		return epFail(entry, "bulk", "skip")
	}
	req, _ := json.Marshal(map[string]any{"action": entry, "req_id": "r1",
		"payload": json.RawMessage(c.request(entry, data, key))})
	resp, err := c09Client.Post(fmt.Sprintf("http://127.0.0.1:%d/bulk", c09.port), "application/json", bytes.NewReader(req))
	if err != nil {
		c09.serverDied()
		return epFail(entry, "bulk", "panic")
	}
	defer resp.Body.Close() //nolint:errcheck
	dec := json.NewDecoder(resp.Body)
	for {
		var r struct {
			ReqID   string          `json:"req_id"`
			Payload json.RawMessage `json:"payload"`
			Error   *struct {
				Key string `json:"key"`
			} `json:"error"`
			IsFinal bool `json:"is_final"`
		}
		if err := dec.Decode(&r); err != nil {
			c09.serverDied()
			return epFail(entry, "bulk", "panic")
		}
		if r.ReqID == "r1" && !r.IsFinal {
			if r.Error != nil {
				if r.Error.Key != "" {
					return epFail(entry, "bulk", r.Error.Key)
				}
				return epFail(entry, "bulk", "other")
			}
			if entry == "validate" {
				var p struct {
					OK bool `json:"ok"`
				}
				if json.Unmarshal(r.Payload, &p) == nil && p.OK {
					return epFail(entry, "bulk", "ok")
				}
				return epFail(entry, "bulk", "other")
			}
			return epEnvelope(entry, "bulk", r.Payload)
		}
		if r.IsFinal {
			return epFail(entry, "bulk", "other")
		}
	}
}

func (c *c10epEnv) http(data []byte) epResult {
	if !c09.ensureServer() {
		return epFail("build", "http", "skip")
	}
	resp, err := c09Client.Post(fmt.Sprintf("http://127.0.0.1:%d/build", c09.port), "application/json",
		bytes.NewReader(c.request("build", data, 0)))
	if err != nil {
		c09.serverDied()
		return epFail("build", "http", "panic")
	}
	defer resp.Body.Close() //nolint:errcheck
	body, _ := io.ReadAll(resp.Body)
	if resp.StatusCode == http.StatusOK {
		return epEnvelope("build", "http", body)
	}
	var e struct {
		Key string `json:"key"`
	}
	if json.Unmarshal(body, &e) == nil && e.Key != "" {
		return epFail("build", "http", e.Key)
	}
	return epFail("build", "http", "reject")
}

func init() {
	register("c10ep", func(args []V) []V {
		if len(args) < 5 || args[2].Kind != 'l' {
			return []V{VErr("badargs")}
		}
		c10ep.setup()
		m := newEnvMachine(args[1].Int())
		steps := make([]V, 0, len(args[2].L))
		for _, op := range args[2].L {
			r := m.apply(op)
			n, real := m.nsigs()
			steps = append(steps, VL(VS(r), VI(int64(n)), VI(int64(real))))
		}
		key, paths := args[3].Int(), args[4].Int()
		if key < 0 || int(key) >= len(envKeys) {
			key = 0
		}
		var data []byte
		merr := "ok"
		func() {
			defer func() {
				if recover() != nil {
					merr = "panic"
				}
			}()
			d, err := json.Marshal(m.env)
			if err != nil {
				merr = "marshal"
			}
			data = d
		}()
		res := []V{}
		perr := "-"
		if merr == "ok" {
			_, err := gobl.Parse(data)
			perr = envErrKey(err)
			var rs []epResult
			for _, entry := range []string{"build", "sign", "validate"} {
				if paths&1 != 0 {
					rs = append(rs, c10ep.cli(entry, data, key))
				}
				if paths&2 != 0 {
					rs = append(rs, c10ep.bulk(entry, data, key))
				}
				if paths&4 != 0 && entry == "build" {
					rs = append(rs, c10ep.http(data))
				}
			}
			for _, r := range rs {
				res = append(res, VL(VS(r.entry), VS(r.path), VS(r.outcome), VI(r.n), VI(r.real), VI(r.stamps), VS(r.revalidate)))
			}
		}
		return []V{VL(steps...), VS(merr), VS(perr), VL(res...)}
	})
}
