// Package c15docs builds the "full" synthetic documents of the C15 streams: one document of every bill kind
// (invoice, order, delivery, payment) for a regime and an ORDERED add-on list, with the optional parts the
// add-ons' normalizers work on filled in and NO extension supplied by hand - payment instructions / method
// and advances with a given payment means key, payment terms, delivery and ordering details, identities,
// inboxes, line and document charges and discounts.  A first calculation therefore runs every normalizer of
// every listed add-on, in list order, over freshly decoded (nil-extension) objects: the situation in which a
// value handed out by one add-on's table is written by the next one.
// Shared by the harness (c15equiv) and the race-detector stress (c15race).
package c15docs

import (
	"encoding/json"
	"sort"
	"strings"

	"github.com/invopop/gobl/pay"
	"github.com/invopop/gobl/tax"
)

// Kinds lists the document kinds in a fixed order.
var Kinds = []string{"invoice", "order", "payment", "delivery"}

// MeansKeys lists every payment means key the library defines (pay.MeansKeyDefinitions), sorted.
func MeansKeys() []string {
	var ks []string
	for _, d := range pay.MeansKeyDefinitions {
		if d != nil {
			ks = append(ks, d.Key.String())
		}
	}
	sort.Strings(ks)
	return ks
}

// Name is the workload name of a full document: it states everything Full needs.
func Name(kind, cc string, addons []string, means string) string {
	return "full:" + kind + ":" + cc + "+" + strings.Join(addons, "+") + ":means=" + means
}

func party(name, cc, code string) string {
	return `{"name":"` + name + `","tax_id":{"country":"` + cc + `","code":"` + code + `"},` +
		`"identities":[{"key":"gln","code":"4000001000005"}],` +
		`"inboxes":[{"key":"peppol","scheme":"0088","code":"4000001000005"}],` +
		`"addresses":[{"num":"1","street":"Main","locality":"X","region":"R","code":"28002","country":"` + cc + `"}],` +
		`"emails":[{"addr":"a@example.com"}]}`
}

func instructions(means string) string {
	s := `{"key":"` + means + `","detail":"d","ref":"REF1",` +
		`"credit_transfer":[{"iban":"ES0600190020961234567890","bic":"DEUTESBBXXX","name":"Bank"}],` +
		`"card":{"first6":"123456","last4":"1234","holder":"H"},` +
		`"direct_debit":{"ref":"M1","creditor":"C1","account":"ES0600190020961234567890"},` +
		`"online":[{"key":"k","label":"pay","url":"https://example.com/pay"}]}`
	return s
}

func paymentDetails(means string) string {
	return `{"terms":{"key":"due-date","due_dates":[{"date":"2024-07-13","percent":"100%"}],"notes":"n"},` +
		`"advances":[{"date":"2024-06-01","key":"` + means + `","description":"deposit","amount":"1.00"}],` +
		`"instructions":` + instructions(means) + `}`
}

func lines(regime *tax.RegimeDef) string {
	taxes := "[]"
	if len(regime.Categories) > 0 {
		c0 := regime.Categories[0]
		taxes = `[{"cat":"` + c0.Code.String() + `"`
		if len(c0.Rates) > 0 && len(c0.Rates[0].Values) > 0 {
			taxes += `,"rate":"` + c0.Rates[0].Key.String() + `"`
		} else {
			taxes += `,"percent":"10%"`
		}
		taxes += "}]"
	}
	return `[{"quantity":"2","item":{"name":"Thing","price":"10.00","unit":"h","identities":[{"key":"gtin","code":"0001"}]},` +
		`"discounts":[{"percent":"10%","reason":"r"}],"charges":[{"amount":"1.00","reason":"c"}],"taxes":` + taxes + `},` +
		`{"quantity":"1","item":{"name":"Other","price":"5.00"},"taxes":` + taxes + `}]`
}

func docCharges(regime *tax.RegimeDef) string {
	taxes := "[]"
	if len(regime.Categories) > 0 {
		taxes = `[{"cat":"` + regime.Categories[0].Code.String() + `","percent":"10%"}]`
	}
	return `"discounts":[{"amount":"1.00","reason":"dd","taxes":` + taxes + `}],"charges":[{"key":"delivery","amount":"2.00","reason":"dc","taxes":` + taxes + `}],`
}

// Full returns the document of the given kind.
func Full(kind string, regime *tax.RegimeDef, addons []string, means string) []byte {
	cc := regime.Country.String()
	cur := regime.Currency.String()
	ad, _ := json.Marshal(addons)
	head := `"$regime":"` + cc + `","$addons":` + string(ad) + `,"uuid":"0190a4c5-b8f0-7000-8000-000000000001","currency":"` + cur +
		`","issue_date":"2024-06-13","series":"T","code":"1",` +
		`"supplier":` + party("Supplier", cc, "B98602642") + `,"customer":` + party("Customer", cc, "54387763P") + `,`
	ordering := `"ordering":{"code":"PO1","period":{"start":"2024-06-01","end":"2024-06-30"},"contracts":[{"code":"C1"}],"purchases":[{"code":"P1"}]},`
	delivery := `"delivery":{"receiver":` + party("Receiver", cc, "54387763P") + `,"date":"2024-06-20","identities":[{"key":"gln","code":"4000001000005"}]},`
	notes := `"notes":[{"key":"general","text":"n"}]`
	var s string
	switch kind {
	case "order":
		s = `{"$schema":"https://gobl.org/draft-0/bill/order","type":"purchase",` + head +
			`"lines":` + lines(regime) + `,` + docCharges(regime) + `"payment":` + paymentDetails(means) + `,` + delivery + notes + `}`
	case "payment":
		s = `{"$schema":"https://gobl.org/draft-0/bill/payment","type":"receipt",` + head +
			`"method":` + instructions(means) + `,` + ordering +
			`"lines":[{"document":{"uuid":"0190d2a4-7c3a-7000-8a1c-3f1f6f2f1a02","series":"S","code":"001"},"debit":"180.00"}],` + notes + `}`
	case "delivery":
		s = `{"$schema":"https://gobl.org/draft-0/bill/delivery","type":"note",` + head + ordering +
			`"receiver":` + party("Receiver", cc, "54387763P") + `,"despatch_date":"2024-06-14",` +
			`"lines":` + lines(regime) + `,` + docCharges(regime) + notes + `}`
	default:
		s = `{"$schema":"https://gobl.org/draft-0/bill/invoice",` + head +
			`"lines":` + lines(regime) + `,` + docCharges(regime) + `"payment":` + paymentDetails(means) + `,` + ordering + delivery + notes + `}`
	}
	return []byte(s)
}
