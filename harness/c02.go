package main

// C02, carried tax summaries: a tax summary is not only produced from the rows of a document
// (totals.taxes); one that is CARRIED inside a document - preceding[].tax of invoices, orders and
// deliveries, lines[].document.tax of payments (merged into the payment's own tax), and the copy
// made by Invoice.Correct with copy_tax - is recalculated by the same code every time the document
// is calculated. These operations run whole documents of any type through the public entry points
// and hand the serialised result back as JSON text; tools/props/c02.py picks the carried summaries
// out of it and judges them with the clauses of the property.
//
//	c02 carry   <json document> <n>        Parse, Envelop (first calculation), n-1 further Envelope.Calculate -> ( ok <json> )
//	c02 correct <json invoice>  <type>     Parse, Envelop, Invoice.Correct(type, copy_tax, reason) on the calculated
//	                                        invoice (the summary keeps its unexported state) -> ( ok <json> )

import (
	"encoding/json"

	"github.com/invopop/gobl"
	"github.com/invopop/gobl/bill"
	"github.com/invopop/gobl/cbc"
)

func init() {
	register("c02", func(a []V) []V {
		switch a[0].Str() {
		case "carry":
			obj, err := gobl.Parse(a[1].S)
			if err != nil {
				return []V{VErr("parse")}
			}
			env, err := gobl.Envelop(obj)
			if err != nil {
				return []V{VErr("calc")}
			}
			for i := int64(1); i < a[2].Int(); i++ {
				if err := env.Calculate(); err != nil {
					return []V{VErr("recalc")}
				}
			}
			out, err := json.Marshal(env.Document)
			if err != nil {
				return []V{VErr("marshal")}
			}
			return []V{VS("ok"), V{Kind: 's', S: out}}
		case "correct":
			obj, err := gobl.Parse(a[1].S)
			if err != nil {
				return []V{VErr("parse")}
			}
			env, err := gobl.Envelop(obj)
			if err != nil {
				return []V{VErr("calc")}
			}
			inv, ok := env.Extract().(*bill.Invoice)
			if !ok {
				return []V{VErr("not-invoice")}
			}
			before, err := json.Marshal(inv)
			if err != nil {
				return []V{VErr("marshal")}
			}
			opt := func(o interface{}) { o.(*bill.CorrectionOptions).Type = cbc.Key(a[2].Str()) }
			if err := inv.Correct(opt, bill.WithCopyTax(), bill.WithReason("r")); err != nil {
				return []V{VErr("correct")}
			}
			out, err := json.Marshal(inv)
			if err != nil {
				return []V{VErr("marshal")}
			}
			return []V{VS("ok"), V{Kind: 's', S: out}, V{Kind: 's', S: before}}
		}
		return []V{VErr("unknown-c02-op")}
	})
}
