package main

// C18 - implementation side.
//
//   c18 refs x<document or envelope json>
//        gobl.Parse -> (calculate when possible) -> the REFERENCE VIEW of the typed document, found by
//        reflection over the Go structures (not over the JSON text), so that the model and the oracle
//        see exactly the codes, keys and rates the library sees:
//          ( x<state> ( view ) )       state: calculated | parsed-only (calculation failed) ; or ( err parse )
//        view = x<regime> ( x<addon> ... ) x<short schema> ( x<tag> ... )
//               ( ( x<path> x<cat> x<rate> x<country> ( ( x<key> x<value> ) ... ) ) ... )     every tax.Combo, and every
//                                                           other member that names a tax CATEGORY of the document's regime
//                                                           (bill.Tax.PricesInclude, `tax/prices_include`): a category
//                                                           reference without rate, country override or extensions
//               ( ( x<path> x<key> x<value> ) ... )         every other tax.Extensions map entry
//               ( ( x<path> x<code> ) ... )                 every currency.Code
//               ( ( x<path> x<kind> x<code> ) ... )         every country code; kind iso | tax | regime (a party's $regime) | combo (a combo's country)
//        paths are JSON member names and list indices joined by "/", relative to the document.
//   c18 validate x<json>
//        gobl.Parse -> Envelop / Calculate -> Validate:
//          ( xaccepted ) | ( xrejected x<error key> ( x<field path> ... ) ) | ( xcalc-error x<error key> )
//          | ( xparse-error ) ; a panic is caught by main.go: ( err panic ... )
//   c18 run x<json>       both at once (one parse, one calculation): ( verdict ... ) ( x<state> ( view ) )
//                         with the panic caught here: ( xpanic x<message> x<top repo frame> )
//   c18 calc x<json>      the calculated BARE document of an input (as `gobl build` would write its doc member):
//                         ( x<json> ) | ( err parse|calc )
//   c18 vrun x<json>      the READ-AND-VALIDATE flow (`gobl validate`, bulk/HTTP action "validate", gobl.Parse + Validate):
//                         gobl.Parse -> Validate with NO calculation before it; an envelope is validated as it is (digest
//                         included), a bare document through schema.Object.Validate.  Output as `c18 run`, the view being
//                         the view of the document AS READ: ( verdict ... ) ( xparsed ( view ) )
//   c18 match x<pattern> x<value>    regexp.Compile / MatchString as Extensions.Validate uses them: compiles(1/0) matches(1/0)
//   c18 tables            codes the linked library knows that are not in Gen/*.v:
//                         ( ( x<country code> iso tax ) ... ) ( x<currency code> ... )

import (
	"encoding/json"
	"fmt"
	"reflect"
	"regexp"
	"runtime/debug"
	"sort"
	"strconv"
	"strings"

	"github.com/invopop/gobl"
	"github.com/invopop/gobl/bill"
	"github.com/invopop/gobl/cbc"
	"github.com/invopop/gobl/currency"
	"github.com/invopop/gobl/l10n"
	"github.com/invopop/gobl/schema"
	"github.com/invopop/gobl/tax"
)

type c18View struct {
	regime, schema string
	addons, tags   []string
	combos         []V
	exts           []V
	currencies     []V
	countries      []V
}

var (
	c18TExt     = reflect.TypeOf(tax.Extensions{})
	c18TCombo   = reflect.TypeOf(tax.Combo{})
	c18TRegime  = reflect.TypeOf(tax.Regime{})
	c18TAddons  = reflect.TypeOf(tax.Addons{})
	c18TTags    = reflect.TypeOf(tax.Tags{})
	c18TCurr    = reflect.TypeOf(currency.Code(""))
	c18TISO     = reflect.TypeOf(l10n.ISOCountryCode(""))
	c18TTax     = reflect.TypeOf(l10n.TaxCountryCode(""))
	c18TObject  = reflect.TypeOf(schema.Object{})
	c18TBillTax = reflect.TypeOf(bill.Tax{})
	c18MaxDepth = 40
)

func c18Join(path, name string) string {
	if path == "" {
		return name
	}
	return path + "/" + name
}

func c18ExtPairs(e tax.Extensions) []V {
	keys := make([]string, 0, len(e))
	for k := range e {
		keys = append(keys, string(k))
	}
	sort.Strings(keys)
	out := make([]V, 0, len(keys))
	for _, k := range keys {
		out = append(out, VL(VS(k), VS(string(e[cbc.Key(k)]))))
	}
	return out
}

func (vw *c18View) walk(v reflect.Value, path string, depth int) {
	if depth > c18MaxDepth || !v.IsValid() {
		return
	}
	t := v.Type()
	switch t {
	case c18TExt:
		e := v.Interface().(tax.Extensions)
		for _, p := range c18ExtPairs(e) {
			vw.exts = append(vw.exts, VL(VS(path), p.L[0], p.L[1]))
		}
		return
	case c18TCombo:
		c := v.Interface().(tax.Combo)
		vw.combos = append(vw.combos, VL(VS(path), VS(string(c.Category)), VS(string(c.Rate)), VS(string(c.Country)), VL(c18ExtPairs(c.Ext)...)))
		if c.Country != "" {
			vw.countries = append(vw.countries, VL(VS(c18Join(path, "country")), VS("combo"), VS(string(c.Country))))
		}
		return
	case c18TRegime:
		r := v.Interface().(tax.Regime)
		if path == "" {
			vw.regime = string(r.Country)
		} else if r.Country != "" {
			vw.countries = append(vw.countries, VL(VS(c18Join(path, "$regime")), VS("regime"), VS(string(r.Country))))
		}
		return
	case c18TAddons:
		if path == "" {
			for _, k := range v.Interface().(tax.Addons).List {
				vw.addons = append(vw.addons, string(k))
			}
		}
		return
	case c18TTags:
		if path == "" {
			for _, k := range v.Interface().(tax.Tags).List {
				vw.tags = append(vw.tags, string(k))
			}
		}
		return
	case c18TCurr:
		if s := v.String(); s != "" {
			vw.currencies = append(vw.currencies, VL(VS(path), VS(s)))
		}
		return
	case c18TISO:
		if s := v.String(); s != "" {
			vw.countries = append(vw.countries, VL(VS(path), VS("iso"), VS(s)))
		}
		return
	case c18TTax:
		if s := v.String(); s != "" {
			vw.countries = append(vw.countries, VL(VS(path), VS("tax"), VS(s)))
		}
		return
	case c18TObject:
		if v.CanAddr() {
			if o, ok := v.Addr().Interface().(*schema.Object); ok && o != nil && !o.IsEmpty() {
				vw.walk(reflect.ValueOf(o.Instance()), path, depth+1)
			}
		}
		return
	}
	switch v.Kind() {
	case reflect.Ptr, reflect.Interface:
		if !v.IsNil() {
			vw.walk(v.Elem(), path, depth+1)
		}
	case reflect.Struct:
		if t == c18TBillTax {
			// `prices_include` names a tax category (cbc.Code): a category reference under the document's regime
			if pi := v.Interface().(bill.Tax).PricesInclude; pi != "" {
				vw.combos = append(vw.combos, VL(VS(c18Join(path, "prices_include")), VS(string(pi)), VS(""), VS(""), VL()))
			}
		}
		for i := 0; i < t.NumField(); i++ {
			f := t.Field(i)
			if f.PkgPath != "" && !f.Anonymous { // unexported
				continue
			}
			if !v.Field(i).CanInterface() {
				continue
			}
			name := strings.Split(f.Tag.Get("json"), ",")[0]
			if name == "-" {
				continue
			}
			if f.Anonymous && name == "" {
				vw.walk(v.Field(i), path, depth+1) // embedded: members are inlined
				continue
			}
			if name == "" {
				name = f.Name
			}
			vw.walk(v.Field(i), c18Join(path, name), depth+1)
		}
	case reflect.Slice, reflect.Array:
		if t.Elem().Kind() == reflect.Uint8 {
			return
		}
		for i := 0; i < v.Len(); i++ {
			vw.walk(v.Index(i), c18Join(path, strconv.Itoa(i)), depth+1)
		}
	case reflect.Map:
		if t.Key().Kind() != reflect.String {
			return
		}
		keys := v.MapKeys()
		sort.Slice(keys, func(i, j int) bool { return keys[i].String() < keys[j].String() })
		for _, k := range keys {
			vw.walk(v.MapIndex(k), c18Join(path, k.String()), depth+1)
		}
	}
}

func c18Strs(l []string) V {
	out := make([]V, len(l))
	for i, s := range l {
		out[i] = VS(s)
	}
	return VL(out...)
}

func c18ViewOf(doc any) V {
	vw := &c18View{}
	if doc != nil {
		vw.schema = strings.TrimPrefix(schema.Lookup(doc).String(), schema.GOBL.String()+"/")
		// the document itself is addressable through its pointer: walk the pointee
		vw.walk(reflect.ValueOf(doc), "", 0)
	}
	return VL(VS(vw.regime), c18Strs(vw.addons), VS(vw.schema), c18Strs(vw.tags),
		VL(vw.combos...), VL(vw.exts...), VL(vw.currencies...), VL(vw.countries...))
}

// c18ErrPaths flattens the field names of a validation error ("lines/0/taxes/0/rate").
func c18ErrPaths(err error) []V {
	b, e := json.Marshal(err)
	if e != nil {
		return nil
	}
	var o map[string]any
	if json.Unmarshal(b, &o) != nil {
		return nil
	}
	var out []V
	var rec func(p string, x any)
	rec = func(p string, x any) {
		if len(out) >= 12 {
			return
		}
		m, ok := x.(map[string]any)
		if !ok {
			out = append(out, VS(p))
			return
		}
		ks := make([]string, 0, len(m))
		for k := range m {
			ks = append(ks, k)
		}
		sort.Strings(ks)
		for _, k := range ks {
			rec(c18Join(p, k), m[k])
		}
	}
	if f, ok := o["fields"]; ok {
		rec("", f)
	}
	return out
}

func c18ErrKey(err error) string {
	if ge, ok := err.(*gobl.Error); ok {
		return ge.Key().String()
	}
	return "other"
}

// c18Process parses, calculates and validates; returns the verdict and the document the verdict is about.
func c18Process(data []byte, validate bool) (verdict V, state string, doc any) {
	obj, err := gobl.Parse(data)
	if err != nil {
		return VL(VS("parse-error")), "", nil
	}
	var env *gobl.Envelope
	if e, ok := obj.(*gobl.Envelope); ok {
		env = e
		doc = env.Extract()
		if err := env.Calculate(); err != nil {
			return VL(VS("calc-error"), VS(c18ErrKey(err))), "parsed-only", doc
		}
	} else {
		doc = obj
		env, err = gobl.Envelop(obj)
		if err != nil {
			return VL(VS("calc-error"), VS(c18ErrKey(err))), "parsed-only", doc
		}
	}
	doc = env.Extract()
	if !validate {
		return VL(), "calculated", doc
	}
	if err := env.Validate(); err != nil {
		return VL(VS("rejected"), VS(c18ErrKey(err)), VL(c18ErrPaths(err)...)), "calculated", doc
	}
	return VL(VS("accepted")), "calculated", doc
}

func c18Run(data []byte) (out []V) {
	defer func() {
		if r := recover(); r != nil {
			out = []V{VL(VS("panic"), VS(fmt.Sprint(r)), VS(topRepoFrame(string(debug.Stack())))), VL(VS(""), c18ViewOf(nil))}
		}
	}()
	verdict, state, doc := c18Process(data, true)
	return []V{verdict, VL(VS(state), c18ViewOf(doc))}
}

// c18ValidateOnly reads a document and validates it without calculating it first.
func c18ValidateOnly(data []byte) (out []V) {
	defer func() {
		if r := recover(); r != nil {
			out = []V{VL(VS("panic"), VS(fmt.Sprint(r)), VS(topRepoFrame(string(debug.Stack())))), VL(VS(""), c18ViewOf(nil))}
		}
	}()
	obj, err := gobl.Parse(data)
	if err != nil {
		return []V{VL(VS("parse-error")), VL(VS(""), c18ViewOf(nil))}
	}
	var doc any
	if env, ok := obj.(*gobl.Envelope); ok {
		doc = env.Extract()
		err = env.Validate()
	} else {
		o, ok := obj.(*schema.Object)
		if !ok {
			if o, err = schema.NewObject(obj); err != nil {
				return []V{VL(VS("parse-error")), VL(VS(""), c18ViewOf(nil))}
			}
		}
		doc = o.Instance()
		err = o.Validate()
	}
	if err != nil {
		return []V{VL(VS("rejected"), VS(c18ErrKey(err)), VL(c18ErrPaths(err)...)), VL(VS("parsed"), c18ViewOf(doc))}
	}
	return []V{VL(VS("accepted")), VL(VS("parsed"), c18ViewOf(doc))}
}

func init() {
	register("c18", func(a []V) []V {
		if len(a) < 1 {
			return []V{VErr("unknown-c18-op")}
		}
		switch a[0].Str() {
		case "refs":
			_, state, doc := c18Process(a[1].S, false)
			if doc == nil {
				return []V{VErr("parse")}
			}
			return []V{VL(VS(state), c18ViewOf(doc))}
		case "validate":
			verdict, _, _ := c18Process(a[1].S, true)
			return []V{verdict}
		case "run":
			return c18Run(a[1].S)
		case "vrun":
			return c18ValidateOnly(a[1].S)
		case "calc":
			_, state, doc := c18Process(a[1].S, false)
			if doc == nil {
				return []V{VErr("parse")}
			}
			if state != "calculated" {
				return []V{VErr("calc")}
			}
			o, err := schema.NewObject(doc)
			if err != nil {
				return []V{VErr("calc")}
			}
			b, err := json.Marshal(o)
			if err != nil {
				return []V{VErr("calc")}
			}
			return []V{VL(VS(string(b)))}
		case "raterule":
			// c18 raterule x<country> x<cat> x<key> -> 1/0: tax.RegimeDefFor(country).InCategoryRates(cat) applied to
			// the key alone (the rule Combo.ValidateWithContext puts on `rate`), without any calculation before it
			r := tax.RegimeDefFor(l10n.Code(a[1].Str()))
			err := r.InCategoryRates(cbc.Code(a[2].Str())).Validate(cbc.Key(a[3].Str()))
			return []V{VB(err == nil)}
		case "match":
			re, err := regexp.Compile(a[1].Str())
			if err != nil {
				return []V{VB(false), VB(false)}
			}
			return []V{VB(true), VB(re.MatchString(a[2].Str()))}
		case "tables":
			var cs []V
			for _, d := range l10n.Countries() {
				cs = append(cs, VL(VS(string(d.Code)), VB(d.ISO), VB(d.Tax)))
			}
			var cur []V
			for _, d := range currency.Definitions() {
				cur = append(cur, VS(string(d.ISOCode)))
			}
			return []V{VL(cs...), VL(cur...)}
		}
		return []V{VErr("unknown-c18-op")}
	})
}
