(* Driver for the extracted models: moves bytes only. One line in, one line out; all parsing,
   dispatch and printing is the extracted Gallina function Oracle_gen.run_line. *)
module G = Oracle_gen

let rec pos_of_int (i : int) : G.positive =
  if i = 1 then G.XH else if i land 1 = 0 then G.XO (pos_of_int (i lsr 1)) else G.XI (pos_of_int (i lsr 1))
let n_of_int (i : int) : G.n = if i = 0 then G.N0 else G.Npos (pos_of_int i)
let rec int_of_pos (p : G.positive) : int =
  match p with G.XH -> 1 | G.XO q -> 2 * int_of_pos q | G.XI q -> 2 * int_of_pos q + 1
let int_of_n (x : G.n) : int = match x with G.N0 -> 0 | G.Npos p -> int_of_pos p

let byte_tab : G.byte array =
  Array.init 256 (fun i -> match G.of_N (n_of_int i) with Some b -> b | None -> assert false)
let code_of_byte (b : G.byte) : int = int_of_n (G.to_N b)

let bytes_of_string (s : string) : G.byte list =
  let r = ref [] in
  for i = String.length s - 1 downto 0 do r := byte_tab.(Char.code s.[i]) :: !r done; !r

let string_of_bytes (l : G.byte list) : string =
  let b = Buffer.create 256 in
  List.iter (fun x -> Buffer.add_char b (Char.chr (code_of_byte x))) l; Buffer.contents b

let () =
  let ic = stdin and oc = stdout in
  (try
    while true do
      let line = input_line ic in
      let out = (try string_of_bytes (G.run_line (bytes_of_string line))
                 with Stack_overflow -> "( x657272 x737461636b )") in
      output_string oc out; output_char oc '\n'
    done
  with End_of_file -> ());
  flush oc
