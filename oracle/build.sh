#!/bin/sh
# Extract the models (coqc on rocq/Extract/Extract.v, run inside oracle/gen so the .ml lands there)
# and compile the driver natively. Requires the rocq project to be built first.
set -e
cd "$(dirname "$0")"
mkdir -p gen
cd gen
timeout 600 coqc -Q ../../rocq Verif ../../rocq/Extract/Extract.v >extract.log 2>&1 || { cat extract.log; exit 1; }
cp ../main.ml .
timeout 600 ocamlfind ocamlopt -O3 -w -a -package str oracle_gen.mli oracle_gen.ml main.ml -o ../../bin/oracle 2>build.log || \
timeout 600 ocamlfind ocamlopt -w -a oracle_gen.mli oracle_gen.ml main.ml -o ../../bin/oracle 2>build.log || { cat build.log; exit 1; }
