#!/usr/bin/env python3
"""Maintenance tool (never run by a check): records in corpus/c16_requirements.json which items (reason, each extension,
stamps) every regime / addon REQUIRES of a correction of each type, as observed on the tree under VERIF_REPO (/repo):
an item is required when leaving it out of an otherwise complete and accepted correction makes Correct or the validation
of its result refuse. The C16 check then insists that every recorded requirement is still enforced."""
import json, os, sys
sys.path.insert(0, os.path.join(os.path.dirname(os.path.abspath(__file__)), "lib"))
sys.path.insert(0, os.path.join(os.path.dirname(os.path.abspath(__file__)), "props"))
import vlib, c16
vlib.build_harness()
chk = vlib.Check("C16", "quick", 1)
srcs = c16.sources(chk, derived="all")
res = c16.requirement_verdicts(srcs)
out = {n: {t: {"full": e["full"], "required": sorted(e["required"])} for t, e in bt.items()} for n, bt in res.items()}
json.dump(out, open(c16.REQ_FILE, "w"), indent=1, sort_keys=True)
print(sum(len(e["required"]) for bt in out.values() for e in bt.values()), "requirements over", len(out), "sources;",
      sum(1 for bt in out.values() for e in bt.values() if not e["full"]), "type rows whose complete call is refused")
