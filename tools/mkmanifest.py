#!/usr/bin/env python3
"""Writes MANIFEST.json from the table below (kept in one place so it is always valid)."""
import json, os, sys
V = os.path.dirname(os.path.dirname(os.path.abspath(__file__)))

CHECKS = {
 "C09": dict(
   text="Theorems in Rocq (rocq/Props/C09.v, 10 statements, axiom-free, over a symbolic-signature model of head.Header.Contains, Envelope.Verify and internal/cli.Verify): sign-then-verify, stability under any list of non-overwriting additions (induction), wrong key fails, verify_sound with one conjunct per covered header member (uuid, digest, each stamp, link, tag, meta entry, notes) and its converse, verify-after-recalculation fails unless the digest collides, cli_verify ok <-> validate ok and verify ok for the repaired command-line path, no verification path panics; the as-shipped command-line path is refuted by a computed witness. The model is tied to the code by presenting ~600 modified signed envelopes x 4 keys (quick; thorough: all pairs and sampled triples of modifications) to Envelope.Verify, the gobl binary, POST /bulk and POST /verify of a loopback gobl serve, comparing verdict classes with the model and judging them against what the generator knows was signed.",
   note="Signatures are symbolic (Sig signer header): ES256 unforgeability and go-jose/encoding-json correctness are assumed, not proved. Model = repository code plus fixes/C09-9 and fixes/C10-10 diffs; until they are applied the two open defects (findings/C09.json) are reported as KNOWN-FINDING by narrow matchers, anything else - including the nil dereferences repaired by commit 3e1b1c1, whose witnesses stay in corpus/C09 - as VIOLATION. Bulk/HTTP/CLI share one Go function, the model has one verdict for them; YAML input, per-element validation of stamps/links and uuid version rules are outside the model.",
   technique="Rocq theorems over a Gallina model + differential correspondence (extracted OCaml vs Go library, CLI binary, loopback HTTP server)",
   design="7 (C09)"),
 "C10": dict(
   text="Theorems in Rocq (rocq/Props/C10.v, 16 statements, axiom-free) over a state-machine model of gobl.Envelope (32 operations incl. JSON surgery), for the shipped and the repaired code alike unless named otherwise: the outcome of every API operation is a table function of the abstract state (four facts of the statement + validity outside a signing context + document present/calculable) on every state reachable by API operations (induction over histories with fold_left), where shipped and repaired code coincide step by step; Sign succeeds only on valid envelopes with matching digest, every signature in any API history covers the digest of a document valid for signing, a failed Sign leaves the envelope unsigned, stamps validate only when signed, every signature entry is real (all histories without the sigs:[null]/[\"\"] surgery; for the repaired code every validated envelope, any history), Validate/Verify are read-only, nothing panics; the shipped code's open defect 10 is refuted by a computed witness. Tie: all 16^4 histories over the 16-operation alphabet on the main document, 16^3 on three other documents and the empty envelope (thorough: 16^5 complete and a seed-chosen sixteenth of 16^6; VERIF_C10_FULL6=1 for all of 16^6), random histories of length 7-30 over all 32 operations, each run step by step on the real library and the extracted model (outcome class and len(sigs)), and judged by the statement's clauses with independent bookkeeping.",
   note="The document is abstract (calculates / validates / has code / digest of content); four fixed invoices stand for it. Signatures symbolic (see C09). Model = repository code plus fixes/C10-10 diff; the open defect (findings/C10.json) is matched narrowly (surgery operation present and as-shipped variant of exactly that function reproduces the output); the nil dereferences repaired by commit 3e1b1c1 are under 'fixed', their witnesses stay in corpus/C10 and are a VIOLATION if they return. A failed Sign on an envelope without header keeps earlier signatures (state unreachable by API operations; stated as a theorem, not judged).",
   technique="Rocq theorems over a Gallina model + exhaustive/random differential correspondence (extracted OCaml vs Go)",
   design="7 (C10)"),
 "C05": dict(
   text="Theorems in Rocq (rocq/Props/C05.v, 19 statements, axiom-free) state every amount/percentage operation of the model Num/Amount.v as the exact rational rounded half away from zero at the documented precision, plus the lossless laws; the model is tied to num/*.go by running both on the same ~750k cases (exhaustive small grid, constructed ties, random up to 2^52) and any in-domain difference is reported as the failing input.",
   note="Trusted: Coq kernel, extraction (ExtrOcamlBasic), OCaml driver, Go harness, python comparison. Modelled not verified: float64 hardware path of Multiply/Divide/Rescale is covered by the correspondence inside the 2^52 domain; AmountFromFloat64/Float64/formatter not covered.",
   technique="Rocq theorems over a Gallina model + differential correspondence (extracted OCaml vs Go)",
   design="7 (C05)"),
}
NOT_APPLICABLE = []

def main():
    checks = []
    for cid in sorted(CHECKS):
        c = CHECKS[cid]
        checks.append({
            "property_id": cid,
            "quick_cmd": "tools/check %s quick" % cid,
            "thorough_cmd": "tools/check %s thorough" % cid,
            "evidence_file": "evidence/%s.json" % cid,
            "replay_cmd_template": "tools/check %s --replay {path}" % cid,
            "engine": "rocq-model-correspondence",
            "level_claimed": {"category": c.get("level", "proof"), "text": c["text"], "design_ref": "DESIGN.md section " + c["design"]},
            "level_note": c["note"],
            "technique": c["technique"],
        })
    m = {
        "version": 1,
        "setup_cmd": "tools/setup",
        "hooks": {
            "guard": "verif",
            "enable": "go build -tags verif (harness/ is a separate module with `replace github.com/invopop/gobl => /repo`; add-only //go:build verif files in /repo are listed in source_commits)",
            "baseline_off_cmd": "cd /repo && GOFLAGS=-mod=mod GOPROXY=off GOSUMDB=off GOTOOLCHAIN=local go test -vet=off -count=1 ./...",
            "source_commits": [],
            "add_only": True,
        },
        "engines": [{
            "name": "rocq-model-correspondence",
            "path": "tools/check",
            "serves_properties": sorted(CHECKS),
            "kind_free_text": "Rocq (Coq 8.16.1) theorems over executable Gallina models in rocq/, models extracted to OCaml (bin/oracle) and run against the Go implementation (harness/ -> bin/vharness, cmd/gobl) on generated cases; translator regenerates rocq/Gen from /repo",
        }],
        "checks": checks,
        "notes": "see DESIGN.md; KNOWN_FINDINGS.json lists recorded and fixed defects",
        "not_applicable": NOT_APPLICABLE,
    }
    json.dump(m, open(os.path.join(V, "MANIFEST.json"), "w"), indent=1)

if __name__ == "__main__":
    main()
