#!/usr/bin/env python3
"""Writes MANIFEST.json from the table below (kept in one place so it is always valid)."""
import json, os, sys
V = os.path.dirname(os.path.dirname(os.path.abspath(__file__)))

CHECKS = {
 "C05": dict(
   text="Theorems in Rocq (rocq/Props/C05.v, 34 statements) state every amount/percentage operation of the model Num/Amount.v as the exact rational rounded half away from zero at the documented precision, plus the lossless laws; a second, statement-by-statement model of the Go code (Num/AmountImpl.v: int64 wrap-around, IEEE binary64 by Flocq, math.Round, int64 conversion) is proved equal to it whenever operands and exact intermediates are below 2^52 and rescaling divisors at most 10^63 (Num/AmountExact.v; core lemma: a binary64 quotient with |numerator| < 2^52 never crosses a half). Both models are tied to num/*.go by running all three on the same cases (exhaustive small grid, constructed ties, random up to 2^52, ~750k; the implementation model on a 75k sample and on a boundary stream 2^52..2^63, MinInt64, zero divisors, exponents to 70); any in-domain difference is reported as the failing input.",
   note="Trusted: Coq kernel, the four classical axioms of Coq's Reals library (through Flocq), extraction (ExtrOcamlBasic), OCaml driver, Go harness, python comparison. Outside the domain Go's int64(NaN/Inf/out-of-range) is platform-defined and only counted. AmountFromFloat64/Float64/formatter not covered.",
   technique="Rocq theorems over a Gallina model + differential correspondence (extracted OCaml vs Go)",
   design="7 (C05)"),
}
NOT_APPLICABLE = []

def main():
    checks = []
    for cid in sorted(CHECKS):
        c = CHECKS[cid]
        checks.append({
            "property_id": cid,
            "quick_cmd": "tools/check %s quick" % cid,
            "thorough_cmd": "tools/check %s thorough" % cid,
            "evidence_file": "evidence/%s.json" % cid,
            "replay_cmd_template": "tools/check %s --replay {path}" % cid,
            "engine": "rocq-model-correspondence",
            "level_claimed": {"category": c.get("level", "proof"), "text": c["text"], "design_ref": "DESIGN.md section " + c["design"]},
            "level_note": c["note"],
            "technique": c["technique"],
        })
    m = {
        "version": 1,
        "setup_cmd": "tools/setup",
        "hooks": {
            "guard": "verif",
            "enable": "go build -tags verif (harness/ is a separate module with `replace github.com/invopop/gobl => /repo`; add-only //go:build verif files in /repo are listed in source_commits)",
            "baseline_off_cmd": "cd /repo && GOFLAGS=-mod=mod GOPROXY=off GOSUMDB=off GOTOOLCHAIN=local go test -vet=off -count=1 ./...",
            "source_commits": [],
            "add_only": True,
        },
        "engines": [{
            "name": "rocq-model-correspondence",
            "path": "tools/check",
            "serves_properties": sorted(CHECKS),
            "kind_free_text": "Rocq (Coq 8.16.1) theorems over executable Gallina models in rocq/, models extracted to OCaml (bin/oracle) and run against the Go implementation (harness/ -> bin/vharness, cmd/gobl) on generated cases; translator regenerates rocq/Gen from /repo",
        }],
        "checks": checks,
        "notes": "see DESIGN.md; KNOWN_FINDINGS.json lists recorded and fixed defects",
        "not_applicable": NOT_APPLICABLE,
    }
    json.dump(m, open(os.path.join(V, "MANIFEST.json"), "w"), indent=1)

if __name__ == "__main__":
    main()
