#!/usr/bin/env python3
"""Writes MANIFEST.json from the table below (kept in one place so it is always valid)."""
import json, os, sys
V = os.path.dirname(os.path.dirname(os.path.abspath(__file__)))

CHECKS = {
 "C05": dict(
   text="Theorems in Rocq (rocq/Props/C05.v, 19 statements, axiom-free) state every amount/percentage operation of the model Num/Amount.v as the exact rational rounded half away from zero at the documented precision, plus the lossless laws; the model is tied to num/*.go by running both on the same ~750k cases (exhaustive small grid, constructed ties, random up to 2^52) and any in-domain difference is reported as the failing input.",
   note="Trusted: Coq kernel, extraction (ExtrOcamlBasic), OCaml driver, Go harness, python comparison. Modelled not verified: float64 hardware path of Multiply/Divide/Rescale is covered by the correspondence inside the 2^52 domain; AmountFromFloat64/Float64/formatter not covered.",
   technique="Rocq theorems over a Gallina model + differential correspondence (extracted OCaml vs Go)",
   design="7 (C05)"),
}

CALC_NOTE = ("Trusted: Coq kernel, extraction, OCaml driver, Go harness, python generator/comparison and the independent python reading of the calculation. "
             "Modelled not verified: rate-key resolution (C12), regime/addon normalisers, float64 path of num (C05).")
CHECKS.update({
 "C01": dict(
   text="The calculation (bill/calculator.go, line_calculate.go, discounts/charges, totals, payment details, tax totals calculator) is transcribed as the Gallina model Calc/Calc.v over the exact arithmetic of C05; theorems in Props/C01.v; the model is tied to the code by running Go (Parse -> Envelop -> JSON), the extracted model and an independent exact python reading on the same generated invoices and comparing every line figure, total and tax group; a figure where Go deviates from both is reported with the minimised document.",
   note=CALC_NOTE, technique="Rocq theorems over a Gallina calculation model + three-way differential correspondence", design="7 (C01)"),
 "C02": dict(
   text="Tax grouping/summing model (Calc/Calc.v: rt_matches, add_to_cats, ct_calc, sum_step) with theorems in Props/C02.v; tie as C01 with a combo-focused generator; oracle P checks partition, group amounts, category sums, signed tax total and the included-tax gross identity directly on Go's presented figures.",
   note=CALC_NOTE, technique="Rocq theorems over the tax-totals model + differential correspondence + direct clause oracle", design="7 (C02)"),
 "C03": dict(
   text="Re-addition identities under the currency rule: theorems over Calc/Calc.v in Props/C03.v; oracle P needs no model: every identity of the statement is recomputed from the figures Go presents (currency rule explicit or by EL default); calculation tied to the model as in C01.",
   note=CALC_NOTE, technique="Rocq theorems + output-identity oracle on Go results + differential correspondence", design="7 (C03)"),
 "C04": dict(
   text="Fixpoint of calculation and losslessness: the model's re-input function (Calc/Symmetry.v as_input) and its refutation witness in Props/C04.v; breadth by iteration of the implementation over all 165 example files and generated invoices/payments (3 rounds serialise/parse/calculate with byte comparison, parse->marshal identity, read-only ops, two processes with GOMAXPROCS 1/16); recalculation figures compared with the model. Partial: breadth over all schemas/regimes is sampling of the implementation, map-order nondeterminism cannot be exhibited by the model.",
   note=CALC_NOTE, technique="Rocq model of re-input + refutation witness; iteration of the implementation with byte comparison", design="7 (C04)"),
 "C17": dict(
   text="Negation/permutation/tax-removal model (Calc/Symmetry.v: neg_doc, invert, remove_included_taxes) with theorems in Props/C17.v; relational harness runs Go on d, Invert(d), Invert twice, row permutations and RemoveIncludedTaxes and compares with the model and Go's outputs pairwise.",
   note=CALC_NOTE, technique="Rocq theorems over the symmetry model + relational differential harness", design="7 (C17)"),
 "C20": dict(
   text="tax.Total Negate/Merge/Calculate and bill.Payment as the Gallina model Calc/Merge.v with theorems in Props/C20.v; Go vs extracted model on generated and real (calculated-invoice) summaries incl. operand immutability; oracle P recomputes component-wise sums with exact fractions.",
   note=CALC_NOTE, technique="Rocq theorems over the merge model + differential correspondence + fraction oracle", design="7 (C20)"),
})

NOT_APPLICABLE = []

def main():
    checks = []
    for cid in sorted(CHECKS):
        c = CHECKS[cid]
        checks.append({
            "property_id": cid,
            "quick_cmd": "tools/check %s quick" % cid,
            "thorough_cmd": "tools/check %s thorough" % cid,
            "evidence_file": "evidence/%s.json" % cid,
            "replay_cmd_template": "tools/check %s --replay {path}" % cid,
            "engine": "rocq-model-correspondence",
            "level_claimed": {"category": c.get("level", "proof"), "text": c["text"], "design_ref": "DESIGN.md section " + c["design"]},
            "level_note": c["note"],
            "technique": c["technique"],
        })
    m = {
        "version": 1,
        "setup_cmd": "tools/setup",
        "hooks": {
            "guard": "verif",
            "enable": "go build -tags verif (harness/ is a separate module with `replace github.com/invopop/gobl => /repo`; add-only //go:build verif files in /repo are listed in source_commits)",
            "baseline_off_cmd": "cd /repo && GOFLAGS=-mod=mod GOPROXY=off GOSUMDB=off GOTOOLCHAIN=local go test -vet=off -count=1 ./...",
            "source_commits": [],
            "add_only": True,
        },
        "engines": [{
            "name": "rocq-model-correspondence",
            "path": "tools/check",
            "serves_properties": sorted(CHECKS),
            "kind_free_text": "Rocq (Coq 8.16.1) theorems over executable Gallina models in rocq/, models extracted to OCaml (bin/oracle) and run against the Go implementation (harness/ -> bin/vharness, cmd/gobl) on generated cases; translator regenerates rocq/Gen from /repo",
        }],
        "checks": checks,
        "notes": "see DESIGN.md; KNOWN_FINDINGS.json lists recorded and fixed defects",
        "not_applicable": NOT_APPLICABLE,
    }
    json.dump(m, open(os.path.join(V, "MANIFEST.json"), "w"), indent=1)

if __name__ == "__main__":
    main()
