#!/usr/bin/env python3
"""Writes MANIFEST.json from the table below (kept in one place so it is always valid)."""
import json, os, sys
V = os.path.dirname(os.path.dirname(os.path.abspath(__file__)))

CHECKS = {
 "C05": dict(
   text="Theorems in Rocq (rocq/Props/C05.v, 19 statements, axiom-free) state every amount/percentage operation of the model Num/Amount.v as the exact rational rounded half away from zero at the documented precision, plus the lossless laws; the model is tied to num/*.go by running both on the same ~750k cases (exhaustive small grid, constructed ties, random up to 2^52) and any in-domain difference is reported as the failing input.",
   note="Trusted: Coq kernel, extraction (ExtrOcamlBasic), OCaml driver, Go harness, python comparison. Modelled not verified: float64 hardware path of Multiply/Divide/Rescale is covered by the correspondence inside the 2^52 domain; AmountFromFloat64/Float64/formatter not covered.",
   technique="Rocq theorems over a Gallina model + differential correspondence (extracted OCaml vs Go)",
   design="7 (C05)"),
 "C11": dict(
   text="Theorems in Rocq (rocq/Props/C11.v, 17 statements, axiom-free): the derivative regex matcher decides the denoted language; the fuelled JSON-Schema validator (draft 2020-12 subset the shipped schemas use: $ref/$defs/$id, type, properties, patternProperties, additionalProperties, required, items, oneOf, anyOf, allOf, const, enum, pattern, format date/uuid, minLength, maxLength) is sound and complete for the relational specification conforms/violates; over the files under data/schemas as regenerated on every run (Gen/Schemas.v, Gen/SchemasJson.v): every keyword has the type the meta-schema requires except the recorded finding (bill/delivery.json enum), every $ref resolves to a shipped definition, every $id is the file path, every pattern is in the modelled regex subset, the translated schemas carry exactly the raw files' patterns and references, and the key/code rules of the schema are literally cbc.KeyPattern/cbc.CodePattern and their length limits. Document-level conformance (Go accepted => schema accepts) for all valid documents is established by sweep, not theorem (partial): every example output, generated invoices and field-level mutations of the examples run through gobl.Parse -> Envelop/Calculate -> Validate; every accepted serialisation is validated against its published schema by the extracted validator and by python jsonschema over the same files; the two validators are also compared on rejected documents, and the shipped patterns on generated strings against python re and Go regexp.",
   note="Trusted: Coq kernel incl. vm_compute, extraction, OCaml driver, translator harness/gen_schemas.go (JSON text -> terms, ECMA-subset regex parser; cross-checked), python jsonschema 4.26 with FormatChecker (date, uuid checked; uri annotation) as independent reading, Go harness. Partial: conformance of all valid documents is a sweep (quick ~3k documents, thorough ~200k), it would need a model of every Validate method. Divergences stated: python rejects year 0000 (RFC 3339 allows it) - not compared; $ is end of text (ECMA/Go), strings ending in a newline are not generated. Recorded findings: findings/C11.json (delivery enum, MX tax codes, $regime unchecked, unvalidated Code/Key fields, null list elements, nil rates slice).",
   technique="Rocq theorems over a Gallina model of JSON Schema validation + generated-data theorems (vm_compute of proved-sound checkers) + differential sweep (extracted OCaml validator vs python jsonschema vs Go acceptance)",
   design="7 (C11)"),
}
NOT_APPLICABLE = []

def main():
    checks = []
    for cid in sorted(CHECKS):
        c = CHECKS[cid]
        checks.append({
            "property_id": cid,
            "quick_cmd": "tools/check %s quick" % cid,
            "thorough_cmd": "tools/check %s thorough" % cid,
            "evidence_file": "evidence/%s.json" % cid,
            "replay_cmd_template": "tools/check %s --replay {path}" % cid,
            "engine": "rocq-model-correspondence",
            "level_claimed": {"category": c.get("level", "proof"), "text": c["text"], "design_ref": "DESIGN.md section " + c["design"]},
            "level_note": c["note"],
            "technique": c["technique"],
        })
    m = {
        "version": 1,
        "setup_cmd": "tools/setup",
        "hooks": {
            "guard": "verif",
            "enable": "go build -tags verif (harness/ is a separate module with `replace github.com/invopop/gobl => /repo`; add-only //go:build verif files in /repo are listed in source_commits)",
            "baseline_off_cmd": "cd /repo && GOFLAGS=-mod=mod GOPROXY=off GOSUMDB=off GOTOOLCHAIN=local go test -vet=off -count=1 ./...",
            "source_commits": [],
            "add_only": True,
        },
        "engines": [{
            "name": "rocq-model-correspondence",
            "path": "tools/check",
            "serves_properties": sorted(CHECKS),
            "kind_free_text": "Rocq (Coq 8.16.1) theorems over executable Gallina models in rocq/, models extracted to OCaml (bin/oracle) and run against the Go implementation (harness/ -> bin/vharness, cmd/gobl) on generated cases; translator regenerates rocq/Gen from /repo",
        }],
        "checks": checks,
        "notes": "see DESIGN.md; KNOWN_FINDINGS.json lists recorded and fixed defects",
        "not_applicable": NOT_APPLICABLE,
    }
    json.dump(m, open(os.path.join(V, "MANIFEST.json"), "w"), indent=1)

if __name__ == "__main__":
    main()
