#!/usr/bin/env python3
"""Writes MANIFEST.json from the table below (kept in one place so it is always valid)."""
import json, os, sys
V = os.path.dirname(os.path.dirname(os.path.abspath(__file__)))

CHECKS = {
 "C05": dict(
   text="Theorems in Rocq (rocq/Props/C05.v, 19 statements, axiom-free) state every amount/percentage operation of the model Num/Amount.v as the exact rational rounded half away from zero at the documented precision, plus the lossless laws; the model is tied to num/*.go by running both on the same ~750k cases (exhaustive small grid, constructed ties, random up to 2^52) and any in-domain difference is reported as the failing input.",
   note="Trusted: Coq kernel, extraction (ExtrOcamlBasic), OCaml driver, Go harness, python comparison. Modelled not verified: float64 hardware path of Multiply/Divide/Rescale is covered by the correspondence inside the 2^52 domain; AmountFromFloat64/Float64/formatter not covered.",
   technique="Rocq theorems over a Gallina model + differential correspondence (extracted OCaml vs Go)",
   design="7 (C05)"),
  "C07": dict(
   text="Theorems in Rocq (rocq/Props/C07.v, axiom-free) about canon = c14n.CanonicalJSON as modelled in rocq/Json/C14n.v AFTER the proposed patches fixes/C07-*.diff: canon t = print (norm (parse t)); texts whose values have equal norm (member order at any depth, whitespace, escape style, null members) have equal canonical forms; Object.Sort is a stable sort independent of the order of differently named members; norm idempotent, drops exactly the null members, keeps array elements; print followed by parse gives back the value minus null members (strings: for every byte string encodeString accepts; integers: all int64; floats: under the stated premise that strconv reads back the shortest text it wrote - a computable premise, floats_okb, which the check evaluates on every generated text holding a float), hence canon (canon t) = canon t and different content never shares a canonical form; members of every printed object are in byte order; escapes are exactly the README table (proved over the safeSet table regenerated from c14n/tables.go); canon accepts only what the strict reader parses as one complete value and never panics on any input (bracket-matching invariant of the token machine); member names are strictly increasing when the input repeats none. What the unfixed tree does is stated as seven _refuted theorems with vm_compute witnesses ({,\"b\":1}; -.01.5E0; panic on empty input and {\"a\":; [1,2 / 1 2 / {\"a\":1}} / 01 accepted; 1e400 -> null; invalid UTF-8 in the name of a null member accepted; U+FFFD rejected) that the check replays on the Go implementation. The model is tied to c14n/*.go by running Go and the extracted model on ~108k texts per quick run (every sampled Unicode scalar value and every ASCII control as one-character string and key - all 1.1M in the thorough tier -, 8k ordered key pairs, int64 boundaries, a decimal x exponent grid of either sign and half-way decimals, random values nested to depth 6 in 3 concrete syntaxes each, truncation at every byte / trailing data / corruption / bad escapes / invalid UTF-8), and an independent oracle P (python json + the README rules) judges Go's output itself: valid UTF-8 JSON, re-parses to the normalised content, idempotent under a second pass, names in code point order, no null members, number and escape shapes, equal across the 3 syntaxes, error on anything that is not one complete value.",
   note="Trusted: Coq kernel, extraction (ExtrOcamlBasic), OCaml driver, Go harness, python oracle P. Modelled, not verified: encoding/json's tokenizer and strconv (ParseInt/ParseFloat/AppendFloat) are exact-integer Gallina stand-ins validated differentially (0 differences on 300k fuzz cases incl. half-way decimals and subnormals); the float round trip is a premise of the round-trip theorems (discharged for float-free values). Not proved: code-point order = byte order of UTF-8 (compared on 8k ordered key pairs per run), the float text shape as a theorem about the AppendFloat stand-in. The unchanged /repo violates C07 in six recorded ways (findings/C07.json, narrow matchers; five have patches in fixes/, the U+FFFD rejection has none): the check reports them as KNOWN-FINDING and anything else as VIOLATION; it detects which patches a tree has by replaying the witnesses and compares Go with the model configured accordingly.",
   technique="Rocq theorems over a Gallina model of the token handlers and printers + differential correspondence (extracted OCaml vs Go) + independent specification oracle",
   design="7 (C07)"),
}
NOT_APPLICABLE = []

def main():
    checks = []
    for cid in sorted(CHECKS):
        c = CHECKS[cid]
        checks.append({
            "property_id": cid,
            "quick_cmd": "tools/check %s quick" % cid,
            "thorough_cmd": "tools/check %s thorough" % cid,
            "evidence_file": "evidence/%s.json" % cid,
            "replay_cmd_template": "tools/check %s --replay {path}" % cid,
            "engine": "rocq-model-correspondence",
            "level_claimed": {"category": c.get("level", "proof"), "text": c["text"], "design_ref": "DESIGN.md section " + c["design"]},
            "level_note": c["note"],
            "technique": c["technique"],
        })
    m = {
        "version": 1,
        "setup_cmd": "tools/setup",
        "hooks": {
            "guard": "verif",
            "enable": "go build -tags verif (harness/ is a separate module with `replace github.com/invopop/gobl => /repo`; add-only //go:build verif files in /repo are listed in source_commits)",
            "baseline_off_cmd": "cd /repo && GOFLAGS=-mod=mod GOPROXY=off GOSUMDB=off GOTOOLCHAIN=local go test -vet=off -count=1 ./...",
            "source_commits": [],
            "add_only": True,
        },
        "engines": [{
            "name": "rocq-model-correspondence",
            "path": "tools/check",
            "serves_properties": sorted(CHECKS),
            "kind_free_text": "Rocq (Coq 8.16.1) theorems over executable Gallina models in rocq/, models extracted to OCaml (bin/oracle) and run against the Go implementation (harness/ -> bin/vharness, cmd/gobl) on generated cases; translator regenerates rocq/Gen from /repo",
        }],
        "checks": checks,
        "notes": "see DESIGN.md; KNOWN_FINDINGS.json lists recorded and fixed defects",
        "not_applicable": NOT_APPLICABLE,
    }
    json.dump(m, open(os.path.join(V, "MANIFEST.json"), "w"), indent=1)

if __name__ == "__main__":
    main()
