#!/usr/bin/env python3
"""Writes MANIFEST.json from the table below (kept in one place so it is always valid)."""
import json, os, sys
V = os.path.dirname(os.path.dirname(os.path.abspath(__file__)))

CHECKS = {
 "C05": dict(
   text="Theorems in Rocq (rocq/Props/C05.v, 19 statements, axiom-free) state every amount/percentage operation of the model Num/Amount.v as the exact rational rounded half away from zero at the documented precision, plus the lossless laws; the model is tied to num/*.go by running both on the same ~750k cases (exhaustive small grid, constructed ties, random up to 2^52) and any in-domain difference is reported as the failing input.",
   note="Trusted: Coq kernel, extraction (ExtrOcamlBasic), OCaml driver, Go harness, python comparison. Modelled not verified: float64 hardware path of Multiply/Divide/Rescale is covered by the correspondence inside the 2^52 domain; AmountFromFloat64/Float64/formatter not covered.",
   technique="Rocq theorems over a Gallina model + differential correspondence (extracted OCaml vs Go)",
   design="7 (C05)"),
 "C14": dict(
   text="Proof for the modelled cores only (partial): rocq/Props/C14.v states, over nil/bounds-aware Gallina transcriptions (result = Ok | Err | Panic) of removePreviousScenarioNotes, calculateLineItemPrice (+ currency.Convert), head.Header validation and errors.go wrapError / Envelope.Verify, that the code AS SHIPPED panics or returns an unstructured error (four refutations with witnesses) and that the repaired cores never panic on any input, agree with the shipped code wherever that does not panic, and that every error reaching the envelope API carries one of the nine documented keys. The rest of the library is covered by a structure-aware mutation sweep (every single-member mutation of all example documents + seeded random inputs through parse/calculate/validate/digest/sign/verify/correct/replicate in 16 watchdog-guarded worker processes), which is a search, not a proof: a panic, hang or abort found there is directly the failing input.",
   note="Partial: panic-freedom is proved for four modelled cores; Go runtime behaviour (hangs, memory exhaustion) and all other functions are only searched by the sweep. The header-validation core is tied to head.Header.Validate by running both on generated headers with nil entries. Known panic sites of the unchanged tree are listed per site in findings/C14.json with narrow matchers (stage, top /repo frame function, mutation kind, member class); witnesses are kept in corpus/C14; proposed nil-guard patches in fixes/C14-*.diff. Trusted: Coq kernel, extraction, OCaml driver, harness/c14.go (mutation enumeration, recover, frame extraction), python orchestration.",
   technique="Rocq theorems over nil/bounds-aware Gallina cores + correspondence on the header core + structure-aware mutation sweep under recover/watchdog/ulimit",
   design="7 (C14)"),
 "C15": dict(
   text="Proof for the modelled cores only (partial): rocq/Props/C15.v proves, for a labelled transition system of cli.Bulk (reader, one worker per request, wait group, FIFO output, decode-error variant), that for every request list of any length and EVERY complete execution the output is a permutation of exactly one reply per request (own req_id, seq_id = position, body = f request) followed by exactly one final marker with seq_id = n+1, and that the decidable acceptance predicate the harness evaluates is exactly 'some schedule produces this output' (both directions); over a heap model of Go slices it proves that the tag/scenario/correction set builders never write a pre-existing registry cell, including spare capacity, once TagSet.Merge copies - and refutes it for the code as shipped. Ties: a deterministic deep snapshot of every registry structure (slices read up to capacity) before/after ~400 workloads (all examples + every regime x addon), whose changed cells must be exactly those the extracted shipped model predicts; generated JSON-lines streams POSTed to `gobl serve` /bulk and judged by the extracted acceptance predicate with payloads compared to the standalone CLI. Go's memory model, scheduler and all code outside the modelled helpers are covered only by the snapshot sweep and a race-detector stress run, which are search, not proof.",
   note="Partial: race-freedom in the sense of the Go memory model is not provable in an executable Gallina model; the race detector is sampling (GOMAXPROCS 1,2,4,16, injected Gosched, per-goroutine bytes compared with the sequential result). Payload equality is checked through SHA-1 digests of canonical JSON; for sign/correct/replicate freshly generated members (signature bytes, new uuids, digest over them) are projected away. Capacity growth in the slice model is max(needed, 2*cap) (no size classes). Known finding: TagSet.Merge appends into the shared regime tag array (findings/C15.json). Trusted: Coq kernel, extraction, OCaml driver, harness/c15.go (reflection walker), harness/c15race, python orchestration, the CLI binary as the 'standalone operation'.",
   technique="Rocq theorems over a transition system and a slice heap model + snapshot/stream correspondence (extracted OCaml predicate vs cmd/gobl) + race-detector stress",
   design="7 (C15)"),
}
NOT_APPLICABLE = []

def main():
    checks = []
    for cid in sorted(CHECKS):
        c = CHECKS[cid]
        checks.append({
            "property_id": cid,
            "quick_cmd": "tools/check %s quick" % cid,
            "thorough_cmd": "tools/check %s thorough" % cid,
            "evidence_file": "evidence/%s.json" % cid,
            "replay_cmd_template": "tools/check %s --replay {path}" % cid,
            "engine": "rocq-model-correspondence",
            "level_claimed": {"category": c.get("level", "proof"), "text": c["text"], "design_ref": "DESIGN.md section " + c["design"]},
            "level_note": c["note"],
            "technique": c["technique"],
        })
    m = {
        "version": 1,
        "setup_cmd": "tools/setup",
        "hooks": {
            "guard": "verif",
            "enable": "go build -tags verif (harness/ is a separate module with `replace github.com/invopop/gobl => /repo`; add-only //go:build verif files in /repo are listed in source_commits)",
            "baseline_off_cmd": "cd /repo && GOFLAGS=-mod=mod GOPROXY=off GOSUMDB=off GOTOOLCHAIN=local go test -vet=off -count=1 ./...",
            "source_commits": [],
            "add_only": True,
        },
        "engines": [{
            "name": "rocq-model-correspondence",
            "path": "tools/check",
            "serves_properties": sorted(CHECKS),
            "kind_free_text": "Rocq (Coq 8.16.1) theorems over executable Gallina models in rocq/, models extracted to OCaml (bin/oracle) and run against the Go implementation (harness/ -> bin/vharness, cmd/gobl) on generated cases; translator regenerates rocq/Gen from /repo",
        }],
        "checks": checks,
        "notes": "see DESIGN.md; KNOWN_FINDINGS.json lists recorded and fixed defects",
        "not_applicable": NOT_APPLICABLE,
    }
    json.dump(m, open(os.path.join(V, "MANIFEST.json"), "w"), indent=1)

if __name__ == "__main__":
    main()
