#!/usr/bin/env python3
"""Writes MANIFEST.json from the table below (kept in one place so it is always valid)."""
import json, os, sys
V = os.path.dirname(os.path.dirname(os.path.abspath(__file__)))

CHECKS = {
 "C05": dict(
   text="Theorems in Rocq (rocq/Props/C05.v, 19 statements, axiom-free) state every amount/percentage operation of the model Num/Amount.v as the exact rational rounded half away from zero at the documented precision, plus the lossless laws; the model is tied to num/*.go by running both on the same ~750k cases (exhaustive small grid, constructed ties, random up to 2^52) and any in-domain difference is reported as the failing input.",
   note="Trusted: Coq kernel, extraction (ExtrOcamlBasic), OCaml driver, Go harness, python comparison. Modelled not verified: float64 hardware path of Multiply/Divide/Rescale is covered by the correspondence inside the 2^52 domain; AmountFromFloat64/Float64/formatter not covered.",
   technique="Rocq theorems over a Gallina model + differential correspondence (extracted OCaml vs Go)",
   design="7 (C05)"),
 "C06": dict(
   text="Theorems in Rocq (rocq/Props/C06.v, 35 statements, axiom-free, for ALL strings / all int64 amounts with 0-18 decimals) about the model Num/Codec.v of num/amount.go and num/percentage.go: the repaired reader accepts exactly the members of the published pattern whose value is an int64 with at most 18 decimals and reads them as the exact value with exponent = fraction length (parse_accepts_iff_pattern, parse_rejects_everything_else, parse_never_misreads, JSON variants through unquote), every amount prints as a pattern member and reads back identically (print_matches_pattern, parse_print_roundtrip, also proved of the shipped code for every value except math.MinInt64), percentages re-read to the same value with a stable text, and the exact language of the percentage reader; the defects of the shipped code are *_refuted theorems with computed witnesses. The published patterns are regenerated from JSONSchema() and data/schemas/num/*.json on every run and pinned by reflexivity lemmas. The model is tied to the Go code by running both on ~255k strings (pattern members, every single insertion/deletion/substitution of 14 symbols, digit strings around k*2^63, random bytes, JSON tokens) through UnmarshalText, UnmarshalJSON bare and quoted and a struct field via encoding/json, and on 100k amounts through String/MarshalText/json.Marshal/MinimalString and back; Go's outputs are also judged directly by an independent Python reading of the property.",
   note="Until fixes/C06-1-strict-amount-parse.diff is applied the correspondence runs against the model of the code AS SHIPPED and the three defect classes it repairs are KNOWN findings with narrow matchers (findings/C06.json); moving those entries to 'fixed' switches the correspondence to the repaired model. Known findings by design: percentage text without % / empty, the text null, JSON escapes, percentages beyond 2^52 (float64). Trusted: Coq kernel, extraction, OCaml driver, Go harness, Python judge. Modelled not verified: fmt %d/%0*d and strconv.ParseInt (tied by the correspondence), float64 path of percentages (exact in the model, C05's 2^52 guard), encoding/json tokenizer (struct-field route judged by the Python oracle only).",
   technique="Rocq theorems over a Gallina model + differential correspondence (extracted OCaml vs Go) + independent oracle on the implementation's outputs",
   design="7 (C06)"),
}
NOT_APPLICABLE = []

def main():
    checks = []
    for cid in sorted(CHECKS):
        c = CHECKS[cid]
        checks.append({
            "property_id": cid,
            "quick_cmd": "tools/check %s quick" % cid,
            "thorough_cmd": "tools/check %s thorough" % cid,
            "evidence_file": "evidence/%s.json" % cid,
            "replay_cmd_template": "tools/check %s --replay {path}" % cid,
            "engine": "rocq-model-correspondence",
            "level_claimed": {"category": c.get("level", "proof"), "text": c["text"], "design_ref": "DESIGN.md section " + c["design"]},
            "level_note": c["note"],
            "technique": c["technique"],
        })
    m = {
        "version": 1,
        "setup_cmd": "tools/setup",
        "hooks": {
            "guard": "verif",
            "enable": "go build -tags verif (harness/ is a separate module with `replace github.com/invopop/gobl => /repo`; add-only //go:build verif files in /repo are listed in source_commits)",
            "baseline_off_cmd": "cd /repo && GOFLAGS=-mod=mod GOPROXY=off GOSUMDB=off GOTOOLCHAIN=local go test -vet=off -count=1 ./...",
            "source_commits": [],
            "add_only": True,
        },
        "engines": [{
            "name": "rocq-model-correspondence",
            "path": "tools/check",
            "serves_properties": sorted(CHECKS),
            "kind_free_text": "Rocq (Coq 8.16.1) theorems over executable Gallina models in rocq/, models extracted to OCaml (bin/oracle) and run against the Go implementation (harness/ -> bin/vharness, cmd/gobl) on generated cases; translator regenerates rocq/Gen from /repo",
        }],
        "checks": checks,
        "notes": "see DESIGN.md; KNOWN_FINDINGS.json lists recorded and fixed defects",
        "not_applicable": NOT_APPLICABLE,
    }
    json.dump(m, open(os.path.join(V, "MANIFEST.json"), "w"), indent=1)

if __name__ == "__main__":
    main()
